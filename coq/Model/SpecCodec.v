(* Model/SpecCodec.v — the generic field-driven codec of bumble/hci.py
   (HCI_Object.parse_field / serialize_field / dict_and_offset_from_bytes /
   dict_to_bytes), as executable Gallina.  No proofs here (see Proofs/SpecCodec.v).

   Reading of the Python code that this file follows
   -------------------------------------------------
   * A parser position is Python's (data, offset).  The model keeps the remaining bytes
     [bs = data[offset:]] (empty when offset >= len(data), exactly like a Python slice)
     and [prev = data[offset-1]], which the only context-sensitive parser
     (Address.parse_address_preceded_by_type) reads.  Every field parser returns the
     value and the number of bytes it DECLARES consumed; the code then does
     [offset += size] without looking at len(data).  Several parsers are lenient on short
     input because they slice ([data[offset:offset+n]]): fixed byte arrays, the body of a
     'v' field, enum type_spec parsers (int.from_bytes of a short slice), '*'.  The model
     reproduces that (a short value, the full declared size), it does not repair it.
   * Exceptions (IndexError, struct.error, OverflowError, ValueError,
     InvalidArgumentError, TypeError, KeyError) are all the result [None].
   * Values: Python ints (and enum members, compared as ints) are [VInt]; bytes are
     [VBytes]; an Address is [VAddr address_type address_bytes]; an object with fields
     (CodingFormat, a nested HCI_Dataclass_Object) is [VList] of its field values in
     declaration order; an array group is [VList rows], each row a [VList] of the item's
     sub-field values (Python keeps the transposed form: one list per sub-field name;
     the harness transposes, nothing else).

   The codec is built in layers with two combinators, so that the round-trip theorem is
   proved once per combinator:
     A_codec            atomic specs [aspec]
     field_codec c      [One s] | [Arr ss]  (array group: 1-byte count, then items)
     seq_codec c        a list of specs against a [VList] of values
     N_codec            [Atom a] | [Nested fs]  (fs : fields of a nested dataclass object)
     Top_codec          = seq_codec (field_codec N_codec): a class's field list. *)
From Coq Require Import ZArith List Bool.
From BV Require Import Base.Bytes.
Import ListNotations.
Open Scope Z_scope.

Inductive value :=
| VInt (z : Z)
| VBytes (b : list Z)
| VAddr (ty : Z) (b : list Z)
| VList (vs : list value).

(* A codec: a type of specs with serialiser, parser, and the boolean predicates the
   theorems are stated with:
     inr s prev v  value v is in range for spec s when the byte before it is prev
     wf s          the spec is one the Python code handles (widths it has cases for)
     tight s       serialisation is self-delimiting: parse consumes exactly what
                   serialise wrote, whatever follows
     strict s      the parser rejects input shorter than what it declares consumed *)
Record codec := Codec {
  spec : Type;
  ser : spec -> value -> option (list Z);
  par : spec -> Z -> list Z -> option (value * nat);
  inr : spec -> Z -> value -> bool;
  wf : spec -> bool;
  tight : spec -> bool;
  strict : spec -> bool
}.

(* ------------------------------------------------------------------ atomic specs *)
Inductive endian := LE | BE.
Inductive addr_kind := APublic | ARandom.

Inductive aspec :=
| UInt (n : nat)                (* 1 2 3 4, {'size': 1..4}: unsigned little endian *)
| SInt (n : nat)                (* -1 -2: signed little endian *)
| UIntBE (n : nat)              (* '>2' '>4': unsigned big endian *)
| FixedBytes (n : nat)            (* 5..256, {'size': n}: fixed byte array *)
| FixedBytesPad (n : nat)         (* {'size': n, 'serializer': padded_bytes(x, n)} *)
| VarLen                     (* 'v': 1-byte length, then bytes *)
| Rest                       (* '*': the rest of the data *)
| Enum (n : nat) (e : endian)  (* SpecableEnum/SpecableFlag.type_spec(n, byteorder) *)
| Addr (k : addr_kind)       (* Address.parse_address / parse_random_address *)
| AddrAfterType              (* Address.parse_address_preceded_by_type *)
| LenPrefixedPadded (p : nat)  (* parse_length_prefixed_bytes / serialize_…(padded_size=p) *)
| CodingFmt.                 (* CodingFormat.parse_from_bytes, struct '<BHH' *)

Definition kind_type (k : addr_kind) : Z := match k with APublic => 0 | ARandom => 1 end.

Definition decode_e (e : endian) (bs : list Z) : Z :=
  match e with LE => le_decode bs | BE => be_decode bs end.
Definition encode_e (e : endian) (n : nat) (v : Z) : list Z :=
  match e with LE => le_encode n v | BE => be_encode n v end.

Definition ser_a (s : aspec) (v : value) : option (list Z) :=
  match s, v with
  | UInt n, VInt z =>
      if Nat.eqb n 3
      then (* struct.pack('<I', v)[0:3]: accepts 32 bits, keeps 24 *)
        if u_range 4 z then Some (firstn 3 (le_encode 4 z)) else None
      else if u_range n z then Some (le_encode n z) else None
  | SInt n, VInt z => if s_range n z then Some (les_encode n z) else None
  | UIntBE n, VInt z => if u_range n z then Some (be_encode n z) else None
  | FixedBytes n, VBytes b => Some (firstn n b ++ zeros (n - length b))   (* pad or truncate *)
  | FixedBytesPad n, VBytes b => Some (b ++ zeros (n - length b))         (* pad only *)
  | VarLen, VBytes b =>
      if (length b <? 256)%nat then Some (Z.of_nat (length b) :: b) else None
  | Rest, VBytes b => Some b
  | Rest, VInt z => if u_range 1 z then Some [z] else None            (* int given to '*' *)
  | Enum n e, VInt z => if u_range n z then Some (encode_e e n z) else None
  | Addr _, VAddr _ b => Some b
  | AddrAfterType, VAddr _ b => Some b
  | LenPrefixedPadded p, VBytes b =>
      if (length b <? 256)%nat
      then Some (Z.of_nat (length b) :: b ++ zeros (p - (1 + length b)))
      else None
  | CodingFmt, VList [VInt a; VInt b; VInt c] =>
      if u_range 1 a && u_range 2 b && u_range 2 c
      then Some (le_encode 1 a ++ le_encode 2 b ++ le_encode 2 c) else None
  | _, _ => None
  end.

Definition par_a (s : aspec) (prev : Z) (bs : list Z) : option (value * nat) :=
  match s with
  | UInt n => if (n <=? length bs)%nat then Some (VInt (le_decode (firstn n bs)), n) else None
  | SInt n => if (n <=? length bs)%nat then Some (VInt (les_decode (firstn n bs)), n) else None
  | UIntBE n => if (n <=? length bs)%nat then Some (VInt (be_decode (firstn n bs)), n) else None
  | FixedBytes n | FixedBytesPad n => Some (VBytes (firstn n bs), n)
  | VarLen | LenPrefixedPadded _ =>
      match bs with
      | [] => None
      | l :: r => Some (VBytes (firstn (Z.to_nat l) r), S (Z.to_nat l))
      end
  | Rest => Some (VBytes bs, length bs)
  | Enum n e => Some (VInt (decode_e e (firstn n bs)), n)
  | Addr k =>
      if (6 <=? length bs)%nat then Some (VAddr (kind_type k) (firstn 6 bs), 6%nat) else None
  | AddrAfterType =>
      if (6 <=? length bs)%nat then Some (VAddr prev (firstn 6 bs), 6%nat) else None
  | CodingFmt =>
      if (5 <=? length bs)%nat
      then Some (VList [VInt (le_decode (firstn 1 bs));
                        VInt (le_decode (firstn 2 (skipn 1 bs)));
                        VInt (le_decode (firstn 2 (skipn 3 bs)))], 5%nat)
      else None
  end.

(* the contract a caller must meet for the value to come back unchanged *)
Definition inr_a (s : aspec) (prev : Z) (v : value) : bool :=
  match s, v with
  | UInt n, VInt z => u_range n z
  | SInt n, VInt z => s_range n z
  | UIntBE n, VInt z => u_range n z
  | FixedBytes n, VBytes b => Nat.eqb (length b) n && bytes_ok b
  | FixedBytesPad n, VBytes b => Nat.eqb (length b) n && bytes_ok b
  | VarLen, VBytes b => (length b <? 256)%nat && bytes_ok b
  | Rest, VBytes b => bytes_ok b
  | Enum n _, VInt z => u_range n z
  | Addr k, VAddr ty b => Z.eqb ty (kind_type k) && Nat.eqb (length b) 6 && bytes_ok b
  | AddrAfterType, VAddr ty b => Z.eqb ty prev && Nat.eqb (length b) 6 && bytes_ok b
  | LenPrefixedPadded _, VBytes b => (length b <? 256)%nat && bytes_ok b
  | CodingFmt, VList [VInt a; VInt b; VInt c] => u_range 1 a && u_range 2 b && u_range 2 c
  | _, _ => false
  end.

Definition wf_a (s : aspec) : bool :=
  match s with
  | UInt n => (1 <=? n)%nat && (n <=? 4)%nat
  | SInt n => (1 <=? n)%nat && (n <=? 2)%nat
  | UIntBE n => Nat.eqb n 2 || Nat.eqb n 4
  | FixedBytes n | FixedBytesPad n => (5 <=? n)%nat && (n <=? 256)%nat
  | Enum n _ => (1 <=? n)%nat
  | LenPrefixedPadded p => (p <=? 256)%nat
  | _ => true
  end.

Definition tight_a (s : aspec) : bool :=
  match s with
  | Rest => false
  | LenPrefixedPadded _ => false
  | _ => true
  end.

Definition strict_a (s : aspec) : bool :=
  match s with
  | UInt _ | SInt _ | UIntBE _ | Addr _ | AddrAfterType | CodingFmt | Rest => true
  | _ => false
  end.

Definition A_codec : codec :=
  {| spec := aspec; ser := ser_a; par := par_a; inr := inr_a;
     wf := wf_a; tight := tight_a; strict := strict_a |}.

(* ------------------------------------------------------------------ sequences *)
(* Python: offset += size.  The byte before the new offset. *)
Definition adv_prev (n : nat) (prev : Z) (bs : list Z) : Z := last (firstn n bs) prev.

Section Seq.
  Variable c : codec.

  Fixpoint ser_seq (ss : list (spec c)) (vs : list value) : option (list Z) :=
    match ss, vs with
    | [], [] => Some []
    | s :: ss', v :: vs' =>
        match ser c s v with
        | Some a => match ser_seq ss' vs' with Some b => Some (a ++ b) | None => None end
        | None => None
        end
    | _, _ => None
    end.

  Fixpoint par_seq (ss : list (spec c)) (prev : Z) (bs : list Z) : option (list value * nat) :=
    match ss with
    | [] => Some ([], 0%nat)
    | s :: ss' =>
        match par c s prev bs with
        | None => None
        | Some (v, n) =>
            match par_seq ss' (adv_prev n prev bs) (skipn n bs) with
            | None => None
            | Some (vs, m) => Some (v :: vs, (n + m)%nat)
            end
        end
    end.

  (* in range, threading the byte that precedes each field *)
  Fixpoint inr_seq (ss : list (spec c)) (prev : Z) (vs : list value) : bool :=
    match ss, vs with
    | [], [] => true
    | s :: ss', v :: vs' =>
        inr c s prev v &&
        match ser c s v with
        | Some b => inr_seq ss' (last b prev) vs'
        | None => false
        end
    | _, _ => false
    end.

  (* every element self-delimiting: the sequence is, too *)
  Definition tight_seq (ss : list (spec c)) : bool :=
    forallb (fun s => wf c s && tight c s) ss.

  (* a non-self-delimiting element ('*', padded) only in last position *)
  Fixpoint wf_seq (ss : list (spec c)) : bool :=
    match ss with
    | [] => true
    | s :: ss' =>
        match ss' with
        | [] => wf c s
        | _ => wf c s && tight c s && wf_seq ss'
        end
    end.

  Definition strict_seq (ss : list (spec c)) : bool := forallb (strict c) ss.

  Definition seq_codec : codec :=
    {| spec := list (spec c);
       ser := fun ss v => match v with VList vs => ser_seq ss vs | _ => None end;
       par := fun ss prev bs =>
                match par_seq ss prev bs with
                | Some (vs, n) => Some (VList vs, n)
                | None => None
                end;
       inr := fun ss prev v => match v with VList vs => inr_seq ss prev vs | _ => false end;
       wf := wf_seq;
       tight := tight_seq;
       strict := strict_seq |}.
End Seq.

(* ------------------------------------------------------------------ fields *)
Inductive gfield (A : Type) :=
| One (s : A)             (* (name, spec) *)
| Arr (ss : list A).      (* [(name, spec), …]: array group, 1-byte item count first *)
Arguments One {A} s.
Arguments Arr {A} ss.

Section Field.
  Variable c : codec.
  Let rowc : codec := seq_codec c.          (* one array item *)

  Definition ser_field (f : gfield (spec c)) (v : value) : option (list Z) :=
    match f with
    | One s => ser c s v
    | Arr ss =>
        match v with
        | VList rows =>
            if (length rows <? 256)%nat          (* bytes([item_count]) *)
            then match ser_seq rowc (repeat ss (length rows)) rows with
                 | Some b => Some (Z.of_nat (length rows) :: b)
                 | None => None
                 end
            else None
        | _ => None
        end
    end.

  Definition par_field (f : gfield (spec c)) (prev : Z) (bs : list Z) : option (value * nat) :=
    match f with
    | One s => par c s prev bs
    | Arr ss =>
        match bs with
        | [] => None                                (* data[offset]: IndexError *)
        | cnt :: r =>
            match par_seq rowc (repeat ss (Z.to_nat cnt)) cnt r with
            | Some (rows, n) => Some (VList rows, S n)
            | None => None
            end
        end
    end.

  Definition inr_field (f : gfield (spec c)) (prev : Z) (v : value) : bool :=
    match f with
    | One s => inr c s prev v
    | Arr ss =>
        match v with
        | VList rows =>
            (length rows <? 256)%nat &&
            inr_seq rowc (repeat ss (length rows)) (Z.of_nat (length rows)) rows
        | _ => false
        end
    end.

  Definition wf_field (f : gfield (spec c)) : bool :=
    match f with
    | One s => wf c s
    | Arr ss => match ss with [] => false | _ => tight_seq c ss end
    end.

  Definition tight_field (f : gfield (spec c)) : bool :=
    match f with One s => tight c s | Arr _ => true end.

  Definition strict_field (f : gfield (spec c)) : bool :=
    match f with One s => strict c s | Arr ss => strict_seq c ss end.

  Definition field_codec : codec :=
    {| spec := gfield (spec c); ser := ser_field; par := par_field; inr := inr_field;
       wf := wf_field; tight := tight_field; strict := strict_field |}.
End Field.

(* ------------------------------------------------------------------ nested objects *)
Definition afield := gfield aspec.
Definition Obj_codec : codec := seq_codec (field_codec A_codec).   (* a nested object's fields *)

Inductive fspec :=
| Atom (a : aspec)
| Nested (fs : list afield).   (* HCI_Dataclass_Object subclass .parse_from_bytes *)

Definition N_codec : codec :=
  {| spec := fspec;
     ser := fun s v => match s with Atom a => ser_a a v | Nested fs => ser Obj_codec fs v end;
     par := fun s prev bs =>
              match s with Atom a => par_a a prev bs | Nested fs => par Obj_codec fs prev bs end;
     inr := fun s prev v =>
              match s with Atom a => inr_a a prev v | Nested fs => inr Obj_codec fs prev v end;
     wf := fun s => match s with Atom a => wf_a a | Nested fs => tight Obj_codec fs end;
     tight := fun s => match s with Atom a => tight_a a | Nested fs => tight Obj_codec fs end;
     strict := fun s => match s with Atom a => strict_a a | Nested fs => strict Obj_codec fs end |}.

Definition field := gfield fspec.
Definition F_codec : codec := field_codec N_codec.
Definition Top_codec : codec := seq_codec F_codec.

(* the class-level functions (dict_to_bytes / dict_and_offset_from_bytes on cls.fields) *)
Definition serialize_fields (fs : list field) (vs : list value) : option (list Z) :=
  ser Top_codec fs (VList vs).

(* prev0 = data[offset-1] at the start (the sub-event code for LE meta events, which are
   parsed at offset 1; irrelevant for well-formed classes parsed at offset 0) *)
Definition parse_fields (fs : list field) (prev0 : Z) (bs : list Z) : option (list value * nat) :=
  par_seq F_codec fs prev0 bs.

Definition in_range (fs : list field) (prev0 : Z) (vs : list value) : bool :=
  inr_seq F_codec fs prev0 vs.

Definition wf_fields (fs : list field) : bool := wf Top_codec fs.
Definition tight_fields (fs : list field) : bool := tight Top_codec fs.
Definition strict_fields (fs : list field) : bool := strict Top_codec fs.

(* shorthands for generated registries *)
Definition F1 (a : aspec) : field := One (Atom a).
Definition FA (ss : list aspec) : field := Arr (map Atom ss).
