(* Model/CodecsL2cap.v — hand-written codecs of bumble/l2cap.py (property C18):
   - InformationEnhancedControlField / SupervisoryEnhancedControlField
     (__bytes__, from_bytes, EnhancedControlField.from_bytes dispatch), with the
     supervisory poll bit at bit 4 as after fixes/D18a.patch;
   - L2CAP_PDU basic header (from_bytes / to_bytes without FCS);
   - L2CAP_Connection_Request.parse_psm / serialize_psm;
   - L2CAP_Control_Frame.decode_configuration_options / encode_configuration_options
     (through the generic TLV loop below, which also models
     avdtp.ServiceCapabilities.parse_capabilities);
   - the signalling frame header (<BBH code, identifier, length).
   A Python exception (IndexError on short input, ValueError from bytes([..])) is [None]. *)
From Coq Require Import ZArith List Bool.
From BV Require Import Base.Bytes Model.CodecsBase.
Import ListNotations.
Open Scope Z_scope.

(* ---------------------------------------------------------------- ERTM control fields *)
Record iframe := { i_tx_seq : Z; i_sar : Z; i_req_seq : Z; i_final : Z }.
Record sframe := { s_function : Z; s_poll : Z; s_req_seq : Z; s_final : Z }.
Inductive ecf := IFrame (f : iframe) | SFrame (f : sframe).

Definition iframe_bytes (f : iframe) : list Z :=
  [ Z.lor (Z.lor 0 (Z.shiftl (i_tx_seq f) 1)) (Z.shiftl (i_final f) 7);
    Z.lor (i_req_seq f) (Z.shiftl (i_sar f) 6) ].

(* frame_type | (supervision_function << 2) | poll << 4 | (final << 7) *)
Definition sframe_bytes (f : sframe) : list Z :=
  [ Z.lor (Z.lor (Z.lor 1 (Z.shiftl (s_function f) 2)) (Z.shiftl (s_poll f) 4))
          (Z.shiftl (s_final f) 7);
    s_req_seq f ].

(* the code before fixes/D18a.patch: poll << 7 *)
Definition sframe_bytes_unfixed (f : sframe) : list Z :=
  [ Z.lor (Z.lor (Z.lor 1 (Z.shiftl (s_function f) 2)) (Z.shiftl (s_poll f) 7))
          (Z.shiftl (s_final f) 7);
    s_req_seq f ].

Definition ecf_bytes (c : ecf) : list Z :=
  match c with IFrame f => iframe_bytes f | SFrame f => sframe_bytes f end.

Definition iframe_parse (b0 b1 : Z) : iframe :=
  {| i_tx_seq := Z.land (Z.shiftr b0 1) 63;
     i_final := Z.land (Z.shiftr b0 7) 1;
     i_req_seq := Z.land b1 63;
     i_sar := Z.land (Z.shiftr b1 6) 3 |}.

Definition sframe_parse (b0 b1 : Z) : sframe :=
  {| s_function := Z.land (Z.shiftr b0 2) 3;
     s_poll := Z.land (Z.shiftr b0 4) 1;
     s_final := Z.land (Z.shiftr b0 7) 1;
     s_req_seq := Z.land b1 127 |}.

(* EnhancedControlField.from_bytes: data[0] & 1 selects the class; data[1] is read by
   both (IndexError on fewer than two bytes) *)
Definition ecf_parse (d : list Z) : option ecf :=
  match d with
  | b0 :: b1 :: _ =>
      if Z.land b0 1 =? 0 then Some (IFrame (iframe_parse b0 b1))
      else Some (SFrame (sframe_parse b0 b1))
  | _ => None
  end.

(* value ranges under which bytes([...]) does not raise and no bit overlaps *)
Definition iframe_ok (f : iframe) : bool :=
  zlt 64 (i_tx_seq f) && zlt 4 (i_sar f) && zlt 64 (i_req_seq f) && zlt 2 (i_final f).
Definition sframe_ok (f : sframe) : bool :=
  zlt 4 (s_function f) && zlt 2 (s_poll f) && zlt 128 (s_req_seq f) && zlt 2 (s_final f).
Definition ecf_ok (c : ecf) : bool :=
  match c with IFrame f => iframe_ok f | SFrame f => sframe_ok f end.

(* received control field whose reserved bits are zero (S-frame: bits 1, 5, 6 of the
   first octet and bit 7 of the second; I-frame: none) *)
Definition ecf_reserved_zero (b0 b1 : Z) : bool :=
  if Z.land b0 1 =? 0 then true
  else (Z.land b0 98 =? 0) && (Z.land b1 128 =? 0).

Definition iframe_eqb (a b : iframe) : bool :=
  (i_tx_seq a =? i_tx_seq b) && (i_sar a =? i_sar b) && (i_req_seq a =? i_req_seq b)
  && (i_final a =? i_final b).
Definition sframe_eqb (a b : sframe) : bool :=
  (s_function a =? s_function b) && (s_poll a =? s_poll b) && (s_req_seq a =? s_req_seq b)
  && (s_final a =? s_final b).

(* observable form used by the correspondence harness *)
Definition ecf_obs (c : ecf) : list Z :=
  match c with
  | IFrame f => [0; i_tx_seq f; i_sar f; i_req_seq f; i_final f]
  | SFrame f => [1; s_function f; s_poll f; s_req_seq f; s_final f]
  end.
Definition ecf_parse_obs (d : list Z) : option (list Z) := option_map ecf_obs (ecf_parse d).

(* ---------------------------------------------------------------- basic L2CAP PDU *)
(* to_bytes(with_fcs=False): struct.pack('<HH', len(payload), cid) + payload;
   struct.error (None) unless both fit 16 bits *)
Definition pdu_bytes (cid : Z) (payload : list Z) : option (list Z) :=
  if u_range 2 (lenZ payload) && u_range 2 cid
  then Some (le_encode 2 (lenZ payload) ++ le_encode 2 cid ++ payload)
  else None.

(* from_bytes: < 4 bytes is an error; payload = data[4 : 4 + length] (short data is
   silently accepted by the slice) *)
Definition pdu_parse (d : list Z) : option (Z * list Z) :=
  match d with
  | l0 :: l1 :: c0 :: c1 :: r =>
      Some (le_decode [c0; c1], firstn (Z.to_nat (le_decode [l0; l1])) r)
  | _ => None
  end.

(* ---------------------------------------------------------------- PSM *)
(* serialize_psm: struct.pack('<H', psm & 0xFFFF), then the remaining octets least
   significant first while non-zero.  [fuel] bounds the while loop. *)
Fixpoint psm_tail (fuel : nat) (v : Z) : list Z :=
  match fuel with
  | O => []
  | S k => if v =? 0 then [] else Z.land v 255 :: psm_tail k (Z.shiftr v 8)
  end.
Definition psm_fuel (v : Z) : nat := S (Z.to_nat (Z.log2 v)).
Definition psm_bytes (v : Z) : list Z :=
  le_encode 2 (Z.land v 65535) ++ psm_tail (psm_fuel v) (Z.shiftr v 16).

(* parse_psm: two octets, then while the last octet read is odd read one more
   (IndexError when the data ends) *)
Fixpoint psm_more (prev : Z) (d : list Z) : option (list Z * list Z) :=
  if Z.odd prev then
    match d with
    | [] => None
    | b :: r => match psm_more b r with
                | Some (e, rest) => Some (b :: e, rest)
                | None => None
                end
    end
  else Some ([], d).
Definition psm_parse (d : list Z) : option (Z * list Z) :=
  match d with
  | b0 :: b1 :: r =>
      match psm_more b1 r with
      | Some (e, rest) => Some (le_decode (b0 :: b1 :: e), rest)
      | None => None
      end
  | _ => None
  end.

(* a PSM the encoding can carry: every octet above the first has its least
   significant bit set except the most significant one (Vol 3 Part A 4.2); stated on
   the octets of the value *)
Fixpoint psm_octets_ok (bs : list Z) : bool :=
  match bs with
  | [] => false
  | [b] => Z.even b
  | b :: r => Z.odd b && psm_octets_ok r
  end.
Definition psm_ok (v : Z) : bool :=
  (0 <=? v) && psm_octets_ok (tl (psm_bytes v)).
(* received octets in canonical form: the most significant octet is not a padding zero *)
Definition psm_canonical (bs : list Z) : bool :=
  (length bs <=? 2)%nat || negb (last bs 0 =? 0).

(* ---------------------------------------------------------------- TLV loops *)
(* [type; length; value...] records.
   lenient = decode_configuration_options: `while len(data) >= 2`, a trailing single
   octet is ignored, a short value is silently accepted;
   strict = avdtp parse_capabilities: `while offset < len(payload)`, payload[offset+1]
   raises IndexError when only one octet is left. *)
Fixpoint tlv_decode (fuel : nat) (strict : bool) (d : list Z) : option (list (Z * list Z)) :=
  match fuel with
  | O => None   (* out of fuel; excluded by tlv_decode_all (Proofs: tlv_fuel_enough) *)
  | S k =>
      match d with
      | [] => Some []
      | [_] => if strict then None else Some []
      | t :: l :: r =>
          match tlv_decode k strict (skipn (Z.to_nat l) r) with
          | Some rest => Some ((t, firstn (Z.to_nat l) r) :: rest)
          | None => None
          end
      end
  end.
Definition tlv_decode_all (strict : bool) (d : list Z) := tlv_decode (S (length d)) strict d.

(* b''.join(bytes([t, len(v)]) + v ...): ValueError (None) when t or len(v) > 255 *)
Fixpoint tlv_encode (opts : list (Z * list Z)) : option (list Z) :=
  match opts with
  | [] => Some []
  | (t, v) :: r =>
      if byte_ok t && byte_ok (lenZ v) then
        match tlv_encode r with
        | Some rb => Some (t :: lenZ v :: v ++ rb)
        | None => None
        end
      else None
  end.

Definition tlv_item_ok (o : Z * list Z) : bool :=
  byte_ok (fst o) && byte_ok (lenZ (snd o)) && bytes_ok (snd o).
Definition tlv_ok (opts : list (Z * list Z)) : bool := forallb tlv_item_ok opts.

(* received TLV bytes that are exactly a sequence of complete records *)
Fixpoint tlv_exact (fuel : nat) (d : list Z) : bool :=
  match fuel with
  | O => false
  | S k =>
      match d with
      | [] => true
      | [_] => false
      | _ :: l :: r => (Z.to_nat l <=? length r)%nat && tlv_exact k (skipn (Z.to_nat l) r)
      end
  end.
Definition tlv_exact_all (d : list Z) := tlv_exact (S (length d)) d.

(* ---------------------------------------------------------------- signalling frame header *)
(* L2CAP_Control_Frame.__bytes__: struct.pack('<BBH', code, identifier, len(payload)) + payload *)
Definition sig_bytes (code ident : Z) (payload : list Z) : option (list Z) :=
  if u_range 1 code && u_range 1 ident && u_range 2 (lenZ payload)
  then Some (code :: ident :: le_encode 2 (lenZ payload) ++ payload) else None.
(* from_bytes: struct.unpack_from('<BBH') needs 4 bytes; payload = pdu[4:]; the length
   field is only compared in a log message *)
Definition sig_parse (d : list Z) : option (Z * Z * Z * list Z) :=
  match d with
  | c :: i :: l0 :: l1 :: r => Some (c, i, le_decode [l0; l1], r)
  | _ => None
  end.
