(* Model of bumble/host.py DataPacketQueue (enqueue / flush / _check_queue /
   on_packets_completed) as executable Gallina.  No proofs here.

   Reading of the code (host.py):
     - _packets is a deque; enqueue does appendleft, _check_queue pops from the
       right: FIFO.  The model keeps the waiting list oldest-first.
     - _connection_state is a defaultdict: an entry appears the first time a packet
       of that handle is SENT (not when it is enqueued), and is removed by flush.
     - on_packets_completed ignores unknown handles, clamps the count to the
       connection's in-flight count and releases exactly that many credits globally
       (this is the code after the fix D04c recorded in known_findings.json; before
       it the global counter was clamped independently and could go negative after
       an over-report followed by a flush).
     - flush discards waiting packets of the handle, releases the in-flight ones,
       and (after fix D04a) runs _check_queue.
   A packet is an opaque identifier (Z); the handle is a Z. *)
From Coq Require Import ZArith List Bool.
Import ListNotations.
Open Scope Z_scope.

Record conn := mkConn { c_handle : Z; c_inflight : Z; c_drained : bool }.

Record qstate := mkQ {
  q_max : Z;                 (* max_in_flight *)
  q_inflight : Z;            (* _in_flight *)
  q_conns : list conn;       (* _connection_state, at most one entry per handle *)
  q_wait : list (Z * Z);     (* _packets, oldest first: (packet, handle) *)
  q_queued : Z;              (* _queued *)
  q_completed : Z            (* _completed *)
}.

Inductive qop :=
| Enqueue (p h : Z)
| Flush (h : Z)
| Completed (n h : Z).

Definition q_init (maxf : Z) : qstate := mkQ maxf 0 [] [] 0 0.

Fixpoint find_conn (h : Z) (cs : list conn) : option conn :=
  match cs with
  | [] => None
  | c :: cs' => if Z.eqb (c_handle c) h then Some c else find_conn h cs'
  end.

Fixpoint remove_conn (h : Z) (cs : list conn) : list conn :=
  match cs with
  | [] => []
  | c :: cs' => if Z.eqb (c_handle c) h then remove_conn h cs' else c :: remove_conn h cs'
  end.

(* connection_state = self._connection_state[h]; in_flight += 1; drained.clear() *)
Fixpoint bump_conn (h : Z) (cs : list conn) : list conn :=
  match cs with
  | [] => [mkConn h 1 false]
  | c :: cs' =>
      if Z.eqb (c_handle c) h then mkConn h (c_inflight c + 1) false :: cs'
      else c :: bump_conn h cs'
  end.

Fixpoint set_conn (h : Z) (n : Z) (d : bool) (cs : list conn) : list conn :=
  match cs with
  | [] => []
  | c :: cs' =>
      if Z.eqb (c_handle c) h then mkConn h n d :: cs' else c :: set_conn h n d cs'
  end.

(* _check_queue: while self._packets and self._in_flight < self.max_in_flight.
   Structural recursion on the waiting list (each iteration pops one). Returns the
   new in-flight count, connection table, remaining waiting list and packets sent. *)
Fixpoint check_queue (maxf infl : Z) (cs : list conn) (w : list (Z * Z))
  : Z * list conn * list (Z * Z) * list (Z * Z) :=
  match w with
  | [] => (infl, cs, [], [])
  | (p, h) :: w' =>
      if Z.ltb infl maxf then
        let '(infl', cs', w'', sent) := check_queue maxf (infl + 1) (bump_conn h cs) w' in
        (infl', cs', w'', (p, h) :: sent)
      else (infl, cs, w, [])
  end.

Definition run_check (s : qstate) : qstate * list (Z * Z) :=
  let '(infl, cs, w, sent) := check_queue (q_max s) (q_inflight s) (q_conns s) (q_wait s) in
  (mkQ (q_max s) infl cs w (q_queued s) (q_completed s), sent).

Definition not_handle (h : Z) (ph : Z * Z) : bool := negb (Z.eqb (snd ph) h).

Definition q_step (s : qstate) (o : qop) : qstate * list (Z * Z) :=
  match o with
  | Enqueue p h =>
      run_check (mkQ (q_max s) (q_inflight s) (q_conns s) (q_wait s ++ [(p, h)])
                     (q_queued s + 1) (q_completed s))
  | Flush h =>
      let keep := filter (not_handle h) (q_wait s) in
      let flushed := Z.of_nat (length (q_wait s)) - Z.of_nat (length keep) in
      let s1 := mkQ (q_max s) (q_inflight s) (q_conns s) keep (q_queued s)
                    (q_completed s + flushed) in
      let s2 :=
        match find_conn h (q_conns s1) with
        | Some c =>
            mkQ (q_max s1) (q_inflight s1 - c_inflight c) (remove_conn h (q_conns s1))
                (q_wait s1) (q_queued s1) (q_completed s1 + c_inflight c)
        | None => s1
        end in
      run_check s2
  | Completed n h =>
      match find_conn h (q_conns s) with
      | None => (s, [])
      | Some c =>
          let done := if Z.leb n (c_inflight c) then n else c_inflight c in
          let left := c_inflight c - done in
          let cs := set_conn h left (orb (Z.eqb left 0) (c_drained c)) (q_conns s) in
          run_check (mkQ (q_max s) (q_inflight s - done) cs (q_wait s) (q_queued s)
                         (q_completed s + done))
      end
  end.

(* Run a history; the sent log is the concatenation of what each step handed to
   the controller, in order. *)
Fixpoint q_run (s : qstate) (ops : list qop) : qstate * list (Z * Z) :=
  match ops with
  | [] => (s, [])
  | o :: ops' =>
      let '(s1, out1) := q_step s o in
      let '(s2, out2) := q_run s1 ops' in
      (s2, out1 ++ out2)
  end.

(* Observables used by the correspondence check. *)
Definition conn_obs (c : conn) : Z * Z * bool := (c_handle c, c_inflight c, c_drained c).
Definition q_obs (s : qstate) :=
  (q_inflight s, map conn_obs (q_conns s), q_wait s, q_queued s - q_completed s).
