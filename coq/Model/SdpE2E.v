(* Model/SdpE2E.v -- the SDP client's result, end to end: the bytes accumulated by Client.get_attributes /
   search_attributes (Model/Sdp.v) are parsed with DataElement.from_bytes (the parser model of property C18,
   Model/CodecsSdp.v, reused read-only) and turned into attributes by
   ServiceAttribute.list_from_data_elements.  Executable Gallina, no proofs.

   A record's attribute value is now a data element: [tv a] is the element whose serialisation is
   [at_bytes a] (DataElement.__bytes__, C18's [encode]).  The server serialises
   SEQUENCE [UINT16 id, value, ...] (one per record for search_attributes, inside an outer SEQUENCE). *)
From Coq Require Import ZArith List Bool.
From BV Require Import Base.Bytes Model.CodecsBase Model.CodecsSdp Model.C19Chunks Model.Sdp.
Import ListNotations.
Open Scope Z_scope.

(* DataElement.unsigned_integer_16(attribute.id) *)
Definition id_elem (id : Z) : elem := EUInt 2 id.

Fixpoint attr_elems (tv : attr -> elem) (l : list attr) : list elem :=
  match l with
  | [] => []
  | a :: r => id_elem (at_id a) :: tv a :: attr_elems tv r
  end.

(* Server.get_service_attributes as a DataElement *)
Definition attr_list_elem (tv : attr -> elem) (l : list attr) : elem := ESeq (attr_elems tv l).

(* ServiceAttribute.list_from_data_elements: pairs (2i, 2i+1); a pair whose first element is not an
   UNSIGNED_INTEGER is skipped; an odd last element is ignored *)
Fixpoint list_from_data_elements (l : list elem) : list (Z * elem) :=
  match l with
  | i :: v :: r =>
      match i with
      | EUInt _ n => (n, v) :: list_from_data_elements r
      | _ => list_from_data_elements r
      end
  | _ => []
  end.

Inductive parsed (A : Type) := PValue (v : A) | PRaise.
Arguments PValue {A} v.
Arguments PRaise {A}.

(* tail of Client.get_attributes: DataElement.from_bytes(accumulator); not a SEQUENCE -> [] *)
Definition client_parse_attributes (max_depth : nat) (acc : list Z) : parsed (list (Z * elem)) :=
  match from_bytes max_depth acc with
  | POk (ESeq l) _ _ _ => PValue (list_from_data_elements l)
  | POk _ _ _ _ => PValue []
  | _ => PRaise
  end.

(* tail of Client.search_attributes: one attribute list per inner SEQUENCE *)
Definition client_parse_attribute_lists (max_depth : nat) (acc : list Z) : parsed (list (list (Z * elem))) :=
  match from_bytes max_depth acc with
  | POk (ESeq l) _ _ _ =>
      PValue (flat_map (fun s => match s with ESeq x => [list_from_data_elements x] | _ => [] end) l)
  | POk _ _ _ _ => PValue []
  | _ => PRaise
  end.

(* what the caller must get: (id, value) for every selected attribute *)
Definition typed (tv : attr -> elem) (l : list attr) : list (Z * elem) := map (fun a => (at_id a, tv a)) l.

(* the non-empty attribute lists of the matching records, as in on_sdp_service_search_attribute_request *)
Definition search_attr_lists (recs : records) (pat : list Z) (ids : list idspec) : list (list attr) :=
  filter (fun l => negb (is_nil l))
    (map (fun hs => get_service_attributes (snd hs) ids) (match_services recs pat)).

(* a record table whose attribute values are well-formed data elements *)
Definition attr_typed (max_depth : nat) (tv : attr -> elem) (a : attr) : Prop :=
  encode (tv a) = Some (at_bytes a) /\ elem_bytes_ok (tv a) = true /\
  (S (S (elem_depth (tv a))) <= max_depth)%nat /\ 0 <= at_id a <= 65535.
