(* C17 - bumble/at.py: tokenize_parameters and parse_parameters, branch by branch.
   Executable Gallina only.  Bytes are [list Z].

   tokenize_parameters is a single [for b in buffer] loop over the input with the state
   (tokens, token, in_quotes): it is modelled as structural recursion on the byte list, so
   it makes exactly one step per input byte.  parse_parameters is a single [for token in
   tokens] loop with the state (accumulator stack, current). *)
From Coq Require Import ZArith List Bool.
Import ListNotations.
Open Scope Z_scope.

Definition c_space := 32.
Definition c_quote := 34.
Definition c_open := 40.
Definition c_close := 41.
Definition c_comma := 44.

Inductive at_error := OpenParenAfterChar | QuoteAfterChar | CloseWithoutOpen | MissingClose
  | EmptyStack.   (* accumulator[-1] on an empty stack (IndexError): shown unreachable *)

(* python: token[1:-1] *)
Definition strip_ends (t : list Z) : list Z := removelast (tl t).

Definition nonempty (t : list Z) : bool := match t with [] => false | _ => true end.

(* The loop of tokenize_parameters.  [tokens] is kept in reverse order (append = cons). *)
Fixpoint tok_loop (buf : list Z) (tokens : list (list Z)) (token : list Z) (inq : bool)
  : at_error + list (list Z) :=
  match buf with
  | [] =>
      (* tokens.append(token); return [t for t in tokens if len(t) > 0] *)
      inr (filter nonempty (rev (token :: tokens)))
  | b :: rest =>
      if inq then
        let token' := token ++ [b] in
        if b =? c_quote then tok_loop rest (strip_ends token' :: tokens) [] false
        else tok_loop rest tokens token' true
      else if b =? c_space then tok_loop rest tokens token false
      else if (b =? c_comma) || (b =? c_close) then tok_loop rest ([b] :: token :: tokens) [] false
      else if b =? c_open then
        if nonempty token then inl OpenParenAfterChar
        else tok_loop rest ([b] :: tokens) token false
      else if b =? c_quote then
        if nonempty token then inl QuoteAfterChar
        else tok_loop rest tokens (token ++ [b]) true
      else tok_loop rest tokens (token ++ [b]) false
  end.

Definition tokenize (buf : list Z) : at_error + list (list Z) := tok_loop buf [] [] false.

(* parameter values: bytes or (nested) lists *)
Inductive atval := AtBytes (b : list Z) | AtList (l : list atval).

Definition is_tok (c : Z) (t : list Z) : bool :=
  match t with [x] => x =? c | _ => false end.

(* The loop of parse_parameters.  [acc] is the accumulator stack, innermost list first,
   each list in reverse order. *)
Fixpoint par_loop (tokens : list (list Z)) (acc : list (list atval)) (cur : atval)
  : at_error + list atval :=
  match tokens with
  | [] =>
      match acc with
      | [top] => inr (rev (cur :: top))
      | [] => inl EmptyStack
      | _ => inl MissingClose             (* len(accumulator) > 1 *)
      end
  | t :: rest =>
      if is_tok c_comma t then
        match acc with
        | top :: below => par_loop rest ((cur :: top) :: below) (AtBytes [])
        | [] => inl EmptyStack
        end
      else if is_tok c_open t then par_loop rest ([] :: acc) cur
      else if is_tok c_close t then
        match acc with
        | top :: (next :: below) => par_loop rest (next :: below) (AtList (rev (cur :: top)))
        | _ => inl CloseWithoutOpen       (* len(accumulator) < 2 *)
        end
      else par_loop rest acc (AtBytes t)
  end.

Definition parse_parameters (buf : list Z) : at_error + list atval :=
  match tokenize buf with
  | inl e => inl e
  | inr tokens => par_loop tokens [[]] (AtBytes [])
  end.

(* number of loop iterations each function performs (for the progress statements) *)
Definition tokenize_steps (buf : list Z) : nat := length buf.
