(* Model/CodecsRfcomm.v — hand-written codecs of bumble/rfcomm.py (property C18):
   compute_fcs over the regenerated CRC_TABLE (Gen/C18Tables.v), the bitwise CRC-8 it
   must equal, RFCOMM_Frame.__init__ / __bytes__ / from_bytes (from_bytes passes
   with_credits for UIH frames with P/F = 1, as after fixes/D18b.patch),
   RFCOMM_Frame.parse_mcc / make_mcc with the two-octet length form (as after
   fixes/D18c.patch), RFCOMM_MCC_PN and RFCOMM_MCC_MSC.
   A Python exception (IndexError on short input, ValueError from bytes([..]) or
   FrameType(..), InvalidPacketError on FCS mismatch) is [None]. *)
From Coq Require Import ZArith List Bool.
From BV Require Import Base.Bytes Model.CodecsBase Gen.C18Tables.
Import ListNotations.
Open Scope Z_scope.

(* ---------------------------------------------------------------- FCS *)
(* reflected CRC-8, polynomial x^8+x^2+x+1 (0xE0 reflected), one octet, bit by bit *)
Fixpoint crc8_bits (n : nat) (c : Z) : Z :=
  match n with
  | O => c
  | S k => crc8_bits k (if Z.odd c then Z.lxor (Z.shiftr c 1) 224 else Z.shiftr c 1)
  end.
Definition crc8_octet (c : Z) : Z := crc8_bits 8 c.

(* result = CRC_TABLE[result ^ byte] *)
Definition crc_step (table : list Z) (r b : Z) : Z := nth (Z.to_nat (Z.lxor r b)) table 0.
Definition fcs_with (table : list Z) (buf : list Z) : Z := 255 - fold_left (crc_step table) buf 255.
Definition compute_fcs (buf : list Z) : Z := fcs_with rfcomm_crc_table buf.
(* the specification: the same loop with the bitwise CRC instead of the table *)
Definition fcs_spec (buf : list Z) : Z :=
  255 - fold_left (fun r b => crc8_octet (Z.lxor r b)) buf 255.

Definition crc_table_ok : bool :=
  (length rfcomm_crc_table =? 256)%nat &&
  forallb (fun i => nth (Z.to_nat i) rfcomm_crc_table 0 =? crc8_octet i) (zrange 256).

(* ---------------------------------------------------------------- frames *)
Record frame := { f_type : Z; f_cr : Z; f_dlci : Z; f_pf : Z; f_info : list Z; f_credits : bool }.

Definition is_uih (t : Z) : bool := t =? rfcomm_ft_UIH.

(* length indicator for a payload length L (the credits octet is not counted) *)
Definition length_bytes (L : Z) : list Z :=
  if 127 <? L then [Z.shiftl (Z.land L 127) 1; Z.land (Z.shiftr L 7) 255]
  else [Z.lor (Z.shiftl L 1) 1].
Definition frame_paylen (f : frame) : Z := lenZ (f_info f) - (if f_credits f then 1 else 0).
Definition frame_address (f : frame) : Z := Z.lor (Z.lor (Z.shiftl (f_dlci f) 2) (Z.shiftl (f_cr f) 1)) 1.
Definition frame_control (f : frame) : Z := Z.lor (f_type f) (Z.shiftl (f_pf f) 4).
Definition frame_fcs (f : frame) : Z :=
  if is_uih (f_type f) then compute_fcs [frame_address f; frame_control f]
  else compute_fcs ([frame_address f; frame_control f] ++ length_bytes (frame_paylen f)).
Definition frame_bytes (f : frame) : list Z :=
  [frame_address f; frame_control f] ++ length_bytes (frame_paylen f) ++ f_info f ++ [frame_fcs f].

(* values the constructor and __bytes__ accept without raising and encode faithfully *)
Definition frame_ok (f : frame) : bool :=
  existsb (Z.eqb (f_type f)) rfcomm_ft_codes && zlt 2 (f_cr f) && zlt 64 (f_dlci f) && zlt 2 (f_pf f)
  && bytes_ok (f_info f) && zlt 32768 (frame_paylen f)
  && Bool.eqb (f_credits f) (is_uih (f_type f) && (f_pf f =? 1)).

(* from_bytes *)
Definition frame_parse (d : list Z) : option frame :=
  match d with
  | b0 :: b1 :: b2 :: r =>
      let dlci := Z.land (Z.shiftr b0 2) 63 in
      let cr := Z.land (Z.shiftr b0 1) 1 in
      let t := Z.land b1 239 in
      let pf := Z.land (Z.shiftr b1 4) 1 in
      if negb (existsb (Z.eqb t) rfcomm_ft_codes) then None          (* FrameType(..): ValueError *)
      else
        let info_opt :=
          if Z.odd b2 then Some (removelast r)                       (* data[3:-1] *)
          else match r with
               | [] => None                                          (* data[3]: IndexError *)
               | _ :: r' => Some (removelast r')                     (* data[4:-1] *)
               end in
        match info_opt with
        | None => None
        | Some info =>
            let f := {| f_type := t; f_cr := cr; f_dlci := dlci; f_pf := pf; f_info := info;
                        f_credits := is_uih t && (pf =? 1) |} in
            if frame_paylen f <? 0 then None                         (* bytes([negative]): ValueError *)
            else if frame_fcs f =? lastz d then Some f else None     (* 'fcs mismatch' *)
        end
  | _ => None
  end.

(* a received frame in canonical form: EA bit of the address set, the length indicator
   is the short form whenever it fits and equals the payload length *)
Definition frame_canonical (d : list Z) : bool :=
  match d with
  | b0 :: b1 :: b2 :: r =>
      let credits := if is_uih (Z.land b1 239) && (Z.land (Z.shiftr b1 4) 1 =? 1) then 1 else 0 in
      Z.odd b0 &&
      (if Z.odd b2 then lenZ r =? Z.shiftr b2 1 + credits + 1
       else match r with
            | [] => false
            | b3 :: r' => let L := Z.lor (Z.shiftr b2 1) (Z.shiftl b3 7) in
                          (127 <? L) && (lenZ r' =? L + credits + 1)
            end)
  | _ => false
  end.

Definition frame_obs (f : frame) : (list Z * list Z * bool) :=
  ([f_type f; f_cr f; f_dlci f; f_pf f], f_info f, f_credits f).

(* the code before fixes/D18b.patch: from_bytes never passes with_credits *)
Definition frame_reserialize_unfixed (f : frame) : list Z :=
  frame_bytes {| f_type := f_type f; f_cr := f_cr f; f_dlci := f_dlci f; f_pf := f_pf f;
                 f_info := f_info f; f_credits := false |}.

(* ---------------------------------------------------------------- multiplexer commands *)
(* make_mcc(mcc_type, c_r, data) *)
Definition mcc_bytes (t cr : Z) (v : list Z) : list Z :=
  Z.land (Z.lor (Z.lor (Z.shiftl t 2) (Z.shiftl cr 1)) 1) 255 :: length_bytes (lenZ v) ++ v.
(* parse_mcc(data) -> (type, c_r, value) *)
Definition mcc_parse (d : list Z) : option (Z * bool * list Z) :=
  match d with
  | b0 :: b1 :: r =>
      let t := Z.shiftr b0 2 in
      let cr := negb (Z.land (Z.shiftr b0 1) 1 =? 0) in
      if Z.odd b1 then Some (t, cr, r)                                (* data[2:] *)
      else match r with
           | [] => None                                              (* data[2]: IndexError *)
           | b2 :: r' => let L := Z.lor (Z.shiftl b2 7) (Z.shiftr b1 1) in
                         Some (t, cr, firstn (Z.to_nat L) r')        (* data[3 : 3 + length] *)
           end
  | _ => None
  end.
Definition mcc_ok (t cr : Z) (v : list Z) : bool :=
  zlt 64 t && zlt 2 cr && bytes_ok v && zlt 32768 (lenZ v).
Definition mcc_canonical (d : list Z) : bool :=
  match d with
  | b0 :: b1 :: r =>
      Z.odd b0 &&
      (if Z.odd b1 then lenZ r =? Z.shiftr b1 1
       else match r with
            | [] => false
            | b2 :: r' => let L := Z.lor (Z.shiftl b2 7) (Z.shiftr b1 1) in (127 <? L) && (lenZ r' =? L)
            end)
  | _ => false
  end.
(* the code before fixes/D18c.patch *)
Definition mcc_parse_unfixed (d : list Z) : option (Z * bool * list Z) :=
  match d with
  | b0 :: b1 :: r =>
      let t := Z.shiftr b0 2 in
      let cr := negb (Z.land (Z.shiftr b0 1) 1 =? 0) in
      if Z.odd b1 then Some (t, cr, r)
      else match r with
           | _ :: b3 :: _ => let L := Z.land (Z.shiftl b3 7) (Z.shiftr b1 1) in
                             Some (t, cr, firstn (Z.to_nat L) (skipn 1 r))
           | _ => None
           end
  | _ => None
  end.
Definition mcc_bytes_unfixed (t cr : Z) (v : list Z) : list Z :=
  Z.land (Z.lor (Z.lor (Z.shiftl t 2) (Z.shiftl cr 1)) 1) 255
  :: Z.lor (Z.shiftl (Z.land (lenZ v) 127) 1) 1 :: v.

(* RFCOMM_MCC_PN: dlci cl priority ack_timer max_frame_size max_retransmissions initial_credits *)
Definition pn_bytes (p : list Z) : list Z :=
  match p with
  | [dlci; cl; prio; ack; mfs; retx; cred] =>
      [Z.land dlci 255; Z.land cl 255; Z.land prio 255; Z.land ack 255; Z.land mfs 255;
       Z.land (Z.shiftr mfs 8) 255; Z.land retx 255; Z.land cred 7]
  | _ => []
  end.
Definition pn_parse (d : list Z) : option (list Z) :=
  match d with
  | d0 :: d1 :: d2 :: d3 :: d4 :: d5 :: d6 :: d7 :: _ =>
      Some [d0; d1; d2; d3; Z.lor d4 (Z.shiftl d5 8); d6; Z.land d7 7]
  | _ => None
  end.
Definition pn_ok (p : list Z) : bool :=
  match p with
  | [dlci; cl; prio; ack; mfs; retx; cred] =>
      zlt 256 dlci && zlt 256 cl && zlt 256 prio && zlt 256 ack && zlt 65536 mfs && zlt 256 retx && zlt 8 cred
  | _ => false
  end.

(* RFCOMM_MCC_MSC: dlci fc rtc rtr ic dv *)
Definition msc_bytes (p : list Z) : list Z :=
  match p with
  | [dlci; fc; rtc; rtr; ic; dv] =>
      [Z.lor (Z.shiftl dlci 2) 3;
       Z.lor (Z.lor (Z.lor (Z.lor (Z.lor 1 (Z.shiftl fc 1)) (Z.shiftl rtc 2)) (Z.shiftl rtr 3))
                    (Z.shiftl ic 6)) (Z.shiftl dv 7)]
  | _ => []
  end.
Definition msc_parse (d : list Z) : option (list Z) :=
  match d with
  | d0 :: d1 :: _ =>
      Some [Z.shiftr d0 2; Z.land (Z.shiftr d1 1) 1; Z.land (Z.shiftr d1 2) 1; Z.land (Z.shiftr d1 3) 1;
            Z.land (Z.shiftr d1 6) 1; Z.land (Z.shiftr d1 7) 1]
  | _ => None
  end.
Definition msc_ok (p : list Z) : bool :=
  match p with
  | [dlci; fc; rtc; rtr; ic; dv] => zlt 64 dlci && zlt 2 fc && zlt 2 rtc && zlt 2 rtr && zlt 2 ic && zlt 2 dv
  | _ => false
  end.
(* received MSC octets with EA/CR bits set and reserved bits clear *)
Definition msc_canonical (d0 d1 : Z) : bool :=
  (Z.land d0 3 =? 3) && Z.odd d1 && (Z.land d1 48 =? 0).
