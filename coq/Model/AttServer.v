(* Model of the GATT/ATT server of bumble as executable Gallina.  No proofs here.

   Code modelled (after the repairs fixes/D10a..D10e.patch):
     bumble/device.py       Device.on_gatt_pdu           (parse, malformed-PDU branch)
     bumble/gatt_server.py  Server.register_eatt sink, on_invalid_gatt_pdu, on_gatt_pdu,
                            on_att_request, the twelve on_att_* handlers,
                            _notify_single_subscriber, _indicate_single_bearer, write_cccd
     bumble/att.py          ATT_PDU.from_bytes for client->server classes (field layouts),
                            Attribute.read_value / write_value (permission checks exactly as
                            written: READABLE / WRITEABLE are never consulted -- finding D11a)
     bumble/core.py         UUID equality (128-bit form) and to_pdu_bytes

   Granularity: one [op] is one external stimulus (a PDU from the peer, or a call of the
   notify / indicate API) after which the asyncio loop runs to idle.  Handlers wrapped in
   AsyncRunner.run_in_task run in a task of their own; with the attribute values modelled
   here (static bytes, or a callback that returns / raises ATT_Error without suspending)
   such a task runs to completion without suspension, so its effect is atomic.
   The 30 s GATT_REQUEST_TIMEOUT of an indication is modelled as not firing.

   Abstractions:
     - the behaviour of an attribute's value object is a quantified input: [a_value] (bytes)
       is what a read returns and a write replaces; [a_rerr] > 0 models a read function that
       raises ATT_Error(a_rerr), [a_rerr] < 0 one that raises any other exception (or is
       missing: AttributeValue.read raises InvalidOperationError); [a_werr] likewise for
       the write function.  [a_cccd] <> 0 marks the Client Characteristic Configuration
       descriptor the server creates for characteristic [a_cccd]: its value is the bearer's
       subscription state (read_cccd / write_cccd).
     - the bearer always has a connection (the `connection is not None` tests are true).
     - integers parsed from the PDU are 16-bit by construction; [le16] is struct.pack('<H')
       for 0 <= n < 65536 (handles, lengths <= 512, MTUs are in that range).
     - one bearer per server state (per-bearer dictionaries are keyed by the bearer). *)
From Coq Require Import ZArith List Bool.
From BV Require Import Gen.C10Tables.
Import ListNotations.
Open Scope Z_scope.

(* ------------------------------------------------------------------ bytes *)
Definition bytes := list Z.

Definition len {A : Type} (l : list A) : Z := Z.of_nat (length l).
(* Python l[:n] and l[n:] for n >= 0 *)
Definition take {A : Type} (n : Z) (l : list A) : list A := firstn (Z.to_nat n) l.
Definition drop {A : Type} (n : Z) (l : list A) : list A := skipn (Z.to_nat n) l.
Definition le16 (n : Z) : bytes := [n mod 256; (n / 256) mod 256].

Fixpoint bytes_eqb (a b : bytes) : bool :=
  match a, b with
  | [], [] => true
  | x :: a', y :: b' => (x =? y) && bytes_eqb a' b'
  | _, _ => false
  end.

Fixpoint memz (x : Z) (l : list Z) : bool :=
  match l with [] => false | y :: l' => (x =? y) || memz x l' end.

Fixpoint assoc {A : Type} (k : Z) (l : list (Z * A)) : option A :=
  match l with
  | [] => None
  | (k', v) :: l' => if k =? k' then Some v else assoc k l'
  end.

(* ------------------------------------------------------------------ constants *)
(* opcodes (Bluetooth Core, Vol 3 Part F, 3.4.8) *)
Definition OP_ERROR : Z := 1.
Definition OP_MTU_REQ : Z := 2.
Definition OP_MTU_RSP : Z := 3.
Definition OP_FIND_INFO_REQ : Z := 4.
Definition OP_FIND_INFO_RSP : Z := 5.
Definition OP_FBTV_REQ : Z := 6.
Definition OP_FBTV_RSP : Z := 7.
Definition OP_RBT_REQ : Z := 8.
Definition OP_RBT_RSP : Z := 9.
Definition OP_READ_REQ : Z := 10.
Definition OP_READ_RSP : Z := 11.
Definition OP_BLOB_REQ : Z := 12.
Definition OP_BLOB_RSP : Z := 13.
Definition OP_RM_REQ : Z := 14.
Definition OP_RM_RSP : Z := 15.
Definition OP_RBGT_REQ : Z := 16.
Definition OP_RBGT_RSP : Z := 17.
Definition OP_WRITE_REQ : Z := 18.
Definition OP_WRITE_RSP : Z := 19.
Definition OP_PREP_REQ : Z := 22.
Definition OP_EXEC_REQ : Z := 24.
Definition OP_NOTIFY : Z := 27.
Definition OP_INDICATE : Z := 29.
Definition OP_CONFIRM : Z := 30.
Definition OP_RMV_REQ : Z := 32.
Definition OP_RMV_RSP : Z := 33.
Definition OP_WRITE_CMD : Z := 82.
Definition OP_SIGNED_WRITE : Z := 210.

(* The request opcodes of the specification: every PDU with one of these opcodes must be
   answered with exactly one PDU.  Independent of att.ATT_REQUESTS (compared with it by
   [tables_match]). *)
Definition spec_requests : list Z := [2; 4; 6; 8; 10; 12; 14; 16; 18; 22; 24; 32].

(* what Server.on_gatt_pdu finds with getattr(self, 'on_' + name): opcode, run_in_task *)
Definition m_handlers : list (Z * bool) :=
  [(2, false); (4, false); (6, true); (8, true); (10, true); (12, true); (14, true);
   (16, true); (18, true); (30, false); (32, true); (82, true)].

(* field layouts of the client->server PDU classes (codes as in Gen.C10Tables.g_shapes) *)
Definition m_shapes : list (Z * list Z) :=
  [(2, [2]); (4, [2; 2]); (6, [2; 2; 4; 0]); (8, [2; 2; 3]); (10, [2]); (12, [2; 2]);
   (14, [5]); (16, [2; 2; 3]); (18, [2; 0]); (22, [2; 2; 0]); (24, [1]); (30, []);
   (32, [5]); (82, [2; 0]); (210, [2; 0])].

(* error codes *)
Definition E_INVALID_HANDLE : Z := 1.
Definition E_READ_NOT_PERMITTED : Z := 2.
Definition E_WRITE_NOT_PERMITTED : Z := 3.
Definition E_INVALID_PDU : Z := 4.
Definition E_INSUFF_AUTHN : Z := 5.
Definition E_REQ_NOT_SUPPORTED : Z := 6.
Definition E_INVALID_OFFSET : Z := 7.
Definition E_INSUFF_AUTHZ : Z := 8.
Definition E_NOT_FOUND : Z := 10.
Definition E_NOT_LONG : Z := 11.
Definition E_INVALID_ATTR_LEN : Z := 13.
Definition E_UNLIKELY : Z := 14.
Definition E_INSUFF_ENC : Z := 15.
Definition E_UNSUPPORTED_GROUP : Z := 16.

(* permission bit indexes: Attribute.Permissions.X = 2^index *)
Definition PB_READABLE : Z := 0.
Definition PB_WRITEABLE : Z := 1.
Definition PB_READ_ENC : Z := 2.
Definition PB_WRITE_ENC : Z := 3.
Definition PB_READ_AUTHN : Z := 4.
Definition PB_WRITE_AUTHN : Z := 5.
Definition PB_READ_AUTHZ : Z := 6.
Definition PB_WRITE_AUTHZ : Z := 7.

Definition DEFAULT_MTU : Z := 23.
Definition MAX_VALUE_SIZE : Z := 512.

(* ------------------------------------------------------------------ UUIDs *)
(* UUID.BASE_UUID, little-endian *)
Definition base_uuid : bytes := [251; 52; 155; 95; 128; 0; 0; 128; 0; 16; 0; 0].

(* UUID.uuid_128_bytes of uuid_bytes u (2, 4 or 16 bytes) *)
Definition uuid128 (u : bytes) : bytes :=
  if (length u =? 2)%nat then base_uuid ++ u ++ [0; 0]
  else if (length u =? 4)%nat then base_uuid ++ u
  else u.
(* UUID.to_pdu_bytes: 32-bit UUIDs are expanded *)
Definition uuid_pdu (u : bytes) : bytes := if (length u =? 4)%nat then uuid128 u else u.
(* UUID.__eq__ *)
Definition uuid_eqb (u v : bytes) : bool := bytes_eqb (uuid128 u) (uuid128 v).

Definition UUID_PRIMARY : bytes := [0; 40].
Definition UUID_SECONDARY : bytes := [1; 40].
Definition UUID_CHARACTERISTIC : bytes := [3; 40].

(* ------------------------------------------------------------------ database, bearer *)
Record attr := mkAttr {
  a_handle : Z;
  a_type : bytes;       (* UUID.uuid_bytes: 2, 4 or 16 bytes *)
  a_perm : Z;           (* Attribute.permissions *)
  a_value : bytes;
  a_end : Z;            (* end_group_handle *)
  a_rerr : Z;           (* > 0: the read function raises ATT_Error(a_rerr); < 0: another exception *)
  a_werr : Z;           (* > 0: the write function raises ATT_Error(a_werr); < 0: another exception *)
  a_cccd : Z            (* <> 0: server-made CCCD of the characteristic with this handle *)
}.

Record bearer := mkBearer {
  b_mtu : Z;            (* bearer.att_mtu *)
  b_enc : bool;         (* connection.encryption != 0 *)
  b_auth : bool;        (* connection.authenticated *)
  b_enh : bool          (* enhanced (EATT) bearer: Exchange MTU is refused there *)
}.

Inductive rres := RErr (code : Z) | ROk (v : bytes) | RExc.

(* Server.read_cccd: the stored CCCD value of the bearer, else 00 00 *)
Definition cccd_value (subs : list (Z * bytes)) (ch : Z) : bytes :=
  match assoc ch subs with Some v => v | None => [0; 0] end.

(* Attribute.read_value: READ_REQUIRES_ENCRYPTION, then _AUTHENTICATION, then
   _AUTHORIZATION (always refused); READABLE is not consulted. *)
Definition read_value (b : bearer) (subs : list (Z * bytes)) (a : attr) : rres :=
  if Z.testbit (a_perm a) PB_READ_ENC && negb (b_enc b) then RErr E_INSUFF_ENC
  else if Z.testbit (a_perm a) PB_READ_AUTHN && negb (b_auth b) then RErr E_INSUFF_AUTHN
  else if Z.testbit (a_perm a) PB_READ_AUTHZ then RErr E_INSUFF_AUTHZ
  else if negb (a_cccd a =? 0) then ROk (cccd_value subs (a_cccd a))
  else if a_rerr a =? 0 then ROk (a_value a)
  else if 0 <? a_rerr a then RErr (a_rerr a)
  else RExc.

Inductive wres := WErr (code : Z) | WOk | WExc.

(* Attribute.write_value: the checks; WOk means the value is stored *)
Definition write_check (b : bearer) (a : attr) : wres :=
  if Z.testbit (a_perm a) PB_WRITE_ENC && negb (b_enc b) then WErr E_INSUFF_ENC
  else if Z.testbit (a_perm a) PB_WRITE_AUTHN && negb (b_auth b) then WErr E_INSUFF_AUTHN
  else if Z.testbit (a_perm a) PB_WRITE_AUTHZ then WErr E_INSUFF_AUTHZ
  else if negb (a_cccd a =? 0) then WOk
  else if a_werr a =? 0 then WOk
  else if 0 <? a_werr a then WErr (a_werr a)
  else WExc.

Definition set_value (a : attr) (v : bytes) : attr :=
  mkAttr (a_handle a) (a_type a) (a_perm a) v (a_end a) (a_rerr a) (a_werr a) (a_cccd a).

(* Server.get_attribute: first attribute with that handle *)
Fixpoint find_attr (h : Z) (db : list attr) : option attr :=
  match db with
  | [] => None
  | a :: db' => if a_handle a =? h then Some a else find_attr h db'
  end.

Fixpoint db_set (h : Z) (v : bytes) (db : list attr) : list attr :=
  match db with
  | [] => []
  | a :: db' => if a_handle a =? h then set_value a v :: db' else a :: db_set h v db'
  end.

(* What the reading handlers can observe of an attribute on a bearer. *)
Record view := mkView { v_handle : Z; v_type : bytes; v_end : Z; v_read : rres }.
Definition view_of (b : bearer) (subs : list (Z * bytes)) (a : attr) : view :=
  mkView (a_handle a) (a_type a) (a_end a) (read_value b subs a).

Fixpoint find_view (h : Z) (vs : list view) : option view :=
  match vs with
  | [] => None
  | x :: vs' => if v_handle x =? h then Some x else find_view h vs'
  end.

(* ------------------------------------------------------------------ parsing *)
Inductive fval := FInt (n : Z) | FBytes (b : bytes) | FHandles (l : list Z).

(* _SET_OF_HANDLES_METADATA parser: struct.unpack_from('<H') at every second offset *)
Fixpoint parse_handles (d : bytes) : option (list Z) :=
  match d with
  | [] => Some []
  | [_] => None
  | x :: y :: d' =>
      match parse_handles d' with
      | Some l => Some ((x + 256 * y) :: l)
      | None => None
      end
  end.

Definition uuid_len_ok (d : bytes) : bool :=
  (length d =? 2)%nat || (length d =? 4)%nat || (length d =? 16)%nat.

(* HCI_Object.dict_from_bytes over a field-shape list; None = the parser raises *)
Fixpoint parse_fields (sh : list Z) (d : bytes) : option (list fval) :=
  match sh with
  | [] => Some []
  | k :: sh' =>
      if k =? 1 then
        match d with
        | x :: d' => option_map (cons (FInt x)) (parse_fields sh' d')
        | _ => None
        end
      else if k =? 2 then
        match d with
        | x :: y :: d' => option_map (cons (FInt (x + 256 * y))) (parse_fields sh' d')
        | _ => None
        end
      else if k =? 0 then option_map (cons (FBytes d)) (parse_fields sh' [])
      else if k =? 3 then
        if uuid_len_ok d then option_map (cons (FBytes d)) (parse_fields sh' []) else None
      else if k =? 4 then
        match d with
        | x :: y :: d' => option_map (cons (FBytes [x; y])) (parse_fields sh' d')
        | _ => None
        end
      else if k =? 5 then
        match parse_handles d with
        | Some l => option_map (cons (FHandles l)) (parse_fields sh' [])
        | None => None
        end
      else None
  end.

Inductive req :=
| RMtu (m : Z)
| RFindInfo (s e : Z)
| RFbtv (s e : Z) (t v : bytes)
| RRbt (s e : Z) (t : bytes)
| RRead (h : Z)
| RBlob (h off : Z)
| RRm (hs : list Z)
| RRbgt (s e : Z) (t : bytes)
| RRmv (hs : list Z)
| RWrite (h : Z) (v : bytes)
| RWriteCmd (h : Z) (v : bytes)
| RConfirm
| ROther.            (* parsed, but no handler interprets its fields *)

Definition to_req (op : Z) (fv : list fval) : req :=
  if op =? 2 then match fv with [FInt m] => RMtu m | _ => ROther end
  else if op =? 4 then match fv with [FInt s; FInt e] => RFindInfo s e | _ => ROther end
  else if op =? 6 then
    match fv with [FInt s; FInt e; FBytes t; FBytes v] => RFbtv s e t v | _ => ROther end
  else if op =? 8 then match fv with [FInt s; FInt e; FBytes t] => RRbt s e t | _ => ROther end
  else if op =? 10 then match fv with [FInt h] => RRead h | _ => ROther end
  else if op =? 12 then match fv with [FInt h; FInt o] => RBlob h o | _ => ROther end
  else if op =? 14 then match fv with [FHandles hs] => RRm hs | _ => ROther end
  else if op =? 16 then match fv with [FInt s; FInt e; FBytes t] => RRbgt s e t | _ => ROther end
  else if op =? 18 then match fv with [FInt h; FBytes v] => RWrite h v | _ => ROther end
  else if op =? 30 then match fv with [] => RConfirm | _ => ROther end
  else if op =? 32 then match fv with [FHandles hs] => RRmv hs | _ => ROther end
  else if op =? 82 then match fv with [FInt h; FBytes v] => RWriteCmd h v | _ => ROther end
  else ROther.

Inductive parsed := PBad | POk (r : req).

(* ATT_PDU.from_bytes(bytes([op]) + ps): an opcode without a registered class gives a
   generic ATT_PDU and never fails. *)
Definition parse_pdu (op : Z) (ps : bytes) : parsed :=
  match assoc op m_shapes with
  | None => POk ROther
  | Some sh =>
      match parse_fields sh ps with
      | None => PBad
      | Some fv => POk (to_req op fv)
      end
  end.

(* ------------------------------------------------------------------ responses *)
Definition err_rsp (op h code : Z) : bytes := [OP_ERROR; op] ++ le16 h ++ [code].
(* what _att_request_handler (D10e) sends when an exception other than ATT_Error escapes
   a task-wrapped request handler *)
Definition exc_rsp (op : Z) : bytes := err_rsp op 0 E_UNLIKELY.

Definition in_range (s e : Z) (x : view) : bool := (s <=? v_handle x) && (v_handle x <=? e).

(* --- Find Information *)
Fixpoint fi_collect (space usz : Z) (first : bool) (l : list view) : list view :=
  match l with
  | [] => []
  | x :: l' =>
      let this := len (uuid_pdu (v_type x)) in
      if negb first && negb (this =? usz) then []
      else if space <? 2 + this then []
      else x :: fi_collect (space - (2 + this)) this false l'
  end.

Definition fi_entry (x : view) : bytes := le16 (v_handle x) ++ uuid_pdu (v_type x).

Definition h_find_info (mtu : Z) (vs : list view) (op s e : Z) : bytes :=
  if (s =? 0) || (e <? s) then err_rsp op s E_INVALID_HANDLE
  else
    match fi_collect (mtu - 2) 0 true (filter (in_range s e) vs) with
    | [] => err_rsp op s E_NOT_FOUND
    | x :: r =>
        [OP_FIND_INFO_RSP; if len (uuid_pdu (v_type x)) =? 2 then 1 else 2]
          ++ flat_map fi_entry (x :: r)
    end.

(* --- Find By Type Value *)
Definition value_matches (x : view) (v : bytes) : bool :=
  match v_read x with ROk y => bytes_eqb y v | _ => false end.
Definition read_raises (x : view) : bool :=
  match v_read x with RExc => true | _ => false end.

(* None: a read function raised something other than ATT_Error (the value of every attribute
   in range with the requested type is read, whatever space is left) *)
Fixpoint fbtv_collect (s e : Z) (t v : bytes) (space : Z) (vs : list view) : option (list view) :=
  match vs with
  | [] => Some []
  | x :: vs' =>
      if in_range s e x && uuid_eqb (v_type x) t && read_raises x then None
      else if in_range s e x && uuid_eqb (v_type x) t && value_matches x v && (4 <=? space)
      then option_map (cons x) (fbtv_collect s e t v (space - 4) vs')
      else fbtv_collect s e t v space vs'
  end.

Definition is_group_type (t : bytes) : bool :=
  uuid_eqb t UUID_PRIMARY || uuid_eqb t UUID_SECONDARY || uuid_eqb t UUID_CHARACTERISTIC.

Definition fbtv_entry (x : view) : bytes :=
  le16 (v_handle x) ++ le16 (if is_group_type (v_type x) then v_end x else v_handle x).

Definition h_fbtv (mtu : Z) (vs : list view) (op s e : Z) (t v : bytes) : bytes :=
  match fbtv_collect s e t v (mtu - 2) vs with
  | None => exc_rsp op
  | Some [] => err_rsp op s E_NOT_FOUND
  | Some r => [OP_FBTV_RSP] ++ flat_map fbtv_entry r
  end.

(* --- Read By Type / Read By Group Type: common loop.
   hdr = bytes in front of each value (2 / 4), cap = min(mtu - 4, 253) / min(mtu - 6, 251).
   Returns the entries and, when the very first attribute cannot be read, its handle and
   error code; None when a read function raised something other than ATT_Error. *)
Fixpoint rb_collect (hdr cap space : Z) (flen : option Z) (l : list view)
  : option (list (view * bytes) * option (Z * Z)) :=
  match l with
  | [] => Some ([], None)
  | x :: l' =>
      if space =? 0 then Some ([], None)
      else
        match v_read x with
        | RExc => None
        | RErr c =>
            Some ([], match flen with None => Some (v_handle x, c) | Some _ => None end)
        | ROk v =>
            let v' := take cap v in
            let same := match flen with None => true | Some n => len v' =? n end in
            if negb same then Some ([], None)
            else if space <? hdr + len v' then Some ([], None)
            else
              match rb_collect hdr cap (space - (hdr + len v')) (Some (len v')) l' with
              | None => None
              | Some (r, e) => Some ((x, v') :: r, e)
              end
        end
  end.

Definition type_in_range (t : bytes) (s e : Z) (x : view) : bool :=
  uuid_eqb (v_type x) t && in_range s e x.

Definition rbt_entry (p : view * bytes) : bytes := le16 (v_handle (fst p)) ++ snd p.

Definition h_rbt (mtu : Z) (vs : list view) (op s e : Z) (t : bytes) : bytes :=
  if (s =? 0) || (e <? s) then err_rsp op s E_INVALID_HANDLE
  else
    match rb_collect 2 (Z.min (mtu - 4) 253) (mtu - 2) None (filter (type_in_range t s e) vs) with
    | None => exc_rsp op
    | Some ([], Some (h, c)) => err_rsp op h c
    | Some ([], None) => err_rsp op s E_NOT_FOUND
    | Some ((x, v0) :: r, _) => [OP_RBT_RSP; 2 + len v0] ++ flat_map rbt_entry ((x, v0) :: r)
    end.

Definition rbgt_entry (p : view * bytes) : bytes :=
  le16 (v_handle (fst p)) ++ le16 (v_end (fst p)) ++ snd p.

Definition h_rbgt (mtu : Z) (vs : list view) (op s e : Z) (t : bytes) : bytes :=
  if negb (uuid_eqb t UUID_PRIMARY || uuid_eqb t UUID_SECONDARY)
  then err_rsp op s E_UNSUPPORTED_GROUP
  else
    match rb_collect 4 (Z.min (mtu - 6) 251) (mtu - 2) None (filter (type_in_range t s e) vs) with
    | None => exc_rsp op
    | Some ([], Some (h, c)) => err_rsp op h c
    | Some ([], None) => err_rsp op s E_NOT_FOUND
    | Some ((x, v0) :: r, _) => [OP_RBGT_RSP; 4 + len v0] ++ flat_map rbgt_entry ((x, v0) :: r)
    end.

(* --- Read / Read Blob *)
Definition h_read (mtu : Z) (vs : list view) (op h : Z) : bytes :=
  match find_view h vs with
  | None => err_rsp op h E_INVALID_HANDLE
  | Some x =>
      match v_read x with
      | RExc => exc_rsp op
      | RErr c => err_rsp op h c
      | ROk v => [OP_READ_RSP] ++ take (Z.min (mtu - 1) (len v)) v
      end
  end.

Definition h_blob (mtu : Z) (vs : list view) (op h off : Z) : bytes :=
  match find_view h vs with
  | None => err_rsp op h E_INVALID_HANDLE
  | Some x =>
      match v_read x with
      | RExc => exc_rsp op
      | RErr c => err_rsp op h c
      | ROk v =>
          if len v <? off then err_rsp op h E_INVALID_OFFSET
          else if (off =? 0) && (len v <=? mtu - 1) then err_rsp op h E_NOT_LONG   (* only at offset 0 (D12f) *)
          else [OP_BLOB_RSP] ++ take (Z.min (mtu - 1) (len v - off)) (drop off v)
      end
  end.

(* --- Read Multiple (after D10a): MErr h c = Error Response for handle h, MExc = a read
   function raised something other than ATT_Error *)
Inductive mres (A : Type) := MOk (r : list A) | MErr (h c : Z) | MExc.
Arguments MOk {A} r.
Arguments MErr {A} h c.
Arguments MExc {A}.

Fixpoint rm_collect (mtu : Z) (vs : list view) (space : Z) (hs : list Z) : mres bytes :=
  match hs with
  | [] => MOk []
  | h :: hs' =>
      match find_view h vs with
      | None => MErr h E_NOT_FOUND
      | Some x =>
          match v_read x with
          | RExc => MExc
          | RErr c => MErr h c
          | ROk v =>
              let v' := take (Z.min (mtu - 1) 251) v in
              if space <? len v' then MOk []
              else
                match rm_collect mtu vs (space - len v') hs' with
                | MOk r => MOk (v' :: r)
                | e => e
                end
          end
      end
  end.

Definition h_rm (mtu : Z) (vs : list view) (op : Z) (hs : list Z) : bytes :=
  match rm_collect mtu vs (mtu - 1) hs with
  | MOk r => [OP_RM_RSP] ++ concat r
  | MErr h c => err_rsp op h c
  | MExc => exc_rsp op
  end.

(* --- Read Multiple Variable (after D10a and D10b) *)
Fixpoint rmv_collect (vs : list view) (space : Z) (hs : list Z) : mres (Z * bytes) :=
  match hs with
  | [] => MOk []
  | h :: hs' =>
      match find_view h vs with
      | None => MErr h E_NOT_FOUND
      | Some x =>
          match v_read x with
          | RExc => MExc
          | RErr c => MErr h c
          | ROk v =>
              let v' := take (Z.min (space - 2) 251) v in
              let space' := space - (2 + len v') in
              if space' <? 2 then MOk [(len v, v')]
              else
                match rmv_collect vs space' hs' with
                | MOk r => MOk ((len v, v') :: r)
                | e => e
                end
          end
      end
  end.

Definition rmv_entry (p : Z * bytes) : bytes := le16 (fst p) ++ snd p.

Definition h_rmv (mtu : Z) (vs : list view) (op : Z) (hs : list Z) : bytes :=
  match rmv_collect vs (mtu - 1) hs with
  | MOk r => [OP_RMV_RSP] ++ flat_map rmv_entry r
  | MErr h c => err_rsp op h c
  | MExc => exc_rsp op
  end.

(* write_cccd *)
Fixpoint subs_set (h : Z) (v : bytes) (subs : list (Z * bytes)) : list (Z * bytes) :=
  match subs with
  | [] => [(h, v)]
  | (k, w) :: subs' => if k =? h then (h, v) :: subs' else (k, w) :: subs_set h v subs'
  end.

(* an accepted write: a CCCD stores a 2-byte value in the bearer's subscription state (any
   other length is accepted and ignored), any other attribute takes the value *)
Definition store (db : list attr) (subs : list (Z * bytes)) (a : attr) (h : Z) (v : bytes)
  : list attr * list (Z * bytes) :=
  if negb (a_cccd a =? 0) then (db, if len v =? 2 then subs_set (a_cccd a) v subs else subs)
  else (db_set h v db, subs).

(* --- Write Request / Write Command: new database, new subscription state, PDU sent *)
Definition h_write (b : bearer) (db : list attr) (subs : list (Z * bytes)) (op h : Z) (v : bytes)
  : list attr * list (Z * bytes) * bytes :=
  match find_attr h db with
  | None => (db, subs, err_rsp op h E_INVALID_HANDLE)
  | Some a =>
      if MAX_VALUE_SIZE <? len v then (db, subs, err_rsp op h E_INVALID_ATTR_LEN)
      else
        match write_check b a with
        | WErr c => (db, subs, err_rsp op h c)
        | WExc => (db, subs, exc_rsp op)
        | WOk => (store db subs a h v, [OP_WRITE_RSP])
        end
  end.

Definition h_write_cmd (b : bearer) (db : list attr) (subs : list (Z * bytes)) (h : Z) (v : bytes)
  : list attr * list (Z * bytes) :=
  match find_attr h db with
  | None => (db, subs)
  | Some a =>
      if MAX_VALUE_SIZE <? len v then (db, subs)
      else match write_check b a with WOk => store db subs a h v | _ => (db, subs) end
  end.

(* ------------------------------------------------------------------ server state *)
Record srv := mkSrv {
  s_db : list attr;
  s_b : bearer;
  s_max_mtu : Z;               (* Server.max_mtu *)
  s_subs : list (Z * bytes);   (* subscribers[bearer]: characteristic handle -> CCCD value *)
  s_pending : bool;            (* an indication is awaiting its confirmation *)
  s_waiting : list bytes       (* indications (already built) waiting for the semaphore *)
}.

Definition set_db (st : srv) (db : list attr) : srv :=
  mkSrv db (s_b st) (s_max_mtu st) (s_subs st) (s_pending st) (s_waiting st).
Definition set_dbs (st : srv) (ds : list attr * list (Z * bytes)) : srv :=
  mkSrv (fst ds) (s_b st) (s_max_mtu st) (snd ds) (s_pending st) (s_waiting st).
Definition set_mtu (st : srv) (m : Z) : srv :=
  mkSrv (s_db st) (mkBearer m (b_enc (s_b st)) (b_auth (s_b st)) (b_enh (s_b st)))
        (s_max_mtu st) (s_subs st) (s_pending st) (s_waiting st).
Definition set_ind (st : srv) (p : bool) (w : list bytes) : srv :=
  mkSrv (s_db st) (s_b st) (s_max_mtu st) (s_subs st) p w.
Definition set_subs (st : srv) (subs : list (Z * bytes)) : srv :=
  mkSrv (s_db st) (s_b st) (s_max_mtu st) subs (s_pending st) (s_waiting st).

Definition views (st : srv) : list view := map (view_of (s_b st) (s_subs st)) (s_db st).
Definition mtu_of (st : srv) : Z := b_mtu (s_b st).

(* The ATT_MTU of a bearer as negotiated on the wire.
   Enhanced bearer: LeCreditBasedChannel.__init__ sets att_mtu = min(mtu, peer_mtu), the two
   MTU fields of the L2CAP connection request / response, and nothing changes it afterwards
   (after D10f an Exchange MTU Request is refused on an enhanced bearer).
   Fixed bearer: ATT_DEFAULT_MTU (23) until an Exchange MTU Request with client_rx_mtu >= 23
   is answered with server_rx_mtu = max_mtu: then min of the two. *)
Definition negotiated_mtu (local peer : Z) : Z := Z.min local peer.
Definition eatt_bearer (local peer : Z) (enc auth : bool) : bearer :=
  mkBearer (negotiated_mtu local peer) enc auth true.

(* on_att_exchange_mtu_request: refused on an enhanced bearer (generic on_att_request);
   otherwise the response first, then the MTU update *)
Definition h_mtu (st : srv) (m : Z) : srv * list bytes :=
  if b_enh (s_b st) then (st, [err_rsp OP_MTU_REQ 0 E_REQ_NOT_SUPPORTED])
  else
    (if DEFAULT_MTU <=? m then set_mtu st (negotiated_mtu (s_max_mtu st) m) else st,
     [[OP_MTU_RSP] ++ le16 (s_max_mtu st)]).

(* on_att_handle_value_confirmation (after D10d) followed by the loop running to idle:
   the indicating task finishes, releases the semaphore and the oldest waiting
   indication, if any, is sent. *)
Definition h_confirm (st : srv) : srv * list bytes :=
  if s_pending st then
    match s_waiting st with
    | [] => (set_ind st false [], [])
    | p :: w => (set_ind st true w, [p])
    end
  else (st, []).

(* The handler found by name.  None: no modelled handler interprets this request. *)
Definition handle (st : srv) (op : Z) (r : req) : option (srv * list bytes) :=
  let mtu := mtu_of st in
  let vs := views st in
  match r with
  | RMtu m => Some (h_mtu st m)
  | RFindInfo s e => Some (st, [h_find_info mtu vs op s e])
  | RFbtv s e t v => Some (st, [h_fbtv mtu vs op s e t v])
  | RRbt s e t => Some (st, [h_rbt mtu vs op s e t])
  | RRead h => Some (st, [h_read mtu vs op h])
  | RBlob h off => Some (st, [h_blob mtu vs op h off])
  | RRm hs => Some (st, [h_rm mtu vs op hs])
  | RRbgt s e t => Some (st, [h_rbgt mtu vs op s e t])
  | RRmv hs => Some (st, [h_rmv mtu vs op hs])
  | RWrite h v =>
      let '(ds, p) := h_write (s_b st) (s_db st) (s_subs st) op h v in Some (set_dbs st ds, [p])
  | RWriteCmd h v => Some (set_dbs st (h_write_cmd (s_b st) (s_db st) (s_subs st) h v), [])
  | RConfirm => Some (h_confirm st)
  | ROther => None
  end.

(* One PDU (opcode op, parameter bytes ps) received on the bearer:
   Device.on_gatt_pdu / the EATT sink (parse; a malformed request is answered with
   INVALID_PDU), then Server.on_gatt_pdu (handler by name, else ATT_REQUESTS membership). *)
Definition rx (st : srv) (op : Z) (ps : bytes) : option (srv * list bytes) :=
  match parse_pdu op ps with
  | PBad => Some (st, if memz op spec_requests then [err_rsp op 0 E_INVALID_PDU] else [])
  | POk r =>
      match assoc op m_handlers with
      | Some _ => handle st op r
      | None =>
          Some (st, if memz op spec_requests then [err_rsp op 0 E_REQ_NOT_SUPPORTED] else [])
      end
  end.

(* ------------------------------------------------------------------ server-initiated *)
Definition cccd_allows (bit : Z) (subs : list (Z * bytes)) (h : Z) : bool :=
  match assoc h subs with
  | Some [c0; _] => Z.testbit c0 bit
  | _ => false
  end.

(* value given by the application, or Attribute.read_value (an ATT_Error then propagates
   to the caller and nothing is sent) *)
Definition server_value (st : srv) (a : attr) (v : option bytes) : option bytes :=
  match v with
  | Some x => Some x
  | None => match read_value (s_b st) (s_subs st) a with ROk x => Some x | _ => None end
  end.

Definition hv_pdu (op mtu h : Z) (x : bytes) : bytes := [op] ++ le16 h ++ take (mtu - 3) x.

(* _notify_single_subscriber *)
Definition notify (st : srv) (h : Z) (v : option bytes) (force : bool) : srv * list bytes :=
  match find_attr h (s_db st) with
  | None => (st, [])
  | Some a =>
      if force || cccd_allows 0 (s_subs st) h then
        match server_value st a v with
        | None => (st, [])
        | Some x => (st, [hv_pdu OP_NOTIFY (mtu_of st) h x])
        end
      else (st, [])
  end.

(* _indicate_single_bearer: the PDU is built first, then the semaphore is taken *)
Definition indicate (st : srv) (h : Z) (v : option bytes) (force : bool) : srv * list bytes :=
  match find_attr h (s_db st) with
  | None => (st, [])
  | Some a =>
      if force || cccd_allows 1 (s_subs st) h then
        match server_value st a v with
        | None => (st, [])
        | Some x =>
            let p := hv_pdu OP_INDICATE (mtu_of st) h x in
            if s_pending st then (set_ind st true (s_waiting st ++ [p]), [])
            else (set_ind st true (s_waiting st), [p])
        end
      else (st, [])
  end.

Inductive op :=
| Rx (opc : Z) (ps : bytes)          (* a PDU from the peer *)
| RxConfirm2                         (* two confirmations processed back to back *)
| Notify (h : Z) (v : option bytes) (force : bool)
| Indicate (h : Z) (v : option bytes) (force : bool).

Definition step (st : srv) (o : op) : option (srv * list bytes) :=
  match o with
  | Rx opc ps => rx st opc ps
  | RxConfirm2 => Some (h_confirm st)      (* the second one finds the future done: ignored *)
  | Notify h v f => Some (notify st h v f)
  | Indicate h v f => Some (indicate st h v f)
  end.

(* Run a history; outputs per op, each tagged with the ATT_MTU in force before the op. *)
Fixpoint run (st : srv) (ops : list op) : option (srv * list (Z * list bytes)) :=
  match ops with
  | [] => Some (st, [])
  | o :: ops' =>
      match step st o with
      | None => None
      | Some (st1, out) =>
          match run st1 ops' with
          | None => None
          | Some (st2, outs) => Some (st2, (mtu_of st, out) :: outs)
          end
      end
  end.

Definition init (db : list attr) (b : bearer) (max_mtu : Z) : srv := mkSrv db b max_mtu [] false [].

(* ------------------------------------------------------------------ bursts
   Several PDUs delivered on the bearer before the event loop runs again (they arrived in one
   transport read).  Server.on_gatt_pdu is called for each in turn: the plain handlers (Exchange
   MTU, Find Information), the malformed-PDU branch and the handler-less branch act -- and
   send -- at once; a confirmation resolves the pending future at once (a second one finds
   it done: ignored, D10d) but the indicating task only resumes later; every task-wrapped
   handler is merely scheduled and runs afterwards, in arrival order, on the state the plain
   handlers left (e.g. a new ATT_MTU); the indication released by the confirmation goes last
   (the waiter is woken when the indicating task finishes, behind the scheduled handlers).
   Attribute value functions are assumed not to suspend (else handler tasks interleave). *)
Definition deferred (opc : Z) (ps : bytes) : bool :=
  match parse_pdu opc ps with
  | PBad => false
  | POk _ => match assoc opc m_handlers with Some true => true | _ => false end
  end.

(* first pass: what happens at once; returns state, "a confirmation arrived for a pending
   indication", PDUs sent at once (with the ATT_MTU in force), PDUs whose handler is scheduled *)
Fixpoint burst_now (st : srv) (conf : bool) (l : list (Z * bytes))
  : option (srv * bool * list (Z * bytes) * list (Z * bytes)) :=
  match l with
  | [] => Some (st, conf, [], [])
  | (opc, ps) :: l' =>
      if deferred opc ps then
        match burst_now st conf l' with
        | None => None
        | Some (st', c, out, d) => Some (st', c, out, (opc, ps) :: d)
        end
      else if opc =? OP_CONFIRM then burst_now st (conf || s_pending st) l'
      else
        match rx st opc ps with
        | None => None
        | Some (st1, out1) =>
            match burst_now st1 conf l' with
            | None => None
            | Some (st', c, out, d) => Some (st', c, map (fun p => (mtu_of st, p)) out1 ++ out, d)
            end
        end
  end.

(* second pass: the scheduled handlers, in order *)
Fixpoint burst_later (st : srv) (d : list (Z * bytes)) : option (srv * list (Z * bytes)) :=
  match d with
  | [] => Some (st, [])
  | (opc, ps) :: d' =>
      match rx st opc ps with
      | None => None
      | Some (st1, out1) =>
          match burst_later st1 d' with
          | None => None
          | Some (st', out) => Some (st', map (fun p => (mtu_of st, p)) out1 ++ out)
          end
      end
  end.

(* replies (tagged with the ATT_MTU in force when sent), then what the confirmation released *)
Definition burst (st : srv) (l : list (Z * bytes)) : option (srv * list (Z * bytes) * list bytes) :=
  match burst_now st false l with
  | None => None
  | Some (st1, conf, out1, d) =>
      match burst_later st1 d with
      | None => None
      | Some (st2, out2) =>
          let '(st3, rel) := if conf then h_confirm st2 else (st2, []) in
          Some (st3, out1 ++ out2, rel)
      end
  end.

Definition count_requests (l : list (Z * bytes)) : Z :=
  len (filter (fun x => memz (fst x) spec_requests) l).

(* histories mixing single stimuli and bursts (used by the correspondence) *)
Inductive bop := Single (o : op) | Burst (l : list (Z * bytes)).

Definition bstep (st : srv) (o : bop) : option (srv * list bytes) :=
  match o with
  | Single o' => step st o'
  | Burst l =>
      match burst st l with
      | None => None
      | Some (st', out, rel) => Some (st', map snd out ++ rel)
      end
  end.

Fixpoint brun (st : srv) (ops : list bop) : option (srv * list (Z * list bytes)) :=
  match ops with
  | [] => Some (st, [])
  | o :: ops' =>
      match bstep st o with
      | None => None
      | Some (st1, out) =>
          match brun st1 ops' with
          | None => None
          | Some (st2, outs) => Some (st2, (mtu_of st, out) :: outs)
          end
      end
  end.

(* ------------------------------------------------------------------ several bearers on one server
   Server keeps `subscribers`, `indication_semaphores` and `pending_confirmations` keyed by
   bearer; the ATT_MTU and the security state live on the bearer / its connection.  So the
   server state is the database (and the constant max_mtu) plus one [bst] per bearer, and a
   stimulus on bearer i is [step] on the single-bearer state made of the database and the
   i-th [bst]: NOTHING but the database is shared between bearers.  (An EATT bearer has
   the security state of the connection it runs on; that is fixed when the bearer is
   listed.) *)
Record bst := mkBst {
  bs_b : bearer;
  bs_subs : list (Z * bytes);
  bs_pending : bool;
  bs_waiting : list bytes
}.

Record msrv := mkM { m_db : list attr; m_max_mtu : Z; m_bs : list bst }.

Definition proj (m : msrv) (x : bst) : srv :=
  mkSrv (m_db m) (bs_b x) (m_max_mtu m) (bs_subs x) (bs_pending x) (bs_waiting x).
Definition bst_of (st : srv) : bst := mkBst (s_b st) (s_subs st) (s_pending st) (s_waiting st).

Fixpoint set_nth {A : Type} (n : nat) (x : A) (l : list A) : list A :=
  match l, n with
  | [], _ => []
  | _ :: l', O => x :: l'
  | y :: l', S n' => y :: set_nth n' x l'
  end.

(* a stimulus for a bearer the server does not know is ignored *)
Definition mstep (m : msrv) (i : nat) (o : op) : option (msrv * list bytes) :=
  match nth_error (m_bs m) i with
  | None => Some (m, [])
  | Some x =>
      match step (proj m x) o with
      | None => None
      | Some (st', out) => Some (mkM (s_db st') (m_max_mtu m) (set_nth i (bst_of st') (m_bs m)), out)
      end
  end.

(* outputs per op: the bearer they were sent on and the PDUs *)
Fixpoint mrun (m : msrv) (ops : list (nat * op)) : option (msrv * list (nat * list bytes)) :=
  match ops with
  | [] => Some (m, [])
  | (i, o) :: ops' =>
      match mstep m i o with
      | None => None
      | Some (m1, out) =>
          match mrun m1 ops' with
          | None => None
          | Some (m2, outs) => Some (m2, (i, out) :: outs)
          end
      end
  end.

Definition minit (db : list attr) (max_mtu : Z) (bs : list bearer) : msrv :=
  mkM db max_mtu (map (fun b => mkBst b [] false []) bs).

(* An enhanced bearer closes while the ACL link stays up (register_eatt hooks
   Server.on_disconnection(channel) on the channel's EVENT_CLOSE): on_disconnection pops the
   entries of THAT bearer from subscribers / indication_semaphores / pending_confirmations --
   bearer i's record is reset, nothing else is touched. *)
Definition mclose (m : msrv) (i : nat) : msrv :=
  match nth_error (m_bs m) i with
  | None => m
  | Some x => mkM (m_db m) (m_max_mtu m) (set_nth i (mkBst (bs_b x) [] false []) (m_bs m))
  end.

Inductive mop := MOn (i : nat) (o : op) | MClose (i : nat).

Definition mstep2 (m : msrv) (x : mop) : option (msrv * nat * list bytes) :=
  match x with
  | MOn i o => match mstep m i o with None => None | Some (n, out) => Some (n, i, out) end
  | MClose i => Some (mclose m i, i, [])
  end.

Fixpoint mrun2 (m : msrv) (ops : list mop) : option (msrv * list (nat * list bytes)) :=
  match ops with
  | [] => Some (m, [])
  | x :: ops' =>
      match mstep2 m x with
      | None => None
      | Some (m1, i, out) =>
          match mrun2 m1 ops' with
          | None => None
          | Some (m2, outs) => Some (m2, (i, out) :: outs)
          end
      end
  end.

(* what was sent to bearer i over a history *)
Definition outs_of (i : nat) (outs : list (nat * list bytes)) : list (list bytes) :=
  map snd (filter (fun x => Nat.eqb (fst x) i) outs).

(* ------------------------------------------------------------------ trace predicates *)
Definition is_indication (p : bytes) : bool :=
  match p with x :: _ => x =? OP_INDICATE | [] => false end.

Definition is_confirm (o : op) : bool :=
  match o with Rx opc _ => opc =? OP_CONFIRM | RxConfirm2 => true | _ => false end.

(* at most one indication awaiting confirmation: walking the history, an indication may
   be transmitted only when none is outstanding; a received confirmation clears it. *)
Fixpoint sent_ok (outstanding : bool) (ps : list bytes) : option bool :=
  match ps with
  | [] => Some outstanding
  | p :: ps' =>
      if is_indication p then (if outstanding then None else sent_ok true ps')
      else sent_ok outstanding ps'
  end.

Fixpoint ind_ok (outstanding : bool) (ops : list op) (outs : list (Z * list bytes)) : bool :=
  match ops, outs with
  | o :: ops', (_, out) :: outs' =>
      match sent_ok (if is_confirm o then false else outstanding) out with
      | None => false
      | Some o' => ind_ok o' ops' outs'
      end
  | _, _ => true
  end.

(* one indication outstanding PER BEARER: [pend] holds, per bearer, whether an indication
   awaits its confirmation; a confirmation received on bearer i clears bearer i's flag only *)
Fixpoint mind_ok (pend : list bool) (ops : list (nat * op)) (outs : list (nat * list bytes)) : bool :=
  match ops, outs with
  | (i, o) :: ops', (_, out) :: outs' =>
      match sent_ok (if is_confirm o then false else nth i pend false) out with
      | None => false
      | Some p' => mind_ok (set_nth i p' pend) ops' outs'
      end
  | _, _ => true
  end.

(* [mind_ok] with closes: the close of bearer i clears bearer i's flag only *)
Fixpoint mind_ok2 (pend : list bool) (ops : list mop) (outs : list (nat * list bytes)) : bool :=
  match ops, outs with
  | MOn i o :: ops', (_, out) :: outs' =>
      match sent_ok (if is_confirm o then false else nth i pend false) out with
      | None => false
      | Some p' => mind_ok2 (set_nth i p' pend) ops' outs'
      end
  | MClose i :: ops', (_, out) :: outs' =>
      match out with [] => mind_ok2 (set_nth i false pend) ops' outs' | _ => false end
  | _, _ => true
  end.

Definition pdus_le (m : Z) (out : list bytes) : bool := forallb (fun p => len p <=? m) out.
Definition outs_le_mtu (outs : list (Z * list bytes)) : bool :=
  forallb (fun mo => pdus_le (fst mo) (snd mo)) outs.

(* the reply to request [op]: its response (opcode + 1) or an Error Response naming it *)
Definition reply_for (op : Z) (p : bytes) : bool :=
  match p with
  | x :: rest =>
      (x =? op + 1) ||
      ((x =? OP_ERROR) && match rest with [o; _; _; _] => o =? op | _ => false end)
  | [] => false
  end.

(* ------------------------------------------------------------------ C11: who may access *)
(* the property's notion: readable and the link meets the read requirement (authorisation
   is never granted by this stack); a refusing callback discloses nothing either *)
Definition link_ok_read (b : bearer) (a : attr) : bool :=
  negb (Z.testbit (a_perm a) PB_READ_ENC && negb (b_enc b)) &&
  negb (Z.testbit (a_perm a) PB_READ_AUTHN && negb (b_auth b)) &&
  negb (Z.testbit (a_perm a) PB_READ_AUTHZ).
(* the value object itself serves the access (a server-made CCCD always does) *)
Definition rd_ok (a : attr) : bool := negb (a_cccd a =? 0) || (a_rerr a =? 0).
Definition wr_ok (a : attr) : bool := negb (a_cccd a =? 0) || (a_werr a =? 0).
Definition may_read (b : bearer) (a : attr) : bool :=
  Z.testbit (a_perm a) PB_READABLE && link_ok_read b a && rd_ok a.

Definition link_ok_write (b : bearer) (a : attr) : bool :=
  negb (Z.testbit (a_perm a) PB_WRITE_ENC && negb (b_enc b)) &&
  negb (Z.testbit (a_perm a) PB_WRITE_AUTHN && negb (b_auth b)) &&
  negb (Z.testbit (a_perm a) PB_WRITE_AUTHZ).
Definition may_write (b : bearer) (a : attr) : bool :=
  Z.testbit (a_perm a) PB_WRITEABLE && link_ok_write b a && wr_ok a.

(* Known finding D11a: the class of attributes on which the implementation deviates --
   not READABLE (WRITEABLE) but served because no link requirement refuses the access. *)
Definition d11a_read_witness (b : bearer) (a : attr) : bool :=
  negb (Z.testbit (a_perm a) PB_READABLE) && link_ok_read b a && rd_ok a.
Definition d11a_write_witness (b : bearer) (a : attr) : bool :=
  negb (Z.testbit (a_perm a) PB_WRITEABLE) && link_ok_write b a && wr_ok a.
Definition d11a_free_read (b : bearer) (db : list attr) : bool :=
  forallb (fun a => negb (d11a_read_witness b a)) db.
Definition d11a_free_write (b : bearer) (db : list attr) : bool :=
  forallb (fun a => negb (d11a_write_witness b a)) db.

(* two attributes that differ at most in a value the bearer may not read *)
Definition attr_sim (b : bearer) (a1 a2 : attr) : Prop :=
  a_handle a1 = a_handle a2 /\ a_type a1 = a_type a2 /\ a_perm a1 = a_perm a2 /\
  a_end a1 = a_end a2 /\ a_rerr a1 = a_rerr a2 /\ a_werr a1 = a_werr a2 /\
  a_cccd a1 = a_cccd a2 /\
  (may_read b a1 = true -> a_value a1 = a_value a2).

(* ------------------------------------------------------------------ tie to the source *)
Fixpoint list_eqb {A : Type} (eqb : A -> A -> bool) (a b : list A) : bool :=
  match a, b with
  | [], [] => true
  | x :: a', y :: b' => eqb x y && list_eqb eqb a' b'
  | _, _ => false
  end.

Definition opt_eqb {A : Type} (eqb : A -> A -> bool) (a b : option A) : bool :=
  match a, b with
  | None, None => true
  | Some x, Some y => eqb x y
  | _, _ => false
  end.

Definition all_opcodes : list Z := map Z.of_nat (seq 0 256).

(* The tables and constants the model is written against are those of the current source. *)
Definition tables_match : bool :=
  (* request set, handler set and kind, field layouts: pointwise on 0..255 *)
  forallb (fun o => Bool.eqb (memz o g_requests) (memz o spec_requests)) all_opcodes
  && forallb (fun o => opt_eqb Bool.eqb (assoc o g_handlers) (assoc o m_handlers)) all_opcodes
  && forallb (fun o => opt_eqb (list_eqb Z.eqb) (assoc o g_shapes) (assoc o m_shapes)) all_opcodes
  && forallb (fun o => (0 <=? o) && (o <? 256)) (g_requests ++ map fst g_handlers ++ map fst g_shapes)
  (* every awaited read_value / write_value of a task-wrapped handler is inside a try that
     catches ATT_Error; malformed requests and handler-less requests are answered *)
  && forallb (fun x => snd x) g_guarded
  (* an exception other than ATT_Error escaping a task-wrapped handler is answered (request
     handlers, D10e) or swallowed (Write Command) *)
  && forallb (fun x => snd x) g_exc_guarded
  && g_has_generic_request_handler && g_has_invalid_pdu_handler
  (* opcodes used by the model *)
  && list_eqb Z.eqb
       [g_ATT_ERROR_RESPONSE; g_ATT_EXCHANGE_MTU_RESPONSE; g_ATT_FIND_INFORMATION_RESPONSE;
        g_ATT_FIND_BY_TYPE_VALUE_RESPONSE; g_ATT_READ_BY_TYPE_RESPONSE; g_ATT_READ_RESPONSE;
        g_ATT_READ_BLOB_RESPONSE; g_ATT_READ_MULTIPLE_RESPONSE; g_ATT_READ_BY_GROUP_TYPE_RESPONSE;
        g_ATT_WRITE_RESPONSE; g_ATT_HANDLE_VALUE_NOTIFICATION; g_ATT_HANDLE_VALUE_INDICATION;
        g_ATT_HANDLE_VALUE_CONFIRMATION; g_ATT_READ_MULTIPLE_VARIABLE_RESPONSE; g_ATT_WRITE_COMMAND]
       [OP_ERROR; OP_MTU_RSP; OP_FIND_INFO_RSP; OP_FBTV_RSP; OP_RBT_RSP; OP_READ_RSP; OP_BLOB_RSP;
        OP_RM_RSP; OP_RBGT_RSP; OP_WRITE_RSP; OP_NOTIFY; OP_INDICATE; OP_CONFIRM; OP_RMV_RSP;
        OP_WRITE_CMD]
  (* every response opcode is its request's opcode + 1 *)
  && list_eqb Z.eqb (map (fun o => o + 1) spec_requests)
       [g_ATT_EXCHANGE_MTU_RESPONSE; g_ATT_FIND_INFORMATION_RESPONSE;
        g_ATT_FIND_BY_TYPE_VALUE_RESPONSE; g_ATT_READ_BY_TYPE_RESPONSE; g_ATT_READ_RESPONSE;
        g_ATT_READ_BLOB_RESPONSE; g_ATT_READ_MULTIPLE_RESPONSE; g_ATT_READ_BY_GROUP_TYPE_RESPONSE;
        g_ATT_WRITE_RESPONSE; g_ATT_PREPARE_WRITE_RESPONSE; g_ATT_EXECUTE_WRITE_RESPONSE;
        g_ATT_READ_MULTIPLE_VARIABLE_RESPONSE]
  (* permission bits, error codes, sizes, UUIDs *)
  && list_eqb Z.eqb g_perms
       (map (fun k => 2 ^ k) [PB_READABLE; PB_WRITEABLE; PB_READ_ENC; PB_WRITE_ENC; PB_READ_AUTHN;
                              PB_WRITE_AUTHN; PB_READ_AUTHZ; PB_WRITE_AUTHZ])
  && list_eqb Z.eqb g_errors
       [E_INVALID_HANDLE; E_READ_NOT_PERMITTED; E_WRITE_NOT_PERMITTED; E_INVALID_PDU; E_INSUFF_AUTHN;
        E_REQ_NOT_SUPPORTED; E_INVALID_OFFSET; E_INSUFF_AUTHZ; E_NOT_FOUND; E_NOT_LONG;
        E_INVALID_ATTR_LEN; E_UNLIKELY; E_INSUFF_ENC; E_UNSUPPORTED_GROUP]
  && (g_default_mtu =? DEFAULT_MTU) && (g_max_value_size =? MAX_VALUE_SIZE)
  && (DEFAULT_MTU <=? g_server_max_mtu) && (g_server_max_mtu <? 65536)
  && list_eqb Z.eqb g_base_uuid base_uuid
  && list_eqb (list_eqb Z.eqb) g_group_types [UUID_PRIMARY; UUID_SECONDARY; UUID_CHARACTERISTIC].

(* ------------------------------------------------------------------ harness helpers *)
(* Type-checking and printing long list literals dominates the cost of an evaluation, so the
   harness describes long byte strings as arithmetic progressions and reads back digests. *)
Definition mkb (n a d : Z) : bytes :=
  map (fun i => (a + d * Z.of_nat i) mod 256) (seq 0 (Z.to_nat n)).
Definition hash (b : bytes) : Z := fold_left (fun acc x => (acc * 257 + x + 1) mod 1000000007) b 0.
(* length, first 24 bytes, position-sensitive hash of all bytes *)
Definition digest (b : bytes) : Z * bytes * Z := (len b, take 24 b, hash b).

Definition opt_out (r : option (srv * list (Z * list bytes)))
  : option (list (list (Z * bytes * Z))) :=
  match r with None => None | Some (_, outs) => Some (map (fun mo => map digest (snd mo)) outs) end.
Definition final_values (r : option (srv * list (Z * list bytes))) : list (Z * bytes * Z) :=
  match r with None => [] | Some (st, _) => map (fun a => digest (a_value a)) (s_db st) end.
Definition final_mtu (r : option (srv * list (Z * list bytes))) : Z :=
  match r with None => -1 | Some (st, _) => mtu_of st end.

Definition opt_out_m (r : option (msrv * list (nat * list bytes)))
  : option (list (list (Z * bytes * Z))) :=
  match r with None => None | Some (_, outs) => Some (map (fun io => map digest (snd io)) outs) end.
Definition final_values_m (r : option (msrv * list (nat * list bytes))) : list (Z * bytes * Z) :=
  match r with None => [] | Some (m, _) => map (fun a => digest (a_value a)) (m_db m) end.
Definition final_mtus (r : option (msrv * list (nat * list bytes))) : list Z :=
  match r with None => [] | Some (m, _) => map (fun x => b_mtu (bs_b x)) (m_bs m) end.

Definition opt_out_m2 := opt_out_m.
