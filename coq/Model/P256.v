(* C14 - bumble/crypto/builtin.py  _JacobianPoint (double / __add__ / __mul__ / to_affine),
   _EllipticCurve.generate_public_key / ecdh_shared_secret and EccKey.x / y / dh as written,
   AFTER fixes/D14.patch (the peer public key is validated against the curve equation modulo p
   before any arithmetic; like OpenSSL, coordinates >= p are read modulo p).  Integers are unbounded Z exactly as Python ints; Python's
   x % p with p > 0 is Z.modulo.  The curve parameters come from Gen/C14Tables.v.
   Executable Gallina only. *)
From Coq Require Import ZArith List Bool.
From BV Require Import Gen.C14Tables Model.CryptoBytes.
Import ListNotations.
Open Scope Z_scope.

Record curve := mk_curve { cp : Z; ca : Z; cb : Z; cn : Z; cgx : Z; cgy : Z }.

(* _EllipticCurve.SECP256R1() *)
Definition secp256r1 : curve := mk_curve p256_p p256_a p256_b p256_n p256_g_x p256_g_y.

Definition jac : Type := (Z * Z * Z)%type.              (* _JacobianPoint x y z *)
Definition jac_inf : jac := (1, 1, 0).                   (* point_at_infinity *)

(* _Point, or the ValueError of pow(z, -1, p) *)
Inductive affine := Infinite | Affine (x y : Z) | NotInvertible.

(* pow(z, -1, p): extended Euclid on (z mod p, p); None = "base is not invertible for the
   given modulus" (or out of fuel, which 2*log2(p)+4 steps exclude for p > 0) *)
Fixpoint egcd (fuel : nat) (a b x0 x1 : Z) : option (Z * Z) :=
  match fuel with
  | O => None
  | S f => if b =? 0 then Some (a, x0) else egcd f b (a mod b) x1 (x0 - (a / b) * x1)
  end.
Definition modinv (z p : Z) : option Z :=
  match egcd (Z.to_nat (2 * Z.log2 p + 4)) (z mod p) p 1 0 with
  | Some (g, x) => if g =? 1 then Some (x mod p) else None
  | None => None
  end.

Section Curve.
  Variable c : curve.
  Let p := cp c.

  Definition from_affine (x y : Z) : jac := (x, y, 1).

  Definition to_affine (P : jac) : affine :=
    let '(x, y, z) := P in
    if z =? 0 then Infinite else
    match modinv z p with
    | None => NotInvertible
    | Some inv_z => Affine ((x * inv_z ^ 2) mod p) ((y * inv_z ^ 3) mod p)
    end.

  Definition jac_double (P : jac) : jac :=
    let '(x, y, z) := P in
    if (z =? 0) || (y =? 0) then jac_inf else
    let s := 4 * x * y ^ 2 in
    let m := 3 * x ^ 2 + ca c * z ^ 4 in
    let x2 := m ^ 2 - 2 * s in
    let y2 := m * (s - x2) - 8 * y ^ 4 in
    let z2 := 2 * y * z in
    (x2 mod p, y2 mod p, z2 mod p).

  Definition jac_add (P Q : jac) : jac :=
    let '(x1, y1, z1) := P in
    let '(x2, y2, z2) := Q in
    if (z1 =? 0) && (z2 =? 0) then jac_inf
    else if z1 =? 0 then Q
    else if z2 =? 0 then P
    else
      let u1 := (x1 * z2 ^ 2) mod p in
      let u2 := (x2 * z1 ^ 2) mod p in
      let s1 := (y1 * z2 ^ 3) mod p in
      let s2 := (y2 * z1 ^ 3) mod p in
      if u1 =? u2 then
        (if negb (s1 =? s2) then jac_inf else jac_double P)
      else
        let h := u2 - u1 in
        let r := s2 - s1 in
        let h3 := (h ^ 3) mod p in
        let u1h2 := (u1 * h ^ 2) mod p in
        let x3 := r ^ 2 - h3 - 2 * u1h2 in
        let y3 := r * (u1h2 - x3) - s1 * h3 in
        let z3 := h * z1 * z2 in
        (x3 mod p, y3 mod p, z3 mod p).

  (* __mul__: while k > 0: if k % 2: result += addend; addend = addend.double(); k >>= 1 *)
  Fixpoint jac_mul_pos (k : positive) (addend result : jac) : jac :=
    match k with
    | xH => jac_add result addend
    | xO k' => jac_mul_pos k' (jac_double addend) result
    | xI k' => jac_mul_pos k' (jac_double addend) (jac_add result addend)
    end.
  Definition jac_mul (P : jac) (k : Z) : jac :=
    match k with
    | Zpos k' => jac_mul_pos k' P jac_inf
    | _ => jac_inf                                       (* k <= 0: the loop body never runs *)
    end.

  (* generate_public_key(private_key) *)
  Definition public_key (d : Z) : affine := to_affine (jac_mul (cgx c, cgy c, 1) d).

  (* is_on_curve (added by fixes/D14.patch) for a finite point *)
  Definition on_curve (x y : Z) : bool :=
    (y * y - (x * x * x + ca c * x + cb c)) mod p =? 0.

  Inductive ecdh_result :=
  | Secret (bs : list Z)
  | InvalidKey              (* InvalidPacketError: not a valid point on the curve *)
  | InfiniteResult          (* InvalidPacketError: shared point at infinity *)
  | ArithmeticFailure.      (* ValueError from pow(z, -1, p); unreachable for prime p *)

  (* ecdh_shared_secret(private_key, other_public_key) *)
  Definition ecdh (d x y : Z) : ecdh_result :=
    if negb (on_curve x y) then InvalidKey else
    match to_affine (jac_mul (from_affine x y) d) with
    | Infinite => InfiniteResult
    | NotInvertible => ArithmeticFailure
    | Affine sx _ => Secret (to_be 32 sx)
    end.

  (* the same without the validation: the code before fixes/D14.patch (used only to state
     what the defect was) *)
  Definition ecdh_unchecked (d x y : Z) : ecdh_result :=
    match to_affine (jac_mul (from_affine x y) d) with
    | Infinite => InfiniteResult
    | NotInvertible => ArithmeticFailure
    | Affine sx _ => Secret (to_be 32 sx)
    end.

  (* EccKey.dh(public_key_x, public_key_y) *)
  Definition ecc_dh (d : Z) (xb yb : list Z) : ecdh_result := ecdh d (be_int xb) (be_int yb).

  (* An EccKey object used for a sequence of dh() calls: the object holds nothing but the
     private scalar, so the k-th result depends on the k-th peer key only. *)
  Definition ecc_dh_history (d : Z) (calls : list (list Z * list Z)) : list ecdh_result :=
    map (fun xy => ecc_dh d (fst xy) (snd xy)) calls.

  (* (EccKey.x, EccKey.y): an infinite _Point carries x = y = 0 *)
  Definition ecc_public (d : Z) : option (list Z * list Z) :=
    match public_key d with
    | Affine x y => Some (to_be 32 x, to_be 32 y)
    | Infinite => Some (to_be 32 0, to_be 32 0)
    | NotInvertible => None
    end.
End Curve.
