(* Set-up and teardown of an RFCOMM multiplexer and of one data link on it
   (bumble/rfcomm.py: Multiplexer.connect / on_sabm_frame / on_ua_frame / on_dm_frame /
   on_disc_frame / on_mcc_pn / on_mcc_msc / open_dlc / disconnect / on_dlc_open_complete /
   on_dlc_disconnection / on_l2cap_channel_close, DLC.accept / connect / on_sabm_frame /
   on_ua_frame / on_disc_frame / on_mcc_msc / disconnect / abort), both ends, as a
   finite two-party system over two FIFO channels.  Executable Gallina only.

   A is the initiator (Client), B the responder (Server).  One DLCI slot per end
   (dlcs_independent covers several links on the data path; opening is sequential in the
   code: open_dlc refuses while the multiplexer is OPENING).  The model is of the code
   AFTER fix D20d (DLC.on_disc_frame closes the DLC: DISCONNECTED, removed from
   Multiplexer.dlcs, pending disconnect() resolved).
   Data frames (UIH on the DLCI) do not change these states and are the subject of
   Model/Rfcomm.v; they are not part of this model.  DLC.State.INIT exists only inside
   one handler (the DLC is created and accept()/connect() is called at once), so a
   stored DLC is never observed in INIT.
   Environment assumptions (also hypotheses of the harness schedules):
   only the initiator disconnects the multiplexer (Server has no such API); the
   application does not call open_dlc for a channel whose DLC it still holds; the L2CAP
   channel is closed in the orderly way of Client.shutdown (after the multiplexer
   disconnect has completed) - abrupt link loss is property C16's subject. *)
From Coq Require Import ZArith List Bool.
Import ListNotations.

Inductive mst := MInit | MConnecting | MConnected | MOpening | MDisconnecting | MDisconnected.
Inductive dst := DConnecting | DConnected | DDisconnecting | DDisconnected | DReset.

(* frames: the 0 suffix is DLCI 0 (multiplexer control channel), d the data link's DLCI *)
Inductive fr :=
| SABM0 | UA0 | DISC0
| PNcmd | PNrsp | MSCcmd | MSCrsp      (* UIH on DLCI 0 carrying an MCC *)
| DMd | SABMd | UAd | DISCd.

Record side := mkSide { sd_mux : mst; sd_dlc : option dst }.

Record st := mkSt {
  st_a : side; st_b : side;
  st_accept : bool;          (* does B's acceptor accept the channel *)
  st_closed : bool;          (* the L2CAP channel has been closed *)
  st_ab : list fr; st_ba : list fr
}.

Inductive lbl :=
| AConnect | AOpen | ADlcDisc | BDlcDisc | AMuxDisc
| SetAccept (b : bool) | L2capClose | DeliverAB | DeliverBA.

Definition all_labels : list lbl :=
  [AConnect; AOpen; ADlcDisc; BDlcDisc; AMuxDisc; SetAccept true; SetAccept false;
   L2capClose; DeliverAB; DeliverBA].

Definition sm_init : st := mkSt (mkSide MInit None) (mkSide MInit None) true false [] [].

Definition is_mst (a b : mst) : bool :=
  match a, b with
  | MInit, MInit | MConnecting, MConnecting | MConnected, MConnected | MOpening, MOpening
  | MDisconnecting, MDisconnecting | MDisconnected, MDisconnected => true
  | _, _ => false
  end.
Definition is_dst (a b : dst) : bool :=
  match a, b with
  | DConnecting, DConnecting | DConnected, DConnected | DDisconnecting, DDisconnecting
  | DDisconnected, DDisconnected | DReset, DReset => true
  | _, _ => false
  end.
Definition dlc_is (x : option dst) (d : dst) : bool :=
  match x with Some y => is_dst y d | None => false end.

(* Multiplexer.on_pdu for one end: new state and the frames it sends.
   responder: the end has an acceptor (Server sets it); accept: the acceptor's answer *)
Definition on_frame (responder accept : bool) (s : side) (f : fr) : side * list fr :=
  match f with
  | SABM0 =>
      if is_mst (sd_mux s) MInit then (mkSide MConnected (sd_dlc s), [UA0]) else (s, [])
  | UA0 =>
      match sd_mux s with
      | MConnecting => (mkSide MConnected (sd_dlc s), [])
      | MDisconnecting => (mkSide MDisconnected (sd_dlc s), [])
      | _ => (s, [])
      end
  | DISC0 => (mkSide MDisconnected (sd_dlc s), [UA0])
  | DMd =>
      if is_mst (sd_mux s) MOpening then (mkSide MConnected (sd_dlc s), []) else (s, [])
  | PNcmd =>
      if responder then
        if accept then (mkSide (sd_mux s) (Some DConnecting), [PNrsp])   (* DLC(...); accept() *)
        else (s, [DMd])
      else (s, [])                                                        (* no acceptor registered *)
  | PNrsp =>
      if is_mst (sd_mux s) MOpening
      then (mkSide (sd_mux s) (Some DConnecting), [SABMd])                (* DLC(...); connect() *)
      else (s, [])
  | MSCcmd =>
      match sd_dlc s with Some _ => (s, [MSCrsp]) | None => (s, []) end
  | MSCrsp => (s, [])
  | SABMd =>
      match sd_dlc s with
      | Some DConnecting => (mkSide (sd_mux s) (Some DConnected), [UAd; MSCcmd])
      | _ => (s, [])
      end
  | UAd =>
      match sd_dlc s with
      | Some DConnecting => (mkSide MConnected (Some DConnected), [MSCcmd])   (* on_dlc_open_complete *)
      | Some DDisconnecting => (mkSide (sd_mux s) None, [])                   (* on_dlc_disconnection *)
      | _ => (s, [])
      end
  | DISCd =>
      match sd_dlc s with
      | Some _ => (mkSide (sd_mux s) None, [UAd])
      | None => (s, [])
      end
  end.

Definition abort (s : side) : side :=
  mkSide (sd_mux s) (match sd_dlc s with Some _ => Some DReset | None => None end).

(* a label that is not enabled is a stutter *)
Definition sm_step_gen (onf : bool -> bool -> side -> fr -> side * list fr) (s : st) (l : lbl) : st :=
  if st_closed s then s else
  match l with
  | AConnect =>
      if is_mst (sd_mux (st_a s)) MInit
      then mkSt (mkSide MConnecting (sd_dlc (st_a s))) (st_b s) (st_accept s) false
                (st_ab s ++ [SABM0]) (st_ba s)
      else s
  | AOpen =>
      match sd_mux (st_a s), sd_dlc (st_a s) with
      | MConnected, None =>
          mkSt (mkSide MOpening None) (st_b s) (st_accept s) false (st_ab s ++ [PNcmd]) (st_ba s)
      | _, _ => s
      end
  | ADlcDisc =>
      if dlc_is (sd_dlc (st_a s)) DConnected
      then mkSt (mkSide (sd_mux (st_a s)) (Some DDisconnecting)) (st_b s) (st_accept s) false
                (st_ab s ++ [DISCd]) (st_ba s)
      else s
  | BDlcDisc =>
      if dlc_is (sd_dlc (st_b s)) DConnected
      then mkSt (st_a s) (mkSide (sd_mux (st_b s)) (Some DDisconnecting)) (st_accept s) false
                (st_ab s) (st_ba s ++ [DISCd])
      else s
  | AMuxDisc =>
      if is_mst (sd_mux (st_a s)) MConnected
      then mkSt (mkSide MDisconnecting (sd_dlc (st_a s))) (st_b s) (st_accept s) false
                (st_ab s ++ [DISC0]) (st_ba s)
      else s
  | SetAccept b => mkSt (st_a s) (st_b s) b false (st_ab s) (st_ba s)
  | L2capClose =>
      (* Client.shutdown: awaits multiplexer.disconnect(), then closes the L2CAP channel;
         both ends' on_l2cap_channel_close abort their DLCs *)
      match st_ab s, st_ba s, sd_mux (st_a s) with
      | [], [], MDisconnected => mkSt (abort (st_a s)) (abort (st_b s)) (st_accept s) true [] []
      | _, _, _ => s
      end
  | DeliverAB =>
      match st_ab s with
      | [] => s
      | f :: rest =>
          let '(b', out) := onf true (st_accept s) (st_b s) f in
          mkSt (st_a s) b' (st_accept s) false rest (st_ba s ++ out)
      end
  | DeliverBA =>
      match st_ba s with
      | [] => s
      | f :: rest =>
          let '(a', out) := onf false false (st_a s) f in
          mkSt a' (st_b s) (st_accept s) false (st_ab s ++ out) rest
      end
  end.

Definition sm_step : st -> lbl -> st := sm_step_gen on_frame.

Fixpoint sm_run (s : st) (ls : list lbl) : st :=
  match ls with [] => s | l :: r => sm_run (sm_step s l) r end.

(* the code before fix D20d: DLC.on_disc_frame only answered UA *)
Definition on_frame_unfixed (responder accept : bool) (s : side) (f : fr) : side * list fr :=
  match f with
  | DISCd => match sd_dlc s with Some _ => (s, [UAd]) | None => (s, []) end
  | _ => on_frame responder accept s f
  end.
Fixpoint sm_run_unfixed (s : st) (ls : list lbl) : st :=
  match ls with [] => s | l :: r => sm_run_unfixed (sm_step_gen on_frame_unfixed s l) r end.

(* ---------- the property ---------- *)
Definition quiescent (s : st) : bool :=
  match st_ab s, st_ba s with [], [] => true | _, _ => false end.

Definition mux_agree (a b : mst) : bool :=
  match a, b with
  | MInit, MInit | MConnected, MConnected | MDisconnected, MDisconnected => true
  | _, _ => false
  end.

Definition dlc_agree (a b : option dst) : bool :=
  match a, b with
  | None, None => true
  | Some DConnected, Some DConnected => true
  | Some DReset, Some DReset => true
  | _, _ => false
  end.

(* both ends in matching, settled states *)
Definition agree (s : st) : bool :=
  mux_agree (sd_mux (st_a s)) (sd_mux (st_b s)) && dlc_agree (sd_dlc (st_a s)) (sd_dlc (st_b s)).

Definition good (s : st) : bool := if quiescent s then agree s else true.

(* deliver everything in flight, alternating directions, at most n rounds *)
Fixpoint drain (n : nat) (s : st) : st :=
  match n with
  | O => s
  | S k => if quiescent s then s else drain k (sm_step (sm_step s DeliverAB) DeliverBA)
  end.

(* ---------- observables for the correspondence check ---------- *)
Definition mst_code (m : mst) : Z :=
  match m with MInit => 0 | MConnecting => 1 | MConnected => 2 | MOpening => 3
             | MDisconnecting => 4 | MDisconnected => 5 end%Z.
Definition dst_code (d : option dst) : Z :=
  match d with None => (-1) | Some DConnecting => 1 | Some DConnected => 2
             | Some DDisconnecting => 3 | Some DDisconnected => 4 | Some DReset => 5 end%Z.
Definition fr_code (f : fr) : Z :=
  match f with SABM0 => 0 | UA0 => 1 | DISC0 => 2 | PNcmd => 3 | PNrsp => 4 | MSCcmd => 5
             | MSCrsp => 6 | DMd => 7 | SABMd => 8 | UAd => 9 | DISCd => 10 end%Z.
Definition st_obs (s : st) :=
  (mst_code (sd_mux (st_a s)), dst_code (sd_dlc (st_a s)),
   mst_code (sd_mux (st_b s)), dst_code (sd_dlc (st_b s)),
   map fr_code (st_ab s), map fr_code (st_ba s)).
Fixpoint sm_trace (s : st) (ls : list lbl) :=
  match ls with
  | [] => []
  | l :: r => let s' := sm_step s l in st_obs s' :: sm_trace s' r
  end.
