(* C14 - bumble/crypto/__init__.py  ah, c1, s1, f4, f5, f6, g2, h6, h7, generate_prand, and the
   resolvable-private-address generation / resolution built on ah
   (hci.Address.generate_private_address, Address.is_resolvable, smp.AddressResolver.resolve,
   helpers.verify_rpa_with_irk), as written, over the two primitives of a back end:
     e        : key -> data -> bytes            (bumble byte order: least significant byte first)
     aes_cmac : message -> key -> bytes         (most significant byte first)
   followed by the specification formulas of Core Vol 3 Part H 2.2.2 - 2.2.11, transcribed by
   hand over most-significant-byte-first strings.  Executable Gallina only.
   None = the Python call raises (AssertionError of xor, ValueError of bytes([..])). *)
From Coq Require Import ZArith List Bool.
From BV Require Import Model.CryptoBytes.
Import ListNotations.
Open Scope Z_scope.

(* crypto.xor: assert len(x) == len(y); bytes(map(operator.xor, x, y)) *)
Definition xor_assert (x y : list Z) : option (list Z) :=
  if len x =? len y then Some (xor_zip x y) else None.

(* bytes([a, b, ...]) : ValueError unless every element is in range(256) *)
Definition bytes_of (l : list Z) : option (list Z) := if bytes_ok l then Some l else None.

Definition lastn (n : nat) (l : list Z) : list Z := skipn (length l - n) l.

Section Toolbox.
  Variable e : list Z -> list Z -> list Z.
  Variable aes_cmac : list Z -> list Z -> list Z.

  (* ------------------------------------------------------------------ code *)
  Definition ah (k r : list Z) : list Z := py_slice (e k (r ++ zeros 13)) 0 3.

  Definition c1 (k r preq pres : list Z) (iat rat : Z) (ia ra : list Z) : option (list Z) :=
    match bytes_of [iat; rat] with
    | None => None
    | Some h =>
        let p1 := h ++ preq ++ pres in
        let p2 := ra ++ ia ++ [0; 0; 0; 0] in
        match xor_assert r p1 with
        | None => None
        | Some x1 =>
            match xor_assert (e k x1) p2 with
            | None => None
            | Some x2 => Some (e k x2)
            end
        end
    end.

  Definition s1 (k r1 r2 : list Z) : list Z := e k (py_slice r2 0 8 ++ py_slice r1 0 8).

  Definition f4 (u v x z : list Z) : list Z := rev (aes_cmac (rev u ++ rev v ++ z) (rev x)).

  Definition f5_salt : list Z :=
    [108; 136; 131; 145; 170; 245; 165; 56; 96; 55; 11; 219; 90; 96; 131; 190].  (* 6C888391 AAF5A538 60370BDB 5A6083BE *)
  Definition f5_key_id : list Z := [98; 116; 108; 101].                            (* 0x62 0x74 0x6C 0x65 *)

  Definition f5 (w n1 n2 a1 a2 : list Z) : list Z * list Z :=
    let t := aes_cmac (rev w) f5_salt in
    (rev (aes_cmac ([0] ++ f5_key_id ++ rev n1 ++ rev n2 ++ rev a1 ++ rev a2 ++ [1; 0]) t),
     rev (aes_cmac ([1] ++ f5_key_id ++ rev n1 ++ rev n2 ++ rev a1 ++ rev a2 ++ [1; 0]) t)).

  Definition f6 (w n1 n2 r io_cap a1 a2 : list Z) : list Z :=
    rev (aes_cmac (rev n1 ++ rev n2 ++ rev r ++ rev io_cap ++ rev a1 ++ rev a2) (rev w)).

  Definition g2 (u v x y : list Z) : Z :=
    be_int (py_from (aes_cmac (rev u ++ rev v ++ rev y) (rev x)) (-4)).

  Definition h6 (w key_id : list Z) : list Z := rev (aes_cmac key_id (rev w)).

  Definition h7 (salt w : list Z) : list Z := rev (aes_cmac (rev w) salt).

  (* generate_prand() on the 6 bytes returned by secrets.token_bytes(6) *)
  Definition prand_of (tb : list Z) : list Z :=
    py_upto tb 2 ++ [Z.lor (Z.land (nth 2 tb 0) 127) 64].

  (* Address.generate_private_address(irk), irk non-empty: the 6 address bytes (LSB first) *)
  Definition rpa_generate (irk tb : list Z) : list Z :=
    let prand := prand_of tb in ah irk prand ++ prand.

  (* the non-resolvable branch (irk empty) on 6 token bytes *)
  Definition nrpa_generate (tb : list Z) : list Z :=
    py_upto tb 5 ++ [Z.land (nth 5 tb 0) 63].

  (* Address.is_resolvable for a RANDOM_DEVICE address / is_static *)
  Definition is_resolvable_bytes (addr : list Z) : bool := Z.shiftr (nth 5 addr 0) 6 =? 1.
  Definition top_bits (addr : list Z) : Z := Z.shiftr (nth 5 addr 0) 6.

  (* one iteration of AddressResolver.resolve / helpers.verify_rpa_with_irk *)
  Definition rpa_matches (irk addr : list Z) : bool :=
    list_eqb (ah irk (py_slice addr 3 6)) (py_slice addr 0 3).

  (* AddressResolver.resolve: index of the first resolving key whose hash matches *)
  Fixpoint resolve_from (i : nat) (irks : list (list Z)) (addr : list Z) : option nat :=
    match irks with
    | [] => None
    | irk :: rest => if rpa_matches irk addr then Some i else resolve_from (S i) rest addr
    end.
  Definition resolve (irks : list (list Z)) (addr : list Z) : option nat := resolve_from 0 irks addr.

  (* One AddressResolver object used for a sequence of resolve() calls: the object holds nothing
     but the key list, so the k-th result depends on the k-th address only. *)
  Definition resolve_history (irks : list (list Z)) (addrs : list (list Z)) : list (option nat) :=
    map (resolve irks) addrs.

  (* ------------------------------------------------------------------ specification *)
  (* Vol 3 Part H 2.2.1: security function e on 128-bit values, most significant octet first;
     bumble's e takes and returns the same values least significant octet first. *)
  Definition e_be (K X : list Z) : list Z := rev (e (rev K) (rev X)).
  (* 2.2.5: AES-CMAC_k(m) *)
  Definition cmac_be (K M : list Z) : list Z := aes_cmac M K.

  (* 2.2.2  ah(k, r) = e(k, r') mod 2^24,  r' = padding || r  (104 zero bits) *)
  Definition spec_ah (K R : list Z) : list Z := lastn 3 (e_be K (zeros 13 ++ R)).

  (* 2.2.3  c1 = e(k, e(k, r XOR p1) XOR p2),
            p1 = pres || preq || rat' || iat',  p2 = padding || ia || ra  (32 zero bits) *)
  Definition spec_c1 (K R PREQ PRES : list Z) (iat rat : Z) (IA RA : list Z) : list Z :=
    let p1 := PRES ++ PREQ ++ [rat] ++ [iat] in
    let p2 := zeros 4 ++ IA ++ RA in
    e_be K (xor_zip (e_be K (xor_zip R p1)) p2).

  (* 2.2.4  s1(k, r1, r2) = e(k, r'),  r' = r1' || r2' (least significant 64 bits of each) *)
  Definition spec_s1 (K R1 R2 : list Z) : list Z := e_be K (lastn 8 R1 ++ lastn 8 R2).

  (* 2.2.6  f4(U, V, X, Z) = AES-CMAC_X (U || V || Z) *)
  Definition spec_f4 (U V X Zb : list Z) : list Z := cmac_be X (U ++ V ++ Zb).

  (* 2.2.7  T = AES-CMAC_SALT(W);
            f5 = AES-CMAC_T(Counter=0 || keyID || N1 || N2 || A1 || A2 || Length=256)
              || AES-CMAC_T(Counter=1 || ...)        MacKey = first, LTK = second *)
  Definition spec_salt : list Z :=
    [0x6C; 0x88; 0x83; 0x91; 0xAA; 0xF5; 0xA5; 0x38; 0x60; 0x37; 0x0B; 0xDB; 0x5A; 0x60; 0x83; 0xBE].
  Definition spec_keyID : list Z := [0x62; 0x74; 0x6c; 0x65].
  Definition spec_length : list Z := [0x01; 0x00].
  Definition spec_f5 (W N1 N2 A1 A2 : list Z) : list Z * list Z :=
    let T := cmac_be spec_salt W in
    (cmac_be T ([0] ++ spec_keyID ++ N1 ++ N2 ++ A1 ++ A2 ++ spec_length),
     cmac_be T ([1] ++ spec_keyID ++ N1 ++ N2 ++ A1 ++ A2 ++ spec_length)).

  (* 2.2.8  f6(W, N1, N2, R, IOcap, A1, A2) = AES-CMAC_W (N1 || N2 || R || IOcap || A1 || A2) *)
  Definition spec_f6 (W N1 N2 R IOcap A1 A2 : list Z) : list Z :=
    cmac_be W (N1 ++ N2 ++ R ++ IOcap ++ A1 ++ A2).

  (* 2.2.9  g2(U, V, X, Y) = AES-CMAC_X (U || V || Y) mod 2^32 *)
  Definition spec_g2 (U V X Y : list Z) : Z := be_int (cmac_be X (U ++ V ++ Y)) mod 2 ^ 32.

  (* 2.2.10 h6(W, keyID) = AES-CMAC_W (keyID);   2.2.11 h7(SALT, W) = AES-CMAC_SALT (W) *)
  Definition spec_h6 (W keyID : list Z) : list Z := cmac_be W keyID.
  Definition spec_h7 (SALT W : list Z) : list Z := cmac_be SALT W.
End Toolbox.
