(* Model of the pending procedures of bumble/controller.py (after fixes D03d, D03e, D03g,
   D03h), seen from ONE controller (the controller under test, CUT) on a LocalLink with
   peers.  Executable Gallina, no proofs.

   Procedures: LE create connection (legacy and extended command: same handler logic), its
   cancellation, disconnection, LE read remote features, LE enable encryption, classic create
   connection, remote name request.  (CIS set-up is covered by the scenario campaign only.)

   The peers are environment.  What the model fixes about them is what bumble's own
   controller does as a peer: it answers FeatureReq with FeatureRsp and NameReq with NameRes
   if it is on the link (and, for FeatureReq, still has the connection), and it answers a
   classic connection request only when its host accepts ([PeerAccept], an environment
   step).  LocalLink delivers PDUs in FIFO order ([h_to] / [h_from] below), a PDU addressed
   to a controller that is not on the link is lost.

   Events to the CUT's host are the outputs:
     Status op st            Command Status          Complete op st      Command Complete
     LeConn st h a           LE Connection Complete  Disc h              Disconnection Complete
     Feat h                  LE Read Remote Features Complete
     Enc h                   Encryption Change       Conn st h a         Connection Complete
     Name st a               Remote Name Request Complete                                  *)
From Coq Require Import ZArith List Bool.
Import ListNotations.
Open Scope Z_scope.

Inductive transport := LE | BR.

Inductive cmd :=
| LeCreate (ext : bool) (a : Z)   (* ext: LE Extended Create Connection (same handler logic) *)
| LeCancel
| Disconnect (h : Z)
| ReadFeat (h : Z)
| Encrypt (h : Z)
| ClassicCreate (a : Z)
| RemoteName (a : Z).

(* opcodes, for the outputs *)
Definition opcode (c : cmd) : Z :=
  match c with
  | LeCreate false _ => 8205 | LeCreate true _ => 8259 | LeCancel => 8206 | Disconnect _ => 1030 | ReadFeat _ => 8214
  | Encrypt _ => 8217 | ClassicCreate _ => 1029 | RemoteName _ => 1049
  end.

(* ConnectIndLate: a ConnectInd that will find its addressee no longer advertising (fix D06d) *)
Inductive req := FeatureReq | NameReq | HostConnReq | TerminateInd | DetachBr | EncReq | ConnectInd | ConnectIndLate.
(* DeferredConnFail is not a PDU: it is the callback LE Create Connection Cancel schedules with
   call_soon to send the LE Connection Complete (status 0x02) after its own Command Complete; it
   runs in order with the deliveries to the CUT scheduled before and after it *)
Inductive rsp := FeatureRsp | NameRes | Accepted | PeerTerminate | DeferredConnFail.

Inductive out :=
| Status (op st : Z) | Complete (op st : Z)
| LeConn (st h a : Z) | Disc (h : Z) | Feat (h : Z) | Enc (h : Z) | Conn (st h a : Z) | Name (st a : Z).

(* a procedure accepted with status 0 and not yet concluded *)
Inductive proc := PLe (a : Z) | PFeat (h : Z) | PClassic (a : Z) | PName (a : Z).

Record conn := mkConn { k_handle : Z; k_addr : Z; k_tr : transport }.

Record pstate := mkP {
  p_pend_le : option Z;            (* pending_le_connection: peer address *)
  p_conns : list conn;             (* le_connections + classic_connections with a handle *)
  p_open : list proc;
  p_to : list (Z * req);           (* link: PDUs in flight to the peer with that address *)
  p_from : list (Z * rsp);         (* link: PDUs in flight from the peer with that address *)
  p_present : list Z;              (* addresses of the peer controllers on the link *)
  p_peer_conn : list Z;            (* peers that have an LE connection with the CUT *)
  p_peer_req : list Z              (* peers whose host has an unanswered classic connection request *)
}.

Inductive op :=
| Cmd (c : cmd)              (* an HCI command reaches the CUT *)
| Adv (a : Z)                (* peer a (on the link) sends an advertising PDU *)
| ToPeer                     (* the oldest PDU in flight to a peer is delivered *)
| ToCut                      (* the oldest PDU in flight to the CUT is delivered *)
| PeerAccept (a : Z)         (* the host of peer a accepts the classic connection request *)
| PeerDisconnect (a : Z)     (* the host of peer a disconnects its LE connection with the CUT *)
| PeerAdvOff (a : Z)         (* peer a stops advertising: its host disabled it, or another central's
                                ConnectInd got there first *)
| Remove (a : Z).            (* peer a leaves the link without terminating anything *)

Definition p_init (present : list Z) : pstate := mkP None [] [] [] [] present [] [].

Definition memz (a : Z) (l : list Z) : bool := existsb (Z.eqb a) l.
Definition remz (a : Z) (l : list Z) : list Z := filter (fun x => negb (Z.eqb a x)) l.

Definition find_conn (h : Z) (tr : transport) (l : list conn) : option conn :=
  find (fun k => Z.eqb (k_handle k) h && match k_tr k, tr with LE, LE | BR, BR => true | _, _ => false end) l.
Definition find_any (h : Z) (l : list conn) : option conn := find (fun k => Z.eqb (k_handle k) h) l.
Definition conn_to (a : Z) (tr : transport) (l : list conn) : option conn :=
  find (fun k => Z.eqb (k_addr k) a && match k_tr k, tr with LE, LE | BR, BR => true | _, _ => false end) l.
Definition rem_conn (h : Z) (l : list conn) : list conn := filter (fun k => negb (Z.eqb (k_handle k) h)) l.

(* allocate_connection_handle: the first handle from 1 that is not in use *)
Fixpoint first_free (fuel : nat) (h : Z) (l : list conn) : Z :=
  match fuel with
  | O => h
  | S f => if existsb (fun k => Z.eqb (k_handle k) h) l then first_free f (h + 1) l else h
  end.
Definition alloc (l : list conn) : Z := first_free (S (length l)) 1 l.

Definition proc_eqb (p q : proc) : bool :=
  match p, q with
  | PLe a, PLe b | PClassic a, PClassic b | PName a, PName b | PFeat a, PFeat b => Z.eqb a b
  | _, _ => false
  end.
(* conclude the oldest matching procedure *)
Fixpoint close (p : proc) (l : list proc) : list proc :=
  match l with
  | [] => []
  | q :: l' => if proc_eqb p q then l' else q :: close p l'
  end.
(* procedures on a connection end with it *)
Definition drop_handle (h : Z) (l : list proc) : list proc :=
  filter (fun p => match p with PFeat h' => negb (Z.eqb h h') | _ => true end) l.

Definition is_le (k : conn) : bool := match k_tr k with LE => true | BR => false end.

(* a connection to the peer is established, or a Create Connection for it is still unanswered
   (in the code: classic_connections[a].handle <> 0, or the future of the LMP host connection
   request to a is not done; the latter holds exactly while the procedure is open) *)
Definition classic_busy (s : pstate) (a : Z) : bool :=
  existsb (proc_eqb (PClassic a)) (p_open s)
  || existsb (fun k => Z.eqb (k_addr k) a && negb (is_le k)) (p_conns s).

Definition upd (s : pstate) pend conns opn tto : pstate :=
  mkP pend conns opn tto (p_from s) (p_present s) (p_peer_conn s) (p_peer_req s).

Definition step_cmd (s : pstate) (c : cmd) : pstate * list out :=
  let op := opcode c in
  match c with
  | LeCreate _ a =>
      match p_pend_le s with
      | Some _ => (s, [Status op 12])
      | None => (upd s (Some a) (p_conns s) (p_open s ++ [PLe a]) (p_to s), [Status op 0])
      end
  | LeCancel =>
      match p_pend_le s with
      | None => (s, [Complete op 12])
      | Some a =>
          (mkP None (p_conns s) (close (PLe a) (p_open s)) (p_to s) (p_from s ++ [(a, DeferredConnFail)])
               (p_present s) (p_peer_conn s) (p_peer_req s), [Complete op 0])
      end
  | Disconnect h =>
      match find_any h (p_conns s) with
      | None => (s, [Status op 2])
      | Some k =>
          (upd s (p_pend_le s) (rem_conn h (p_conns s)) (drop_handle h (p_open s))
               (p_to s ++ [(k_addr k, match k_tr k with LE => TerminateInd | BR => DetachBr end)]),
           [Status op 0; Disc h])
      end
  | ReadFeat h =>
      match find_conn h LE (p_conns s) with
      | None => (s, [Status op 18])
      | Some k => (upd s (p_pend_le s) (p_conns s) (p_open s ++ [PFeat h]) (p_to s ++ [(k_addr k, FeatureReq)]),
                   [Status op 0])
      end
  | Encrypt h =>
      match find_conn h LE (p_conns s) with
      | None => (s, [Status op 18])
      | Some k => (upd s (p_pend_le s) (p_conns s) (p_open s) (p_to s ++ [(k_addr k, EncReq)]), [Status op 0; Enc h])
      end
  | ClassicCreate a =>
      match p_pend_le s with
      | Some _ => (s, [Status op 58])
      | None =>
          if classic_busy s a then (s, [Status op 11])       (* Connection Already Exists (D03k) *)
          else if memz a (p_present s) then
            (upd s None (p_conns s) (p_open s ++ [PClassic a]) (p_to s ++ [(a, HostConnReq)]), [Status op 0])
          else (s, [Status op 0; Conn 4 0 a])
      end
  | RemoteName a =>
      if memz a (p_present s) then
        (upd s (p_pend_le s) (p_conns s) (p_open s ++ [PName a]) (p_to s ++ [(a, NameReq)]), [Status op 0])
      else (s, [Status op 0; Name 4 a])
  end.

(* the ConnectInds in flight towards peer a will find it no longer advertising *)
Definition late (a : Z) (x : Z * req) : Z * req :=
  match snd x with
  | ConnectInd => if Z.eqb (fst x) a then (fst x, ConnectIndLate) else x
  | _ => x
  end.

Definition p_step (s : pstate) (o : op) : pstate * list out :=
  match o with
  | Cmd c => step_cmd s c
  | Adv a =>
      if memz a (p_present s) then
        match p_pend_le s with
        | Some a' =>
            if Z.eqb a a' then
              match conn_to a LE (p_conns s) with
              | Some _ => (s, [])          (* "Connection for %s already exists?": stays pending *)
              | None =>
                  let h := alloc (p_conns s) in
                  (mkP None (p_conns s ++ [mkConn h a LE]) (close (PLe a) (p_open s))
                       (p_to s ++ [(a, ConnectInd)]) (p_from s) (p_present s) (p_peer_conn s) (p_peer_req s),
                   [LeConn 0 h a])
              end
            else (s, [])
        | None => (s, [])
        end
      else (s, [])
  | ToPeer =>
      match p_to s with
      | [] => (s, [])
      | (a, r) :: rest =>
          let s1 := mkP (p_pend_le s) (p_conns s) (p_open s) rest (p_from s) (p_present s) (p_peer_conn s) (p_peer_req s) in
          if memz a (p_present s) then
            match r with
            | FeatureReq =>
                if memz a (p_peer_conn s) then
                  (mkP (p_pend_le s1) (p_conns s1) (p_open s1) rest (p_from s1 ++ [(a, FeatureRsp)]) (p_present s1)
                       (p_peer_conn s1) (p_peer_req s1), [])
                else (s1, [])
            | NameReq =>
                (mkP (p_pend_le s1) (p_conns s1) (p_open s1) rest (p_from s1 ++ [(a, NameRes)]) (p_present s1)
                     (p_peer_conn s1) (p_peer_req s1), [])
            | HostConnReq =>
                (mkP (p_pend_le s1) (p_conns s1) (p_open s1) rest (p_from s1) (p_present s1)
                     (p_peer_conn s1) (p_peer_req s1 ++ [a]), [])
            | TerminateInd =>
                (mkP (p_pend_le s1) (p_conns s1) (p_open s1) rest (p_from s1) (p_present s1)
                     (remz a (p_peer_conn s1)) (p_peer_req s1), [])
            | ConnectInd =>
                (* accepted: the advertiser stops, later ConnectInds for it come too late *)
                (mkP (p_pend_le s1) (p_conns s1) (p_open s1) (map (late a) rest) (p_from s1) (p_present s1)
                     (p_peer_conn s1 ++ [a]) (p_peer_req s1), [])
            | ConnectIndLate =>
                (* D06d: the address is the peer's but it no longer advertises with it: TerminateInd
                   (Connection Failed To Be Established) back to the initiator *)
                (mkP (p_pend_le s1) (p_conns s1) (p_open s1) rest (p_from s1 ++ [(a, PeerTerminate)]) (p_present s1)
                     (p_peer_conn s1) (p_peer_req s1), [])
            | EncReq | DetachBr => (s1, [])
            end
          else (s1, [])
      end
  | ToCut =>
      match p_from s with
      | [] => (s, [])
      | (a, r) :: rest =>
          let s1 := mkP (p_pend_le s) (p_conns s) (p_open s) (p_to s) rest (p_present s) (p_peer_conn s) (p_peer_req s) in
          match r with
          | FeatureRsp =>
              match conn_to a LE (p_conns s) with
              | Some k =>
                  (mkP (p_pend_le s1) (p_conns s1) (close (PFeat (k_handle k)) (p_open s1)) (p_to s1) rest
                       (p_present s1) (p_peer_conn s1) (p_peer_req s1), [Feat (k_handle k)])
              | None => (s1, [])
              end
          | NameRes =>
              (mkP (p_pend_le s1) (p_conns s1) (close (PName a) (p_open s1)) (p_to s1) rest
                   (p_present s1) (p_peer_conn s1) (p_peer_req s1), [Name 0 a])
          | Accepted =>
              let h := alloc (p_conns s) in
              (mkP (p_pend_le s1) (p_conns s1 ++ [mkConn h a BR]) (close (PClassic a) (p_open s1)) (p_to s1) rest
                   (p_present s1) (p_peer_conn s1) (p_peer_req s1), [Conn 0 h a])
          | DeferredConnFail => (s1, [LeConn 2 0 a])
          | PeerTerminate =>
              match conn_to a LE (p_conns s) with
              | Some k =>
                  (mkP (p_pend_le s1) (rem_conn (k_handle k) (p_conns s1)) (drop_handle (k_handle k) (p_open s1))
                       (p_to s1) rest (p_present s1) (p_peer_conn s1) (p_peer_req s1), [Disc (k_handle k)])
              | None => (s1, [])
              end
          end
      end
  | PeerAccept a =>
      if memz a (p_peer_req s) && memz a (p_present s) then
        (mkP (p_pend_le s) (p_conns s) (p_open s) (p_to s) (p_from s ++ [(a, Accepted)]) (p_present s)
             (p_peer_conn s) (remz a (p_peer_req s)), [])
      else (s, [])
  | PeerDisconnect a =>
      if memz a (p_peer_conn s) && memz a (p_present s) then
        (mkP (p_pend_le s) (p_conns s) (p_open s) (p_to s) (p_from s ++ [(a, PeerTerminate)]) (p_present s)
             (remz a (p_peer_conn s)) (p_peer_req s), [])
      else (s, [])
  | PeerAdvOff a =>
      (mkP (p_pend_le s) (p_conns s) (p_open s) (map (late a) (p_to s)) (p_from s) (p_present s)
           (p_peer_conn s) (p_peer_req s), [])
  | Remove a =>
      (mkP (p_pend_le s) (p_conns s) (p_open s) (p_to s) (p_from s) (remz a (p_present s))
           (p_peer_conn s) (p_peer_req s), [])
  end.

Fixpoint p_run (s : pstate) (os : list op) : pstate * list out :=
  match os with
  | [] => (s, [])
  | o :: os' =>
      let '(s1, o1) := p_step s o in
      let '(s2, o2) := p_run s1 os' in
      (s2, o1 ++ o2)
  end.

(* every external step followed by the delivery of what it put on the link: a step adds at most
   one PDU towards a peer, whose reaction adds at most one PDU towards the CUT *)
Definition macro (x : op) : list op := [x; ToPeer; ToCut].
Definition settled (xs : list op) : list op := flat_map macro xs.

(* deliver what is on the link, oldest PDU towards the peers first, until it is quiet *)
Fixpoint drain (fuel : nat) (s : pstate) : pstate * list out :=
  match fuel with
  | O => (s, [])
  | S f =>
      match p_to s, p_from s with
      | [], [] => (s, [])
      | _ :: _, _ => let '(s1, o1) := p_step s ToPeer in let '(s2, o2) := drain f s1 in (s2, o1 ++ o2)
      | [], _ :: _ => let '(s1, o1) := p_step s ToCut in let '(s2, o2) := drain f s1 in (s2, o1 ++ o2)
      end
  end.
Definition drain_fuel (s : pstate) : nat := (2 * (length (p_to s) + length (p_from s)) + 2)%nat.
Definition drain_all (s : pstate) : pstate := fst (drain (drain_fuel s) s).

(* the link has nothing in flight *)
Definition p_quiet (s : pstate) : bool :=
  match p_to s, p_from s with [], [] => true | _, _ => false end.

(* a peer leaves the link without terminating its connections: the witness class of the known
   finding D03i (no supervision timeout in the virtual controller) *)
Definition no_remove (os : list op) : bool :=
  forallb (fun o => match o with Remove _ => false | _ => true end) os.

(* what may legitimately remain open when the link is quiet: an LE connection creation that
   waits for the peer's advertisement (open-ended by specification, cancellable), and a classic
   connection creation that waits for the decision of the peer's host *)
Definition open_ended (s : pstate) (p : proc) : bool :=
  match p with
  | PLe a => match p_pend_le s with Some a' => Z.eqb a a' | None => false end
  | PClassic a => memz a (p_peer_req s)
  | _ => false
  end.

(* hypothesis of the conclusion theorem, as a boolean check along the settled run: no peer
   leaves the link without terminating its connections (witness class of D03i) *)
Definition ext_ok (s : pstate) (x : op) : bool :=
  match x with
  | Remove _ => false
  | _ => true
  end.
Fixpoint wf_ext (s : pstate) (xs : list op) : bool :=
  match xs with
  | [] => true
  | x :: xs' => ext_ok s x && wf_ext (fst (p_run s (macro x))) xs'
  end.

(* ---- arbitrary interleavings, by complete evaluation over a bounded scope ----
   [concludes s]: delivering everything that is in flight in s leaves only procedures that are
   open-ended by specification.  [all_ok d s]: this holds in s and in every state reachable from
   s by at most d further steps over [alphabet] - commands, peer actions and single PDU
   deliveries in ANY order (commands issued while PDUs are in flight, peers disconnecting while a
   request is on its way, ...).  Two peers: 2 (LE) and 3 (classic); handle 1 is the first handle
   the controller allocates. *)
Definition concludes (s : pstate) : bool :=
  let s' := drain_all s in p_quiet s' && forallb (open_ended s') (p_open s').

Definition alphabet : list op :=
  [Cmd (LeCreate false 2); Cmd LeCancel; Adv 2; Cmd (ReadFeat 1); Cmd (Encrypt 1); Cmd (Disconnect 1);
   PeerDisconnect 2; PeerAdvOff 2; Cmd (ClassicCreate 3); PeerAccept 3; Cmd (RemoteName 3); ToPeer; ToCut].

Fixpoint all_ok (depth : nat) (s : pstate) : bool :=
  concludes s &&
  match depth with
  | O => true
  | S d => forallb (fun o => all_ok d (fst (p_step s o))) alphabet
  end.

(* a state with an LE connection to peer 2 (handle 1) and a classic connection to peer 3 (handle 2),
   nothing in flight: the second starting point of the bounded exploration *)
Definition connected_state : pstate :=
  fst (p_run (p_init [2; 3]) (settled [Cmd (LeCreate false 2); Adv 2; Cmd (ClassicCreate 3); PeerAccept 3])).

(* encodings for the harness *)
Definition out_code (o : out) : list Z :=
  match o with
  | Status op st => [0; op; st] | Complete op st => [1; op; st]
  | LeConn st h a => [2; st; h; a] | Disc h => [3; h] | Feat h => [4; h] | Enc h => [5; h]
  | Conn st h a => [6; st; h; a] | Name st a => [7; st; a]
  end.
Definition proc_code (p : proc) : list Z :=
  match p with PLe a => [0; a] | PFeat h => [1; h] | PClassic a => [2; a] | PName a => [3; a] end.
Definition run_obs (present : list Z) (os : list op) :=
  let '(s, o) := p_run (p_init present) os in
  (map out_code o, map proc_code (p_open s), p_quiet s, forallb (open_ended s) (p_open s)).

(* for the harness: groups of steps issued back to back, the link drained after each group *)
Fixpoint run_groups (s : pstate) (gs : list (list op)) : pstate * list out :=
  match gs with
  | [] => (s, [])
  | g :: gs' =>
      let '(s1, o1) := p_run s g in
      let '(s2, o2) := drain (drain_fuel s1) s1 in
      let '(s3, o3) := run_groups s2 gs' in
      (s3, o1 ++ o2 ++ o3)
  end.
Definition groups_obs (present : list Z) (gs : list (list op)) :=
  let '(s, o) := run_groups (p_init present) gs in
  (map out_code o, map proc_code (p_open s), p_quiet s, forallb (open_ended s) (p_open s)).
