(* Model/C19Shape.v -- the reading of bumble/sdp.py, avdtp.py, avctp.py the C19 models were written from,
   in the form the translator tools/translate/c19_shape.py regenerates from the source on every run
   (coq/Gen/C19Shape.v): the statement skeleton of every anchored function (one hash per normalised statement,
   the statement itself in the comment), the guard / target table of the AVDTP stream procedures, and the
   constants.  Props/C19.v proves the regenerated definitions equal to these, and these consistent with the
   executable models.  This file is maintained by hand: when the source changes on purpose, re-read the code,
   update the models, then refresh this file (tools/translate/c19_shape.py prints the new text).
   Definitions only. *)
From Coq Require Import ZArith List Bool.
Import ListNotations.
Open Scope Z_scope.

(* (states in which the procedure goes ahead, change_state targets in source order); state codes
   IDLE 0, CONFIGURED 1, OPEN 2, STREAMING 3, CLOSING 4, ABORTING 5 *)
Definition e_stream_initiator : list (list Z * list Z) := [
  ([0], [1]);                     (* Stream.configure *)
  ([1], [2]);                     (* Stream.open *)
  ([2], [3]);                     (* Stream.start (after the auto-open from CONFIGURED) *)
  ([3], [2]);                     (* Stream.stop *)
  ([2; 3], [4; 0]);               (* Stream.close *)
  ([1; 2; 3; 4; 5], [5; 0])       (* Stream.abort *)
].
Definition e_stream_acceptor : list (list Z * list Z) := [
  ([0], [1]);                     (* on_set_configuration_command *)
  ([1], [2]);                     (* on_open_command *)
  ([2], [3]);                     (* on_start_command *)
  ([3], [2]);                     (* on_suspend_command *)
  ([2; 3], [4; 0]);               (* on_close_command: CLOSING, then IDLE when there is no RTP channel *)
  ([0; 1; 2; 3; 4; 5], [0; 5]);   (* on_abort_command: IDLE without an RTP channel, else ABORTING *)
  ([1; 2; 3], []);                (* on_get_configuration_command *)
  ([2], [])                       (* on_reconfigure_command *)
].

Definition e_sdp_continuation_state : list Z := [1; 0].
Definition e_sdp_pdu_ids : list Z := [1; 2; 3; 4; 5; 6; 7].
Definition e_packet_types : list Z := [0; 1; 2; 3].           (* SINGLE, START, CONTINUE, END (AVDTP and AVCTP) *)
Definition e_avdtp_body_offsets : list Z := [2; 3; 1].        (* SINGLE pdu[2:], START pdu[3:], CONTINUE/END pdu[1:] *)
Definition e_avctp_pid_offsets : list Z := [1; 2].

Definition e_skel_sdp_match_services : list Z := [
  (* def match_services(self, search_pattern) *) 27233458328959;
  (* matching_services = {} *) 145171226715357;
  (* For (handle, service) in self.service_records.items() *) 280387846848786;
  (* If all((any((ServiceAttribute.is_uuid_in_value(uuid.value, attribute.value) for attribute in service)) for uuid in search_pattern.value)) *) 171276220814624;
  (* matching_services[handle] = service *) 53984301826248;
  (* End *) 269221943068527;
  (* End *) 269221943068527;
  (* return matching_services *) 119590829367354
].
Definition e_skel_sdp_on_connection : list Z := [
  (* def on_connection(self, channel) *) 232593203283989;
  (* self.select_channel(channel) *) 155294401517917;
  (* channel.sink = lambda pdu: self.on_channel_pdu(channel, pdu) *) 5779057520440;
  (* channel.on(channel.EVENT_CLOSE, lambda: self.on_channel_close(channel)) *) 268121794714274
].
Definition e_skel_sdp_select_channel : list Z := [
  (* def select_channel(self, channel) *) 112993297731925;
  (* If channel is self.channel *) 28712975898073;
  (* return *) 124828667829939;
  (* End *) 269221943068527;
  (* If self.channel is not None *) 266128752596582;
  (* self.pending_responses[self.channel] = self.current_response *) 154671246063862;
  (* End *) 269221943068527;
  (* self.channel = channel *) 142852458974650;
  (* self.current_response = self.pending_responses.pop(channel, None) *) 193565599193559
].
Definition e_skel_sdp_on_channel_pdu : list Z := [
  (* def on_channel_pdu(self, channel, pdu) *) 171852605774612;
  (* self.select_channel(channel) *) 155294401517917;
  (* self.on_pdu(pdu) *) 100187199908227
].
Definition e_skel_sdp_on_channel_close : list Z := [
  (* def on_channel_close(self, channel) *) 206829375827374;
  (* self.pending_responses.pop(channel, None) *) 95985653775782;
  (* If channel is self.channel *) 28712975898073;
  (* self.channel = None *) 127360546732939;
  (* self.current_response = None *) 262077239836860;
  (* End *) 269221943068527
].
Definition e_skel_sdp_check_continuation : list Z := [
  (* def check_continuation(self, continuation_state, transaction_id) *) 185872620809897;
  (* If len(continuation_state) > 1 *) 221551334840230;
  (* If self.current_response is None or continuation_state != self.CONTINUATION_STATE *) 231343863047931;
  (* self.send_response(SDP_ErrorResponse(transaction_id=transaction_id, error_code=ErrorCode.INVALID_CONTINUATION_STATE)) *) 196473944580284;
  (* return None *) 175316439560358;
  (* End *) 269221943068527;
  (* return True *) 61131009958699;
  (* End *) 269221943068527;
  (* self.current_response = None *) 262077239836860;
  (* return False *) 254017159767518
].
Definition e_skel_sdp_get_next_response_payload : list Z := [
  (* def get_next_response_payload(self, maximum_size) *) 144189032493593;
  (* If len(self.current_response) > maximum_size *) 56158964185574;
  (* payload = self.current_response[:maximum_size] *) 276093349316536;
  (* continuation_state = Server.CONTINUATION_STATE *) 257676051545304;
  (* self.current_response = self.current_response[maximum_size:] *) 42299383555298;
  (* Else *) 172038525209843;
  (* payload = self.current_response *) 85769018802476;
  (* continuation_state = bytes([0]) *) 155870661333826;
  (* self.current_response = None *) 262077239836860;
  (* End *) 269221943068527;
  (* return (payload, continuation_state) *) 109806984058507
].
Definition e_skel_sdp_get_service_attributes : list Z := [
  (* def get_service_attributes(service, attribute_ids) *) 141340432804657;
  (* attributes = [] *) 221059264296718;
  (* For attribute_id in attribute_ids *) 209464820431271;
  (* If attribute_id.value_size == 4 *) 186270889992807;
  (* id_range_start = attribute_id.value >> 16 *) 163270848883548;
  (* id_range_end = attribute_id.value & 65535 *) 7544685327693;
  (* Else *) 172038525209843;
  (* id_range_start = attribute_id.value *) 159933306338634;
  (* id_range_end = attribute_id.value *) 267657145033415;
  (* End *) 269221943068527;
  (* attributes += [attribute for attribute in service if attribute.id >= id_range_start and attribute.id <= id_range_end] *) 151594511670703;
  (* End *) 269221943068527;
  (* attributes.sort(key=lambda x: x.id) *) 8773894419706;
  (* attribute_list = DataElement.sequence([]) *) 207903229808955;
  (* For attribute in attributes *) 159615791396784;
  (* attribute_list.value.append(DataElement.unsigned_integer_16(attribute.id)) *) 280592806546137;
  (* attribute_list.value.append(attribute.value) *) 104349130877491;
  (* End *) 269221943068527;
  (* return attribute_list *) 121915124254532
].
Definition e_skel_sdp_on_search : list Z := [
  (* def on_sdp_service_search_request(self, request) *) 244760371582388;
  (* If (continuation := self.check_continuation(request.continuation_state, request.transaction_id)) is None *) 271014868672178;
  (* return *) 124828667829939;
  (* End *) 269221943068527;
  (* If not continuation *) 61370094198010;
  (* matching_services = self.match_services(request.service_search_pattern) *) 78691624017884;
  (* service_record_handles = list(matching_services.keys()) *) 29292035117181;
  (* service_record_handles_subset = service_record_handles[:request.maximum_service_record_count] *) 61466644639199;
  (* self.current_response = (len(service_record_handles), service_record_handles_subset) *) 64090473294222;
  (* End *) 269221943068527;
  (* assert isinstance(self.current_response, tuple) *) 138642855219897;
  (* assert self.channel is not None *) 65323174134098;
  (* total_service_record_count, service_record_handles = self.current_response *) 85883984511380;
  (* maximum_service_record_count = (self.channel.peer_mtu - 11) // 4 *) 76135607815632;
  (* service_record_handles_remaining = service_record_handles[maximum_service_record_count:] *) 2048720563826;
  (* service_record_handles = service_record_handles[:maximum_service_record_count] *) 150844728709817;
  (* self.current_response = (total_service_record_count, service_record_handles_remaining) *) 271229056871684;
  (* continuation_state = Server.CONTINUATION_STATE if service_record_handles_remaining else bytes([0]) *) 112008055755190;
  (* self.send_response(SDP_ServiceSearchResponse(transaction_id=request.transaction_id, total_service_record_count=total_service_record_count, service_record_handle_list=service_record_handles, continuation_state=continuation_state)) *) 189592417254372
].
Definition e_skel_sdp_on_attribute : list Z := [
  (* def on_sdp_service_attribute_request(self, request) *) 182889533309432;
  (* If (continuation := self.check_continuation(request.continuation_state, request.transaction_id)) is None *) 271014868672178;
  (* return *) 124828667829939;
  (* End *) 269221943068527;
  (* If not continuation *) 61370094198010;
  (* service = self.service_records.get(request.service_record_handle) *) 79625165444119;
  (* If service is None *) 253317631307114;
  (* self.send_response(SDP_ErrorResponse(transaction_id=request.transaction_id, error_code=ErrorCode.INVALID_SERVICE_RECORD_HANDLE)) *) 239572531648571;
  (* return *) 124828667829939;
  (* End *) 269221943068527;
  (* attribute_list = Server.get_service_attributes(service, request.attribute_id_list.value) *) 174020901594372;
  (* self.current_response = bytes(attribute_list) *) 144279025998138;
  (* End *) 269221943068527;
  (* assert self.channel is not None *) 65323174134098;
  (* maximum_attribute_byte_count = min(request.maximum_attribute_byte_count, self.channel.peer_mtu - 9) *) 4662227133169;
  (* attribute_list_response, continuation_state = self.get_next_response_payload(maximum_attribute_byte_count) *) 20842340808727;
  (* self.send_response(SDP_ServiceAttributeResponse(transaction_id=request.transaction_id, attribute_list=attribute_list_response, continuation_state=continuation_state)) *) 51048705105244
].
Definition e_skel_sdp_on_search_attribute : list Z := [
  (* def on_sdp_service_search_attribute_request(self, request) *) 14195192990270;
  (* If (continuation := self.check_continuation(request.continuation_state, request.transaction_id)) is None *) 271014868672178;
  (* return *) 124828667829939;
  (* End *) 269221943068527;
  (* If not continuation *) 61370094198010;
  (* matching_services = self.match_services(request.service_search_pattern).values() *) 191686902224524;
  (* attribute_lists = DataElement.sequence([]) *) 91762182366855;
  (* For service in matching_services *) 274129469348011;
  (* attribute_list = Server.get_service_attributes(service, request.attribute_id_list.value) *) 174020901594372;
  (* If attribute_list.value *) 11722358713508;
  (* attribute_lists.value.append(attribute_list) *) 26819713438807;
  (* End *) 269221943068527;
  (* End *) 269221943068527;
  (* self.current_response = bytes(attribute_lists) *) 22356331287541;
  (* End *) 269221943068527;
  (* assert self.channel is not None *) 65323174134098;
  (* maximum_attribute_byte_count = min(request.maximum_attribute_byte_count, self.channel.peer_mtu - 9) *) 4662227133169;
  (* attribute_lists_response, continuation_state = self.get_next_response_payload(maximum_attribute_byte_count) *) 16685770122413;
  (* self.send_response(SDP_ServiceSearchAttributeResponse(transaction_id=request.transaction_id, attribute_lists=attribute_lists_response, continuation_state=continuation_state)) *) 99767638431136
].
Definition e_skel_sdp_is_uuid_in_value : list Z := [
  (* def is_uuid_in_value(uuid, value) *) 190611981073094;
  (* If value.type == DataElement.UUID *) 73396826319334;
  (* return value.value == uuid *) 70853568639306;
  (* End *) 269221943068527;
  (* If value.type == DataElement.SEQUENCE *) 207013061541065;
  (* For element in value.value *) 219337812256234;
  (* If ServiceAttribute.is_uuid_in_value(uuid, element) *) 65739687684822;
  (* return True *) 61131009958699;
  (* End *) 269221943068527;
  (* End *) 269221943068527;
  (* return False *) 254017159767518;
  (* End *) 269221943068527;
  (* return False *) 254017159767518
].
Definition e_skel_sdp_list_from_data_elements : list Z := [
  (* def list_from_data_elements(elements) *) 59336123398468;
  (* attribute_list = [] *) 138420067695082;
  (* For i in range(0, len(elements) // 2) *) 136292348216782;
  (* attribute_id, attribute_value = elements[2 * i:2 * (i + 1)] *) 247831467430519;
  (* If attribute_id.type != DataElement.UNSIGNED_INTEGER *) 79100087991308;
  (* continue *) 248862997379839;
  (* End *) 269221943068527;
  (* attribute_list.append(ServiceAttribute(attribute_id.value, attribute_value)) *) 47474547706632;
  (* End *) 269221943068527;
  (* return attribute_list *) 121915124254532
].
Definition e_skel_sdp_client_on_pdu : list Z := [
  (* def on_pdu(self, pdu) *) 47653129893153;
  (* If not self.pending_request *) 130222241318888;
  (* return *) 124828667829939;
  (* End *) 269221943068527;
  (* assert self.pending_response is not None *) 66221833263088;
  (* response = SDP_PDU.from_bytes(pdu) *) 109308113374380;
  (* If self.pending_request.transaction_id != response.transaction_id *) 11894392963577;
  (* return *) 124828667829939;
  (* End *) 269221943068527;
  (* If isinstance(response, SDP_ErrorResponse) *) 27759172483401;
  (* self.pending_response.set_exception(ProtocolError(error_code=response.error_code)) *) 43725204976551;
  (* return *) 124828667829939;
  (* End *) 269221943068527;
  (* If response.pdu_id != SDP_PDU.RESPONSE_PDU_IDS.get(self.pending_request.pdu_id) *) 163740989306467;
  (* return *) 124828667829939;
  (* End *) 269221943068527;
  (* self.pending_response.set_result(response) *) 64119281687223
].
Definition e_skel_sdp_client_search_services : list Z := [
  (* async def search_services(self, uuids) *) 12708614600881;
  (* If self.pending_request is not None *) 276079641114484;
  (* raise InvalidStateError('request already pending') *) 209288316398685;
  (* End *) 269221943068527;
  (* If self.channel is None *) 108316869613294;
  (* raise InvalidStateError('L2CAP not connected') *) 32867082636382;
  (* End *) 269221943068527;
  (* service_search_pattern = DataElement.sequence([DataElement.uuid(uuid) for uuid in uuids]) *) 244710989613210;
  (* service_record_handle_list: list[int] = [] *) 28784959388594;
  (* continuation_state = bytes([0]) *) 155870661333826;
  (* watchdog = SDP_CONTINUATION_WATCHDOG *) 66097531734890;
  (* While watchdog > 0 *) 264579438166698;
  (* response = await self.send_request(SDP_ServiceSearchRequest(transaction_id=self.make_transaction_id(), service_search_pattern=service_search_pattern, maximum_service_record_count=65535, continuation_state=continuation_state)) *) 62920862118845;
  (* assert isinstance(response, SDP_ServiceSearchResponse) *) 264568445313900;
  (* service_record_handle_list += response.service_record_handle_list *) 142076760058728;
  (* continuation_state = response.continuation_state *) 96648795583662;
  (* If len(continuation_state) == 1 and continuation_state[0] == 0 *) 279241905288810;
  (* break *) 23003398819848;
  (* End *) 269221943068527;
  (* watchdog -= 1 *) 24033249487443;
  (* End *) 269221943068527;
  (* return service_record_handle_list *) 235155836729107
].
Definition e_skel_sdp_client_search_attributes : list Z := [
  (* async def search_attributes(self, uuids, attribute_ids) *) 15586001474712;
  (* If self.pending_request is not None *) 276079641114484;
  (* raise InvalidStateError('request already pending') *) 209288316398685;
  (* End *) 269221943068527;
  (* If self.channel is None *) 108316869613294;
  (* raise InvalidStateError('L2CAP not connected') *) 32867082636382;
  (* End *) 269221943068527;
  (* service_search_pattern = DataElement.sequence([DataElement.uuid(uuid) for uuid in uuids]) *) 244710989613210;
  (* attribute_id_list = DataElement.sequence([DataElement.unsigned_integer_32(attribute_id[0] << 16 | attribute_id[1]) if isinstance(attribute_id, tuple) else DataElement.unsigned_integer_16(attribute_id) for attribute_id in attribute_ids]) *) 182974465330964;
  (* accumulator = b'' *) 275303745396830;
  (* continuation_state = bytes([0]) *) 155870661333826;
  (* watchdog = SDP_CONTINUATION_WATCHDOG *) 66097531734890;
  (* While watchdog > 0 *) 264579438166698;
  (* response = await self.send_request(SDP_ServiceSearchAttributeRequest(transaction_id=self.make_transaction_id(), service_search_pattern=service_search_pattern, maximum_attribute_byte_count=65535, attribute_id_list=attribute_id_list, continuation_state=continuation_state)) *) 81075954862266;
  (* assert isinstance(response, SDP_ServiceSearchAttributeResponse) *) 262269767616758;
  (* accumulator += response.attribute_lists *) 210313337848248;
  (* continuation_state = response.continuation_state *) 96648795583662;
  (* If len(continuation_state) == 1 and continuation_state[0] == 0 *) 279241905288810;
  (* break *) 23003398819848;
  (* End *) 269221943068527;
  (* watchdog -= 1 *) 24033249487443;
  (* End *) 269221943068527;
  (* attribute_lists_sequences = DataElement.from_bytes(accumulator) *) 192324221912823;
  (* If attribute_lists_sequences.type != DataElement.SEQUENCE *) 4459745213066;
  (* return [] *) 30291628539750;
  (* End *) 269221943068527;
  (* return [ServiceAttribute.list_from_data_elements(sequence.value) for sequence in attribute_lists_sequences.value if sequence.type == DataElement.SEQUENCE] *) 89766152980180
].
Definition e_skel_sdp_client_get_attributes : list Z := [
  (* async def get_attributes(self, service_record_handle, attribute_ids) *) 236357973517844;
  (* If self.pending_request is not None *) 276079641114484;
  (* raise InvalidStateError('request already pending') *) 209288316398685;
  (* End *) 269221943068527;
  (* If self.channel is None *) 108316869613294;
  (* raise InvalidStateError('L2CAP not connected') *) 32867082636382;
  (* End *) 269221943068527;
  (* attribute_id_list = DataElement.sequence([DataElement.unsigned_integer_32(attribute_id[0] << 16 | attribute_id[1]) if isinstance(attribute_id, tuple) else DataElement.unsigned_integer_16(attribute_id) for attribute_id in attribute_ids]) *) 182974465330964;
  (* accumulator = b'' *) 275303745396830;
  (* continuation_state = bytes([0]) *) 155870661333826;
  (* watchdog = SDP_CONTINUATION_WATCHDOG *) 66097531734890;
  (* While watchdog > 0 *) 264579438166698;
  (* response = await self.send_request(SDP_ServiceAttributeRequest(transaction_id=self.make_transaction_id(), service_record_handle=service_record_handle, maximum_attribute_byte_count=65535, attribute_id_list=attribute_id_list, continuation_state=continuation_state)) *) 8050009665557;
  (* assert isinstance(response, SDP_ServiceAttributeResponse) *) 154117139780929;
  (* accumulator += response.attribute_list *) 77307072694214;
  (* continuation_state = response.continuation_state *) 96648795583662;
  (* If len(continuation_state) == 1 and continuation_state[0] == 0 *) 279241905288810;
  (* break *) 23003398819848;
  (* End *) 269221943068527;
  (* watchdog -= 1 *) 24033249487443;
  (* End *) 269221943068527;
  (* attribute_list_sequence = DataElement.from_bytes(accumulator) *) 244212266699826;
  (* If attribute_list_sequence.type != DataElement.SEQUENCE *) 254699830230271;
  (* return [] *) 30291628539750;
  (* End *) 269221943068527;
  (* return ServiceAttribute.list_from_data_elements(attribute_list_sequence.value) *) 215256759176313
].
Definition e_skel_avdtp_asm_reset : list Z := [
  (* def reset(self) *) 252391477992998;
  (* self.transaction_label = 0 *) 111392723096780;
  (* self.message = None *) 106926703749944;
  (* self.message_type = Message.MessageType.COMMAND *) 143713257620441;
  (* self.signal_identifier = SignalIdentifier(0) *) 2917782519442;
  (* self.number_of_signal_packets = 0 *) 156930724279227;
  (* self.packet_count = 0 *) 193378948778533
].
Definition e_skel_avdtp_asm_on_pdu : list Z := [
  (* def on_pdu(self, pdu) *) 47653129893153;
  (* self.packet_count += 1 *) 176274891287520;
  (* If not pdu *) 197171217046973;
  (* return *) 124828667829939;
  (* End *) 269221943068527;
  (* transaction_label = pdu[0] >> 4 *) 65529851490168;
  (* packet_type = Protocol.PacketType(pdu[0] >> 2 & 3) *) 42237232419137;
  (* message_type = Message.MessageType(pdu[0] & 3) *) 138808165661928;
  (* If packet_type in (Protocol.PacketType.SINGLE_PACKET, Protocol.PacketType.START_PACKET) *) 64738292738532;
  (* If len(pdu) < 2 *) 209189889575378;
  (* return *) 124828667829939;
  (* End *) 269221943068527;
  (* If packet_type == Protocol.PacketType.START_PACKET and len(pdu) < 3 *) 41547497215300;
  (* return *) 124828667829939;
  (* End *) 269221943068527;
  (* If self.message is not None *) 252551933618153;
  (* self.reset() *) 151430397993382;
  (* End *) 269221943068527;
  (* self.packet_count = 1 *) 169377066618877;
  (* self.transaction_label = transaction_label *) 97811725192408;
  (* self.signal_identifier = SignalIdentifier(pdu[1] & 63) *) 109941828660007;
  (* self.message_type = message_type *) 100442759039140;
  (* If packet_type == Protocol.PacketType.SINGLE_PACKET *) 117379903122078;
  (* self.message = pdu[2:] *) 168014804245672;
  (* self.on_message_complete() *) 188903559328579;
  (* Else *) 172038525209843;
  (* self.number_of_signal_packets = pdu[2] *) 187868345242650;
  (* self.message = pdu[3:] *) 29361183290423;
  (* End *) 269221943068527;
  (* Else *) 172038525209843;
  (* If packet_type in (Protocol.PacketType.CONTINUE_PACKET, Protocol.PacketType.END_PACKET) *) 212790989613948;
  (* If self.packet_count == 0 *) 260282642246534;
  (* return *) 124828667829939;
  (* End *) 269221943068527;
  (* If transaction_label != self.transaction_label *) 139779527774050;
  (* return *) 124828667829939;
  (* End *) 269221943068527;
  (* If message_type != self.message_type *) 82333883826678;
  (* return *) 124828667829939;
  (* End *) 269221943068527;
  (* self.message = (self.message or b'') + pdu[1:] *) 138375344839937;
  (* If packet_type == Protocol.PacketType.END_PACKET *) 270478500135992;
  (* If self.packet_count != self.number_of_signal_packets *) 112367863241051;
  (* self.reset() *) 151430397993382;
  (* return *) 124828667829939;
  (* End *) 269221943068527;
  (* self.on_message_complete() *) 188903559328579;
  (* Else *) 172038525209843;
  (* If self.packet_count > self.number_of_signal_packets *) 221855357888000;
  (* self.reset() *) 151430397993382;
  (* return *) 124828667829939;
  (* End *) 269221943068527;
  (* End *) 269221943068527;
  (* End *) 269221943068527;
  (* End *) 269221943068527
].
Definition e_skel_avdtp_asm_on_message_complete : list Z := [
  (* def on_message_complete(self) *) 82074472197569;
  (* message = Message.create(self.signal_identifier, self.message_type, self.message or b'') *) 147057390064040;
  (* Try *) 147157398162686;
  (* self.callback(self.transaction_label, message) *) 280334846063557;
  (* Except Exception *) 147230200925634;
  (* End *) 269221943068527;
  (* self.reset() *) 151430397993382
].
Definition e_skel_avdtp_send_message : list Z := [
  (* def send_message(self, transaction_label, message) *) 240233366466914;
  (* max_fragment_size = self.l2cap_channel.peer_mtu - 3 *) 145698567070778;
  (* payload = message.payload *) 150158970743278;
  (* If len(payload) + 2 <= self.l2cap_channel.peer_mtu *) 57647383125745;
  (* packet_type = self.PacketType.SINGLE_PACKET *) 177518810660292;
  (* Else *) 172038525209843;
  (* packet_type = self.PacketType.START_PACKET *) 84534391830356;
  (* End *) 269221943068527;
  (* done = False *) 105619833146793;
  (* While not done *) 244536271035430;
  (* first_header_byte = transaction_label << 4 | packet_type << 2 | message.message_type *) 100977728368529;
  (* If packet_type == self.PacketType.SINGLE_PACKET *) 272275120596345;
  (* header = bytes([first_header_byte, message.signal_identifier]) *) 185481122569706;
  (* self.l2cap_channel.write(header + payload) *) 202975992399974;
  (* return *) 124828667829939;
  (* End *) 269221943068527;
  (* If packet_type == self.PacketType.START_PACKET *) 150698139755505;
  (* packet_count = (max_fragment_size - 1 + len(payload)) // max_fragment_size *) 244859731981631;
  (* header = bytes([first_header_byte, message.signal_identifier, packet_count]) *) 163879317370313;
  (* Else *) 172038525209843;
  (* header = bytes([first_header_byte]) *) 247332108342417;
  (* End *) 269221943068527;
  (* self.l2cap_channel.write(header + payload[:max_fragment_size]) *) 81048533940697;
  (* payload = payload[max_fragment_size:] *) 8851782290831;
  (* If payload *) 239861758475980;
  (* packet_type = self.PacketType.CONTINUE_PACKET if len(payload) > max_fragment_size else self.PacketType.END_PACKET *) 207315742434988;
  (* Else *) 172038525209843;
  (* done = True *) 72729656498682;
  (* End *) 269221943068527;
  (* End *) 269221943068527
].
Definition e_skel_avctp_asm_reset : list Z := [
  (* def reset(self) *) 252391477992998;
  (* self.packets_received = 0 *) 60185750146363;
  (* self.transaction_label = -1 *) 232764918338964;
  (* self.pid = -1 *) 25900545891162;
  (* self.c_r = -1 *) 259706172163303;
  (* self.ipid = -1 *) 251822324026930;
  (* self.payload = b'' *) 155008479616025;
  (* self.number_of_packets = 0 *) 238947965732023;
  (* self.packet_count = 0 *) 193378948778533
].
Definition e_skel_avctp_asm_on_pdu : list Z := [
  (* def on_pdu(self, pdu) *) 47653129893153;
  (* self.packets_received += 1 *) 154609296927782;
  (* transaction_label = pdu[0] >> 4 *) 65529851490168;
  (* packet_type = Protocol.PacketType(pdu[0] >> 2 & 3) *) 42237232419137;
  (* c_r = pdu[0] >> 1 & 1 *) 226269553857557;
  (* ipid = pdu[0] & 1 *) 206529100955384;
  (* If c_r == 0 and ipid != 0 *) 272851306558108;
  (* self.reset() *) 151430397993382;
  (* return *) 124828667829939;
  (* End *) 269221943068527;
  (* pid_offset = 1 *) 36803249604939;
  (* If packet_type in (Protocol.PacketType.SINGLE, Protocol.PacketType.START) *) 118585771535724;
  (* If self.transaction_label >= 0 *) 151695367923081;
  (* End *) 269221943068527;
  (* self.reset() *) 151430397993382;
  (* self.packets_received = 1 *) 191585388409787;
  (* If packet_type == Protocol.PacketType.START *) 105799622922645;
  (* self.number_of_packets = pdu[1] *) 240526303489689;
  (* pid_offset = 2 *) 168151770778461;
  (* End *) 269221943068527;
  (* End *) 269221943068527;
  (* pid = struct.unpack_from('>H', pdu, pid_offset)[0] *) 42710724489352;
  (* self.payload += pdu[pid_offset + 2:] *) 228276885709083;
  (* If packet_type in (Protocol.PacketType.CONTINUE, Protocol.PacketType.END) *) 27801178476659;
  (* If transaction_label != self.transaction_label *) 139779527774050;
  (* self.reset() *) 151430397993382;
  (* return *) 124828667829939;
  (* End *) 269221943068527;
  (* If pid != self.pid *) 277099344921410;
  (* self.reset() *) 151430397993382;
  (* return *) 124828667829939;
  (* End *) 269221943068527;
  (* If c_r != self.c_r *) 160336589384479;
  (* self.reset() *) 151430397993382;
  (* return *) 124828667829939;
  (* End *) 269221943068527;
  (* If self.packets_received > self.number_of_packets *) 240964571280790;
  (* self.reset() *) 151430397993382;
  (* return *) 124828667829939;
  (* End *) 269221943068527;
  (* If packet_type == Protocol.PacketType.END *) 152728788876370;
  (* If self.packets_received != self.number_of_packets *) 162538521282335;
  (* self.reset() *) 151430397993382;
  (* return *) 124828667829939;
  (* End *) 269221943068527;
  (* End *) 269221943068527;
  (* Else *) 172038525209843;
  (* self.transaction_label = transaction_label *) 97811725192408;
  (* self.c_r = c_r *) 26468209898872;
  (* self.ipid = ipid *) 89128214513223;
  (* self.pid = pid *) 24834586252440;
  (* End *) 269221943068527;
  (* If packet_type in (Protocol.PacketType.SINGLE, Protocol.PacketType.END) *) 214911865345237;
  (* self.on_message_complete() *) 188903559328579;
  (* End *) 269221943068527
].
Definition e_skel_avctp_asm_on_message_complete : list Z := [
  (* def on_message_complete(self) *) 82074472197569;
  (* Try *) 147157398162686;
  (* self.callback(self.transaction_label, self.c_r == 0, self.ipid != 0, self.pid, self.payload) *) 81745875377845;
  (* Except Exception *) 147230200925634;
  (* End *) 269221943068527;
  (* self.reset() *) 151430397993382
].
Definition e_skel_avdtp_stream_configure : list Z := [
  (* async def configure(self) *) 199998997744955;
  (* If self.state != State.IDLE *) 271057725873794;
  (* raise InvalidStateError('current state is not IDLE') *) 179084500006516;
  (* End *) 269221943068527;
  (* await self.remote_endpoint.set_configuration(self.local_endpoint.seid, self.local_endpoint.configuration) *) 149494279712256;
  (* self.change_state(State.CONFIGURED) *) 140660794158207
].
Definition e_skel_avdtp_stream_open : list Z := [
  (* async def open(self) *) 236134889441525;
  (* If self.state != State.CONFIGURED *) 69419725365659;
  (* raise InvalidStateError('current state is not CONFIGURED') *) 100265169907021;
  (* End *) 269221943068527;
  (* await self.remote_endpoint.open() *) 160923903098298;
  (* self.change_state(State.OPEN) *) 73724896437962;
  (* self.rtp_channel = await self.protocol.l2cap_channel.connection.create_l2cap_channel(l2cap.ClassicChannelSpec(psm=AVDTP_PSM)) *) 101315524296490
].
Definition e_skel_avdtp_stream_start : list Z := [
  (* async def start(self) *) 73929978924386;
  (* If self.state == State.CONFIGURED *) 211546480268203;
  (* await self.open() *) 247402695373635;
  (* End *) 269221943068527;
  (* If self.state != State.OPEN *) 193568178702537;
  (* raise InvalidStateError('current state is not OPEN') *) 134810558215088;
  (* End *) 269221943068527;
  (* await self.remote_endpoint.start() *) 202430606302770;
  (* await self.local_endpoint.start() *) 160984404495086;
  (* self.change_state(State.STREAMING) *) 171112973978688
].
Definition e_skel_avdtp_stream_stop : list Z := [
  (* async def stop(self) *) 87050788634817;
  (* If self.state != State.STREAMING *) 57538083204796;
  (* raise InvalidStateError('current state is not STREAMING') *) 226194586286785;
  (* End *) 269221943068527;
  (* await self.local_endpoint.stop() *) 100570535835053;
  (* await self.remote_endpoint.stop() *) 59325549062921;
  (* self.change_state(State.OPEN) *) 73724896437962
].
Definition e_skel_avdtp_stream_close : list Z := [
  (* async def close(self) *) 248620657728793;
  (* If self.state not in (State.OPEN, State.STREAMING) *) 164054973742597;
  (* raise InvalidStateError('current state is not OPEN or STREAMING') *) 192868073292784;
  (* End *) 269221943068527;
  (* await self.local_endpoint.close() *) 91875758069323;
  (* await self.remote_endpoint.close() *) 200527470739200;
  (* self.change_state(State.CLOSING) *) 94334332443827;
  (* If self.rtp_channel *) 251765341230621;
  (* await self.rtp_channel.disconnect() *) 189905344071584;
  (* self.rtp_channel = None *) 65809762499893;
  (* End *) 269221943068527;
  (* self.change_state(State.IDLE) *) 98729767874138
].
Definition e_skel_avdtp_stream_abort : list Z := [
  (* async def abort(self) *) 155156975420381;
  (* If self.state == State.IDLE *) 91377450944645;
  (* raise InvalidStateError('current state is IDLE') *) 154192734369374;
  (* End *) 269221943068527;
  (* await self.remote_endpoint.abort() *) 200403419198547;
  (* self.change_state(State.ABORTING) *) 182584976940063;
  (* If self.rtp_channel *) 251765341230621;
  (* await self.rtp_channel.disconnect() *) 189905344071584;
  (* self.rtp_channel = None *) 65809762499893;
  (* End *) 269221943068527;
  (* self.change_state(State.IDLE) *) 98729767874138
].
Definition e_skel_avdtp_stream_on_set_configuration_command : list Z := [
  (* async def on_set_configuration_command(self, configuration) *) 239384169799320;
  (* If self.state != State.IDLE *) 271057725873794;
  (* return Set_Configuration_Reject(error_code=AVDTP_BAD_STATE_ERROR) *) 171648763597631;
  (* End *) 269221943068527;
  (* result = await self.local_endpoint.on_set_configuration_command(configuration) *) 122425458960161;
  (* If result is not None *) 89503986389067;
  (* return result *) 211081663337526;
  (* End *) 269221943068527;
  (* self.change_state(State.CONFIGURED) *) 140660794158207;
  (* return None *) 175316439560358
].
Definition e_skel_avdtp_stream_on_open_command : list Z := [
  (* async def on_open_command(self) *) 248921923398522;
  (* If self.state != State.CONFIGURED *) 69419725365659;
  (* return Open_Reject(AVDTP_BAD_STATE_ERROR) *) 156445674620649;
  (* End *) 269221943068527;
  (* result = await self.local_endpoint.on_open_command() *) 162885705363430;
  (* If result is not None *) 89503986389067;
  (* return result *) 211081663337526;
  (* End *) 269221943068527;
  (* self.protocol.channel_acceptor = self *) 35449920845674;
  (* self.change_state(State.OPEN) *) 73724896437962;
  (* return None *) 175316439560358
].
Definition e_skel_avdtp_stream_on_start_command : list Z := [
  (* async def on_start_command(self) *) 152871903224140;
  (* If self.state != State.OPEN *) 193568178702537;
  (* return Open_Reject(AVDTP_BAD_STATE_ERROR) *) 156445674620649;
  (* End *) 269221943068527;
  (* If self.rtp_channel is None *) 170835804616459;
  (* return Open_Reject(AVDTP_BAD_STATE_ERROR) *) 156445674620649;
  (* End *) 269221943068527;
  (* result = await self.local_endpoint.on_start_command() *) 233779011192045;
  (* If result is not None *) 89503986389067;
  (* return result *) 211081663337526;
  (* End *) 269221943068527;
  (* self.change_state(State.STREAMING) *) 171112973978688;
  (* return None *) 175316439560358
].
Definition e_skel_avdtp_stream_on_suspend_command : list Z := [
  (* async def on_suspend_command(self) *) 175529289025580;
  (* If self.state != State.STREAMING *) 57538083204796;
  (* return Open_Reject(AVDTP_BAD_STATE_ERROR) *) 156445674620649;
  (* End *) 269221943068527;
  (* result = await self.local_endpoint.on_suspend_command() *) 272792342852410;
  (* If result is not None *) 89503986389067;
  (* return result *) 211081663337526;
  (* End *) 269221943068527;
  (* self.change_state(State.OPEN) *) 73724896437962;
  (* return None *) 175316439560358
].
Definition e_skel_avdtp_stream_on_close_command : list Z := [
  (* async def on_close_command(self) *) 168440055957823;
  (* If self.state not in (State.OPEN, State.STREAMING) *) 164054973742597;
  (* return Open_Reject(AVDTP_BAD_STATE_ERROR) *) 156445674620649;
  (* End *) 269221943068527;
  (* result = await self.local_endpoint.on_close_command() *) 84206462216458;
  (* If result is not None *) 89503986389067;
  (* return result *) 211081663337526;
  (* End *) 269221943068527;
  (* self.change_state(State.CLOSING) *) 94334332443827;
  (* If self.rtp_channel is None *) 170835804616459;
  (* self.change_state(State.IDLE) *) 98729767874138;
  (* Else *) 172038525209843;
  (* pass *) 236738344553891;
  (* End *) 269221943068527;
  (* return None *) 175316439560358
].
Definition e_skel_avdtp_stream_on_abort_command : list Z := [
  (* async def on_abort_command(self) *) 132949377809661;
  (* await self.local_endpoint.on_abort_command() *) 79024421047197;
  (* If self.rtp_channel is None *) 170835804616459;
  (* self.change_state(State.IDLE) *) 98729767874138;
  (* Else *) 172038525209843;
  (* self.change_state(State.ABORTING) *) 182584976940063;
  (* End *) 269221943068527;
  (* return None *) 175316439560358
].
Definition e_skel_avdtp_stream_on_get_configuration_command : list Z := [
  (* async def on_get_configuration_command(self) *) 236020821170334;
  (* If self.state not in (State.CONFIGURED, State.OPEN, State.STREAMING) *) 239902954638881;
  (* return Get_Configuration_Reject(error_code=AVDTP_BAD_STATE_ERROR) *) 230347275740765;
  (* End *) 269221943068527;
  (* return await self.local_endpoint.on_get_configuration_command() *) 92161638462453
].
Definition e_skel_avdtp_stream_on_reconfigure_command : list Z := [
  (* async def on_reconfigure_command(self, configuration) *) 237711983747856;
  (* If self.state != State.OPEN *) 193568178702537;
  (* return Reconfigure_Reject(error_code=AVDTP_BAD_STATE_ERROR) *) 273802743730753;
  (* End *) 269221943068527;
  (* result = await self.local_endpoint.on_reconfigure_command(configuration) *) 116429338108151;
  (* If result is not None *) 89503986389067;
  (* return result *) 211081663337526;
  (* End *) 269221943068527;
  (* return None *) 175316439560358
].
Definition e_skel_avdtp_stream_on_l2cap_connection : list Z := [
  (* def on_l2cap_connection(self, channel) *) 150529790423419;
  (* self.rtp_channel = channel *) 155269094875059;
  (* channel.on(channel.EVENT_OPEN, self.on_l2cap_channel_open) *) 82003247707935;
  (* channel.on(channel.EVENT_CLOSE, self.on_l2cap_channel_close) *) 262217840280050;
  (* self.protocol.channel_acceptor = None *) 81724582034408
].
Definition e_skel_avdtp_stream_on_l2cap_channel_close : list Z := [
  (* def on_l2cap_channel_close(self) *) 202469042613053;
  (* self.local_endpoint.on_rtp_channel_close() *) 112656603242409;
  (* self.rtp_channel = None *) 65809762499893;
  (* If self.state in (State.CLOSING, State.ABORTING) *) 149010796160231;
  (* self.change_state(State.IDLE) *) 98729767874138;
  (* Else *) 172038525209843;
  (* End *) 269221943068527
].
Definition e_skel_avdtp_protocol_on_set_configuration_command : list Z := [
  (* async def on_set_configuration_command(self, command) *) 256585603879122;
  (* endpoint = self.get_local_endpoint_by_seid(command.acp_seid) *) 251198801439410;
  (* If endpoint is None *) 113644907703940;
  (* return Set_Configuration_Reject(error_code=AVDTP_BAD_ACP_SEID_ERROR) *) 72364389859893;
  (* End *) 269221943068527;
  (* If endpoint.in_use *) 258214531574417;
  (* return Set_Configuration_Reject(error_code=AVDTP_SEP_IN_USE_ERROR) *) 234211361017127;
  (* End *) 269221943068527;
  (* stream = Stream(self, endpoint, StreamEndPointProxy(self, command.int_seid)) *) 255306331364897;
  (* self.streams[command.acp_seid] = stream *) 60302531679015;
  (* result = await stream.on_set_configuration_command(command.capabilities) *) 13906597425152;
  (* return result or Set_Configuration_Response() *) 2374676603456
].
Definition e_skel_avdtp_protocol_on_open_command : list Z := [
  (* async def on_open_command(self, command) *) 188061907509769;
  (* endpoint = self.get_local_endpoint_by_seid(command.acp_seid) *) 251198801439410;
  (* If endpoint is None *) 113644907703940;
  (* return Open_Reject(AVDTP_BAD_ACP_SEID_ERROR) *) 280780544118231;
  (* End *) 269221943068527;
  (* If endpoint.stream is None *) 264654461093664;
  (* return Open_Reject(AVDTP_BAD_STATE_ERROR) *) 156445674620649;
  (* End *) 269221943068527;
  (* result = await endpoint.stream.on_open_command() *) 225761789895745;
  (* return result or Open_Response() *) 156919128631599
].
Definition e_skel_avdtp_protocol_on_start_command : list Z := [
  (* async def on_start_command(self, command) *) 212565660284643;
  (* For seid in command.acp_seids *) 236563117050482;
  (* endpoint = self.get_local_endpoint_by_seid(seid) *) 278018472682858;
  (* If endpoint is None *) 113644907703940;
  (* return Start_Reject(seid, AVDTP_BAD_ACP_SEID_ERROR) *) 276627482577262;
  (* End *) 269221943068527;
  (* If endpoint.stream is None *) 264654461093664;
  (* return Start_Reject(seid, AVDTP_BAD_STATE_ERROR) *) 109428261086298;
  (* End *) 269221943068527;
  (* End *) 269221943068527;
  (* For seid in command.acp_seids *) 236563117050482;
  (* endpoint = self.get_local_endpoint_by_seid(seid) *) 278018472682858;
  (* If not endpoint or not endpoint.stream *) 196241479063847;
  (* raise InvalidStateError('Should already be checked!') *) 190604909718131;
  (* End *) 269221943068527;
  (* If (result := (await endpoint.stream.on_start_command())) is not None *) 139974933781649;
  (* return result *) 211081663337526;
  (* End *) 269221943068527;
  (* End *) 269221943068527;
  (* return Start_Response() *) 210290456783583
].
Definition e_skel_avdtp_protocol_on_suspend_command : list Z := [
  (* async def on_suspend_command(self, command) *) 226352767375472;
  (* For seid in command.acp_seids *) 236563117050482;
  (* endpoint = self.get_local_endpoint_by_seid(seid) *) 278018472682858;
  (* If endpoint is None *) 113644907703940;
  (* return Suspend_Reject(seid, AVDTP_BAD_ACP_SEID_ERROR) *) 105980389788855;
  (* End *) 269221943068527;
  (* If endpoint.stream is None *) 264654461093664;
  (* return Suspend_Reject(seid, AVDTP_BAD_STATE_ERROR) *) 196252423691713;
  (* End *) 269221943068527;
  (* End *) 269221943068527;
  (* For seid in command.acp_seids *) 236563117050482;
  (* endpoint = self.get_local_endpoint_by_seid(seid) *) 278018472682858;
  (* If not endpoint or not endpoint.stream *) 196241479063847;
  (* raise InvalidStateError('Should already be checked!') *) 190604909718131;
  (* End *) 269221943068527;
  (* If (result := (await endpoint.stream.on_suspend_command())) is not None *) 37946998799231;
  (* return result *) 211081663337526;
  (* End *) 269221943068527;
  (* End *) 269221943068527;
  (* return Suspend_Response() *) 242973355663650
].
Definition e_skel_avdtp_protocol_on_close_command : list Z := [
  (* async def on_close_command(self, command) *) 90386482069536;
  (* endpoint = self.get_local_endpoint_by_seid(command.acp_seid) *) 251198801439410;
  (* If endpoint is None *) 113644907703940;
  (* return Close_Reject(AVDTP_BAD_ACP_SEID_ERROR) *) 182003306303359;
  (* End *) 269221943068527;
  (* If endpoint.stream is None *) 264654461093664;
  (* return Close_Reject(AVDTP_BAD_STATE_ERROR) *) 193208038930330;
  (* End *) 269221943068527;
  (* result = await endpoint.stream.on_close_command() *) 41767994524581;
  (* return result or Close_Response() *) 251343016395243
].
Definition e_skel_avdtp_protocol_on_abort_command : list Z := [
  (* async def on_abort_command(self, command) *) 16839521556234;
  (* endpoint = self.get_local_endpoint_by_seid(command.acp_seid) *) 251198801439410;
  (* If endpoint is None or endpoint.stream is None *) 263993191506135;
  (* return Abort_Response() *) 219238711721020;
  (* End *) 269221943068527;
  (* await endpoint.stream.on_abort_command() *) 240682801631824;
  (* return Abort_Response() *) 219238711721020
].
Definition e_skel_avdtp_protocol_on_get_configuration_command : list Z := [
  (* async def on_get_configuration_command(self, command) *) 14454014818781;
  (* endpoint = self.get_local_endpoint_by_seid(command.acp_seid) *) 251198801439410;
  (* If endpoint is None *) 113644907703940;
  (* return Get_Configuration_Reject(AVDTP_BAD_ACP_SEID_ERROR) *) 49135197930697;
  (* End *) 269221943068527;
  (* If endpoint.stream is None *) 264654461093664;
  (* return Get_Configuration_Reject(AVDTP_BAD_STATE_ERROR) *) 155338701754000;
  (* End *) 269221943068527;
  (* return await endpoint.stream.on_get_configuration_command() *) 71195582111063
].
Definition e_skel_avdtp_protocol_on_reconfigure_command : list Z := [
  (* async def on_reconfigure_command(self, command) *) 1816764601967;
  (* endpoint = self.get_local_endpoint_by_seid(command.acp_seid) *) 251198801439410;
  (* If endpoint is None *) 113644907703940;
  (* return Reconfigure_Reject(error_code=AVDTP_BAD_ACP_SEID_ERROR) *) 206830819505024;
  (* End *) 269221943068527;
  (* If endpoint.stream is None *) 264654461093664;
  (* return Reconfigure_Reject(error_code=AVDTP_BAD_STATE_ERROR) *) 273802743730753;
  (* End *) 269221943068527;
  (* result = await endpoint.stream.on_reconfigure_command(command.capabilities) *) 139966551458542;
  (* return result or Reconfigure_Response() *) 36679964874460
].
Definition e_skel_avdtp_protocol_on_delayreport_command : list Z := [
  (* async def on_delayreport_command(self, command) *) 199648444561707;
  (* endpoint = self.get_local_endpoint_by_seid(command.acp_seid) *) 251198801439410;
  (* If endpoint is None *) 113644907703940;
  (* return DelayReport_Reject(AVDTP_BAD_ACP_SEID_ERROR) *) 17385660445691;
  (* End *) 269221943068527;
  (* result = await endpoint.on_delayreport_command(command.delay) *) 132564036920614;
  (* return result or DelayReport_Response() *) 187446140349621
].
Definition e_skel_avdtp_protocol_on_l2cap_connection : list Z := [
  (* def on_l2cap_connection(self, channel) *) 150529790423419;
  (* If self.channel_acceptor is None *) 10284706867566;
  (* return *) 124828667829939;
  (* End *) 269221943068527;
  (* self.channel_acceptor.on_l2cap_connection(channel) *) 3716891907052
].
Definition e_skeletons : list (list Z) := [e_skel_sdp_match_services; e_skel_sdp_on_connection; e_skel_sdp_select_channel; e_skel_sdp_on_channel_pdu; e_skel_sdp_on_channel_close; e_skel_sdp_check_continuation; e_skel_sdp_get_next_response_payload; e_skel_sdp_get_service_attributes; e_skel_sdp_on_search; e_skel_sdp_on_attribute; e_skel_sdp_on_search_attribute; e_skel_sdp_is_uuid_in_value; e_skel_sdp_list_from_data_elements; e_skel_sdp_client_on_pdu; e_skel_sdp_client_search_services; e_skel_sdp_client_search_attributes; e_skel_sdp_client_get_attributes; e_skel_avdtp_asm_reset; e_skel_avdtp_asm_on_pdu; e_skel_avdtp_asm_on_message_complete; e_skel_avdtp_send_message; e_skel_avctp_asm_reset; e_skel_avctp_asm_on_pdu; e_skel_avctp_asm_on_message_complete; e_skel_avdtp_stream_configure; e_skel_avdtp_stream_open; e_skel_avdtp_stream_start; e_skel_avdtp_stream_stop; e_skel_avdtp_stream_close; e_skel_avdtp_stream_abort; e_skel_avdtp_stream_on_set_configuration_command; e_skel_avdtp_stream_on_open_command; e_skel_avdtp_stream_on_start_command; e_skel_avdtp_stream_on_suspend_command; e_skel_avdtp_stream_on_close_command; e_skel_avdtp_stream_on_abort_command; e_skel_avdtp_stream_on_get_configuration_command; e_skel_avdtp_stream_on_reconfigure_command; e_skel_avdtp_stream_on_l2cap_connection; e_skel_avdtp_stream_on_l2cap_channel_close; e_skel_avdtp_protocol_on_set_configuration_command; e_skel_avdtp_protocol_on_open_command; e_skel_avdtp_protocol_on_start_command; e_skel_avdtp_protocol_on_suspend_command; e_skel_avdtp_protocol_on_close_command; e_skel_avdtp_protocol_on_abort_command; e_skel_avdtp_protocol_on_get_configuration_command; e_skel_avdtp_protocol_on_reconfigure_command; e_skel_avdtp_protocol_on_delayreport_command; e_skel_avdtp_protocol_on_l2cap_connection].
