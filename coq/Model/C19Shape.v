(* Model/C19Shape.v -- the reading of bumble/sdp.py, avdtp.py, avctp.py the C19 models were written from,
   in the form the translator tools/translate/c19_shape.py regenerates from the source on every run
   (coq/Gen/C19Shape.v): the statement skeleton of every anchored function (one hash per normalised statement,
   the statement itself in the comment), the guard / target table of the AVDTP stream procedures, and the
   constants.  Props/C19.v proves the regenerated definitions equal to these, and these consistent with the
   executable models.  This file is maintained by hand: when the source changes on purpose, re-read the code,
   update the models, then refresh this file (tools/translate/c19_shape.py prints the new text).
   Definitions only. *)
From Coq Require Import ZArith List Bool.
Import ListNotations.
Open Scope Z_scope.

(* (states in which the procedure goes ahead, change_state targets in source order); state codes
   IDLE 0, CONFIGURED 1, OPEN 2, STREAMING 3, CLOSING 4, ABORTING 5 *)
Definition e_stream_initiator : list (list Z * list Z) := [
  ([0], [1]);                     (* Stream.configure *)
  ([1], [2]);                     (* Stream.open *)
  ([2], [3]);                     (* Stream.start (after the auto-open from CONFIGURED) *)
  ([3], [2]);                     (* Stream.stop *)
  ([2; 3], [4; 0]);               (* Stream.close *)
  ([1; 2; 3; 4; 5], [5; 0])       (* Stream.abort *)
].
Definition e_stream_acceptor : list (list Z * list Z) := [
  ([0], [1]);                     (* on_set_configuration_command *)
  ([1], [2]);                     (* on_open_command *)
  ([2], [3]);                     (* on_start_command *)
  ([3], [2]);                     (* on_suspend_command *)
  ([2; 3], [4; 0]);               (* on_close_command: CLOSING, then IDLE when there is no RTP channel *)
  ([0; 1; 2; 3; 4; 5], [0; 5]);   (* on_abort_command: IDLE without an RTP channel, else ABORTING *)
  ([1; 2; 3], []);                (* on_get_configuration_command *)
  ([2], [])                       (* on_reconfigure_command *)
].

Definition e_sdp_continuation_state : list Z := [1; 0].
Definition e_sdp_pdu_ids : list Z := [1; 2; 3; 4; 5; 6; 7].
Definition e_packet_types : list Z := [0; 1; 2; 3].           (* SINGLE, START, CONTINUE, END (AVDTP and AVCTP) *)
Definition e_avdtp_body_offsets : list Z := [2; 3; 1].        (* SINGLE pdu[2:], START pdu[3:], CONTINUE/END pdu[1:] *)
Definition e_avctp_pid_offsets : list Z := [1; 2].

(*
   def match_services(self, search_pattern)
   matching_services = {}
   For (handle, service) in self.service_records.items()
   If all((any((ServiceAttribute.is_uuid_in_value(uuid.value, attribute.value) for attribute in service)) for uuid in search_pattern.value))
   matching_services[handle] = service
   End
   End
   return matching_services
*)
Definition e_skel_sdp_match_services : Z := 261804520454309.
(*
   def on_connection(self, channel)
   self.select_channel(channel)
   channel.sink = lambda pdu: self.on_channel_pdu(channel, pdu)
   channel.on(channel.EVENT_CLOSE, lambda: self.on_channel_close(channel))
*)
Definition e_skel_sdp_on_connection : Z := 118623709133037.
(*
   def select_channel(self, channel)
   If channel is self.channel
   return
   End
   If self.channel is not None
   self.pending_responses[self.channel] = self.current_response
   End
   self.channel = channel
   self.current_response = self.pending_responses.pop(channel, None)
*)
Definition e_skel_sdp_select_channel : Z := 154382687297369.
(*
   def on_channel_pdu(self, channel, pdu)
   self.select_channel(channel)
   self.on_pdu(pdu)
*)
Definition e_skel_sdp_on_channel_pdu : Z := 185079063739427.
(*
   def on_channel_close(self, channel)
   self.pending_responses.pop(channel, None)
   If channel is self.channel
   self.channel = None
   self.current_response = None
   End
*)
Definition e_skel_sdp_on_channel_close : Z := 93031047072556.
(*
   def check_continuation(self, continuation_state, transaction_id)
   If len(continuation_state) > 1
   If self.current_response is None or continuation_state != self.CONTINUATION_STATE
   self.send_response(SDP_ErrorResponse(transaction_id=transaction_id, error_code=ErrorCode.INVALID_CONTINUATION_STATE))
   return None
   End
   return True
   End
   self.current_response = None
   return False
*)
Definition e_skel_sdp_check_continuation : Z := 130658100004951.
(*
   def get_next_response_payload(self, maximum_size)
   If len(self.current_response) > maximum_size
   payload = self.current_response[:maximum_size]
   continuation_state = Server.CONTINUATION_STATE
   self.current_response = self.current_response[maximum_size:]
   Else
   payload = self.current_response
   continuation_state = bytes([0])
   self.current_response = None
   End
   return (payload, continuation_state)
*)
Definition e_skel_sdp_get_next_response_payload : Z := 52040303868069.
(*
   def get_service_attributes(service, attribute_ids)
   attributes = []
   For attribute_id in attribute_ids
   If attribute_id.value_size == 4
   id_range_start = attribute_id.value >> 16
   id_range_end = attribute_id.value & 65535
   Else
   id_range_start = attribute_id.value
   id_range_end = attribute_id.value
   End
   attributes += [attribute for attribute in service if attribute.id >= id_range_start and attribute.id <= id_range_end]
   End
   attributes.sort(key=lambda x: x.id)
   attribute_list = DataElement.sequence([])
   For attribute in attributes
   attribute_list.value.append(DataElement.unsigned_integer_16(attribute.id))
   attribute_list.value.append(attribute.value)
   End
   return attribute_list
*)
Definition e_skel_sdp_get_service_attributes : Z := 179066155230821.
(*
   def on_sdp_service_search_request(self, request)
   If (continuation := self.check_continuation(request.continuation_state, request.transaction_id)) is None
   return
   End
   If not continuation
   matching_services = self.match_services(request.service_search_pattern)
   service_record_handles = list(matching_services.keys())
   service_record_handles_subset = service_record_handles[:request.maximum_service_record_count]
   self.current_response = (len(service_record_handles), service_record_handles_subset)
   End
   assert isinstance(self.current_response, tuple)
   assert self.channel is not None
   total_service_record_count, service_record_handles = self.current_response
   maximum_service_record_count = (self.channel.peer_mtu - 11) // 4
   service_record_handles_remaining = service_record_handles[maximum_service_record_count:]
   service_record_handles = service_record_handles[:maximum_service_record_count]
   self.current_response = (total_service_record_count, service_record_handles_remaining)
   continuation_state = Server.CONTINUATION_STATE if service_record_handles_remaining else bytes([0])
   self.send_response(SDP_ServiceSearchResponse(transaction_id=request.transaction_id, total_service_record_count=total_service_record_count, service_record_handle_list=service_record_handles, continuation_state=continuation_state))
*)
Definition e_skel_sdp_on_search : Z := 177413770929407.
(*
   def on_sdp_service_attribute_request(self, request)
   If (continuation := self.check_continuation(request.continuation_state, request.transaction_id)) is None
   return
   End
   If not continuation
   service = self.service_records.get(request.service_record_handle)
   If service is None
   self.send_response(SDP_ErrorResponse(transaction_id=request.transaction_id, error_code=ErrorCode.INVALID_SERVICE_RECORD_HANDLE))
   return
   End
   attribute_list = Server.get_service_attributes(service, request.attribute_id_list.value)
   self.current_response = bytes(attribute_list)
   End
   assert self.channel is not None
   maximum_attribute_byte_count = min(request.maximum_attribute_byte_count, self.channel.peer_mtu - 9)
   attribute_list_response, continuation_state = self.get_next_response_payload(maximum_attribute_byte_count)
   self.send_response(SDP_ServiceAttributeResponse(transaction_id=request.transaction_id, attribute_list=attribute_list_response, continuation_state=continuation_state))
*)
Definition e_skel_sdp_on_attribute : Z := 271199259451687.
(*
   def on_sdp_service_search_attribute_request(self, request)
   If (continuation := self.check_continuation(request.continuation_state, request.transaction_id)) is None
   return
   End
   If not continuation
   matching_services = self.match_services(request.service_search_pattern).values()
   attribute_lists = DataElement.sequence([])
   For service in matching_services
   attribute_list = Server.get_service_attributes(service, request.attribute_id_list.value)
   If attribute_list.value
   attribute_lists.value.append(attribute_list)
   End
   End
   self.current_response = bytes(attribute_lists)
   End
   assert self.channel is not None
   maximum_attribute_byte_count = min(request.maximum_attribute_byte_count, self.channel.peer_mtu - 9)
   attribute_lists_response, continuation_state = self.get_next_response_payload(maximum_attribute_byte_count)
   self.send_response(SDP_ServiceSearchAttributeResponse(transaction_id=request.transaction_id, attribute_lists=attribute_lists_response, continuation_state=continuation_state))
*)
Definition e_skel_sdp_on_search_attribute : Z := 4317119426151.
(*
   def is_uuid_in_value(uuid, value)
   If value.type == DataElement.UUID
   return value.value == uuid
   End
   If value.type == DataElement.SEQUENCE
   For element in value.value
   If ServiceAttribute.is_uuid_in_value(uuid, element)
   return True
   End
   End
   return False
   End
   return False
*)
Definition e_skel_sdp_is_uuid_in_value : Z := 1163082583262.
(*
   def list_from_data_elements(elements)
   attribute_list = []
   For i in range(0, len(elements) // 2)
   attribute_id, attribute_value = elements[2 * i:2 * (i + 1)]
   If attribute_id.type != DataElement.UNSIGNED_INTEGER
   continue
   End
   attribute_list.append(ServiceAttribute(attribute_id.value, attribute_value))
   End
   return attribute_list
*)
Definition e_skel_sdp_list_from_data_elements : Z := 255453510765455.
(*
   def on_pdu(self, pdu)
   If not self.pending_request
   return
   End
   assert self.pending_response is not None
   response = SDP_PDU.from_bytes(pdu)
   If self.pending_request.transaction_id != response.transaction_id
   return
   End
   If isinstance(response, SDP_ErrorResponse)
   self.pending_response.set_exception(ProtocolError(error_code=response.error_code))
   return
   End
   If response.pdu_id != SDP_PDU.RESPONSE_PDU_IDS.get(self.pending_request.pdu_id)
   return
   End
   self.pending_response.set_result(response)
*)
Definition e_skel_sdp_client_on_pdu : Z := 259027248949766.
(*
   async def search_services(self, uuids)
   If self.pending_request is not None
   raise InvalidStateError('request already pending')
   End
   If self.channel is None
   raise InvalidStateError('L2CAP not connected')
   End
   service_search_pattern = DataElement.sequence([DataElement.uuid(uuid) for uuid in uuids])
   service_record_handle_list: list[int] = []
   continuation_state = bytes([0])
   watchdog = SDP_CONTINUATION_WATCHDOG
   While watchdog > 0
   response = await self.send_request(SDP_ServiceSearchRequest(transaction_id=self.make_transaction_id(), service_search_pattern=service_search_pattern, maximum_service_record_count=65535, continuation_state=continuation_state))
   assert isinstance(response, SDP_ServiceSearchResponse)
   service_record_handle_list += response.service_record_handle_list
   continuation_state = response.continuation_state
   If len(continuation_state) == 1 and continuation_state[0] == 0
   break
   End
   watchdog -= 1
   End
   return service_record_handle_list
*)
Definition e_skel_sdp_client_search_services : Z := 203795795215336.
(*
   async def search_attributes(self, uuids, attribute_ids)
   If self.pending_request is not None
   raise InvalidStateError('request already pending')
   End
   If self.channel is None
   raise InvalidStateError('L2CAP not connected')
   End
   service_search_pattern = DataElement.sequence([DataElement.uuid(uuid) for uuid in uuids])
   attribute_id_list = DataElement.sequence([DataElement.unsigned_integer_32(attribute_id[0] << 16 | attribute_id[1]) if isinstance(attribute_id, tuple) else DataElement.unsigned_integer_16(attribute_id) for attribute_id in attribute_ids])
   accumulator = b''
   continuation_state = bytes([0])
   watchdog = SDP_CONTINUATION_WATCHDOG
   While watchdog > 0
   response = await self.send_request(SDP_ServiceSearchAttributeRequest(transaction_id=self.make_transaction_id(), service_search_pattern=service_search_pattern, maximum_attribute_byte_count=65535, attribute_id_list=attribute_id_list, continuation_state=continuation_state))
   assert isinstance(response, SDP_ServiceSearchAttributeResponse)
   accumulator += response.attribute_lists
   continuation_state = response.continuation_state
   If len(continuation_state) == 1 and continuation_state[0] == 0
   break
   End
   watchdog -= 1
   End
   attribute_lists_sequences = DataElement.from_bytes(accumulator)
   If attribute_lists_sequences.type != DataElement.SEQUENCE
   return []
   End
   return [ServiceAttribute.list_from_data_elements(sequence.value) for sequence in attribute_lists_sequences.value if sequence.type == DataElement.SEQUENCE]
*)
Definition e_skel_sdp_client_search_attributes : Z := 26597128948447.
(*
   async def get_attributes(self, service_record_handle, attribute_ids)
   If self.pending_request is not None
   raise InvalidStateError('request already pending')
   End
   If self.channel is None
   raise InvalidStateError('L2CAP not connected')
   End
   attribute_id_list = DataElement.sequence([DataElement.unsigned_integer_32(attribute_id[0] << 16 | attribute_id[1]) if isinstance(attribute_id, tuple) else DataElement.unsigned_integer_16(attribute_id) for attribute_id in attribute_ids])
   accumulator = b''
   continuation_state = bytes([0])
   watchdog = SDP_CONTINUATION_WATCHDOG
   While watchdog > 0
   response = await self.send_request(SDP_ServiceAttributeRequest(transaction_id=self.make_transaction_id(), service_record_handle=service_record_handle, maximum_attribute_byte_count=65535, attribute_id_list=attribute_id_list, continuation_state=continuation_state))
   assert isinstance(response, SDP_ServiceAttributeResponse)
   accumulator += response.attribute_list
   continuation_state = response.continuation_state
   If len(continuation_state) == 1 and continuation_state[0] == 0
   break
   End
   watchdog -= 1
   End
   attribute_list_sequence = DataElement.from_bytes(accumulator)
   If attribute_list_sequence.type != DataElement.SEQUENCE
   return []
   End
   return ServiceAttribute.list_from_data_elements(attribute_list_sequence.value)
*)
Definition e_skel_sdp_client_get_attributes : Z := 266523341295375.
(*
   def reset(self)
   self.transaction_label = 0
   self.message = None
   self.message_type = Message.MessageType.COMMAND
   self.signal_identifier = SignalIdentifier(0)
   self.number_of_signal_packets = 0
   self.packet_count = 0
*)
Definition e_skel_avdtp_asm_reset : Z := 1243454555148.
(*
   def on_pdu(self, pdu)
   self.packet_count += 1
   If not pdu
   return
   End
   transaction_label = pdu[0] >> 4
   packet_type = Protocol.PacketType(pdu[0] >> 2 & 3)
   message_type = Message.MessageType(pdu[0] & 3)
   If packet_type in (Protocol.PacketType.SINGLE_PACKET, Protocol.PacketType.START_PACKET)
   If len(pdu) < 2
   return
   End
   If packet_type == Protocol.PacketType.START_PACKET and len(pdu) < 3
   return
   End
   If self.message is not None
   self.reset()
   End
   self.packet_count = 1
   self.transaction_label = transaction_label
   self.signal_identifier = SignalIdentifier(pdu[1] & 63)
   self.message_type = message_type
   If packet_type == Protocol.PacketType.SINGLE_PACKET
   self.message = pdu[2:]
   self.on_message_complete()
   Else
   self.number_of_signal_packets = pdu[2]
   self.message = pdu[3:]
   End
   Else
   If packet_type in (Protocol.PacketType.CONTINUE_PACKET, Protocol.PacketType.END_PACKET)
   If self.packet_count == 0
   return
   End
   If transaction_label != self.transaction_label
   return
   End
   If message_type != self.message_type
   return
   End
   self.message = (self.message or b'') + pdu[1:]
   If packet_type == Protocol.PacketType.END_PACKET
   If self.packet_count != self.number_of_signal_packets
   self.reset()
   return
   End
   self.on_message_complete()
   Else
   If self.packet_count > self.number_of_signal_packets
   self.reset()
   return
   End
   End
   End
   End
*)
Definition e_skel_avdtp_asm_on_pdu : Z := 141253693608610.
(*
   def on_message_complete(self)
   message = Message.create(self.signal_identifier, self.message_type, self.message or b'')
   Try
   self.callback(self.transaction_label, message)
   Except Exception
   End
   self.reset()
*)
Definition e_skel_avdtp_asm_on_message_complete : Z := 27665166003564.
(*
   def send_message(self, transaction_label, message)
   max_fragment_size = self.l2cap_channel.peer_mtu - 3
   payload = message.payload
   If len(payload) + 2 <= self.l2cap_channel.peer_mtu
   packet_type = self.PacketType.SINGLE_PACKET
   Else
   packet_type = self.PacketType.START_PACKET
   End
   done = False
   While not done
   first_header_byte = transaction_label << 4 | packet_type << 2 | message.message_type
   If packet_type == self.PacketType.SINGLE_PACKET
   header = bytes([first_header_byte, message.signal_identifier])
   self.l2cap_channel.write(header + payload)
   return
   End
   If packet_type == self.PacketType.START_PACKET
   packet_count = (max_fragment_size - 1 + len(payload)) // max_fragment_size
   header = bytes([first_header_byte, message.signal_identifier, packet_count])
   Else
   header = bytes([first_header_byte])
   End
   self.l2cap_channel.write(header + payload[:max_fragment_size])
   payload = payload[max_fragment_size:]
   If payload
   packet_type = self.PacketType.CONTINUE_PACKET if len(payload) > max_fragment_size else self.PacketType.END_PACKET
   Else
   done = True
   End
   End
*)
Definition e_skel_avdtp_send_message : Z := 213438006366653.
(*
   def reset(self)
   self.packets_received = 0
   self.transaction_label = -1
   self.pid = -1
   self.c_r = -1
   self.ipid = -1
   self.payload = b''
   self.number_of_packets = 0
   self.packet_count = 0
*)
Definition e_skel_avctp_asm_reset : Z := 224200168136482.
(*
   def on_pdu(self, pdu)
   self.packets_received += 1
   transaction_label = pdu[0] >> 4
   packet_type = Protocol.PacketType(pdu[0] >> 2 & 3)
   c_r = pdu[0] >> 1 & 1
   ipid = pdu[0] & 1
   If c_r == 0 and ipid != 0
   self.reset()
   return
   End
   pid_offset = 1
   If packet_type in (Protocol.PacketType.SINGLE, Protocol.PacketType.START)
   If self.transaction_label >= 0
   End
   self.reset()
   self.packets_received = 1
   If packet_type == Protocol.PacketType.START
   self.number_of_packets = pdu[1]
   pid_offset = 2
   End
   End
   pid = struct.unpack_from('>H', pdu, pid_offset)[0]
   self.payload += pdu[pid_offset + 2:]
   If packet_type in (Protocol.PacketType.CONTINUE, Protocol.PacketType.END)
   If transaction_label != self.transaction_label
   self.reset()
   return
   End
   If pid != self.pid
   self.reset()
   return
   End
   If c_r != self.c_r
   self.reset()
   return
   End
   If self.packets_received > self.number_of_packets
   self.reset()
   return
   End
   If packet_type == Protocol.PacketType.END
   If self.packets_received != self.number_of_packets
   self.reset()
   return
   End
   End
   Else
   self.transaction_label = transaction_label
   self.c_r = c_r
   self.ipid = ipid
   self.pid = pid
   End
   If packet_type in (Protocol.PacketType.SINGLE, Protocol.PacketType.END)
   self.on_message_complete()
   End
*)
Definition e_skel_avctp_asm_on_pdu : Z := 277653122634346.
(*
   def on_message_complete(self)
   Try
   self.callback(self.transaction_label, self.c_r == 0, self.ipid != 0, self.pid, self.payload)
   Except Exception
   End
   self.reset()
*)
Definition e_skel_avctp_asm_on_message_complete : Z := 14437066286081.
(*
   async def configure(self)
   If self.state != State.IDLE
   raise InvalidStateError('current state is not IDLE')
   End
   await self.remote_endpoint.set_configuration(self.local_endpoint.seid, self.local_endpoint.configuration)
   self.change_state(State.CONFIGURED)
*)
Definition e_skel_avdtp_stream_configure : Z := 161377340543377.
(*
   async def open(self)
   If self.state != State.CONFIGURED
   raise InvalidStateError('current state is not CONFIGURED')
   End
   await self.remote_endpoint.open()
   self.change_state(State.OPEN)
   self.rtp_channel = await self.protocol.l2cap_channel.connection.create_l2cap_channel(l2cap.ClassicChannelSpec(psm=AVDTP_PSM))
*)
Definition e_skel_avdtp_stream_open : Z := 126261788735659.
(*
   async def start(self)
   If self.state == State.CONFIGURED
   await self.open()
   End
   If self.state != State.OPEN
   raise InvalidStateError('current state is not OPEN')
   End
   await self.remote_endpoint.start()
   await self.local_endpoint.start()
   self.change_state(State.STREAMING)
*)
Definition e_skel_avdtp_stream_start : Z := 19283799422816.
(*
   async def stop(self)
   If self.state != State.STREAMING
   raise InvalidStateError('current state is not STREAMING')
   End
   await self.local_endpoint.stop()
   await self.remote_endpoint.stop()
   self.change_state(State.OPEN)
*)
Definition e_skel_avdtp_stream_stop : Z := 201180333738889.
(*
   async def close(self)
   If self.state not in (State.OPEN, State.STREAMING)
   raise InvalidStateError('current state is not OPEN or STREAMING')
   End
   await self.local_endpoint.close()
   await self.remote_endpoint.close()
   self.change_state(State.CLOSING)
   If self.rtp_channel
   await self.rtp_channel.disconnect()
   self.rtp_channel = None
   End
   self.change_state(State.IDLE)
*)
Definition e_skel_avdtp_stream_close : Z := 39246323133242.
(*
   async def abort(self)
   If self.state == State.IDLE
   raise InvalidStateError('current state is IDLE')
   End
   await self.remote_endpoint.abort()
   self.change_state(State.ABORTING)
   If self.rtp_channel
   await self.rtp_channel.disconnect()
   self.rtp_channel = None
   End
   self.change_state(State.IDLE)
*)
Definition e_skel_avdtp_stream_abort : Z := 133738415956322.
(*
   async def on_set_configuration_command(self, configuration)
   If self.state != State.IDLE
   return Set_Configuration_Reject(error_code=AVDTP_BAD_STATE_ERROR)
   End
   result = await self.local_endpoint.on_set_configuration_command(configuration)
   If result is not None
   return result
   End
   self.change_state(State.CONFIGURED)
   return None
*)
Definition e_skel_avdtp_stream_on_set_configuration_command : Z := 27956947502457.
(*
   async def on_open_command(self)
   If self.state != State.CONFIGURED
   return Open_Reject(AVDTP_BAD_STATE_ERROR)
   End
   result = await self.local_endpoint.on_open_command()
   If result is not None
   return result
   End
   self.protocol.channel_acceptor = self
   self.change_state(State.OPEN)
   return None
*)
Definition e_skel_avdtp_stream_on_open_command : Z := 200529901459777.
(*
   async def on_start_command(self)
   If self.state != State.OPEN
   return Open_Reject(AVDTP_BAD_STATE_ERROR)
   End
   If self.rtp_channel is None
   return Open_Reject(AVDTP_BAD_STATE_ERROR)
   End
   result = await self.local_endpoint.on_start_command()
   If result is not None
   return result
   End
   self.change_state(State.STREAMING)
   return None
*)
Definition e_skel_avdtp_stream_on_start_command : Z := 55426551316636.
(*
   async def on_suspend_command(self)
   If self.state != State.STREAMING
   return Open_Reject(AVDTP_BAD_STATE_ERROR)
   End
   result = await self.local_endpoint.on_suspend_command()
   If result is not None
   return result
   End
   self.change_state(State.OPEN)
   return None
*)
Definition e_skel_avdtp_stream_on_suspend_command : Z := 232767218923601.
(*
   async def on_close_command(self)
   If self.state not in (State.OPEN, State.STREAMING)
   return Open_Reject(AVDTP_BAD_STATE_ERROR)
   End
   result = await self.local_endpoint.on_close_command()
   If result is not None
   return result
   End
   self.change_state(State.CLOSING)
   If self.rtp_channel is None
   self.change_state(State.IDLE)
   Else
   pass
   End
   return None
*)
Definition e_skel_avdtp_stream_on_close_command : Z := 203664015158733.
(*
   async def on_abort_command(self)
   await self.local_endpoint.on_abort_command()
   If self.rtp_channel is None
   self.change_state(State.IDLE)
   Else
   self.change_state(State.ABORTING)
   End
   return None
*)
Definition e_skel_avdtp_stream_on_abort_command : Z := 102448982214525.
(*
   async def on_get_configuration_command(self)
   If self.state not in (State.CONFIGURED, State.OPEN, State.STREAMING)
   return Get_Configuration_Reject(error_code=AVDTP_BAD_STATE_ERROR)
   End
   return await self.local_endpoint.on_get_configuration_command()
*)
Definition e_skel_avdtp_stream_on_get_configuration_command : Z := 14086828442955.
(*
   async def on_reconfigure_command(self, configuration)
   If self.state != State.OPEN
   return Reconfigure_Reject(error_code=AVDTP_BAD_STATE_ERROR)
   End
   result = await self.local_endpoint.on_reconfigure_command(configuration)
   If result is not None
   return result
   End
   return None
*)
Definition e_skel_avdtp_stream_on_reconfigure_command : Z := 71988250198981.
(*
   def on_l2cap_connection(self, channel)
   self.rtp_channel = channel
   channel.on(channel.EVENT_OPEN, self.on_l2cap_channel_open)
   channel.on(channel.EVENT_CLOSE, self.on_l2cap_channel_close)
   self.protocol.channel_acceptor = None
*)
Definition e_skel_avdtp_stream_on_l2cap_connection : Z := 10766926885639.
(*
   def on_l2cap_channel_close(self)
   self.local_endpoint.on_rtp_channel_close()
   self.rtp_channel = None
   If self.state in (State.CLOSING, State.ABORTING)
   self.change_state(State.IDLE)
   Else
   End
*)
Definition e_skel_avdtp_stream_on_l2cap_channel_close : Z := 29747046192328.
(*
   async def on_set_configuration_command(self, command)
   endpoint = self.get_local_endpoint_by_seid(command.acp_seid)
   If endpoint is None
   return Set_Configuration_Reject(error_code=AVDTP_BAD_ACP_SEID_ERROR)
   End
   If endpoint.in_use
   return Set_Configuration_Reject(error_code=AVDTP_SEP_IN_USE_ERROR)
   End
   stream = Stream(self, endpoint, StreamEndPointProxy(self, command.int_seid))
   self.streams[command.acp_seid] = stream
   result = await stream.on_set_configuration_command(command.capabilities)
   return result or Set_Configuration_Response()
*)
Definition e_skel_avdtp_protocol_on_set_configuration_command : Z := 37423847644153.
(*
   async def on_open_command(self, command)
   endpoint = self.get_local_endpoint_by_seid(command.acp_seid)
   If endpoint is None
   return Open_Reject(AVDTP_BAD_ACP_SEID_ERROR)
   End
   If endpoint.stream is None
   return Open_Reject(AVDTP_BAD_STATE_ERROR)
   End
   result = await endpoint.stream.on_open_command()
   return result or Open_Response()
*)
Definition e_skel_avdtp_protocol_on_open_command : Z := 164337813013010.
(*
   async def on_start_command(self, command)
   For seid in command.acp_seids
   endpoint = self.get_local_endpoint_by_seid(seid)
   If endpoint is None
   return Start_Reject(seid, AVDTP_BAD_ACP_SEID_ERROR)
   End
   If endpoint.stream is None
   return Start_Reject(seid, AVDTP_BAD_STATE_ERROR)
   End
   End
   For seid in command.acp_seids
   endpoint = self.get_local_endpoint_by_seid(seid)
   If not endpoint or not endpoint.stream
   raise InvalidStateError('Should already be checked!')
   End
   If (result := (await endpoint.stream.on_start_command())) is not None
   return result
   End
   End
   return Start_Response()
*)
Definition e_skel_avdtp_protocol_on_start_command : Z := 233773968338573.
(*
   async def on_suspend_command(self, command)
   For seid in command.acp_seids
   endpoint = self.get_local_endpoint_by_seid(seid)
   If endpoint is None
   return Suspend_Reject(seid, AVDTP_BAD_ACP_SEID_ERROR)
   End
   If endpoint.stream is None
   return Suspend_Reject(seid, AVDTP_BAD_STATE_ERROR)
   End
   End
   For seid in command.acp_seids
   endpoint = self.get_local_endpoint_by_seid(seid)
   If not endpoint or not endpoint.stream
   raise InvalidStateError('Should already be checked!')
   End
   If (result := (await endpoint.stream.on_suspend_command())) is not None
   return result
   End
   End
   return Suspend_Response()
*)
Definition e_skel_avdtp_protocol_on_suspend_command : Z := 28096714645975.
(*
   async def on_close_command(self, command)
   endpoint = self.get_local_endpoint_by_seid(command.acp_seid)
   If endpoint is None
   return Close_Reject(AVDTP_BAD_ACP_SEID_ERROR)
   End
   If endpoint.stream is None
   return Close_Reject(AVDTP_BAD_STATE_ERROR)
   End
   result = await endpoint.stream.on_close_command()
   return result or Close_Response()
*)
Definition e_skel_avdtp_protocol_on_close_command : Z := 73021617641157.
(*
   async def on_abort_command(self, command)
   endpoint = self.get_local_endpoint_by_seid(command.acp_seid)
   If endpoint is None or endpoint.stream is None
   return Abort_Response()
   End
   await endpoint.stream.on_abort_command()
   return Abort_Response()
*)
Definition e_skel_avdtp_protocol_on_abort_command : Z := 28603217519011.
(*
   async def on_get_configuration_command(self, command)
   endpoint = self.get_local_endpoint_by_seid(command.acp_seid)
   If endpoint is None
   return Get_Configuration_Reject(AVDTP_BAD_ACP_SEID_ERROR)
   End
   If endpoint.stream is None
   return Get_Configuration_Reject(AVDTP_BAD_STATE_ERROR)
   End
   return await endpoint.stream.on_get_configuration_command()
*)
Definition e_skel_avdtp_protocol_on_get_configuration_command : Z := 26492186764380.
(*
   async def on_reconfigure_command(self, command)
   endpoint = self.get_local_endpoint_by_seid(command.acp_seid)
   If endpoint is None
   return Reconfigure_Reject(error_code=AVDTP_BAD_ACP_SEID_ERROR)
   End
   If endpoint.stream is None
   return Reconfigure_Reject(error_code=AVDTP_BAD_STATE_ERROR)
   End
   result = await endpoint.stream.on_reconfigure_command(command.capabilities)
   return result or Reconfigure_Response()
*)
Definition e_skel_avdtp_protocol_on_reconfigure_command : Z := 63136240077892.
(*
   async def on_delayreport_command(self, command)
   endpoint = self.get_local_endpoint_by_seid(command.acp_seid)
   If endpoint is None
   return DelayReport_Reject(AVDTP_BAD_ACP_SEID_ERROR)
   End
   result = await endpoint.on_delayreport_command(command.delay)
   return result or DelayReport_Response()
*)
Definition e_skel_avdtp_protocol_on_delayreport_command : Z := 182972657661975.
(*
   def on_l2cap_connection(self, channel)
   If self.channel_acceptor is None
   return
   End
   self.channel_acceptor.on_l2cap_connection(channel)
*)
Definition e_skel_avdtp_protocol_on_l2cap_connection : Z := 226078155553958.
Definition e_skeletons : list Z := [e_skel_sdp_match_services; e_skel_sdp_on_connection; e_skel_sdp_select_channel; e_skel_sdp_on_channel_pdu; e_skel_sdp_on_channel_close; e_skel_sdp_check_continuation; e_skel_sdp_get_next_response_payload; e_skel_sdp_get_service_attributes; e_skel_sdp_on_search; e_skel_sdp_on_attribute; e_skel_sdp_on_search_attribute; e_skel_sdp_is_uuid_in_value; e_skel_sdp_list_from_data_elements; e_skel_sdp_client_on_pdu; e_skel_sdp_client_search_services; e_skel_sdp_client_search_attributes; e_skel_sdp_client_get_attributes; e_skel_avdtp_asm_reset; e_skel_avdtp_asm_on_pdu; e_skel_avdtp_asm_on_message_complete; e_skel_avdtp_send_message; e_skel_avctp_asm_reset; e_skel_avctp_asm_on_pdu; e_skel_avctp_asm_on_message_complete; e_skel_avdtp_stream_configure; e_skel_avdtp_stream_open; e_skel_avdtp_stream_start; e_skel_avdtp_stream_stop; e_skel_avdtp_stream_close; e_skel_avdtp_stream_abort; e_skel_avdtp_stream_on_set_configuration_command; e_skel_avdtp_stream_on_open_command; e_skel_avdtp_stream_on_start_command; e_skel_avdtp_stream_on_suspend_command; e_skel_avdtp_stream_on_close_command; e_skel_avdtp_stream_on_abort_command; e_skel_avdtp_stream_on_get_configuration_command; e_skel_avdtp_stream_on_reconfigure_command; e_skel_avdtp_stream_on_l2cap_connection; e_skel_avdtp_stream_on_l2cap_channel_close; e_skel_avdtp_protocol_on_set_configuration_command; e_skel_avdtp_protocol_on_open_command; e_skel_avdtp_protocol_on_start_command; e_skel_avdtp_protocol_on_suspend_command; e_skel_avdtp_protocol_on_close_command; e_skel_avdtp_protocol_on_abort_command; e_skel_avdtp_protocol_on_get_configuration_command; e_skel_avdtp_protocol_on_reconfigure_command; e_skel_avdtp_protocol_on_delayreport_command; e_skel_avdtp_protocol_on_l2cap_connection].
