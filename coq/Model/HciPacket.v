(* Model/HciPacket.v — the HCI packet layer of bumble/hci.py as executable Gallina:
   HCI_Packet.from_bytes dispatch on the type byte, HCI_Command.from_bytes /
   from_parameters / __bytes__, HCI_Event.from_bytes (length rule, LE meta sub-event
   dispatch, vendor events, generic fallbacks), HCI_Command_Complete_Event return
   parameter dispatch, the [_parameters] cache, and the ACL / SCO / ISO data packets
   with their bit fields.  No proofs here (Proofs/HciPacket.v).

   The registry (which class parses which code, and each class's field list) is a
   parameter [R]; the real one is regenerated into Gen/C01Registry.v on every run.

   What is abstracted, exactly:
   * exceptions are [None]; which exception is not modelled;
   * HCI_Event.vendor_factories: the factories registered by the imported modules are
     described by [r_vendor] (today one: the Android factory, which hands a vendor event to
     the quality-report class when the sub-event code and the report id match, and
     otherwise declines); a factory the translator does not recognise fails the check;
   * the two hand-written commands whose item count is the number of bits set in a PHY
     mask are [r_phy] (head fields, index of the mask, fields of one item); they do not cache
     the received parameter block (their __init__ rebuilds it), and given per-PHY lists
     LONGER than the mask's bit count the code ignores the extra items while the model
     reports an error (such values are outside the round-trip contract);
   * a command that overrides parse_return_parameters with the field-by-field parse that
     stops at the first short field ([r_lenient_return], Android vendor capabilities);
   * class identity is (kind, code); [known = false] is the generic fallback class. *)
From Coq Require Import String ZArith List Bool.
From BV Require Import Base.Bytes Model.SpecCodec.
Import ListNotations.
Open Scope Z_scope.

(* c_event: the class's own event_code attribute (what __bytes__ writes); 0 for commands
   and return-parameter classes *)
Record cls := mkcls { c_kind : Z; c_code : Z; c_event : Z; c_name : string; c_fields : list field }.

Definition K_COMMAND := 0.
Definition K_EVENT := 1.
Definition K_LE_EVENT := 2.
Definition K_RETURN := 3.
Definition K_VENDOR := 4.                       (* vendor sub-event classes reached through a factory *)

(* HCI_LE_Set_Extended_Scan_Parameters_Command / HCI_LE_Extended_Create_Connection_Command:
   p_head, then popcount(head value number p_idx) items of p_row *)
Record phycls := mkphy {
  p_code : Z; p_name : string; p_head : list field; p_idx : nat; p_row : list aspec
}.

Record registry := mkreg {
  r_classes : list cls;
  r_phy : list phycls;                         (* hand-written PHY-mask commands *)
  r_return : list (Z * (string * bool));       (* opcode -> return class name, status first *)
  r_lenient_return : list Z;                   (* opcodes whose return parameters are parsed field by field until short *)
  r_vendor : list (Z * list Z);                (* vendor factories in call order: (sub-event code, report ids) *)
  r_objects : list (Z * Z)                     (* (kind, index of the dict object that holds the registry) *)
}.

Definition find_class (R : registry) (kind code : Z) : option cls :=
  find (fun c => Z.eqb (c_kind c) kind && Z.eqb (c_code c) code) (r_classes R).

Definition find_by_name (R : registry) (kind : Z) (name : string) : option cls :=
  find (fun c => Z.eqb (c_kind c) kind && String.eqb (c_name c) name) (r_classes R).

Definition find_phy (R : registry) (op : Z) : option phycls :=
  find (fun p => Z.eqb (p_code p) op) (r_phy R).

(* bin(x).count('1') *)
Fixpoint popcount_pos (p : positive) : nat :=
  match p with
  | xH => 1%nat
  | xO q => popcount_pos q
  | xI q => S (popcount_pos q)
  end.
Definition popcount (z : Z) : nat := match z with Zpos p => popcount_pos p | _ => 0%nat end.

(* the field list a PHY-mask command has for a mask with k bits set; its values are the
   head values followed by the k items' values, item by item *)
Definition phy_fields (pc : phycls) (k : nat) : list field :=
  p_head pc ++ concat (repeat (map F1 (p_row pc)) k).

Definition phy_count (pc : phycls) (vals : list value) : option nat :=
  match nth_error vals (p_idx pc) with
  | Some (VInt z) => Some (popcount z)
  | _ => None
  end.

Definition serialize_phy (pc : phycls) (vals : list value) : option (list Z) :=
  match phy_count pc vals with
  | Some k => serialize_fields (phy_fields pc k) vals
  | None => None
  end.

Definition parse_phy (pc : phycls) (prev0 : Z) (params : list Z) : option (list value) :=
  match parse_fields (p_head pc) prev0 params with
  | Some (hv, _) =>
      match phy_count pc hv with
      | Some k =>
          match parse_fields (phy_fields pc k) prev0 params with
          | Some (vs, _) => Some vs
          | None => None
          end
      | None => None
      end
  | None => None
  end.

(* field-by-field parse that stops at the first field it cannot read and leaves that field
   and the following ones at their default, 0 *)
Fixpoint par_lenient (fs : list field) (prev : Z) (bs : list Z) : list value :=
  match fs with
  | [] => []
  | f :: r =>
      match par F_codec f prev bs with
      | Some (v, n) => v :: par_lenient r (adv_prev n prev bs) (skipn n bs)
      | None => map (fun _ => VInt 0) fs
      end
  end.

Fixpoint assoc {A : Type} (k : Z) (l : list (Z * A)) : option A :=
  match l with
  | [] => None
  | (k', a) :: r => if Z.eqb k k' then Some a else assoc k r
  end.

Definition HCI_COMMAND_PACKET := 1.
Definition HCI_ACL_DATA_PACKET := 2.
Definition HCI_SYNCHRONOUS_DATA_PACKET := 3.
Definition HCI_EVENT_PACKET := 4.
Definition HCI_ISO_DATA_PACKET := 5.
Definition HCI_LE_META_EVENT := 62.          (* 0x3E *)
Definition HCI_COMMAND_COMPLETE_EVENT := 14. (* 0x0E *)
Definition HCI_VENDOR_EVENT := 255.          (* 0xFF *)
Definition GENERIC_RETURN := "HCI_GenericReturnParameters"%string.
Definition STATUS_RETURN := "HCI_StatusReturnParameters"%string.

Inductive packet :=
(* HCI_Command: registered class (known) with field values, or the generic class *)
| PCommand (op : Z) (known : bool) (vals : list value) (params : list Z)
(* HCI_Event other than LE meta; Command Complete carries its parsed return parameters:
   vals = [num_hci_command_packets; command_opcode], ret = (class name, field values) *)
| PEvent (code : Z) (known : bool) (vals : list value) (params : list Z)
| PCmdComplete (vals : list value) (ret_name : string) (ret_vals : list value) (params : list Z)
(* HCI_LE_Meta_Event; params include the sub-event code byte *)
| PLeMeta (sub : Z) (known : bool) (vals : list value) (params : list Z)
(* a vendor event (0xFF) that a registered factory turned into a vendor sub-event class *)
| PVendorSub (sub : Z) (vals : list value) (params : list Z)
| PAcl (handle pb bc total : Z) (data : list Z)
| PSco (handle status total : Z) (data : list Z)
| PIso (handle pb total : Z) (time_stamp : option Z) (sdu : option (Z * Z * Z))
       (frag : list Z)                          (* sdu = (sequence number, sdu length, status flag) *)
| PCustom (payload : list Z).

(* dict_from_bytes(parameters, 0, fields): data[offset-1] at offset 0 is Python's
   data[-1], the last byte *)
Definition parse_at0 (fs : list field) (params : list Z) : option (list value) :=
  match parse_fields fs (last params 0) params with
  | Some (vs, _) => Some vs
  | None => None
  end.

(* ---------------------------------------------------------------- commands *)
Definition parse_command (R : registry) (b : list Z) : option packet :=
  if (length b <? 4)%nat then None                       (* struct.unpack_from('<HB', packet, 1) *)
  else
    let op := le_decode (firstn 2 (skipn 1 b)) in
    let len := nth 3 b 0 in
    let params := skipn 4 b in
    if negb (Z.of_nat (length params) =? len) then None  (* 'invalid packet length' *)
    else
      match find_class R K_COMMAND op with
      | Some c =>
          match parse_at0 (c_fields c) params with
          | Some vs => Some (PCommand op true vs params)
          | None => None
          end
      | None =>
          match find_phy R op with
          | Some pc =>
              (* the class constructor rebuilds the parameter block in __init__; the received one is not kept *)
              match parse_phy pc (last params 0) params with
              | Some vs =>
                  match serialize_phy pc vs with
                  | Some ps => Some (PCommand op true vs ps)
                  | None => None
                  end
              | None => None
              end
          | None => Some (PCommand op false [] params)
          end
      end.

(* the [parameters] property: the cached bytes, recomputed from the fields only when the
   cache is empty *)
Definition cached (params : list Z) (recompute : option (list Z)) : option (list Z) :=
  match params with
  | [] => recompute
  | _ => Some params
  end.

Definition class_params (R : registry) (kind code : Z) (known : bool) (vals : list value)
  : option (list Z) :=
  if known then
    match find_class R kind code with
    | Some c => serialize_fields (c_fields c) vals
    | None =>
        if kind =? K_COMMAND then
          match find_phy R code with
          | Some pc => serialize_phy pc vals
          | None => None
          end
        else None
    end
  else Some [].                                           (* fields = () *)

(* HCI_Event.__bytes__ writes self.event_code: the class attribute of the class the packet
   was parsed into (the generic classes carry the code they were given) *)
Definition class_event (R : registry) (kind code : Z) (known : bool) (generic : Z) : Z :=
  if known then
    match find_class R kind code with
    | Some c => c_event c
    | None => generic
    end
  else generic.

Definition command_bytes (op : Z) (params : list Z) : option (list Z) :=
  (* struct.pack('<BHB', 1, op_code, len(parameters)) + parameters *)
  if u_range 2 op && (length params <? 256)%nat
  then Some (HCI_COMMAND_PACKET :: le_encode 2 op ++ [Z.of_nat (length params)] ++ params)
  else None.

(* ---------------------------------------------------------------- events *)
Definition parse_return (R : registry) (op : Z) (rpb : list Z) : option (string * list value) :=
  match assoc op (r_return R) with
  | None => Some (GENERIC_RETURN, [VBytes rpb])
  | Some (name, status_first) =>
      match find_by_name R K_RETURN name with
      | None => None
      | Some c =>
          if existsb (Z.eqb op) (r_lenient_return R) then
            Some (name, par_lenient (c_fields c) (last rpb 0) rpb)
          else if status_first then
            match rpb with
            | [] => None                                   (* parameters[0]: IndexError *)
            | st :: _ =>
                if negb (st =? 0) then Some (STATUS_RETURN, [VInt st])
                else match parse_at0 (c_fields c) rpb with
                     | Some vs => Some (name, vs)
                     | None => None
                     end
            end
          else match parse_at0 (c_fields c) rpb with
               | Some vs => Some (name, vs)
               | None => None
               end
      end
  end.

(* HCI_Event.vendor_factories, called in order with the parameter block.  A factory of the
   catalogued shape declines (returns None) unless parameters[0] is its sub-event code and
   parameters[1] one of its report ids; then it parses the class registered for the
   sub-event at offset 1 (an exception there propagates).
   Result: None = exception, Some None = every factory declined. *)
Fixpoint vendor_factories (R : registry) (rules : list (Z * list Z)) (params : list Z)
  : option (option packet) :=
  match rules with
  | [] => Some None
  | (sub, ids) :: rest =>
      match params with
      | s :: ((q :: _) as tl) =>
          if (s =? sub) && existsb (Z.eqb q) ids then
            match find_class R K_VENDOR sub with
            | Some c =>
                match parse_fields (c_fields c) s tl with
                | Some (vs, _) => Some (Some (PVendorSub sub vs params))
                | None => None
                end
            | None => None
            end
          else vendor_factories R rest params
      | _ => vendor_factories R rest params             (* fewer than two bytes: declined *)
      end
  end.

(* an event class registered for the code (also the generic vendor event, a class with one
   rest-of-packet field), or the generic fallback *)
Definition plain_event (R : registry) (code : Z) (params : list Z) : option packet :=
  match find_class R K_EVENT code with
  | None => Some (PEvent code false [] params)
  | Some c =>
      match parse_at0 (c_fields c) params with
      | None => None
      | Some vs =>
          if code =? HCI_COMMAND_COMPLETE_EVENT then
            match vs with
            | [n; VInt op; _] =>
                match parse_return R op (skipn 3 params) with
                | Some (rn, rvs) => Some (PCmdComplete [n; VInt op] rn rvs params)
                | None => None
                end
            | _ => None
            end
          else Some (PEvent code true vs params)
      end
  end.

(* dispatch on the event code once the parameter block is known *)
Definition event_body (R : registry) (code : Z) (params : list Z) : option packet :=
  if code =? HCI_LE_META_EVENT then
    match params with
    | [] => None                                     (* parameters[0]: IndexError *)
    | sub :: rest =>
        match find_class R K_LE_EVENT sub with
        | None => Some (PLeMeta sub false [] params)
        | Some c =>
            match parse_fields (c_fields c) sub rest with
            | Some (vs, _) => Some (PLeMeta sub true vs params)
            | None => None
            end
        end
    end
  else if code =? HCI_VENDOR_EVENT then
    match vendor_factories R (r_vendor R) params with
    | None => None
    | Some (Some p) => Some p
    | Some None => plain_event R code params          (* HCI_Vendor_Event(data=parameters) *)
    end
  else plain_event R code params.

Definition parse_event (R : registry) (b : list Z) : option packet :=
  if (length b <? 3)%nat then None                       (* packet[1], packet[2] *)
  else
    let code := nth 1 b 0 in
    let plen := Z.to_nat (nth 2 b 0) in
    if (length b <? 3 + plen)%nat then None              (* too short: error *)
    else event_body R code (firstn plen (skipn 3 b)).    (* too long: truncated *)

Definition event_bytes (code : Z) (params : list Z) : option (list Z) :=
  (* bytes([4, event_code, len(parameters)]) + parameters *)
  if u_range 1 code && (length params <? 256)%nat
  then Some (HCI_EVENT_PACKET :: code :: Z.of_nat (length params) :: params)
  else None.

(* ---------------------------------------------------------------- data packets *)
Definition parse_acl (b : list Z) : option packet :=
  if (length b <? 5)%nat then None                       (* struct.unpack_from('<HH', packet, 1) *)
  else
    let h := le_decode (firstn 2 (skipn 1 b)) in
    let total := le_decode (firstn 2 (skipn 3 b)) in
    let data := skipn 5 b in
    if negb (Z.of_nat (length data) =? total) then None
    else Some (PAcl (Z.land h 4095) (Z.land (Z.shiftr h 12) 3) (Z.land (Z.shiftr h 14) 3) total data).

Definition acl_bytes (handle pb bc total : Z) (data : list Z) : option (list Z) :=
  let h := Z.lor (Z.lor (Z.shiftl pb 12) (Z.shiftl bc 14)) handle in
  if u_range 2 h && u_range 2 total
  then Some (HCI_ACL_DATA_PACKET :: le_encode 2 h ++ le_encode 2 total ++ data)
  else None.

Definition parse_sco (b : list Z) : option packet :=
  if (length b <? 4)%nat then None                       (* struct.unpack_from('<HB', packet, 1) *)
  else
    let h := le_decode (firstn 2 (skipn 1 b)) in
    let total := nth 3 b 0 in
    let data := skipn 4 b in
    if negb (Z.of_nat (length data) =? total) then None
    else Some (PSco (Z.land h 4095) (Z.land (Z.shiftr h 12) 3) total data).

Definition sco_bytes (handle status total : Z) (data : list Z) : option (list Z) :=
  let h := Z.lor (Z.shiftl status 12) handle in
  if u_range 2 h && u_range 1 total
  then Some (HCI_SYNCHRONOUS_DATA_PACKET :: le_encode 2 h ++ [total] ++ data)
  else None.

(* ISO: optional time stamp (TS flag) and optional SDU info (when PB flag is 0b00 or
   0b10).  The packet status flag is the two bits 14..15 of the SDU info word. *)
Definition parse_iso (b : list Z) : option packet :=
  if (length b <? 5)%nat then None
  else
    let info := le_decode (firstn 2 (skipn 1 b)) in
    let total := le_decode (firstn 2 (skipn 3 b)) in
    let handle := Z.land info 4095 in
    let pb := Z.land (Z.shiftr info 12) 3 in
    let ts := Z.land (Z.shiftr info 14) 1 in
    let with_sdu := Z.land pb 1 =? 0 in
    let pos1 := 5%nat in
    if (ts =? 1) && (length b <? pos1 + 4)%nat then None
    else
      let time_stamp := if ts =? 1 then Some (le_decode (firstn 4 (skipn pos1 b))) else None in
      let pos2 := if ts =? 1 then (pos1 + 4)%nat else pos1 in
      if with_sdu && (length b <? pos2 + 4)%nat then None
      else
        let sdu :=
          if with_sdu then
            let seq := le_decode (firstn 2 (skipn pos2 b)) in
            let w := le_decode (firstn 2 (skipn (pos2 + 2) b)) in
            Some (seq, Z.land w 4095, Z.land (Z.shiftr w 14) 3)
          else None in
        let pos3 := if with_sdu then (pos2 + 4)%nat else pos2 in
        Some (PIso handle pb total time_stamp sdu (skipn pos3 b)).

Definition iso_bytes (handle pb total : Z) (time_stamp : option Z) (sdu : option (Z * Z * Z))
           (frag : list Z) : option (list Z) :=
  let ts := match time_stamp with Some _ => 1 | None => 0 end in
  let info := Z.lor (Z.lor (Z.shiftl ts 14) (Z.shiftl pb 12)) handle in
  let ts_ok := match time_stamp with Some t => u_range 4 t | None => true end in
  let sdu_ok := match sdu with
                | Some (seq, len, psf) => u_range 2 seq && u_range 2 (Z.lor len (Z.shiftl psf 14))
                | None => true end in
  if u_range 2 info && u_range 2 total && ts_ok && sdu_ok
  then Some (HCI_ISO_DATA_PACKET :: le_encode 2 info ++ le_encode 2 total
             ++ match time_stamp with Some t => le_encode 4 t | None => [] end
             ++ match sdu with
                | Some (seq, len, psf) => le_encode 2 seq ++ le_encode 2 (Z.lor len (Z.shiftl psf 14))
                | None => [] end
             ++ frag)
  else None.

(* ---------------------------------------------------------------- dispatch *)
Definition parse_packet (R : registry) (b : list Z) : option packet :=
  match b with
  | [] => None                                            (* packet[0]: IndexError *)
  | t :: _ =>
      if t =? HCI_COMMAND_PACKET then parse_command R b
      else if t =? HCI_ACL_DATA_PACKET then parse_acl b
      else if t =? HCI_SYNCHRONOUS_DATA_PACKET then parse_sco b
      else if t =? HCI_EVENT_PACKET then parse_event R b
      else if t =? HCI_ISO_DATA_PACKET then parse_iso b
      else Some (PCustom b)
  end.

Definition packet_bytes (R : registry) (p : packet) : option (list Z) :=
  match p with
  | PCommand op known vals params =>
      match cached params (class_params R K_COMMAND op known vals) with
      | Some ps => command_bytes op ps
      | None => None
      end
  | PEvent code known vals params =>
      match cached params (class_params R K_EVENT code known vals) with
      | Some ps => event_bytes (class_event R K_EVENT code known code) ps
      | None => None
      end
  | PCmdComplete vals rn rvs params =>
      (* '*' field holding an object: bytes(return_parameters) *)
      let recompute :=
        match find_by_name R K_RETURN rn, find_class R K_EVENT HCI_COMMAND_COMPLETE_EVENT with
        | Some rc, Some c =>
            match serialize_fields (c_fields rc) rvs with
            | Some rb => serialize_fields (c_fields c) (vals ++ [VBytes rb])
            | None => None
            end
        | _, _ => None
        end in
      match cached params recompute with
      | Some ps => event_bytes (class_event R K_EVENT HCI_COMMAND_COMPLETE_EVENT true HCI_COMMAND_COMPLETE_EVENT) ps
      | None => None
      end
  | PVendorSub sub vals params =>
      let recompute :=
        match class_params R K_VENDOR sub true vals with
        | Some ps => if u_range 1 sub then Some (sub :: ps) else None
        | None => None
        end in
      match cached params recompute with
      | Some ps => event_bytes (class_event R K_VENDOR sub true HCI_VENDOR_EVENT) ps
      | None => None
      end
  | PLeMeta sub known vals params =>
      let recompute :=
        match class_params R K_LE_EVENT sub known vals with
        | Some ps => if u_range 1 sub then Some (sub :: ps) else None   (* bytes([subevent_code]) + … *)
        | None => None
        end in
      match cached params recompute with
      | Some ps => event_bytes (class_event R K_LE_EVENT sub known HCI_LE_META_EVENT) ps
      | None => None
      end
  | PAcl handle pb bc total data => acl_bytes handle pb bc total data
  | PSco handle status total data => sco_bytes handle status total data
  | PIso handle pb total ts sdu frag => iso_bytes handle pb total ts sdu frag
  | PCustom payload => Some payload
  end.

(* building a packet from field values: the class constructor called with the values as keyword arguments *)
Definition build (R : registry) (c : cls) (vals : list value) : option packet :=
  match serialize_fields (c_fields c) vals with
  | None => None
  | Some ps =>
      if c_kind c =? K_COMMAND then Some (PCommand (c_code c) true vals ps)
      else if c_kind c =? K_EVENT then Some (PEvent (c_code c) true vals ps)
      else if c_kind c =? K_LE_EVENT then
        (if u_range 1 (c_code c) then Some (PLeMeta (c_code c) true vals (c_code c :: ps)) else None)
      else if c_kind c =? K_VENDOR then
        (if u_range 1 (c_code c) then Some (PVendorSub (c_code c) vals (c_code c :: ps)) else None)
      else None
  end.

(* registry well-formedness, re-checked by vm_compute on the regenerated registry.
   Kind consistency: what a dispatcher finds in ITS registry is a class of ITS kind - an
   event class writes the event code it is registered under, every LE sub-event class
   writes 0x3E, every vendor sub-event class 0xFF.  (A class that sits in the wrong
   registry would be parsed from one event code and re-serialised under another.) *)
Definition wf_class (c : cls) : bool :=
  wf_fields (c_fields c) &&
  ((0 <=? c_kind c) && (c_kind c <=? 4)) &&
  (if c_kind c =? K_COMMAND then u_range 2 (c_code c) && (c_event c =? 0)
   else if c_kind c =? K_RETURN then (c_event c =? 0)
   else if c_kind c =? K_EVENT then u_range 1 (c_code c) && (c_event c =? c_code c)
   else if c_kind c =? K_LE_EVENT then u_range 1 (c_code c) && (c_event c =? HCI_LE_META_EVENT)
   else u_range 1 (c_code c) && (c_event c =? HCI_VENDOR_EVENT)).

Fixpoint no_dup_codes (l : list (Z * Z)) : bool :=
  match l with
  | [] => true
  | (k, c) :: r => negb (existsb (fun p => Z.eqb (fst p) k && Z.eqb (snd p) c) r) && no_dup_codes r
  end.

Definition codes_unique (R : registry) : bool :=
  no_dup_codes (map (fun c => (c_kind c, c_code c)) (r_classes R) ++ map (fun p => (K_COMMAND, p_code p)) (r_phy R)).

Fixpoint no_dup_names (l : list string) : bool :=
  match l with
  | [] => true
  | n :: r => negb (existsb (String.eqb n) r) && no_dup_names r
  end.

(* every return class a command names exists; the two fall-back classes exist *)
Definition returns_ok (R : registry) : bool :=
  forallb (fun e => match find_by_name R K_RETURN (fst (snd e)) with Some _ => true | None => false end)
          (r_return R)
  && match find_by_name R K_RETURN GENERIC_RETURN with Some c => true | None => false end
  && match find_by_name R K_RETURN STATUS_RETURN with Some c => true | None => false end
  && no_dup_names (map c_name (filter (fun c => c_kind c =? K_RETURN) (r_classes R))).

(* the registries are distinct dict objects (sharing one would make every class of one kind
   reachable from the other kind's dispatcher) *)
Fixpoint no_dup_z (l : list Z) : bool :=
  match l with
  | [] => true
  | x :: r => negb (existsb (Z.eqb x) r) && no_dup_z r
  end.

Definition objects_distinct (R : registry) : bool :=
  no_dup_z (map snd (r_objects R)) && no_dup_z (map fst (r_objects R)) &&
  forallb (fun k => existsb (fun p => Z.eqb (fst p) k) (r_objects R)) [K_COMMAND; K_EVENT; K_LE_EVENT; K_VENDOR].

(* vendor rules name registered vendor sub-event classes; the LE meta code itself and the
   vendor code have no LE / plain-event ambiguity *)
Definition vendor_ok (R : registry) : bool :=
  forallb (fun r => match find_class R K_VENDOR (fst r) with Some _ => true | None => false end) (r_vendor R)
  && match find_class R K_EVENT HCI_LE_META_EVENT with Some _ => false | None => true end.

(* a PHY-mask command: self-delimiting head and item, the mask is a one-byte head field *)
Definition wf_phy (pc : phycls) : bool :=
  tight_fields (p_head pc) && forallb (fun a => wf_a a && tight_a a) (p_row pc) &&
  u_range 2 (p_code pc) &&
  match nth_error (p_head pc) (p_idx pc) with
  | Some (One (Atom (UInt 1))) => true
  | _ => false
  end.

Definition build_phy (pc : phycls) (vals : list value) : option packet :=
  match serialize_phy pc vals with
  | Some ps => Some (PCommand (p_code pc) true vals ps)
  | None => None
  end.

Definition wf_registry (R : registry) : bool :=
  forallb wf_class (r_classes R) && codes_unique R && returns_ok R
  && objects_distinct R && vendor_ok R && forallb wf_phy (r_phy R).

(* names of the classes that are not well-formed (for diagnostics) *)
Definition bad_classes (R : registry) : list string :=
  map c_name (filter (fun c => negb (wf_class c)) (r_classes R)).
