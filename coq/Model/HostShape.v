(* The shape of the command path of bumble/host.py that Model/HostCmd.v was written against.
   tools/translate/c03_hostshape.py regenerates the same description from the current source
   into Gen/C03HostShape.v on every run; Props/C03.v proves the two equal (vm_compute).

   How the labels of Model/HostCmd.v read this shape:
     Call c op   the task reaches [HAcquire] (top level of _send_command, OUTSIDE the try: a
                 caller cancelled while queued runs no finally block, hence Cancel of a queued
                 caller changes nothing else)
     Acquire c   [HAcquire] returns; [HIf CTransportLost [HRelease; HRaise] []] (fix D16k: after a loss the
                 caller gives the permit back and fails, nothing is sent); [HAssertCommandNone; HAssertResponseNone] (still outside the
                 try: a failing assertion keeps the permit); [HNewResponse; HSetCommand]; inside
                 the try [HSend], then the task waits in [HAwaitResponse]
     Deliver     on_hci_command_complete_event: [HIf COpcodeZero [HIf CCreditLocked [HRelease] []; HReturn] []],
                 else / Command Status: on_command_processed:
                 [HIf CHasPendingResponse [...; HSetResult] [HIf CCreditLocked [HRelease] []]]
     Resume c    [HAwaitResponse] returns, [HReturn], then the finally block
                 [HClearCommand; HClearResponse; HIf CRespNoneOrCreditLocked [HRelease] []]
     Lose        on_transport_lost: [HSetLost; HIf CPendingNotDone [HSetException] []]
     Cancel c    (owner) CancelledError in [HAwaitResponse]: both handlers re-raise ([HRaise]), the
                 finally block runs with response = None, hence [HRelease] unconditionally *)
From Coq Require Import ZArith List String.
Import ListNotations.
Open Scope Z_scope.

Inductive hcond :=
| CRespNoneOrCreditLocked   (* response is None or (response.num_hci_command_packets and self.command_semaphore.locked()) *)
| CCreditLocked             (* event.num_hci_command_packets and self.command_semaphore.locked() *)
| CHasPendingResponse       (* self.pending_response *)
| CPendingCommandNone       (* self.pending_command is None *)
| COpcodeMismatch           (* self.pending_command.op_code != event.command_opcode *)
| COpcodeZero               (* event.command_opcode == 0 *)
| CPendingNotDone           (* self.pending_response and not self.pending_response.done() *)
| CTransportLost            (* self.transport_lost *)
| COther.

Inductive hstmt :=
| HAcquire | HRelease | HAssertCommandNone | HAssertResponseNone
| HNewResponse | HSetCommand | HClearCommand | HClearResponse
| HSend | HAwaitResponse | HReturn | HRaise | HSetResult | HSetException | HCallProcessed
| HSetLost | HClearLost     (* self.transport_lost = True / False *)
| HTry (body : list hstmt) (handlers : list (list hstmt)) (fin : list hstmt)
| HIf (c : hcond) (a b : list hstmt).

Definition expected_send_command : list hstmt :=
  [HAcquire; HIf CTransportLost [HRelease; HRaise] [];
   HAssertCommandNone; HAssertResponseNone; HNewResponse; HSetCommand;
   HTry [HSend; HAwaitResponse; HReturn] [[HRaise]; [HRaise]]
        [HClearCommand; HClearResponse; HIf CRespNoneOrCreditLocked [HRelease] []]].

Definition expected_command_processed : list hstmt :=
  [HIf CHasPendingResponse
       [HIf CPendingCommandNone [] [HIf COpcodeMismatch [] []]; HSetResult]
       [HIf CCreditLocked [HRelease] []]].

Definition expected_command_complete_event : list hstmt :=
  [HIf COpcodeZero [HIf CCreditLocked [HRelease] []; HReturn] []; HCallProcessed].

Definition expected_command_status_event : list hstmt := [HCallProcessed].

(* not modelled in HostCmd.v, pinned so that a new use of the semaphore / pending_* shows up *)
Definition expected_flush : list hstmt := [HAcquire; HRelease].
Definition expected_transport_lost : list hstmt := [HSetLost; HIf CPendingNotDone [HSetException] []].
(* not modelled: re-attaching a transport clears the flag *)
Definition expected_set_packet_source : list hstmt := [HClearLost].

Definition expected_touchers : list string :=
  ["__init__"; "_send_command"; "flush"; "on_command_processed"; "on_hci_command_complete_event";
   "on_transport_lost"; "set_packet_source"]%string.
