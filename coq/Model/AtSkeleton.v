(* Control-flow skeletons of the AT command handlers of bumble/hfp.py AgProtocol and
   of the per-line body of AgProtocol._read_at, with a reply-count semantics: how many
   FINAL result codes (OK / ERROR / +CME ERROR) are written while one command line is
   processed.  Executable Gallina only; the skeletons themselves are regenerated from
   the source on every run into Gen/C20AgSkeleton.v by tools/translate/c20_skeleton.py.

   Only the effects relevant to the property are kept:
     Final        self.send_response('OK' | 'ERROR' | f'+CME ERROR: ...')
     May          any evaluation the translator cannot show exception-free: it either
                  completes or raises
     Ret / Cont   return / continue
     Alt          if / else (both arms are possible, conditions are not interpreted)
     Loop         for / while: zero or more iterations of the body
     Try a h      try: a  except Exception: h
     Fn a         a call of another method of the class whose body is a (return stops
                  the callee only)
     Reset        self._final_result_sent = False
     FinalIfNone  if not self._final_result_sent: self.send_error()   (every Final sets
                  the flag; the translator checks that each primitive send is preceded
                  by  self._final_result_sent = True  in send_ok / send_error /
                  send_cme_error)
   The count is the number of final result codes written since the line was taken
   from the buffer. *)
From Coq Require Import List Bool Arith String.
Import ListNotations.

Inductive sk :=
| Skip | Final | May | Ret | Cont
| Seq (a b : sk)
| Alt (a b : sk)
| Loop (a : sk)
| Try (a h : sk)
| Fn (a : sk)
| Reset
| FinalIfNone.

Inductive status := Norm | Retd | Contd | Exc | Unk.

Definition is_norm (s : status) : bool := match s with Norm => true | _ => false end.
Definition is_unk (s : status) : bool := match s with Unk => true | _ => false end.

(* all outcomes (count, status) of running a skeleton from a given count;
   Unk marks a construct whose count the analysis cannot bound (a loop whose body
   writes a final result code, a flag reset after a final result code) *)
Fixpoint run (s : sk) (n : nat) : list (nat * status) :=
  match s with
  | Skip => [(n, Norm)]
  | Final => [(S n, Norm)]
  | May => [(n, Norm); (n, Exc)]
  | Ret => [(n, Retd)]
  | Cont => [(n, Contd)]
  | Seq a b =>
      flat_map (fun o => match snd o with Norm => run b (fst o) | _ => [o] end) (run a n)
  | Alt a b => run a n ++ run b n
  | Loop a =>
      let body := run a n in
      if forallb (fun o => match snd o with
                           | Norm | Contd => Nat.eqb (fst o) n
                           | Unk => false
                           | _ => true end) body
      then (n, Norm) :: filter (fun o => match snd o with Norm | Contd => false | _ => true end) body
      else [(n, Unk)]
  | Try a h =>
      flat_map (fun o => match snd o with Exc => run h (fst o) | _ => [o] end) (run a n)
  | Fn a =>
      map (fun o => match snd o with Retd => (fst o, Norm) | Contd => (fst o, Unk) | _ => o end) (run a n)
  | Reset => match n with O => [(O, Norm)] | _ => [(n, Unk)] end
  | FinalIfNone => [(match n with O => 1 | _ => n end, Norm)]
  end.

Definition no_unk (l : list (nat * status)) : bool := forallb (fun o => negb (is_unk (snd o))) l.

(* a command line is handled correctly when every path through the per-line body
   ends normally (or by continue) having written exactly one final result code *)
Definition line_ok (s : sk) : bool :=
  forallb (fun o => Nat.eqb (fst o) 1 &&
                    match snd o with Norm | Contd => true | _ => false end) (run s 0).

(* a handler on its own, called directly (not through the guarded dispatcher): every
   path that returns normally has written exactly one final result code *)
Definition handler_ok (s : sk) : bool :=
  forallb (fun o => match snd o with
                    | Norm | Retd => Nat.eqb (fst o) 1
                    | Exc => Nat.leb (fst o) 1
                    | _ => false end) (run s 0).

Record handler := mkHandler {
  h_name : string;
  h_min : nat;                 (* required positional parameters *)
  h_max : option nat;          (* None: *args *)
  h_body : sk
}.

Definition arity_ok (h : handler) (nargs : nat) : bool :=
  Nat.leb (h_min h) nargs && match h_max h with None => true | Some m => Nat.leb nargs m end.
