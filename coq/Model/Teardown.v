(* Model of connection teardown across the layers of one Bumble stack
   (virtual Controller - HCI - Host - Device and the per-connection subsystems).

   Anchors (all in /repo/bumble):
     controller.py  Controller.on_hci_disconnect_command / on_le_disconnected /
                    on_classic_disconnected (connection tables)
     host.py        Host.on_hci_disconnection_complete_event (the fan-out), Host.on_transport_lost,
                    DataPacketQueue.flush
     device.py      Device.on_disconnection, Device.disconnect, Connection.cancel_on_disconnection
     gatt_server.py Server.on_disconnection, Server.register_eatt (bearer 'close'),
                    Server._indicate_single_bearer
     gatt_client.py Client.on_disconnection, Client.send_request
     smp.py         Session.on_disconnection -> Manager.on_session_end
     l2cap.py       ChannelManager.on_disconnection
     utils.py       cancel_on_event

   What is modelled: ONE stack.  The controller's connection table, the two HCI FIFOs
   (controller->host events, host->controller commands), the host's and the device's
   connection tables, every other connection-keyed registry as a set of (registry, key)
   pairs, and the awaited calls ("waiters") with the rule by which each kind is released.
   The peer, the link and the application are the environment: they establish
   connections, terminate them, answer procedures (Finish), populate and depopulate
   registries (Insert / Remove), in any order.

   What is abstracted: packet contents; which procedure creates which registry entry (any
   entry may be created while its connection is known to the device - that code creates
   per-connection state only for connections it holds is checked on the implementation by
   the harness, not proved); the HCI command semaphore (commands are sent at once); timers
   fire only in [Tick] and only for calls on closed connections (a GATT request on a live
   connection is assumed to be answered in time).

   This file contains definitions only. *)
From Coq Require Import ZArith List Bool String.
Import ListNotations.
Open Scope Z_scope.

(* ------------------------------------------------------------------ keys, tables *)
(* (connection handle, sub): sub = 0 is the connection itself, otherwise the source CID
   of an enhanced ATT bearer on that connection *)
Definition key := (Z * Z)%type.
Definition kconn (k : key) : Z := fst k.
Definition key_eqb (a b : key) : bool := (fst a =? fst b) && (snd a =? snd b).

Fixpoint mem (x : Z) (l : list Z) : bool :=
  match l with [] => false | y :: r => (x =? y) || mem x r end.
Definition add (x : Z) (l : list Z) : list Z := if mem x l then l else x :: l.
Definition remove (x : Z) (l : list Z) : list Z := filter (fun y => negb (y =? x)) l.

(* ------------------------------------------------------------------ the fan-out chain *)
(* The steps Host.on_hci_disconnection_complete_event goes through, in the order the code
   runs them (listeners of the host's 'disconnection' event in registration order: the
   Device first, the L2CAP channel manager second; then the host's own tables). *)
Inductive hook :=
| HkDevice        (* Device.on_disconnection: Device.connections.pop *)
| HkConnListeners (* Connection 'disconnection' listeners: gatt_client.Client.on_disconnection,
                     smp.Session.on_disconnection -> Manager.on_session_end,
                     cancel_on_disconnection / Device.disconnect futures *)
| HkGattServer    (* gatt_server.Server.on_disconnection(connection) *)
| HkL2cap         (* l2cap.ChannelManager.on_disconnection: tables popped, channels aborted *)
| HkBearerClose   (* channel 'close' raised by the abort: Server.on_disconnection(channel),
                     sdp.Client.on_channel_close, rfcomm.Multiplexer.on_l2cap_channel_close *)
| HkHost          (* Host.connections / cis_links / sco_links / link_ts_flags pop *)
| HkQueueFlush    (* DataPacketQueue.flush(handle) *)
| HkNone.         (* not part of the chain: nothing removes it *)

Definition hook_eqb (a b : hook) : bool :=
  match a, b with
  | HkDevice, HkDevice | HkConnListeners, HkConnListeners | HkGattServer, HkGattServer
  | HkL2cap, HkL2cap | HkBearerClose, HkBearerClose | HkHost, HkHost
  | HkQueueFlush, HkQueueFlush | HkNone, HkNone => true
  | _, _ => false
  end.

Definition fanout_order : list hook :=
  [HkDevice; HkConnListeners; HkGattServer; HkL2cap; HkBearerClose; HkHost; HkQueueFlush].

Definition in_chain (hk : hook) : bool := existsb (hook_eqb hk) fanout_order.

(* ------------------------------------------------------------------ registries *)
Inductive keykind := KHandle | KBearer | KAddress.
Definition keykind_eqb (a b : keykind) : bool :=
  match a, b with KHandle, KHandle | KBearer, KBearer | KAddress, KAddress => true | _, _ => false end.

Record regdesc := { rd_name : string; rd_key : keykind; rd_hook : hook }.

(* The connection-keyed registries of the code and the fan-out step that empties each.
   (The three connection tables proper - controller, Host.connections, Device.connections -
   are fields of the state below; they are listed here as well so that the presence
   translator finds them.) *)
Definition model_registries : list regdesc := [
  {| rd_name := "controller.Controller.le_connections";       rd_key := KAddress; rd_hook := HkHost |};
  {| rd_name := "controller.Controller.classic_connections";  rd_key := KAddress; rd_hook := HkHost |};
  {| rd_name := "host.Host.connections";                      rd_key := KHandle; rd_hook := HkHost |};
  {| rd_name := "host.Host.cis_links";                        rd_key := KHandle; rd_hook := HkHost |};
  {| rd_name := "host.Host.sco_links";                        rd_key := KHandle; rd_hook := HkHost |};
  {| rd_name := "host.Host.link_ts_flags";                    rd_key := KHandle; rd_hook := HkHost |};
  {| rd_name := "host.DataPacketQueue._connection_state";     rd_key := KHandle; rd_hook := HkQueueFlush |};
  {| rd_name := "host.DataPacketQueue._drained_per_connection"; rd_key := KHandle; rd_hook := HkQueueFlush |};
  {| rd_name := "host.DataPacketQueue._packets";              rd_key := KHandle; rd_hook := HkQueueFlush |};
  {| rd_name := "device.Device.connections";                  rd_key := KHandle; rd_hook := HkDevice |};
  {| rd_name := "device.Device.sco_links";                    rd_key := KHandle; rd_hook := HkDevice |};
  {| rd_name := "device.Device.cis_links";                    rd_key := KHandle; rd_hook := HkDevice |};
  {| rd_name := "gatt_server.Server.subscribers";             rd_key := KBearer; rd_hook := HkGattServer |};
  {| rd_name := "gatt_server.Server.indication_semaphores";   rd_key := KBearer; rd_hook := HkGattServer |};
  {| rd_name := "gatt_server.Server.pending_confirmations";   rd_key := KBearer; rd_hook := HkGattServer |};
  {| rd_name := "smp.Manager.sessions";                       rd_key := KHandle; rd_hook := HkConnListeners |};
  {| rd_name := "l2cap.ChannelManager.identifiers";           rd_key := KHandle; rd_hook := HkL2cap |};
  {| rd_name := "l2cap.ChannelManager.channels";              rd_key := KHandle; rd_hook := HkL2cap |};
  {| rd_name := "l2cap.ChannelManager.le_coc_channels";       rd_key := KHandle; rd_hook := HkL2cap |};
  {| rd_name := "l2cap.ChannelManager.pending_credit_based_connections"; rd_key := KHandle; rd_hook := HkL2cap |};
  {| rd_name := "l2cap.ChannelManager.le_coc_requests";       rd_key := KHandle; rd_hook := HkL2cap |}
].

Definition table := list regdesc.

Fixpoint lookup (tbl : table) (name : string) : option regdesc :=
  match tbl with
  | [] => None
  | d :: r => if String.eqb (rd_name d) name then Some d else lookup r name
  end.

Definition reg_hook (tbl : table) (name : string) : hook :=
  match lookup tbl name with Some d => rd_hook d | None => HkNone end.
Definition known (tbl : table) (name : string) : bool :=
  match lookup tbl name with Some _ => true | None => false end.

(* every registry of the table is emptied somewhere in the chain *)
Definition all_cleaned (tbl : table) : bool := forallb (fun d => in_chain (rd_hook d)) tbl.

(* what the presence translator found in the code: (name, key kind, the class's
   disconnection hook removes it) *)
Definition found := (string * keykind * bool)%type.
Definition covers (tbl : table) (f : found) : bool :=
  let '(name, kk, removed) := f in
  match lookup tbl name with
  | Some d => removed && keykind_eqb kk (rd_key d) && in_chain (rd_hook d)
  | None => false
  end.
Definition cleanup_obligation (tbl : table) (fs : list found) : bool := forallb (covers tbl) fs.

(* ------------------------------------------------------------------ waiters *)
Inductive wkind :=
| WConnBound (hk : hook)  (* released by step [hk] of the fan-out:
                             HkConnListeners: the active GATT request (Client.on_disconnection cancels it),
                               pair(), every cancel_on_disconnection(...) wait, Device.disconnect's future;
                             HkL2cap: channel connect / LE channel disconnect / drain futures;
                             HkBearerClose: SDP request, RFCOMM multiplexer futures, request on an EATT bearer *)
| WTimerOnly              (* nothing releases it at teardown, its own 30 s timer does: a GATT request
                             still queued on the client's semaphore, an indication awaiting its
                             confirmation *)
| WDisconnect             (* Device.disconnect(): Disconnect command + wait for the event *)
| WHciCommand             (* Host.send_command: released by the controller's answer, or by transport loss *)
| WLate (hk : hook).      (* an HCI command followed by a wait that is registered only once the command
                             status has come back and the task has run again: get_remote_le_features,
                             set_phy, authenticate, encrypt, ...; a wait registered on a connection that
                             is already gone is cancelled at once ([on_resume]) *)

Inductive outcome := OResult | OError | OCancelled | OTimeout.

Inductive wstate :=
| Pending          (* registered with its release mechanism *)
| Issuing          (* WLate: command sent, status not yet delivered *)
| Responded        (* WLate: status delivered to the host, the awaiting task has not run yet *)
| Hung             (* registered after the connection was already gone: nothing will ever release it
                      (unreachable since Connection.cancel_on_disconnection checks; kept for the codes) *)
| Done (o : outcome).

Record waiter := { w_id : Z; w_kind : wkind; w_key : key; w_st : wstate }.

Definition set_st (w : waiter) (st : wstate) : waiter :=
  {| w_id := w_id w; w_kind := w_kind w; w_key := w_key w; w_st := st |}.

Definition is_done (st : wstate) : bool := match st with Done _ => true | _ => false end.

(* ------------------------------------------------------------------ state *)
Inductive evt := EConn (h : Z) | EDisc (h : Z) | EResp (w : Z).     (* controller -> host *)
Inductive cmd := CDisc (h w : Z) | CCmd (w : Z).                    (* host -> controller *)

Record state := {
  ctl : list Z;               (* Controller.le_connections / classic_connections (handles) *)
  c2h : list evt;             (* events on their way to the host, oldest first *)
  h2c : list cmd;             (* commands on their way to the controller, oldest first *)
  lost : bool;                (* the HCI transport is gone *)
  host : list Z;              (* Host.connections *)
  dev : list Z;               (* Device.connections *)
  regs : list (string * key); (* every other registry: (registry name, key) *)
  waiters : list waiter
}.

Definition init : state :=
  {| ctl := []; c2h := []; h2c := []; lost := false; host := []; dev := []; regs := []; waiters := [] |}.

Definition has_waiter (w : Z) (s : state) : bool := existsb (fun x => w_id x =? w) (waiters s).
Definition has_reg (r : string) (k : key) (l : list (string * key)) : bool :=
  existsb (fun p => String.eqb (fst p) r && key_eqb (snd p) k) l.

(* ------------------------------------------------------------------ one fan-out step *)
Definition release_at (hk : hook) (h : Z) (w : waiter) : waiter :=
  if negb (kconn (w_key w) =? h) then w else
  match w_st w, w_kind w with
  | Pending, WConnBound hk' => if hook_eqb hk hk' then set_st w (Done OCancelled) else w
  | Pending, WLate hk' => if hook_eqb hk hk' then set_st w (Done OCancelled) else w
  | Pending, WDisconnect => if hook_eqb hk HkConnListeners then set_st w (Done OResult) else w
  | _, _ => w
  end.

Definition hook_step (tbl : table) (h : Z) (s : state) (hk : hook) : state :=
  {| ctl := ctl s; c2h := c2h s; h2c := h2c s; lost := lost s;
     host := if hook_eqb hk HkHost then remove h (host s) else host s;
     dev := if hook_eqb hk HkDevice then remove h (dev s) else dev s;
     regs := filter (fun p => negb (hook_eqb (reg_hook tbl (fst p)) hk && (kconn (snd p) =? h))) (regs s);
     waiters := map (release_at hk h) (waiters s) |}.

(* Host.on_hci_disconnection_complete_event(handle = h, status = SUCCESS) *)
Definition fanout (tbl : table) (h : Z) (s : state) : state :=
  fold_left (hook_step tbl h) fanout_order s.

(* A fan-out in which a step may raise.  The whole chain is one synchronous call (nested
   emits); an exception raised by a listener of step [hk] propagates to the host's handler and
   beyond: that step and every later one do not run. *)
Fixpoint fold_until (raises : hook -> bool) (f : state -> hook -> state) (l : list hook) (s : state) : state :=
  match l with
  | [] => s
  | hk :: r => if raises hk then s else fold_until raises f r (f s hk)
  end.

Definition fanout_raising (tbl : table) (raises : hook -> bool) (h : Z) (s : state) : state :=
  fold_until raises (hook_step tbl h) fanout_order s.

(* ------------------------------------------------------------------ operations *)
Inductive op :=
| Establish (h : Z)                 (* the link layer creates connection h (handle free in the controller) *)
| PeerDisc (h : Z)                  (* TerminateInd / LMP detach from the peer *)
| LocalDisc (w h : Z)               (* Connection.disconnect() *)
| HciCommand (w : Z)                (* Host.send_command(...) *)
| Start (w : Z) (k : wkind) (key : key)  (* a procedure that awaits the peer starts on a connection *)
| Finish (w : Z)                    (* ... and completes normally (the peer answered) *)
| Insert (r : string) (key : key)   (* a registry entry is created for a connection the device holds *)
| Remove (r : string) (key : key)   (* ... or removed in normal operation *)
| DeliverC2H                        (* the host processes the oldest event *)
| DeliverH2C                        (* the controller processes the oldest command *)
| Resume (w : Z)                    (* the task awaiting a command status runs and registers its wait *)
| Loss                              (* Host.on_transport_lost() *)
| Tick                              (* the timers of calls on closed connections fire *)
| Cancel (w : Z).                   (* the task awaiting call w is cancelled, at any point (cancel_on_event,
                                       cancel_on_disconnection, the application): every exit path of the
                                       caller - this one included - releases what it holds, in particular
                                       the HCI command gate (Host._send_command releases in its `finally`) *)

Definition upd (s : state) (ctl' : list Z) (c2h' : list evt) (h2c' : list cmd)
           (ws : list waiter) : state :=
  {| ctl := ctl'; c2h := c2h'; h2c := h2c'; lost := lost s; host := host s; dev := dev s;
     regs := regs s; waiters := ws |}.

Definition set_regs (s : state) (rs : list (string * key)) : state :=
  {| ctl := ctl s; c2h := c2h s; h2c := h2c s; lost := lost s; host := host s; dev := dev s;
     regs := rs; waiters := waiters s |}.

Definition map_waiter (w : Z) (f : waiter -> waiter) (ws : list waiter) : list waiter :=
  map (fun x => if w_id x =? w then f x else x) ws.

Definition conn_bound (k : wkind) : bool :=
  match k with WConnBound hk => in_chain hk | WTimerOnly => true | _ => false end.

(* EResp w reaches the host *)
Definition on_resp (x : waiter) : waiter :=
  match w_st x, w_kind x with
  | Pending, WHciCommand => set_st x (Done OResult)
  | Issuing, WLate _ => set_st x Responded
  | _, _ => x
  end.

(* transport loss fails the outstanding command *)
Definition on_loss (x : waiter) : waiter :=
  match w_st x, w_kind x with
  | Pending, WHciCommand => set_st x (Done OError)
  | Issuing, WLate _ => set_st x (Done OError)
  | _, _ => x
  end.

Definition on_tick (d : list Z) (x : waiter) : waiter :=
  match w_st x, w_kind x with
  | Pending, WTimerOnly => if mem (kconn (w_key x)) d then x else set_st x (Done OTimeout)
  | _, _ => x
  end.

(* the task that awaited a command status runs again and registers its wait:
   Connection.cancel_on_disconnection cancels at once when the connection is already gone
   (the Connection remembers its disconnection); Device.request_remote_name registers for
   'flush' before sending, so it has been cancelled by then as well *)
Definition on_resume (d : list Z) (x : waiter) : waiter :=
  match w_st x, w_kind x with
  | Responded, WLate _ =>
      if mem (kconn (w_key x)) d then set_st x Pending else set_st x (Done OCancelled)
  | _, _ => x
  end.

Definition on_cancel (x : waiter) : waiter :=
  match w_st x with Done _ => x | _ => set_st x (Done OCancelled) end.

Definition step (tbl : table) (s : state) (o : op) : state :=
  if lost s then
    match o with
    | Tick => upd s (ctl s) (c2h s) (h2c s) (map (on_tick (dev s)) (waiters s))
    | Resume w => upd s (ctl s) (c2h s) (h2c s) (map_waiter w (on_resume (dev s)) (waiters s))
    | Cancel w => upd s (ctl s) (c2h s) (h2c s) (map_waiter w on_cancel (waiters s))
    | _ => s                       (* the stack is detached from its controller *)
    end
  else
  match o with
  | Establish h =>
      if mem h (ctl s) then s
      else upd s (add h (ctl s)) (c2h s ++ [EConn h]) (h2c s) (waiters s)
  | PeerDisc h =>
      if mem h (ctl s) then upd s (remove h (ctl s)) (c2h s ++ [EDisc h]) (h2c s) (waiters s) else s
  | LocalDisc w h =>
      if mem h (dev s) && negb (has_waiter w s)
      then upd s (ctl s) (c2h s) (h2c s ++ [CDisc h w])
               (waiters s ++ [{| w_id := w; w_kind := WDisconnect; w_key := (h, 0); w_st := Pending |}])
      else s
  | HciCommand w =>
      if has_waiter w s then s
      else upd s (ctl s) (c2h s) (h2c s ++ [CCmd w])
               (waiters s ++ [{| w_id := w; w_kind := WHciCommand; w_key := (0, 0); w_st := Pending |}])
  | Start w k key =>
      if mem (kconn key) (dev s) && negb (has_waiter w s) then
        match k with
        | WConnBound _ | WTimerOnly =>
            if conn_bound k
            then upd s (ctl s) (c2h s) (h2c s)
                     (waiters s ++ [{| w_id := w; w_kind := k; w_key := key; w_st := Pending |}])
            else s
        | WLate hk =>
            if in_chain hk
            then upd s (ctl s) (c2h s) (h2c s ++ [CCmd w])
                     (waiters s ++ [{| w_id := w; w_kind := k; w_key := key; w_st := Issuing |}])
            else s
        | _ => s
        end
      else s
  | Finish w =>
      upd s (ctl s) (c2h s) (h2c s)
          (map_waiter w (fun x => match w_st x, w_kind x with
                                  | Pending, WConnBound _ | Pending, WTimerOnly | Pending, WLate _ =>
                                      if mem (kconn (w_key x)) (dev s) then set_st x (Done OResult) else x
                                  | _, _ => x
                                  end) (waiters s))
  | Insert r key =>
      if known tbl r && mem (kconn key) (dev s) && negb (has_reg r key (regs s))
      then set_regs s (regs s ++ [(r, key)]) else s
  | Remove r key =>
      set_regs s (filter (fun p => negb (String.eqb (fst p) r && key_eqb (snd p) key)) (regs s))
  | DeliverC2H =>
      match c2h s with
      | [] => s
      | EConn h :: q =>
          {| ctl := ctl s; c2h := q; h2c := h2c s; lost := lost s; host := add h (host s);
             dev := add h (dev s); regs := regs s; waiters := waiters s |}
      | EDisc h :: q =>
          let s1 := upd s (ctl s) q (h2c s) (waiters s) in
          if mem h (host s) then fanout tbl h s1 else s1   (* unknown handle: warning only *)
      | EResp w :: q => upd s (ctl s) q (h2c s) (map_waiter w on_resp (waiters s))
      end
  | DeliverH2C =>
      match h2c s with
      | [] => s
      | CDisc h w :: q =>
          if mem h (ctl s) then upd s (remove h (ctl s)) (c2h s ++ [EDisc h]) q (waiters s)
          else upd s (ctl s) (c2h s) q (waiters s)
      | CCmd w :: q => upd s (ctl s) (c2h s ++ [EResp w]) q (waiters s)
      end
  | Resume w => upd s (ctl s) (c2h s) (h2c s) (map_waiter w (on_resume (dev s)) (waiters s))
  | Loss =>
      (* pending command fails; every connection the host knows goes through the fan-out;
         'flush'; nothing crosses the boundary any more *)
      let s1 := fold_left (fun a h => fanout tbl h a) (host s)
                  (upd s (ctl s) [] [] (map on_loss (waiters s))) in
      {| ctl := ctl s1; c2h := []; h2c := []; lost := true; host := host s1; dev := dev s1;
         regs := regs s1; waiters := waiters s1 |}
  | Tick => upd s (ctl s) (c2h s) (h2c s) (map (on_tick (dev s)) (waiters s))
  | Cancel w => upd s (ctl s) (c2h s) (h2c s) (map_waiter w on_cancel (waiters s))
  end.

Definition run (tbl : table) (ops : list op) (s : state) : state := fold_left (step tbl) ops s.

Definition is_responded (x : waiter) : bool := match w_st x with Responded => true | _ => false end.

(* ------------------------------------------------------------------ observations *)
(* what the host will hold once it has processed everything that is on its way *)
Fixpoint replay (q : list evt) (t : list Z) : list Z :=
  match q with
  | [] => t
  | EConn h :: r => replay r (add h t)
  | EDisc h :: r => replay r (remove h t)
  | EResp _ :: r => replay r t
  end.

Definition quiescent (s : state) : bool :=
  match c2h s, h2c s with [], [] => true | _, _ => false end.

(* ... and no task is waiting to run (asyncio: the loop is idle) *)
Definition settled (s : state) : bool :=
  quiescent s && forallb (fun x => negb (is_responded x)) (waiters s).

Definition live_waiter (d : list Z) (x : waiter) : bool :=
  is_done (w_st x) || mem (kconn (w_key x)) d.

(* The HCI command gate (Host.command_semaphore, pending_command / pending_response): held by
   the call whose command is outstanding, from the write until the caller leaves
   _send_command - by the response, a timeout, an error or its own cancellation. *)
Definition holds_gate (x : waiter) : bool :=
  match w_st x, w_kind x with
  | Pending, WHciCommand => true
  | Issuing, _ => true
  | _, _ => false
  end.
Definition gate_busy (s : state) : bool := existsb holds_gate (waiters s).

(* canonical observables for the correspondence harness *)
Definition st_code (st : wstate) : Z :=
  match st with
  | Pending => 0 | Issuing => 1 | Responded => 2 | Hung => 3
  | Done OResult => 10 | Done OError => 11 | Done OCancelled => 12 | Done OTimeout => 13
  end.
Definition obs (s : state) :=
  (ctl s, host s, dev s, regs s, map (fun x => (w_id x, st_code (w_st x))) (waiters s)).
