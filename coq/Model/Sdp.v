(* Model of bumble/sdp.py: Server.match_services, get_service_attributes,
   check_continuation, get_next_response_payload, the three request handlers, the
   per-channel continuation state, and the accumulation loops of Client.search_services /
   get_attributes / search_attributes.  Executable Gallina, no proofs.

   Reading of the code (after the repairs fixes/D19a.patch and fixes/D19b.patch):
     - match_services (D19a): a record matches when EVERY UUID of the pattern occurs in
       one of its attribute values (is_uuid_in_value recurses into SEQUENCE elements only).
       Before the repair one UUID was enough.
     - get_service_attributes: for each element of the id list (a 32-bit element is the
       range hi16..lo16, any other a single id) the attributes of the service in that
       range, concatenated in id-list order, then sorted by id (list.sort is stable);
       serialised as SEQUENCE [ UINT16 id, value, ... ].
     - check_continuation: a continuation state longer than one byte must equal
       b'\x01\x00' and a partial response must exist, else error 5; a one-byte state
       starts a new transaction and drops any partial response.
     - service search: (total, handles) kept as a tuple; (peer_mtu - 11) // 4 handles per
       response; the tuple (total, []) is left behind when done.
     - attribute / search-attribute: bytes; min(maximum_attribute_byte_count,
       peer_mtu - 9) bytes per response through get_next_response_payload, which leaves
       None behind when done.
     - a continuation of a service-search against a bytes partial response fails the
       isinstance assertion: Server.on_pdu answers error 6, state unchanged.  A bytes-kind
       continuation against a (total, handles) tuple slices the 2-tuple; with a budget
       >= 2 the tuple becomes the payload, serialising it raises, error 6, state None.
       With a budget < 2 the behaviour is not modelled ([EUnmodelled]).
     - (D19b) every L2CAP channel has its own continuation state: Server.channel /
       current_response are those of the client being served, the others are parked in
       pending_responses (select_channel).  Responses go to the channel the request came
       from.  Before the repair there was one channel and one current_response for all
       clients: every response went to the channel connected last.
   Abstractions: a UUID is its 128-bit value (core.UUID.__eq__ compares the expanded
   forms); an attribute value is (its serialisation as bytes, its UUID/SEQUENCE skeleton);
   transaction identifiers are echoed by every handler and not modelled; struct.pack range
   errors (ids > 0xFFFF, sequences > 4 GiB) are excluded by [attr_ok] / not reachable.
   Guards: peer_mtu >= 11 is assumed by the arithmetic (Python's negative slice indices are
   not modelled); L2CAP guarantees >= 48. *)
From Coq Require Import ZArith List Bool.
From BV Require Import Model.C19Chunks.
Import ListNotations.
Open Scope Z_scope.

(* ---------------------------------------------------------------- records *)
Inductive de := DUuid (u : Z) | DSeq (l : list de) | DOther.

Fixpoint uuid_in (u : Z) (v : de) : bool :=
  match v with
  | DUuid w => Z.eqb w u
  | DSeq l =>
      (fix any (l : list de) : bool :=
         match l with
         | [] => false
         | x :: l' => if uuid_in u x then true else any l'
         end) l
  | DOther => false
  end.

Record attr := mkAttr { at_id : Z; at_bytes : list Z; at_val : de }.
Definition service := list attr.
Definition records := list (Z * service).      (* service_records, in dict order *)

Definition service_has_uuid (svc : service) (u : Z) : bool :=
  existsb (fun a => uuid_in u (at_val a)) svc.
Definition record_matches (pat : list Z) (svc : service) : bool :=
  forallb (service_has_uuid svc) pat.
Definition match_services (recs : records) (pat : list Z) : records :=
  filter (fun hs => record_matches pat (snd hs)) recs.

Fixpoint lookup_record (h : Z) (recs : records) : option service :=
  match recs with
  | [] => None
  | (h', svc) :: recs' => if Z.eqb h' h then Some svc else lookup_record h recs'
  end.

(* ---------------------------------------------------------------- attribute selection *)
Definition idspec := (bool * Z)%type.           (* (value_size == 4, value) *)
Definition id_lo (i : idspec) : Z := if fst i then snd i / 65536 else snd i.
Definition id_hi (i : idspec) : Z := if fst i then snd i mod 65536 else snd i.
Definition in_range (i : idspec) (a : attr) : bool :=
  (id_lo i <=? at_id a) && (at_id a <=? id_hi i).

Definition select_attrs (svc : service) (ids : list idspec) : list attr :=
  flat_map (fun i => filter (in_range i) svc) ids.

Fixpoint ins_attr (a : attr) (l : list attr) : list attr :=
  match l with
  | [] => [a]
  | b :: l' => if at_id a <=? at_id b then a :: l else b :: ins_attr a l'
  end.
Definition sort_attrs (l : list attr) : list attr := fold_right ins_attr [] l.

Definition get_service_attributes (svc : service) (ids : list idspec) : list attr :=
  sort_attrs (select_attrs svc ids).

(* ---------------------------------------------------------------- serialisation *)
Definition be16 (n : Z) : list Z := [n / 256; n mod 256].
Definition be32 (n : Z) : list Z :=
  [n / 16777216; (n / 65536) mod 256; (n / 256) mod 256; n mod 256].

(* DataElement.__bytes__ for SEQUENCE: type 6, size index 5 / 6 / 7 *)
Definition seq_bytes (data : list Z) : list Z :=
  let n := zlen data in
  if n <=? 255 then 53 :: n :: data
  else if n <=? 65535 then 54 :: be16 n ++ data
  else 55 :: be32 n ++ data.

(* DataElement.unsigned_integer_16(id) *)
Definition uint16_bytes (id : Z) : list Z := 9 :: be16 id.

Definition attr_list_bytes (l : list attr) : list Z :=
  seq_bytes (flat_map (fun a => uint16_bytes (at_id a) ++ at_bytes a) l).

Definition is_nil {A} (l : list A) : bool := match l with [] => true | _ => false end.

Definition search_attr_bytes (recs : records) (pat : list Z) (ids : list idspec) : list Z :=
  seq_bytes
    (flat_map attr_list_bytes
       (filter (fun l => negb (is_nil l))
          (map (fun hs => get_service_attributes (snd hs) ids) (match_services recs pat)))).

Definition attr_ok (a : attr) : bool :=
  (0 <=? at_id a) && (at_id a <=? 65535) && bytes_ok (at_bytes a).

(* ---------------------------------------------------------------- requests / responses *)
Inductive cont := CFresh | CValid | CBad.   (* 1 byte | == 01 00 | any other longer state *)

Inductive req :=
| QSearch (pat : list Z) (max_count : Z) (c : cont)
| QAttr (handle : Z) (max_bytes : Z) (ids : list idspec) (c : cont)
| QSearchAttr (pat : list Z) (max_bytes : Z) (ids : list idspec) (c : cont).

Inductive rsp :=
| EError (code : Z)
| ESearch (total : Z) (handles : list Z) (more : bool)
| EAttr (payload : list Z) (more : bool)
| ESearchAttr (payload : list Z) (more : bool)
| EUnmodelled.

Definition ERR_INVALID_HANDLE := 2.
Definition ERR_INVALID_CONTINUATION := 5.
Definition ERR_INSUFFICIENT_RESOURCES := 6.

(* Server.current_response *)
Inductive resp := RNone | RBytes (b : list Z) | RHandles (total : Z) (hs : list Z).

Definition req_cont (q : req) : cont :=
  match q with QSearch _ _ c => c | QAttr _ _ _ c => c | QSearchAttr _ _ _ c => c end.

(* get_next_response_payload on a bytes response: (payload, more, what is left) *)
Definition next_payload (mx : Z) (b : list Z) : list Z * bool * resp :=
  if mx <? zlen b then (firstn (Z.to_nat mx) b, true, RBytes (skipn (Z.to_nat mx) b))
  else (b, false, RNone).

(* the common tail of the two bytes-kind handlers *)
Definition respond_bytes (mk : list Z -> bool -> rsp) (mx : Z) (cur : resp) : resp * rsp :=
  match cur with
  | RBytes b => let '(payload, more, cur') := next_payload mx b in (cur', mk payload more)
  | RHandles _ _ =>
      if 2 <=? mx then (RNone, EError ERR_INSUFFICIENT_RESOURCES) else (cur, EUnmodelled)
  | RNone => (cur, EError ERR_INSUFFICIENT_RESOURCES)     (* len(None): TypeError; unreachable *)
  end.

(* one request handled against the continuation state [cur] of its client *)
Definition handle (recs : records) (mtu : Z) (cur : resp) (q : req) : resp * rsp :=
  match req_cont q with
  | CBad => (cur, EError ERR_INVALID_CONTINUATION)
  | CValid =>
      match cur with
      | RNone => (cur, EError ERR_INVALID_CONTINUATION)
      | _ =>
          match q with
          | QSearch _ _ _ =>
              match cur with
              | RHandles total hs =>
                  let per := Z.to_nat ((mtu - 11) / 4) in
                  let rest := skipn per hs in
                  (RHandles total rest, ESearch total (firstn per hs) (negb (is_nil rest)))
              | _ => (cur, EError ERR_INSUFFICIENT_RESOURCES)   (* assert isinstance(.., tuple) *)
              end
          | QAttr _ mb _ _ => respond_bytes EAttr (Z.min mb (mtu - 9)) cur
          | QSearchAttr _ mb _ _ => respond_bytes ESearchAttr (Z.min mb (mtu - 9)) cur
          end
      end
  | CFresh =>
      match q with
      | QSearch pat maxc _ =>
          let handles := map fst (match_services recs pat) in
          let subset := firstn (Z.to_nat maxc) handles in
          let per := Z.to_nat ((mtu - 11) / 4) in
          let rest := skipn per subset in
          (RHandles (zlen handles) rest,
           ESearch (zlen handles) (firstn per subset) (negb (is_nil rest)))
      | QAttr h mb ids _ =>
          match lookup_record h recs with
          | None => (RNone, EError ERR_INVALID_HANDLE)
          | Some svc =>
              respond_bytes EAttr (Z.min mb (mtu - 9))
                (RBytes (attr_list_bytes (get_service_attributes svc ids)))
          end
      | QSearchAttr pat mb ids _ =>
          respond_bytes ESearchAttr (Z.min mb (mtu - 9)) (RBytes (search_attr_bytes recs pat ids))
      end
  end.

(* size of the response PDU on the wire: 5-byte header (PDU id, transaction id, parameter length), the
   parameters, and the continuation state (b'\x01\x00' when more follows, else b'\x00') *)
Definition cont_size (more : bool) : Z := if more then 2 else 1.
Definition rsp_size (r : rsp) : Z :=
  match r with
  | EError _ => 5 + 2
  | ESearch _ hs more => 5 + 2 + 2 + 4 * zlen hs + cont_size more
  | EAttr p more | ESearchAttr p more => 5 + 2 + zlen p + cont_size more
  | EUnmodelled => 0
  end.

(* ---------------------------------------------------------------- the server, many clients *)
Record sstate := mkS {
  s_chan : option Z;              (* Server.channel: the client being served *)
  s_cur : resp;                   (* Server.current_response *)
  s_pending : list (Z * resp)     (* Server.pending_responses *)
}.

Definition s_init : sstate := mkS None RNone [].

Fixpoint p_remove (c : Z) (l : list (Z * resp)) : list (Z * resp) :=
  match l with
  | [] => []
  | (c', r) :: l' => if Z.eqb c' c then p_remove c l' else (c', r) :: p_remove c l'
  end.
Fixpoint p_lookup (c : Z) (l : list (Z * resp)) : resp :=
  match l with
  | [] => RNone
  | (c', r) :: l' => if Z.eqb c' c then r else p_lookup c l'
  end.
Definition p_put (c : Z) (r : resp) (l : list (Z * resp)) : list (Z * resp) :=
  (c, r) :: p_remove c l.

Definition is_chan (s : sstate) (c : Z) : bool :=
  match s_chan s with Some c0 => Z.eqb c0 c | None => false end.

Definition select_channel (s : sstate) (c : Z) : sstate :=
  if is_chan s c then s
  else
    let pend := match s_chan s with
                | Some c0 => p_put c0 (s_cur s) (s_pending s)
                | None => s_pending s
                end in
    mkS (Some c) (p_lookup c pend) (p_remove c pend).

Inductive sop :=
| Connect (c : Z)                       (* Server.on_connection *)
| Disconnect (c : Z)                    (* Server.on_channel_close *)
| Request (c : Z) (mtu : Z) (q : req).  (* Server.on_channel_pdu; mtu = channel.peer_mtu *)

Definition s_step (recs : records) (s : sstate) (o : sop) : sstate * list (Z * rsp) :=
  match o with
  | Connect c => (select_channel s c, [])
  | Disconnect c =>
      let pend := p_remove c (s_pending s) in
      if is_chan s c then (mkS None RNone pend, []) else (mkS (s_chan s) (s_cur s) pend, [])
  | Request c mtu q =>
      let s1 := select_channel s c in
      let '(cur', r) := handle recs mtu (s_cur s1) q in
      (mkS (s_chan s1) cur' (s_pending s1), [(c, r)])
  end.

Fixpoint s_run (recs : records) (s : sstate) (ops : list sop) : sstate * list (Z * rsp) :=
  match ops with
  | [] => (s, [])
  | o :: ops' =>
      let '(s1, o1) := s_step recs s o in
      let '(s2, o2) := s_run recs s1 ops' in
      (s2, o1 ++ o2)
  end.

(* the continuation state the server holds for client c *)
Definition view (s : sstate) (c : Z) : resp :=
  if is_chan s c then s_cur s else p_lookup c (s_pending s).

(* a server with a single client: the reference for independence *)
Definition op_chan (o : sop) : Z :=
  match o with Connect c => c | Disconnect c => c | Request c _ _ => c end.

Definition solo_step (recs : records) (cur : resp) (o : sop) : resp * list rsp :=
  match o with
  | Connect _ => (cur, [])
  | Disconnect _ => (RNone, [])
  | Request _ mtu q => let '(cur', r) := handle recs mtu cur q in (cur', [r])
  end.

Fixpoint solo_run (recs : records) (cur : resp) (ops : list sop) : resp * list rsp :=
  match ops with
  | [] => (cur, [])
  | o :: ops' =>
      let '(c1, o1) := solo_step recs cur o in
      let '(c2, o2) := solo_run recs c1 ops' in
      (c2, o1 ++ o2)
  end.

Definition for_chan (c : Z) (ops : list sop) : list sop :=
  filter (fun o => Z.eqb (op_chan o) c) ops.
Definition to_chan (c : Z) (out : list (Z * rsp)) : list rsp :=
  map snd (filter (fun cr => Z.eqb (fst cr) c) out).

(* ---------------------------------------------------------------- the client *)
Inductive cres :=
| CDoneBytes (acc : list Z)       (* loop left through the zero continuation state *)
| CDoneHandles (acc : list Z)
| CPartialBytes (acc : list Z)    (* SDP_CONTINUATION_WATCHDOG exhausted: partial data *)
| CPartialHandles (acc : list Z)
| CErr (code : Z)                 (* SDP_ErrorResponse: ProtocolError *)
| CHang.                          (* response of another type: ignored, request never completes *)

Definition WATCHDOG : nat := 64.
Definition set_cont (q : req) (c : cont) : req :=
  match q with
  | QSearch p m _ => QSearch p m c
  | QAttr h m i _ => QAttr h m i c
  | QSearchAttr p m i _ => QSearchAttr p m i c
  end.

(* Client.get_attributes / search_attributes: accumulate bytes *)
Fixpoint client_bytes (w : nat) (recs : records) (mtu : Z) (q : req) (cur : resp) (c : cont)
         (acc : list Z) : resp * cres :=
  match w with
  | O => (cur, CPartialBytes acc)
  | S w' =>
      let '(cur', r) := handle recs mtu cur (set_cont q c) in
      match q, r with
      | QAttr _ _ _ _, EAttr payload more
      | QSearchAttr _ _ _ _, ESearchAttr payload more =>
          if more then client_bytes w' recs mtu q cur' CValid (acc ++ payload)
          else (cur', CDoneBytes (acc ++ payload))
      | _, EError code => (cur', CErr code)
      | _, _ => (cur', CHang)
      end
  end.

(* Client.search_services: accumulate handles *)
Fixpoint client_handles (w : nat) (recs : records) (mtu : Z) (q : req) (cur : resp) (c : cont)
         (acc : list Z) : resp * cres :=
  match w with
  | O => (cur, CPartialHandles acc)
  | S w' =>
      let '(cur', r) := handle recs mtu cur (set_cont q c) in
      match q, r with
      | QSearch _ _ _, ESearch _ hs more =>
          if more then client_handles w' recs mtu q cur' CValid (acc ++ hs)
          else (cur', CDoneHandles (acc ++ hs))
      | _, EError code => (cur', CErr code)
      | _, _ => (cur', CHang)
      end
  end.

Definition client_get_attributes recs mtu cur h ids :=
  client_bytes WATCHDOG recs mtu (QAttr h 65535 ids CFresh) cur CFresh [].
Definition client_search_attributes recs mtu cur pat ids :=
  client_bytes WATCHDOG recs mtu (QSearchAttr pat 65535 ids CFresh) cur CFresh [].
Definition client_search_services recs mtu cur pat :=
  client_handles WATCHDOG recs mtu (QSearch pat 65535 CFresh) cur CFresh [].

(* ---------------------------------------------------------------- observables *)
Definition resp_obs (r : resp) : Z * Z * list Z :=
  match r with RNone => (0, 0, []) | RBytes b => (1, 0, b) | RHandles t hs => (2, t, hs) end.
Definition rsp_obs (r : rsp) : Z * Z * list Z * bool :=
  match r with
  | EError c => (1, c, [], false)
  | ESearch t hs m => (3, t, hs, m)
  | EAttr p m => (5, 0, p, m)
  | ESearchAttr p m => (7, 0, p, m)
  | EUnmodelled => (0, 0, [], false)
  end.
Definition cres_obs (r : cres) : Z * list Z :=
  match r with
  | CDoneBytes a => (0, a) | CDoneHandles a => (1, a) | CPartialBytes a => (2, a)
  | CPartialHandles a => (3, a) | CErr c => (4, [c]) | CHang => (5, [])
  end.
