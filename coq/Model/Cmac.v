(* C14 - bumble/crypto/builtin.py  _CMAC / _CBC.encrypt / _shift_bytes / aes_cmac as written,
   over an abstract block function [E] (= _AES(key).encrypt for the fixed key), and the
   RFC 4493 / NIST SP 800-38B definition of AES-CMAC it is compared with.
   Executable Gallina only.
   Abstractions: digest() is modelled as a pure function of the object state (the _mac_tag
   cache and the update_after_digest flag only make a second digest() return the same tag);
   mac_len is the default 16; the block size is the constant 16 the constructor sets. *)
From Coq Require Import ZArith List Bool.
From BV Require Import Model.CryptoBytes.
Import ListNotations.
Open Scope Z_scope.

Section CMAC.
  Variable E : list Z -> list Z.            (* one 16-byte block under the fixed key *)

  (* _shift_bytes(bs, xor_lsb) =
       ((int.from_bytes(bs,'big') << 1) ^ xor_lsb).to_bytes(len(bs)+1,'big')[1:] *)
  Definition shift_bytes (bs : list Z) (xor_lsb : Z) : list Z :=
    py_from (to_be (length bs + 1) (Z.lxor (Z.shiftl (be_int bs) 1) xor_lsb)) 1.

  Definition const_Rb : Z := 135.           (* 0x87, block size 16 *)
  Definition max_size : Z := 16 * 2 ^ 48.

  (* _ECB.encrypt on a byte string: each 16-byte slice, zero padded *)
  Definition ecb (pt : list Z) : list Z := concat (map (fun c => E (ljust16 c)) (chunks16 pt)).

  (* sub-keys, as in __init__ *)
  Definition subkey_of (l : list Z) : list Z :=
    if negb (Z.land (hd 0 l) 128 =? 0) then shift_bytes l const_Rb else shift_bytes l 0.
  Definition key_L : list Z := ecb (zeros 16).
  Definition key_k1 : list Z := subkey_of key_L.
  Definition key_k2 : list Z := subkey_of key_k1.

  (* _CBC.encrypt: returns (cipher text, new _last_cipher_block) *)
  Fixpoint cbc_blocks (last : list Z) (blocks : list (list Z)) : list Z * list Z :=
    match blocks with
    | [] => ([], last)
    | b :: r => let c := E (xor_zip b last) in
                let '(ct, last') := cbc_blocks c r in (c ++ ct, last')
    end.
  Definition cbc_encrypt (last : list Z) (pt : list Z) : list Z * list Z :=
    cbc_blocks last (chunks16 pt).

  Record cmac_state := mk_cmac {
    c_cache : list Z;            (* bytearray(16) *)
    c_cache_n : Z;
    c_last_ct : list Z;
    c_last_pt : option (list Z);
    c_data_size : Z;
    c_cbc_last : list Z          (* _cbc._last_cipher_block *)
  }.

  Definition cmac_init : cmac_state :=
    mk_cmac (zeros 16) 0 (zeros 16) None 0 (zeros 16).

  (* _update(data_block): data_block is block aligned (the assert holds for every caller) *)
  Definition update_aligned (s : cmac_state) (data : list Z) : cmac_state :=
    if len data =? 0 then s else
    let '(ct, cbc') := cbc_encrypt (c_cbc_last s) data in
    let second_last := if len data =? 16 then c_last_ct s else py_slice ct (-32) (-16) in
    mk_cmac (c_cache s) (c_cache_n s) (py_from ct (-16))
            (Some (xor_zip second_last (py_from data (-16)))) (c_data_size s) cbc'.

  Definition set_cache (s : cmac_state) (c : list Z) (n : Z) : cmac_state :=
    mk_cmac c n (c_last_ct s) (c_last_pt s) (c_data_size s) (c_cbc_last s).

  (* the part of update() after the cache has been dealt with *)
  Definition update_tail (s : cmac_state) (msg : list Z) : cmac_state :=
    let remain := len msg mod 16 in
    if 0 <? remain then
      let s1 := update_aligned s (py_upto msg (- remain)) in
      set_cache s1 (py_splice (c_cache s1) 0 remain (py_from msg (- remain))) remain
    else
      let s1 := update_aligned s msg in
      set_cache s1 (c_cache s1) remain.

  (* update(msg) *)
  Definition update (s0 : cmac_state) (msg : list Z) : cmac_state :=
    let s := mk_cmac (c_cache s0) (c_cache_n s0) (c_last_ct s0) (c_last_pt s0)
                     (c_data_size s0 + len msg) (c_cbc_last s0) in
    if 0 <? c_cache_n s then
      let filler := Z.min (16 - c_cache_n s) (len msg) in
      let cache' := py_splice (c_cache s) (c_cache_n s) (c_cache_n s + filler) (py_upto msg filler) in
      let n' := c_cache_n s + filler in
      if n' <? 16 then set_cache s cache' n'
      else
        let s1 := update_aligned (set_cache s cache' n') cache' in
        update_tail (set_cache s1 (c_cache s1) 0) (py_from msg filler)
    else update_tail s msg.

  (* truthiness of self._last_pt: None and b'' are false *)
  Definition truthy (o : option (list Z)) : bool :=
    match o with Some l => negb (len l =? 0) | None => false end.
  Definition opt_bytes (o : option (list Z)) : list Z :=
    match o with Some l => l | None => [] end.

  (* digest(): None = InvalidArgumentError("MAC is unsafe for this message") *)
  Definition digest (s : cmac_state) : option (list Z) :=
    if max_size <? c_data_size s then None else
    let pt :=
      if (c_cache_n s =? 0) && (0 <? c_data_size s) && truthy (c_last_pt s)
      then (* last block was full *)
        xor_zip (opt_bytes (c_last_pt s)) key_k1
      else (* last block is partial, or the message is empty *)
        let partial := py_splice (c_cache s) (c_cache_n s) (len (c_cache s))
                                 (128 :: zeros (Z.to_nat (16 - c_cache_n s - 1))) in
        xor_zip (xor_zip (c_last_ct s) partial) key_k2 in
    Some (py_upto (ecb pt) 16).

  (* _CMAC(key, msg): the constructor calls update(msg) only for a non-empty msg *)
  Definition cmac_new (msg : list Z) : cmac_state :=
    if len msg =? 0 then cmac_init else update cmac_init msg.

  (* aes_cmac(m, k) = _CMAC(key=k, msg=m).digest() *)
  Definition aes_cmac_code (m : list Z) : option (list Z) := digest (cmac_new m).

  (* a sequence of update() calls on a fresh object created with an empty message *)
  Definition cmac_chunked (chunks : list (list Z)) : option (list Z) :=
    digest (fold_left update chunks cmac_init).

  (* ------------------------------------------------------------------ specification *)
  (* RFC 4493 section 2.3 (Generate_Subkey) and 2.4 (AES-CMAC), transcribed; 128-bit strings
     are 16-byte lists, most significant byte first, [be_int] is their value. *)
  Definition spec_Rb : list Z := zeros 15 ++ [135].              (* const_Rb = 0x00..0087 *)
  Definition spec_shl1 (l : list Z) : list Z := to_be 16 ((2 * be_int l) mod 2 ^ 128).
  Definition spec_msb (l : list Z) : bool := 2 ^ 127 <=? be_int l.
  Definition spec_subkey (l : list Z) : list Z :=
    if spec_msb l then xor_zip (spec_shl1 l) spec_Rb else spec_shl1 l.
  Definition spec_L : list Z := E (zeros 16).
  Definition spec_K1 : list Z := spec_subkey spec_L.
  Definition spec_K2 : list Z := spec_subkey spec_K1.

  Definition spec_padding (b : list Z) : list Z := b ++ 128 :: zeros (15 - length b).

  (* X := const_Zero; for i := 1 to n-1 do Y := X xor M_i; X := AES-128(K,Y) *)
  Fixpoint spec_chain (X : list Z) (blocks : list (list Z)) : list Z :=
    match blocks with
    | [] => X
    | b :: r => spec_chain (E (xor_zip X b)) r
    end.

  Definition cmac_spec (M : list Z) : list Z :=
    let l := length M in
    let n0 := Nat.div (l + 15) 16 in                               (* ceil(len/const_Bsize) *)
    let n := if Nat.eqb n0 0 then 1%nat else n0 in
    let flag := if Nat.eqb n0 0 then false else Nat.eqb (Nat.modulo l 16) 0 in
    let head := firstn (16 * (n - 1)) M in                          (* M_1 .. M_{n-1} *)
    let M_n := skipn (16 * (n - 1)) M in
    let M_last := if flag then xor_zip M_n spec_K1 else xor_zip (spec_padding M_n) spec_K2 in
    let X := spec_chain (zeros 16) (chunks16 head) in
    E (xor_zip M_last X).
End CMAC.
