(* Model of bumble/utils.py crc_16 (CRC-16-IBM, reflected polynomial 0xA001, initial
   value 0, no final xor) as executable Gallina.  No proofs here.

     crc = 0
     for byte in data:
         crc ^= byte
         for _ in range(8):
             if (crc & 1) > 0: crc = (crc >> 1) ^ 0xA001
             else:             crc = crc >> 1

   The code has no lookup table; the table-driven variant below is the usual
   byte-at-a-time formulation, and Gen/C08Tables.v holds the 256 values the REAL
   function returns on the one-byte inputs (regenerated on every run). *)
From Coq Require Import ZArith List Bool.
Import ListNotations.
Open Scope Z_scope.

Definition crc_poly : Z := 40961.  (* 0xA001 *)

Definition crc_bit (c : Z) : Z :=
  if Z.odd c then Z.lxor (Z.shiftr c 1) crc_poly else Z.shiftr c 1.

Definition crc_bits8 (c : Z) : Z :=
  crc_bit (crc_bit (crc_bit (crc_bit (crc_bit (crc_bit (crc_bit (crc_bit c))))))).

Definition crc_byte (c b : Z) : Z := crc_bits8 (Z.lxor c b).

Definition crc16 (data : list Z) : Z := fold_left crc_byte data 0.

(* byte-at-a-time with a 256-entry table *)
Definition crc_table_entry (i : Z) : Z := crc_bits8 i.

Definition crc_table : list Z := map (fun n => crc_table_entry (Z.of_nat n)) (seq 0 256).

Definition crc_byte_tab (tab : list Z) (c b : Z) : Z :=
  let x := Z.lxor c b in
  Z.lxor (nth (Z.to_nat (Z.land x 255)) tab 0) (Z.shiftr x 8).

Definition crc16_tab (tab : list Z) (data : list Z) : Z := fold_left (crc_byte_tab tab) data 0.
