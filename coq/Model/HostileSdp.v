(* C17 - bumble/sdp.py DataElementParser.parse_next / _list_from_bytes, branch by branch,
   every element type and every size-descriptor form, with the nesting limit
   (_MAX_DATA_ELEMENT_NESTING, regenerated into Gen/C17Tables.v) and the container-overrun
   check of fixes/D17b.patch.  Executable Gallina only.

   The parser object's state (data, offset, depth) is threaded explicitly.  Both functions
   recurse on explicit fuel: [SOutOfFuel]/[LOutOfFuel] is the result the theorems exclude.
   Every result carries [steps], the number of parse_next calls made, so that "terminates
   promptly" can be stated as a bound on work, not only on call depth.

   [strict = true] is the code with D17b.patch (an element that ends beyond its container is
   rejected); [strict = false] is the code before it, kept for the refutation lemma.

   Abstraction: a URL element's text is kept as bytes and a URL with a byte >= 128 yields
   [SUrlNonAscii] (the model does not decide UTF-8 validity). *)
From Coq Require Import ZArith List Bool.
Import ListNotations.
Open Scope Z_scope.

Inductive selem :=
| ENil
| EUInt (v : Z) (size : nat)
| ESInt (v : Z) (size : nat)
| EUuid (b : list Z)                 (* the value bytes, reversed as the code does *)
| EText (b : list Z)
| EBool (b : bool)
| ESeq (l : list selem)
| EAlt (l : list selem)
| EUrl (b : list Z)
| EOther (t : Z) (b : list Z).

Inductive serr :=
| SOffsetBeyond        (* InvalidStateError: offset >= len(data) *)
| SIndex               (* IndexError: size byte / 1-byte unsigned integer / boolean beyond the data *)
| SStruct              (* struct.error: 2/4-byte size or 2/4/8-byte integer beyond the data *)
| SBadIntLen           (* InvalidPacketError: integer length not 1, 2, 4 or 8 *)
| SUuidLen             (* InvalidArgumentError: UUID bytes not 2, 4 or 16 long *)
| SNesting             (* InvalidPacketError: nesting exceeds max depth *)
| SOverrun             (* InvalidPacketError: element ends beyond its container (D17b) *)
| SUrlNonAscii.        (* outside the model *)

Inductive sres :=
| SOk (e : selem) (off : Z) (steps : Z)
| SErr (e : serr) (steps : Z)
| SOutOfFuel.

Inductive lres :=
| LOk (l : list selem) (off : Z) (steps : Z)
| LErr (e : serr) (steps : Z)
| LOutOfFuel.

(* Offsets and sizes are Z (a 4-byte size descriptor reaches 2^32 - 1). *)
Definition zlen (data : list Z) : Z := Z.of_nat (length data).
Definition be_int (bs : list Z) : Z := fold_left (fun acc b => acc * 256 + b) bs 0.
(* python: data[off:off+n] for 0 <= off, 0 <= n (clamped to the data) *)
Definition slice (data : list Z) (off n : Z) : list Z :=
  firstn (Z.to_nat (Z.min n (zlen data))) (skipn (Z.to_nat (Z.min off (zlen data))) data).
(* python: data[off] for 0 <= off; None = IndexError *)
Definition byte_at (data : list Z) (off : Z) : option Z :=
  if off <? zlen data then nth_error data (Z.to_nat off) else None.

Definition signed (bits : Z) (v : Z) : Z := if v <? 2 ^ (bits - 1) then v else v - 2 ^ bits.

(* DataElement.unsigned_integer_from_bytes / signed_integer_from_bytes *)
Definition int_from_bytes (sgn : bool) (data : list Z) (off size : Z) : serr + Z :=
  if (size =? 1) || (size =? 2) || (size =? 4) || (size =? 8) then
    if off + size <=? zlen data then
      let v := be_int (slice data off size) in
      inr (if sgn then signed (8 * size) v else v)
    else inl (if (size =? 1) && negb sgn then SIndex else SStruct)
  else inl SBadIntLen.

(* size descriptor at [off]: -> (value_size, bytes of the size field) *)
Definition value_size (data : list Z) (off : Z) (etype size_index : Z) : serr + (Z * Z) :=
  match size_index with
  | 0 => inr (if etype =? 0 then 0 else 1, 0)
  | 1 => inr (2, 0)
  | 2 => inr (4, 0)
  | 3 => inr (8, 0)
  | 4 => inr (16, 0)
  | 5 => match byte_at data off with
         | Some b => inr (b, 1)
         | None => inl SIndex
         end
  | 6 => if off + 2 <=? zlen data then inr (be_int (slice data off 2), 2) else inl SStruct
  | _ => if off + 4 <=? zlen data then inr (be_int (slice data off 4), 4) else inl SStruct
  end.

Definition all_ascii (b : list Z) : bool := forallb (fun x => x <? 128) b.

Section Parser.
  Variable strict : bool.        (* D17b.patch applied *)
  Variable maxd : Z.             (* max_depth *)
  Variable data : list Z.

  (* body of parse_next; [loop] is _list_from_bytes on the remaining fuel *)
  Definition parse_body (loop : Z -> Z -> Z -> lres) (off depth : Z) : sres :=
    match byte_at data off with
    | None => SErr SOffsetBeyond 1
    | Some hd =>
        let etype := hd / 8 in
        let size_index := hd mod 8 in
        match value_size data (off + 1) etype size_index with
        | inl e => SErr e 1
        | inr (vsize, szlen) =>
            let vstart := off + 1 + szlen in
            let vend := vstart + vsize in
            if etype =? 0 then SOk ENil vend 1
            else if etype =? 1 then
              match int_from_bytes false data vstart vsize with
              | inl e => SErr e 1
              | inr v => SOk (EUInt v (Z.to_nat vsize)) vend 1
              end
            else if etype =? 2 then
              match int_from_bytes true data vstart vsize with
              | inl e => SErr e 1
              | inr v => SOk (ESInt v (Z.to_nat vsize)) vend 1
              end
            else if etype =? 3 then
              let b := slice data vstart vsize in
              if ((length b =? 2) || (length b =? 4) || (length b =? 16))%nat
              then SOk (EUuid (rev b)) vend 1 else SErr SUuidLen 1
            else if etype =? 4 then SOk (EText (slice data vstart vsize)) vend 1
            else if etype =? 5 then
              match byte_at data vstart with
              | Some b => SOk (EBool (b =? 1)) vend 1
              | None => SErr SIndex 1
              end
            else if (etype =? 6) || (etype =? 7) then
              if maxd <=? depth then SErr SNesting 1
              else
                match loop vstart vend (depth + 1) with
                | LOutOfFuel => SOutOfFuel
                | LErr e n => SErr e (1 + n)
                | LOk l _ n => SOk (if etype =? 6 then ESeq l else EAlt l) vend (1 + n)
                end
            else if etype =? 8 then
              let b := slice data vstart vsize in
              if all_ascii b then SOk (EUrl b) vend 1 else SErr SUrlNonAscii 1
            else SOk (EOther etype (slice data vstart vsize)) vend 1
        end
    end.

  (* one iteration of: while self.offset < end_offset: elements.append(self.parse_next())
     [; overrun check].  [next] is parse_next, [again] the rest of the loop. *)
  Definition loop_body (next : Z -> Z -> sres) (again : Z -> Z -> Z -> lres)
             (off end_off depth : Z) : lres :=
    if off <? end_off then
      match next off depth with
      | SOutOfFuel => LOutOfFuel
      | SErr e n => LErr e n
      | SOk e off' n =>
          if strict && (end_off <? off') then LErr SOverrun n
          else
            match again off' end_off depth with
            | LOutOfFuel => LOutOfFuel
            | LErr e' n' => LErr e' (n + n')
            | LOk l off'' n' => LOk (e :: l) off'' (n + n')
            end
      end
    else LOk [] off 0.

  (* (the recursive calls are eta-expanded so that evaluation builds them lazily) *)
  Fixpoint parse_next (fuel : nat) (off depth : Z) {struct fuel} : sres :=
    match fuel with
    | O => SOutOfFuel
    | S f => parse_body (fun a b c => list_loop f a b c) off depth
    end
  with list_loop (fuel : nat) (off end_off depth : Z) {struct fuel} : lres :=
    match fuel with
    | O => LOutOfFuel
    | S f => loop_body (fun a b => parse_next f a b) (fun a b c => list_loop f a b c) off end_off depth
    end.
End Parser.

(* fuel that is always enough (Proofs/HostileSdp.v): (max_depth + 2) * (len + 4) *)
Definition sdp_fuel (maxd : Z) (data : list Z) : nat :=
  Z.to_nat ((Z.max maxd 0 + 2) * (zlen data + 4)).

(* DataElement.from_bytes(data) *)
Definition element_from_bytes (strict : bool) (maxd : Z) (data : list Z) : sres :=
  parse_next strict maxd data (sdp_fuel maxd data) 0 0.

(* hostile shape of fixes/D17b: [levels] times a 3-byte container around a child that
   declares the whole rest of the data *)
Fixpoint overrun_body (levels : nat) (tail : list Z) : list Z :=
  match levels with
  | O => tail
  | S k => let body := overrun_body k tail in
           let n := zlen body in
           [53; 3; 54; n / 256; n mod 256] ++ body
  end.

Definition overrun_witness (levels : nat) (tail : list Z) : list Z :=
  let body := overrun_body levels tail in
  let n := zlen body in
  [54; n / 256; n mod 256] ++ body.

Definition steps_of (r : sres) : Z :=
  match r with SOk _ _ n => n | SErr _ n => n | SOutOfFuel => 0 end.
