(* Model of LE pairing in bumble/smp.py (class Session), bumble/pairing.py (PairingConfig,
   PairingDelegate.key_distribution_response) and of the key reads in bumble/device.py
   (Device.encrypt, Device.get_long_term_key).  Executable Gallina only; the lemmas are in
   Proofs/Pairing.v.

   The code modelled is the code AFTER fixes/D13a.patch (legacy LTK slots) and
   fixes/D13b.patch (CTKD authenticated flag); the original bookkeeping is kept as
   [stored_orig] for the refutation lemmas.

   Parts:
     1. the specification: Core Vol 3 Part H 2.3.5.1 Table 2.8, transcribed by hand
     2. Session.decide_pairing_method over the GENERATED table (Gen/C13Tables.v)
     3. negotiation from pairing request / response (sc, bonding, ct2, method, masks,
        peer_expected_distributions), distribute_keys
     4. phase 2 (legacy and secure connections: just works, numeric comparison, passkey) with
        the cryptographic toolbox abstract (Section variables)
     5. phase 3 (key distribution, check_key_distribution), on_pairing bookkeeping
     6. reads on a later connection
     7. an executable instance (free term algebra) used by the correspondence harness. *)
From Coq Require Import ZArith List Bool.
From BV Require Import Gen.C13Tables.
Import ListNotations.
Open Scope Z_scope.

(* ------------------------------------------------------------------ 1. specification *)
Inductive io := DisplayOnly | DisplayYesNo | KeyboardOnly | NoInputNoOutput | KeyboardDisplay.
Definition all_io := [DisplayOnly; DisplayYesNo; KeyboardOnly; NoInputNoOutput; KeyboardDisplay].

(* Vol 3 Part H 3.5.1 Table 3.4: IO capability values *)
Definition io_code (x : io) : Z :=
  match x with
  | DisplayOnly => 0 | DisplayYesNo => 1 | KeyboardOnly => 2 | NoInputNoOutput => 3 | KeyboardDisplay => 4
  end.

Inductive method := JustWorks | NumericComparison | PasskeyEntry | OutOfBand | CtkdOverClassic.
(* what a device does with the passkey *)
Inductive prole := NoRole | Displays | Inputs.

(* Table 2.8: initiator capability, responder capability, LE secure connections ->
   (key generation method, initiator's role, responder's role) *)
Definition spec_method (i r : io) (sc : bool) : method * prole * prole :=
  let jw := (JustWorks, NoRole, NoRole) in
  let nc := (NumericComparison, NoRole, NoRole) in
  let init_displays := (PasskeyEntry, Displays, Inputs) in
  let resp_displays := (PasskeyEntry, Inputs, Displays) in
  match i, r with
  | NoInputNoOutput, _ => jw
  | _, NoInputNoOutput => jw
  | DisplayOnly, DisplayOnly => jw
  | DisplayOnly, DisplayYesNo => jw
  | DisplayOnly, KeyboardOnly => init_displays
  | DisplayOnly, KeyboardDisplay => init_displays
  | DisplayYesNo, DisplayOnly => jw
  | DisplayYesNo, DisplayYesNo => if sc then nc else jw
  | DisplayYesNo, KeyboardOnly => init_displays
  | DisplayYesNo, KeyboardDisplay => if sc then nc else init_displays
  | KeyboardOnly, DisplayOnly => resp_displays
  | KeyboardOnly, DisplayYesNo => resp_displays
  | KeyboardOnly, KeyboardOnly => (PasskeyEntry, Inputs, Inputs)
  | KeyboardOnly, KeyboardDisplay => resp_displays
  | KeyboardDisplay, DisplayOnly => resp_displays
  | KeyboardDisplay, DisplayYesNo => if sc then nc else resp_displays
  | KeyboardDisplay, KeyboardOnly => init_displays
  | KeyboardDisplay, KeyboardDisplay => if sc then nc else init_displays
  end.

Definition has_display (x : io) : bool :=
  match x with DisplayOnly | DisplayYesNo | KeyboardDisplay => true | _ => false end.
Definition has_keyboard (x : io) : bool :=
  match x with KeyboardOnly | KeyboardDisplay => true | _ => false end.
Definition has_yes_no (x : io) : bool :=
  match x with DisplayYesNo | KeyboardDisplay => true | _ => false end.

(* bumble's PairingMethod numbering (generated constants) *)
Definition method_code (m : method) : Z :=
  match m with
  | JustWorks => PM_JUST_WORKS | NumericComparison => PM_NUMERIC_COMPARISON
  | PasskeyEntry => PM_PASSKEY | OutOfBand => PM_OOB | CtkdOverClassic => PM_CTKD_OVER_CLASSIC
  end.

Definition prole_eqb (a b : prole) : bool :=
  match a, b with NoRole, NoRole | Displays, Displays | Inputs, Inputs => true | _, _ => false end.

(* ------------------------------------------------------------------ 2. decide_pairing_method *)
Fixpoint assoc {A : Type} (k : Z) (l : list (Z * A)) : option A :=
  match l with
  | [] => None
  | (k', v) :: l' => if k =? k' then Some v else assoc k l'
  end.

Definition has_flag (flags bit : Z) : bool := negb (Z.land flags bit =? 0).

(* Session.decide_pairing_method(auth_req, initiator_io_capability, responder_io_capability):
   returns (pairing_method, passkey_display); None is the KeyError of a capability that is not
   in the table.  [prev_display] is the value passkey_display had before (it is only assigned
   in the PASSKEY branch). *)
(* PAIRING_METHODS[initiator][responder], with the (legacy, sc) pair resolved *)
Definition table_lookup (sc : bool) (init_io resp_io : Z) : option detail :=
  match assoc init_io pairing_methods with
  | None => None
  | Some row =>
    match assoc resp_io row with
    | None => None
    | Some e => Some (match e with ESingle d => d | EPair l s => if sc then s else l end)
    end
  end.

Definition decide (bredr self_mitm self_sc is_initiator prev_display : bool)
                  (auth_req init_io resp_io : Z) : option (Z * bool) :=
  if bredr then Some (PM_CTKD_OVER_CLASSIC, prev_display)
  else if negb self_mitm && negb (has_flag auth_req AUTH_MITM) then Some (PM_JUST_WORKS, prev_display)
  else
    match table_lookup self_sc init_io resp_io with
    | None => None
    | Some (DMethod m) => Some (m, prev_display)
    | Some (DRoles m di dr) => Some (m, if is_initiator then di else dr)
    end.

(* ------------------------------------------------------------------ 3. negotiation *)
(* PairingConfig + PairingDelegate of one device *)
Record config := mkConfig {
  c_io : Z; c_sc : bool; c_mitm : bool; c_bonding : bool;
  c_ikd : Z;       (* delegate.local_initiator_key_distribution *)
  c_rkd : Z;       (* delegate.local_responder_key_distribution *)
  c_oob : bool     (* Session.oob_data_flag *)
}.

(* the fields of Pairing Request / Pairing Response the sessions read *)
Record pdu := mkPdu { p_io : Z; p_oob : bool; p_auth : Z; p_ikd : Z; p_rkd : Z }.

(* AuthReq.from_booleans (keypress is always False) *)
Definition auth_req_of (bonding sc mitm ct2 : bool) : Z :=
  Z.lor (Z.lor (Z.lor (if bonding then AUTH_BONDING else 0) (if sc then AUTH_SC else 0))
               (if mitm then AUTH_MITM else 0)) (if ct2 then AUTH_CT2 else 0).

Record session := mkSession {
  s_initiator : bool;
  s_sc : bool; s_bonding : bool; s_ct2 : bool;
  s_method : Z; s_display : bool;
  s_ikd : Z; s_rkd : Z;           (* initiator_ / responder_key_distribution after negotiation *)
  s_expected : list Z              (* peer_expected_distributions, as SMP command codes *)
}.

(* send_pairing_request_command *)
Definition request_of (c : config) : pdu :=
  mkPdu (c_io c) (c_oob c) (auth_req_of (c_bonding c) (c_sc c) (c_mitm c) false) (c_ikd c) (c_rkd c).

(* "Infer the pairing method": OOB when the flags say so, else decide_pairing_method *)
Definition choose_method (bredr : bool) (c : config) (sc is_initiator : bool) (peer : pdu)
                         (init_io resp_io : Z) : option (Z * bool) :=
  if (sc && (c_oob c || p_oob peer)) || (negb sc && (c_oob c && p_oob peer))
  then Some (PM_OOB, false)
  else decide bredr (c_mitm c) sc is_initiator false (p_auth peer) init_io resp_io.

(* compute_peer_expected_distributions *)
Definition expected (sc bredr : bool) (kd : Z) : list Z :=
  (if negb sc && negb bredr
   then (if has_flag kd KD_ENC_KEY then [CMD_ENCRYPTION_INFORMATION; CMD_MASTER_IDENTIFICATION] else [])
   else [])
  ++ (if has_flag kd KD_ID_KEY then [CMD_IDENTITY_INFORMATION; CMD_IDENTITY_ADDRESS_INFORMATION] else [])
  ++ (if has_flag kd KD_SIGN_KEY then [CMD_SIGNING_INFORMATION] else []).

(* distribute_keys: the SMP commands one side sends, in order, given its own mask *)
Definition distributed (sc bredr : bool) (kd : Z) : list Z :=
  (if bredr && has_flag kd KD_ENC_KEY then []          (* CTKD: derive, nothing on the air *)
   else if negb sc
        then (if has_flag kd KD_ENC_KEY then [CMD_ENCRYPTION_INFORMATION; CMD_MASTER_IDENTIFICATION] else [])
        else [])
  ++ (if has_flag kd KD_ID_KEY then [CMD_IDENTITY_INFORMATION; CMD_IDENTITY_ADDRESS_INFORMATION] else [])
  ++ (if has_flag kd KD_SIGN_KEY then [CMD_SIGNING_INFORMATION] else []).

(* PairingDelegate.key_distribution_response (default implementation) *)
Definition default_answer (c : config) (req : pdu) : Z * Z :=
  (Z.land (p_ikd req) (c_ikd c), Z.land (p_rkd req) (c_rkd c)).

(* on_smp_pairing_request_command_async, after the delegate accepted; [answer] is what
   delegate.key_distribution_response returned.  None: KeyError in the table lookup. *)
Definition responder_session (bredr : bool) (c : config) (answer : Z * Z) (req : pdu) : option session :=
  let bonding := c_bonding c && has_flag (p_auth req) AUTH_BONDING in
  let sc := c_sc c && has_flag (p_auth req) AUTH_SC in
  let ct2 := false && has_flag (p_auth req) AUTH_CT2 in     (* self.ct2 starts False *)
  match choose_method bredr c sc false req (p_io req) (c_io c) with
  | None => None
  | Some (m, disp) =>
    Some (mkSession false sc bonding ct2 m disp (fst answer) (snd answer)
                    (expected sc bredr (fst answer)))
  end.

(* send_pairing_response_command *)
Definition response_of (c : config) (s : session) : pdu :=
  mkPdu (c_io c) (c_oob c) (auth_req_of (s_bonding s) (s_sc s) (c_mitm c) (s_ct2 s)) (s_ikd s) (s_rkd s).

Inductive negotiated :=
| NegOk (s : session)
| NegFail (reason : Z)       (* send_pairing_failed(reason) *)
| NegError.                  (* KeyError *)

(* on_smp_pairing_response_command *)
Definition initiator_session (bredr : bool) (c : config) (rsp : pdu) : negotiated :=
  let bonding := c_bonding c && has_flag (p_auth rsp) AUTH_BONDING in
  let sc := c_sc c && has_flag (p_auth rsp) AUTH_SC in
  match choose_method bredr c sc true rsp (c_io c) (p_io rsp) with
  | None => NegError
  | Some (m, disp) =>
    if negb (Z.land (p_ikd rsp) (Z.lnot (c_ikd c)) =? 0) || negb (Z.land (p_rkd rsp) (Z.lnot (c_rkd c)) =? 0)
    then NegFail ERR_INVALID_PARAMETERS
    else NegOk (mkSession true sc bonding false m disp (p_ikd rsp) (p_rkd rsp)
                          (expected sc bredr (p_rkd rsp)))
  end.

(* ------------------------------------------------------------------ 5a. phase 3: key distribution *)
Fixpoint mem (c : Z) (l : list Z) : bool :=
  match l with [] => false | x :: l' => (c =? x) || mem c l' end.

Fixpoint remove_first (c : Z) (l : list Z) : list Z :=
  match l with [] => [] | x :: l' => if c =? x then l' else x :: remove_first c l' end.

(* check_key_distribution over the commands received from the peer, in order *)
Inductive rx :=
| RxWaiting (rest : list Z)       (* still expecting commands: the session does not complete *)
| RxDone (late : bool)            (* completed; late: a further command arrived afterwards and was
                                     answered with Pairing Failed *)
| RxFailed.                       (* unexpected command before completion: Pairing Failed *)

Fixpoint consume_ne (exp : list Z) (cmds : list Z) : rx :=
  match cmds with
  | [] => RxWaiting exp
  | c :: cs =>
    if mem c exp
    then match remove_first c exp with
         | [] => RxDone (match cs with [] => false | _ => true end)
         | e' => consume_ne e' cs
         end
    else RxFailed
  end.

Definition consume (exp : list Z) (cmds : list Z) : rx :=
  match exp with
  | [] => RxDone (match cmds with [] => false | _ => true end)   (* nothing expected: done at encryption *)
  | _ => consume_ne exp cmds
  end.

Inductive outcome := Completed | Failed (reason : Z) | Hung.

Definition is_nil {A : Type} (l : list A) : bool := match l with [] => true | _ => false end.

(* After the link is encrypted: the responder distributes, the initiator consumes, then
   distributes, the responder consumes.  Returns (initiator outcome, responder outcome). *)
Definition phase3 (bredr : bool) (si sr : session) : outcome * outcome :=
  let from_r := distributed (s_sc sr) bredr (s_rkd sr) in
  let from_i := distributed (s_sc si) bredr (s_ikd si) in
  match consume (s_expected si) from_r with
  | RxDone late =>
    (Completed,
     match consume (s_expected sr) from_i with
     | RxDone _ => Completed
     | RxFailed => Failed ERR_UNSPECIFIED_REASON
     | RxWaiting _ => if late then Failed ERR_UNSPECIFIED_REASON else Hung
     end)
  | RxFailed =>
    (Failed ERR_UNSPECIFIED_REASON,
     if is_nil (s_expected sr) then Completed else Failed ERR_UNSPECIFIED_REASON)
  | RxWaiting _ =>
    (Hung, if is_nil (s_expected sr) then Completed else Hung)
  end.

(* ------------------------------------------------------------------ 4. phase 2, cryptography abstract *)
(* user answers and injected faults *)
Record env := mkEnv {
  e_accept : bool;                        (* delegate.accept() on the responder *)
  e_answer : option (Z * Z);              (* custom key_distribution_response; None: default *)
  e_confirm_i : bool; e_confirm_r : bool; (* delegate.confirm() *)
  e_compare_i : bool; e_compare_r : bool; (* delegate.compare_numbers() *)
  e_generated : Z;                        (* delegate.generate_passkey() on a displaying side *)
  e_typed_i : option Z; e_typed_r : option Z;   (* delegate.get_number(); None: entry refused *)
  e_bad_confirm_i : bool; e_bad_confirm_r : bool;  (* Pairing Confirm value altered in transit *)
  e_bad_dhkey_i : bool; e_bad_dhkey_r : bool;      (* DHKey Check value altered in transit *)
  e_lk_auth : bool                        (* CTKD: the stored BR/EDR link key is authenticated *)
}.

Record key (V : Type) := mkKey { k_value : V; k_auth : bool; k_has_ediv : bool }.
Arguments mkKey {V}. Arguments k_value {V}. Arguments k_auth {V}. Arguments k_has_ediv {V}.

(* PairingKeys as written by Session.on_pairing *)
Record keys (V : Type) := mkKeys {
  ks_ltk : option (key V); ks_ltk_central : option (key V); ks_ltk_peripheral : option (key V);
  ks_irk : option bool; ks_csrk : option bool;       (* authenticated flag of the entry *)
  ks_link_key : option (key V)
}.
Arguments mkKeys {V}. Arguments ks_ltk {V}. Arguments ks_ltk_central {V}. Arguments ks_ltk_peripheral {V}.
Arguments ks_irk {V}. Arguments ks_csrk {V}. Arguments ks_link_key {V}.

Inductive p2 (V : Type) :=
| P2Fail (reason : Z)
| P2Ok (link_i link_r ltk_i ltk_r : V)   (* key each side uses for the link; each side's self.ltk *)
| P2Unmodelled.                          (* OOB *)
Arguments P2Fail {V}. Arguments P2Ok {V}. Arguments P2Unmodelled {V}.

(* what one side reports, stores, and asked its user *)
Inductive call := CAccept | CConfirm | CCompare | CInput | CDisplay.
Record side_result (V : Type) := mkSide {
  r_outcome : outcome;
  r_store : option (keys V);      (* the 'pairing' event's keys = what is written to the key store *)
  r_calls : list call             (* delegate prompts of a run that completes *)
}.
Arguments mkSide {V}. Arguments r_outcome {V}. Arguments r_store {V}. Arguments r_calls {V}.

Inductive result (V : Type) :=
| Res (i r : side_result V) (si sr : option session) (link : option (V * V))
| ResError.                       (* capability outside the table, or OOB: not modelled *)
Arguments Res {V}. Arguments ResError {V}.

Section Protocol.
  Variable V : Type.
  Variable veqb : V -> V -> bool.
  (* toolbox, Vol 3 Part H 2.2, with the pairing context (preq, pres, addresses, io
     capabilities) fixed for the run *)
  Variable zero : V.                        (* bytes(16) *)
  Variable tk_of_passkey : Z -> V.          (* passkey.to_bytes(16, 'little') *)
  Variable c1 : V -> V -> V.                (* c1(tk, rand, ...) *)
  Variable s1 : V -> V -> V -> V.           (* s1(tk, srand, mrand) *)
  Variable pub : V -> V.                    (* public key of a private key *)
  Variable dh : V -> V -> V.                (* ECDH(own private key, peer public key) *)
  Variable f4 : V -> V -> V -> Z -> V.
  Variable f5_mac : V -> V -> V -> V.       (* f5(dhkey, na, nb, a, b) = (mackey, ltk) *)
  Variable f5_ltk : V -> V -> V -> V.
  Variable f6 : V -> V -> V -> V -> bool -> V.   (* f6(mackey, n1, n2, r, iocap, a1, a2); the flag
                                                    says which of Ea / Eb (argument order of a, b, iocap) *)
  Variable derive_lk : V -> V.              (* Session.derive_link_key *)
  Variable tamper : V -> V.                 (* a value altered in transit *)

  (* random values of one side: private key, the nonce of each round, the legacy LTK *)
  Record nonces := mkNonces { n_sk : V; n_rand : nat -> V; n_ltk : V }.
  Variable ni nr : nonces.
  Variable e : env.

  Definition xmit (bad : bool) (v : V) : V := if bad then tamper v else v.

  Definition is_method (s : session) (m : Z) : bool := s_method s =? m.

  (* the passkey a side works with in PASSKEY: generated when it displays, typed otherwise *)
  Definition own_passkey (s : session) (typed : option Z) : option Z :=
    if s_display s then Some (e_generated e) else typed.

  Definition legacy_tk (s : session) (typed : option Z) : option V :=
    if is_method s PM_PASSKEY then option_map tk_of_passkey (own_passkey s typed) else Some zero.

  (* on_smp_pairing_confirm_command_legacy / on_smp_pairing_random_command_legacy *)
  Definition phase2_legacy (si sr : session) : p2 V :=
    match legacy_tk si (e_typed_i e) with
    | None => P2Fail ERR_PASSKEY_ENTRY_FAILED
    | Some tki =>
      match legacy_tk sr (e_typed_r e) with
      | None => P2Fail ERR_PASSKEY_ENTRY_FAILED
      | Some tkr =>
        let ri := n_rand ni 0 in
        let rr := n_rand nr 0 in
        let mconfirm := xmit (e_bad_confirm_i e) (c1 tki ri) in
        let sconfirm := xmit (e_bad_confirm_r e) (c1 tkr rr) in
        (* responder, on the initiator's random *)
        if negb (veqb mconfirm (c1 tkr ri)) then P2Fail ERR_CONFIRM_VALUE_FAILED
        (* initiator, on the responder's random *)
        else if negb (veqb sconfirm (c1 tki rr)) then P2Fail ERR_CONFIRM_VALUE_FAILED
        else P2Ok (s1 tki rr ri) (s1 tkr rr ri) (n_ltk ni) (n_ltk nr)
      end
    end.

  (* 0x80 + ((passkey >> step) & 1) *)
  Definition bit_z (p : Z) (k : nat) : Z := 128 + Z.land (Z.shiftr p (Z.of_nat k)) 1.

  (* rounds k .. k+n-1 of the SC passkey protocol all pass their confirm checks *)
  Fixpoint passkey_rounds (pi pr : Z) (pka pkb : V) (k n : nat) : bool :=
    match n with
    | O => true
    | S n' =>
      let ra := n_rand ni k in
      let rb := n_rand nr k in
      let ca := xmit (e_bad_confirm_i e) (f4 pka pkb ra (bit_z pi k)) in
      let cb := xmit (e_bad_confirm_r e) (f4 pkb pka rb (bit_z pr k)) in
      veqb ca (f4 pka pkb ra (bit_z pr k))          (* responder's check *)
      && veqb cb (f4 pkb pka rb (bit_z pi k))       (* initiator's check *)
      && passkey_rounds pi pr pka pkb (S k) n'
    end.

  (* f5, f6, DHKey checks, on_smp_pairing_dhkey_check_command *)
  Definition dhkey_phase (dhi dhr na nb rpi rpr : V) : p2 V :=
    let maci := f5_mac dhi na nb in
    let macr := f5_mac dhr na nb in
    let ltki := f5_ltk dhi na nb in
    let ltkr := f5_ltk dhr na nb in
    let ea_i := f6 maci na nb rpi true in
    let eb_i := f6 maci nb na rpi false in
    let ea_r := f6 macr na nb rpr true in
    let eb_r := f6 macr nb na rpr false in
    if negb (veqb ea_r (xmit (e_bad_dhkey_i e) ea_i)) then P2Fail ERR_DHKEY_CHECK_FAILED
    else if negb (veqb eb_i (xmit (e_bad_dhkey_r e) eb_r)) then P2Fail ERR_DHKEY_CHECK_FAILED
    else P2Ok ltki ltkr ltki ltkr.

  Definition user_ok (s : session) (confirm compare : bool) : bool :=
    if is_method s PM_JUST_WORKS then confirm else compare.

  Definition phase2_sc (si sr : session) : p2 V :=
    let pka := pub (n_sk ni) in
    let pkb := pub (n_sk nr) in
    let dhi := dh (n_sk ni) pkb in
    let dhr := dh (n_sk nr) pka in
    if is_method si PM_PASSKEY then
      match own_passkey si (e_typed_i e), own_passkey sr (e_typed_r e) with
      | Some pi, Some pr =>
        if negb (passkey_rounds pi pr pka pkb 0 20) then P2Fail ERR_CONFIRM_VALUE_FAILED
        else dhkey_phase dhi dhr (n_rand ni 19) (n_rand nr 19) (tk_of_passkey pi) (tk_of_passkey pr)
      | _, _ => P2Fail ERR_PASSKEY_ENTRY_FAILED
      end
    else if is_method si PM_JUST_WORKS || is_method si PM_NUMERIC_COMPARISON then
      let na := n_rand ni 0 in
      let nb := n_rand nr 0 in
      let cb := xmit (e_bad_confirm_r e) (f4 pkb pka nb 0) in
      if negb (veqb cb (f4 pkb pka nb 0)) then P2Fail ERR_CONFIRM_VALUE_FAILED
      else if negb (user_ok si (e_confirm_i e) (e_compare_i e) && user_ok sr (e_confirm_r e) (e_compare_r e))
           then P2Fail ERR_CONFIRM_VALUE_FAILED
      else dhkey_phase dhi dhr na nb zero zero
    else P2Unmodelled.

  Definition phase2 (si sr : session) : p2 V :=
    if is_method si PM_OOB || is_method sr PM_OOB then P2Unmodelled
    else if negb (s_method si =? s_method sr) || negb (Bool.eqb (s_sc si) (s_sc sr)) then P2Unmodelled
    else if s_sc si then phase2_sc si sr else phase2_legacy si sr.

  (* ---------------------------------------------------------------- 5b. on_pairing *)
  Definition authenticated_flag (s : session) : bool :=
    if is_method s PM_CTKD_OVER_CLASSIC then e_lk_auth e else negb (is_method s PM_JUST_WORKS).

  Definition own_kd (s : session) : Z := if s_initiator s then s_ikd s else s_rkd s.

  (* Session.on_pairing (with fixes D13a, D13b): [own_ltk] is self.ltk, [peer_cmds] the key
     distribution commands received, [peer_ltk] the value of the peer's Encryption Information *)
  Definition stored (bredr : bool) (s : session) (own_ltk : V) (peer_cmds : list Z) (peer_ltk : V) : keys V :=
    let a := authenticated_flag s in
    let one := s_sc s || bredr in
    mkKeys
      (if one then Some (mkKey own_ltk a false) else None)
      (if one then None
       else if mem CMD_ENCRYPTION_INFORMATION peer_cmds then Some (mkKey peer_ltk a true) else None)
      (if one then None
       else if has_flag (own_kd s) KD_ENC_KEY then Some (mkKey own_ltk a true) else None)
      (if mem CMD_IDENTITY_INFORMATION peer_cmds then Some a else None)
      (if mem CMD_SIGNING_INFORMATION peer_cmds then Some a else None)
      (* distribute_keys: the BR/EDR link key is derived only from an LE secure connections LTK
         (fixes/D13d.patch) *)
      (if has_flag (own_kd s) KD_LINK_KEY && s_sc s && negb bredr
       then Some (mkKey (derive_lk own_ltk) a false) else None).

  (* CTKD over an encrypted BR/EDR link (after fixes/D13d, D13e): what a side ends with.
     Session.on_pairing needs self.ltk, which exists only when the side's own mask has ENC_KEY
     (get_link_key_and_derive_ltk): without it on_pairing raises and nothing is reported or
     stored (known finding D13f). *)
  Definition ctkd_store (s : session) (link_key derived_ltk : V) (peer_cmds : list Z) : option (keys V) :=
    let a := authenticated_flag s in
    if has_flag (own_kd s) KD_ENC_KEY
    then Some (mkKeys (Some (mkKey derived_ltk a false)) None None
                      (if mem CMD_IDENTITY_INFORMATION peer_cmds then Some a else None)
                      (if mem CMD_SIGNING_INFORMATION peer_cmds then Some a else None)
                      (Some (mkKey link_key a false)))      (* the fetched link key is stored again *)
    else None.

  (* the bookkeeping before fixes/D13a.patch: both LTKs always written, slots by pairing role *)
  Definition stored_orig (bredr : bool) (s : session) (own_ltk : V) (peer_cmds : list Z)
                         (peer_ltk empty : V) : keys V :=
    let a := negb (is_method s PM_JUST_WORKS) in
    let one := s_sc s || bredr in
    let ours := mkKey own_ltk a true in
    let theirs := mkKey (if mem CMD_ENCRYPTION_INFORMATION peer_cmds then peer_ltk else empty) a true in
    mkKeys
      (if one then Some (mkKey own_ltk a false) else None)
      (if one then None else Some (if s_initiator s then theirs else ours))
      (if one then None else Some (if s_initiator s then ours else theirs))
      (if mem CMD_IDENTITY_INFORMATION peer_cmds then Some a else None)
      (if mem CMD_SIGNING_INFORMATION peer_cmds then Some a else None)
      (if has_flag (own_kd s) KD_LINK_KEY then Some (mkKey (derive_lk own_ltk) a false) else None).

  (* ---------------------------------------------------------------- the whole pairing, LE *)
  Definition calls_of (s : session) : list call :=
    (if s_initiator s then [] else [CAccept])
    ++ (if is_method s PM_PASSKEY then (if s_display s then [CDisplay] else [CInput])
        else if is_method s PM_NUMERIC_COMPARISON then [CCompare]
        else if is_method s PM_JUST_WORKS && s_sc s then [CConfirm]
        else []).

  Definition failed_both (reason : Z) (si sr : option session) : result V :=
    Res (mkSide (Failed reason) None []) (mkSide (Failed reason) None []) si sr None.

  Definition pair (ci cr : config) : result V :=
    let req := request_of ci in
    if negb (e_accept e) then failed_both ERR_PAIRING_NOT_SUPPORTED None None
    else
      let answer := match e_answer e with Some a => a | None => default_answer cr req end in
      match responder_session false cr answer req with
      | None => ResError
      | Some sr =>
        match initiator_session false ci (response_of cr sr) with
        | NegError => ResError
        | NegFail reason => failed_both reason None (Some sr)
        | NegOk si =>
          match phase2 si sr with
          | P2Unmodelled => ResError
          | P2Fail reason => failed_both reason (Some si) (Some sr)
          | P2Ok link_i link_r ltk_i ltk_r =>
            let from_r := distributed (s_sc sr) false (s_rkd sr) in
            let from_i := distributed (s_sc si) false (s_ikd si) in
            let '(oi, orr) := phase3 false si sr in
            let side (o : outcome) (s : session) (own peer : V) (cmds : list Z) :=
              mkSide o (match o with Completed => Some (stored false s own cmds peer) | _ => None end)
                     (calls_of s) in
            Res (side oi si ltk_i ltk_r from_r) (side orr sr ltk_r ltk_i from_i)
                (Some si) (Some sr) (Some (link_i, link_r))
          end
        end
      end.

  (* ---------------------------------------------------------------- 6. a later connection *)
  (* Device.encrypt on the central: the long_term_key handed to the controller *)
  Definition central_request (ks : keys V) : option V :=
    match ks_ltk ks with
    | Some k => Some (k_value k)
    | None => match ks_ltk_central ks with Some k => Some (k_value k) | None => None end
    end.

  (* Device.get_long_term_key on the peripheral (no SMP session on the new connection) *)
  Definition peripheral_reply (ks : keys V) : option V :=
    match ks_ltk ks with
    | Some k => Some (k_value k)
    | None => match ks_ltk_peripheral ks with Some k => Some (k_value k) | None => None end
    end.
End Protocol.

Arguments mkNonces {V}. Arguments n_sk {V}. Arguments n_rand {V}. Arguments n_ltk {V}.

(* ------------------------------------------------------------------ 7. executable instance *)
(* Values as terms of a free algebra: every function is a constructor, so distinct
   computations give distinct values; ECDH of the two sides' keys is the one shared value. *)
Inductive term :=
| TZero
| TTk (p : Z)
| TRand (side : bool) (n : nat)
| TSk (side : bool)
| TLtk (side : bool)
| TC1 (k r : term)
| TS1 (k a b : term)
| TPub (s : term)
| TDhShared
| TDh (a b : term)
| TF4 (u v x : term) (z : Z)
| TMac (d a b : term)
| TF5Ltk (d a b : term)
| TF6 (m a b r : term) (dir : bool)
| TLk (k : term)
| TTamper (v : term).

Fixpoint term_eqb (a b : term) : bool :=
  match a, b with
  | TZero, TZero => true
  | TTk p, TTk q => p =? q
  | TRand s n, TRand s' n' => Bool.eqb s s' && Nat.eqb n n'
  | TSk s, TSk s' => Bool.eqb s s'
  | TLtk s, TLtk s' => Bool.eqb s s'
  | TC1 k r, TC1 k' r' => term_eqb k k' && term_eqb r r'
  | TS1 k x y, TS1 k' x' y' => term_eqb k k' && term_eqb x x' && term_eqb y y'
  | TPub s, TPub s' => term_eqb s s'
  | TDhShared, TDhShared => true
  | TDh x y, TDh x' y' => term_eqb x x' && term_eqb y y'
  | TF4 u v x z, TF4 u' v' x' z' => term_eqb u u' && term_eqb v v' && term_eqb x x' && (z =? z')
  | TMac d x y, TMac d' x' y' => term_eqb d d' && term_eqb x x' && term_eqb y y'
  | TF5Ltk d x y, TF5Ltk d' x' y' => term_eqb d d' && term_eqb x x' && term_eqb y y'
  | TF6 m x y r d, TF6 m' x' y' r' d' =>
    term_eqb m m' && term_eqb x x' && term_eqb y y' && term_eqb r r' && Bool.eqb d d'
  | TLk k, TLk k' => term_eqb k k'
  | TTamper v, TTamper v' => term_eqb v v'
  | _, _ => false
  end.

Definition t_tk (p : Z) : term := if p =? 0 then TZero else TTk p.
Definition t_dh (a b : term) : term :=
  match a, b with
  | TSk s, TPub (TSk s') => if xorb s s' then TDhShared else TDh a b
  | _, _ => TDh a b
  end.
Definition t_nonces (side : bool) : nonces term := mkNonces (TSk side) (TRand side) (TLtk side).

(* the cryptographic toolbox and the random values of a run, bundled *)
Record toolbox := mkToolbox {
  tb_V : Type;
  tb_veqb : tb_V -> tb_V -> bool;
  tb_zero : tb_V;
  tb_tk : Z -> tb_V;
  tb_c1 : tb_V -> tb_V -> tb_V;
  tb_s1 : tb_V -> tb_V -> tb_V -> tb_V;
  tb_pub : tb_V -> tb_V;
  tb_dh : tb_V -> tb_V -> tb_V;
  tb_f4 : tb_V -> tb_V -> tb_V -> Z -> tb_V;
  tb_f5_mac : tb_V -> tb_V -> tb_V -> tb_V;
  tb_f5_ltk : tb_V -> tb_V -> tb_V -> tb_V;
  tb_f6 : tb_V -> tb_V -> tb_V -> tb_V -> bool -> tb_V;
  tb_derive_lk : tb_V -> tb_V;
  tb_tamper : tb_V -> tb_V;
  tb_ni : nonces tb_V;
  tb_nr : nonces tb_V
}.

(* the algebraic facts about the toolbox the theorems rely on (and nothing else):
   decidable equality; an altered value differs from the original; c1 is collision-free in the
   TK; distinct 6-digit passkeys give distinct TKs; f4 is collision-free in its last argument;
   the two ECDH computations of a run agree *)
Definition toolbox_ok (T : toolbox) : Prop :=
  (forall a b, tb_veqb T a b = true <-> a = b) /\
  (forall v, tb_tamper T v <> v) /\
  (forall k k' r, tb_c1 T k r = tb_c1 T k' r -> k = k') /\
  (forall p q, 0 <= p < 1000000 -> 0 <= q < 1000000 -> tb_tk T p = tb_tk T q -> p = q) /\
  (forall u v x z z', tb_f4 T u v x z = tb_f4 T u v x z' -> z = z') /\
  tb_dh T (n_sk (tb_ni T)) (tb_pub T (n_sk (tb_nr T))) = tb_dh T (n_sk (tb_nr T)) (tb_pub T (n_sk (tb_ni T))).

Definition pair_with (T : toolbox) (e : env) (ci cr : config) : result (tb_V T) :=
  pair (tb_V T) (tb_veqb T) (tb_zero T) (tb_tk T) (tb_c1 T) (tb_s1 T) (tb_pub T) (tb_dh T) (tb_f4 T)
       (tb_f5_mac T) (tb_f5_ltk T) (tb_f6 T) (tb_derive_lk T) (tb_tamper T) (tb_ni T) (tb_nr T) e ci cr.

Definition term_toolbox : toolbox :=
  mkToolbox term term_eqb TZero t_tk TC1 TS1 TPub t_dh TF4 TMac TF5Ltk TF6 TLk TTamper
            (t_nonces true) (t_nonces false).

Definition run (ci cr : config) (e : env) : result term := pair_with term_toolbox e ci cr.

(* a user who accepts everything and types the displayed passkey; nothing altered in transit *)
Definition honest_env : env :=
  mkEnv true None true true true true 123456 (Some 123456) (Some 123456) false false false false false.

(* ---- observation of a result as numbers, for the harness *)
(* names of the keys the harness can recognise on the implementation side *)
Definition key_name (t : term) : Z :=
  match t with
  | TLtk true => 1          (* the initiator's generated legacy LTK *)
  | TLtk false => 2         (* the responder's generated legacy LTK *)
  | TF5Ltk TDhShared _ _ => 3   (* the LE secure connections LTK *)
  | TS1 _ _ _ => 4          (* the STK *)
  | _ => 0
  end.

Definition call_code (c : call) : Z :=
  match c with CAccept => 0 | CConfirm => 1 | CCompare => 2 | CInput => 3 | CDisplay => 4 end.

Definition outcome_obs (o : outcome) : Z * Z :=
  match o with Completed => (0, 0) | Failed r => (1, r) | Hung => (2, 0) end.

Definition key_obs (k : option (key term)) : list Z :=
  match k with None => [] | Some k => [key_name (k_value k); Z.b2z (k_auth k)] end.
Definition flag_obs (k : option bool) : list Z := match k with None => [] | Some a => [Z.b2z a] end.

Definition keys_obs (ks : option (keys term)) : list (list Z) :=
  match ks with
  | None => []
  | Some ks => [key_obs (ks_ltk ks); key_obs (ks_ltk_central ks); key_obs (ks_ltk_peripheral ks);
                flag_obs (ks_irk ks); flag_obs (ks_csrk ks);
                match ks_link_key ks with None => [] | Some k => [Z.b2z (k_auth k)] end]
  end.

Definition session_obs (s : option session) : list Z :=
  match s with
  | None => []
  | Some s => [s_method s; Z.b2z (s_sc s); Z.b2z (s_bonding s); Z.b2z (s_ct2 s); s_ikd s; s_rkd s;
               Z.b2z (s_display s)]
  end.

Definition opt_name (o : option term) : Z := match o with None => -1 | Some t => key_name t end.

Definition reconnect_obs (central peripheral : option (keys term)) : list Z :=
  match central, peripheral with
  | Some c, Some p => [opt_name (central_request term c); opt_name (peripheral_reply term p)]
  | _, _ => []
  end.

Definition side_obs (r : side_result term) :=
  (outcome_obs (r_outcome r), keys_obs (r_store r), map call_code (r_calls r)).

(* (modelled?, initiator, responder, sessions, link keys, reconnect same roles, swapped roles) *)
Definition run_obs (ci cr : config) (e : env) :=
  match run ci cr e with
  | ResError => (false, (((0, 0), [], []), ((0, 0), [], [])), ([], []), [], ([], []))
  | Res i r si sr link =>
    (true, (side_obs i, side_obs r), (session_obs si, session_obs sr),
     match link with None => [] | Some (a, b) => [key_name a; key_name b; Z.b2z (term_eqb a b)] end,
     (reconnect_obs (r_store i) (r_store r), reconnect_obs (r_store r) (r_store i)))
  end.

(* negotiation only (request -> responder handler -> response -> initiator handler), packed for the
   exhaustive correspondence through the real handlers: per session one number
   method + 8 * (display + 2 * (sc + 2 * (bonding + 2 * (ct2 + 2 * (ikd + 256 * rkd)))))
   and the expected commands as a bit set; -1: KeyError; -2 - reason: Pairing Failed sent *)
Definition pack_session (s : session) : Z :=
  s_method s + 8 * (Z.b2z (s_display s) + 2 * (Z.b2z (s_sc s) + 2 * (Z.b2z (s_bonding s) + 2 *
    (Z.b2z (s_ct2 s) + 2 * (s_ikd s + 256 * s_rkd s))))).
Definition pack_cmds (l : list Z) : Z := fold_right (fun c acc => Z.lor (Z.shiftl 1 c) acc) 0 l.

Definition negotiate_obs (ci cr : config) : list Z :=
  let req := request_of ci in
  match responder_session false cr (default_answer cr req) req with
  | None => [-1]
  | Some sr =>
    [pack_session sr; pack_cmds (s_expected sr)] ++
    match initiator_session false ci (response_of cr sr) with
    | NegOk si => [pack_session si; pack_cmds (s_expected si)]
    | NegFail reason => [-2 - reason]
    | NegError => [-1]
    end
  end.

(* CTKD over BR/EDR between [ci] and [cr] (link key authenticated or not): per side whether it
   reports completion and the authenticated flags of the slots it stores *)
Definition ctkd_obs (ci cr : config) (lk_auth : bool) : list (list (list Z)) :=
  let e := mkEnv true None true true true true 0 None None false false false false lk_auth in
  let req := request_of ci in
  match responder_session true cr (default_answer cr req) req with
  | None => []
  | Some sr =>
    match initiator_session true ci (response_of cr sr) with
    | NegOk si =>
      let side (s : session) (cmds : list Z) :=
        keys_obs (ctkd_store term e s (TLk TZero) (TLtk true) cmds) in
      [side si (distributed (s_sc sr) true (s_rkd sr)); side sr (distributed (s_sc si) true (s_ikd si))]
    | _ => []
    end
  end.

(* the exhaustive decide table for the correspondence: one list per (bredr, mitm, sc, initiator) *)
Definition decide_obs (x : option (Z * bool)) : Z :=
  match x with None => -1 | Some (m, d) => 2 * m + Z.b2z d end.

(* results for one auth_req value: io x io over 0..5 (5 is outside the table) *)
Definition decide_row (bredr mitm sc initiator prev : bool) (auth : Z) : list Z :=
  flat_map (fun i =>
    map (fun r => decide_obs (decide bredr mitm sc initiator prev auth i r)) [0; 1; 2; 3; 4; 5])
    [0; 1; 2; 3; 4; 5].

Fixpoint first_diff (a b : list Z) (k : nat) : option nat :=
  match a, b with
  | [], [] => None
  | x :: a', y :: b' => if x =? y then first_diff a' b' (S k) else Some k
  | _, _ => Some k
  end.

(* The harness passes the implementation's results grouped by identical rows:
   [(row, auth_req values that produced it)]; every entry is compared here.  Returns the
   (auth_req, position) of every row that differs. *)
Definition decide_check (bredr mitm sc initiator prev : bool) (groups : list (list Z * list Z))
  : list (Z * nat) :=
  flat_map (fun g =>
    flat_map (fun auth =>
      match first_diff (decide_row bredr mitm sc initiator prev auth) (fst g) 0 with
      | None => []
      | Some k => [(auth, k)]
      end) (snd g)) groups.
