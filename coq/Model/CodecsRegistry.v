(* Model/CodecsRegistry.v — the field-driven PDU classes above HCI (property C18):
   L2CAP_Control_Frame.classes, ATT_PDU.pdu_classes, SMP_Command.smp_classes,
   SDP_PDU.subclasses.  Their parameters are parsed and serialised by the same
   HCI_Object.dict_from_bytes / dict_to_bytes as the HCI packets, modelled once in
   Model/SpecCodec.v (written for property C01 and reused here read-only).  This file adds
   the class record the translator (tools/translate/c18_registries.py -> Gen/C18Registry.v)
   fills, and the PDU framing around the fields:
     protocol 0  L2CAP signalling: struct '<BBH' code, identifier, length, then the fields
     protocol 1  ATT:  op_code octet, then the fields
     protocol 2  SMP:  code octet, then the fields
     protocol 3  SDP:  struct '>BHH' pdu_id, transaction_id, parameters_length, then the fields
   Classes with a field whose parser is not in SpecCodec's vocabulary (PSM, CID lists,
   handle lists, UUIDs, SDP data elements ...) are not in [classes]; the translator lists
   them in [untranslated]; those fields have their own models (Model/Codecs*.v). *)
From Coq Require Import ZArith List Bool String.
From BV Require Import Base.Bytes Model.SpecCodec Model.CodecsBase.
Import ListNotations.
Open Scope Z_scope.

Record pcls := mkp { p_proto : Z; p_code : Z; p_name : string; p_fields : list field }.

Definition wf_pcls (c : pcls) : bool := wf_fields (p_fields c) && zlt 4 (p_proto c) && byte_ok (p_code c).
Definition wf_pregistry (cs : list pcls) : bool := forallb wf_pcls cs.

Definition same_key (proto code : Z) (c : pcls) : bool := (p_proto c =? proto) && (p_code c =? code).
Fixpoint pkeys_unique (cs : list pcls) : bool :=
  match cs with
  | [] => true
  | c :: r => negb (existsb (same_key (p_proto c) (p_code c)) r) && pkeys_unique r
  end.
Definition find_pcls (cs : list pcls) (proto code : Z) : option pcls := find (same_key proto code) cs.

Definition header_len (proto : Z) : nat := if proto =? 0 then 4%nat else if proto =? 3 then 5%nat else 1%nat.

(* the octets in front of the fields; struct.error / ValueError = None *)
Definition pdu_header (proto code ident plen : Z) : option (list Z) :=
  if proto =? 0 then
    if u_range 1 code && u_range 1 ident && u_range 2 plen then Some (code :: ident :: le_encode 2 plen) else None
  else if proto =? 3 then
    if u_range 1 code && u_range 2 ident && u_range 2 plen then Some (code :: be_encode 2 ident ++ be_encode 2 plen) else None
  else if u_range 1 code then Some [code] else None.

(* bytes(cls(identifier / transaction_id = ident, **fields)) *)
Definition pdu_encode (c : pcls) (ident : Z) (vs : list value) : option (list Z) :=
  match serialize_fields (p_fields c) vs with
  | Some payload =>
      match pdu_header (p_proto c) (p_code c) ident (lenZ payload) with
      | Some h => Some (h ++ payload)
      | None => None
      end
  | None => None
  end.

(* identifier / transaction id read back from the header (0 for ATT and SMP) *)
Definition pdu_ident (proto : Z) (d : list Z) : Z :=
  if proto =? 0 then nth 1 d 0 else if proto =? 3 then be_decode (firstn 2 (skipn 1 d)) else 0.

(* <Protocol>.from_bytes for a registered code: the class, the identifier, the field values.
   None = raises, or the code is not registered (the generic fallback object is not modelled
   here; the harness checks it byte for byte on the implementation). *)
Definition pdu_decode (cs : list pcls) (proto : Z) (d : list Z) : option (pcls * Z * list value) :=
  match d with
  | [] => None
  | code :: _ =>
      if (Datatypes.length d <? header_len proto)%nat then None
      else match find_pcls cs proto code with
           | None => None
           | Some c =>
               match parse_fields (p_fields c) (last (firstn (header_len proto) d) 0)
                                  (skipn (header_len proto) d) with
               | Some (vs, _) => Some (c, pdu_ident proto d, vs)
               | None => None
               end
           end
  end.
