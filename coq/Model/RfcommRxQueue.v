(* The pre-sink receive queue of an RFCOMM DLC (bumble/rfcomm.py DLC._enqueued_rx_packets =
   collections.deque(maxlen=DEFAULT_RX_QUEUE_SIZE), on_uih_frame's "no sink" branch, the
   sink setter).  Executable Gallina only.

   Data that arrives while no sink is set is appended to a bounded deque; a full deque
   silently discards its OLDEST entry; setting a sink hands the queued packets over in
   order and clears the queue.  Credits keep being granted while no sink is set, so the
   peer is not held back: the stream is exact only if at most DEFAULT_RX_QUEUE_SIZE data
   frames arrive before the sink is set (known finding D20h). *)
From Coq Require Import ZArith List Bool.
Import ListNotations.
Open Scope Z_scope.

(* deque(maxlen).append *)
Definition dq_append (maxlen : Z) (q : list (list Z)) (x : list Z) : list (list Z) :=
  let q' := q ++ [x] in
  if Z.of_nat (length q') >? maxlen then tl q' else q'.

Record rxq := mkRxq {
  q_sink : bool;
  q_queue : list (list Z);
  q_out : list Z                 (* everything handed to the sink so far *)
}.

Definition rxq_init : rxq := mkRxq false [] [].

(* on_uih_frame's delivery of non-empty data *)
Definition rxq_data (maxlen : Z) (s : rxq) (data : list Z) : rxq :=
  if q_sink s then mkRxq true (q_queue s) (q_out s ++ data)
  else mkRxq false (dq_append maxlen (q_queue s) data) (q_out s).

(* dlc.sink = <callable> *)
Definition rxq_set_sink (s : rxq) : rxq := mkRxq true [] (q_out s ++ concat (q_queue s)).

Definition rxq_recv (maxlen : Z) (s : rxq) (frames : list (list Z)) : rxq :=
  fold_left (rxq_data maxlen) frames s.
