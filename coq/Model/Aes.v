(* C14 - bumble/crypto/builtin.py  _AES (encryption direction), _ECB.encrypt and e,
   as written: signed 32-bit key words (struct.unpack '>i'), the T-table round, the
   S-box last round, the key expansion loop for 16/24/32-byte keys.
   Tables come from Gen/C14Tables.v (regenerated from the source on every run).
   Executable Gallina only.  Not modelled: _AES.decrypt, _ECB.decrypt, _CBC.decrypt and the
   decryption round keys (_kd) - none of them is reachable from e / aes_cmac. *)
From Coq Require Import ZArith List Bool.
From BV Require Import Gen.C14Tables Model.CryptoBytes.
Import ListNotations.
Open Scope Z_scope.

Definition tbl (t : list Z) (i : Z) : Z := nth (Z.to_nat i) t 0.
Definition byte_of (w : Z) (sh : Z) : Z := Z.land (Z.shiftr w sh) 255.   (* (w >> sh) & 0xFF *)

(* struct.unpack('>i', b)[0] : big-endian signed 32-bit *)
Definition unpack_be_i32 (b : list Z) : Z :=
  let u := be_int b in if u <? 2147483648 then u else u - 4294967296.

Fixpoint words_of (n : nat) (key : list Z) : list Z :=
  match n with
  | O => []
  | S n' => unpack_be_i32 (firstn 4 key) :: words_of n' (skipn 4 key)
  end.

(* for i in range(lo, hi): tk[i] ^= tk[i-1]   on the tail that starts at index lo *)
Fixpoint scan_xor (prev : Z) (l : list Z) : list Z :=
  match l with
  | [] => []
  | x :: r => let x' := Z.lxor x prev in x' :: scan_xor x' r
  end.

Definition sub_rot (tt rcon : Z) : Z :=
  Z.lxor (Z.lxor (Z.lxor (Z.lxor
    (Z.shiftl (tbl aes_S (byte_of tt 16)) 24)
    (Z.shiftl (tbl aes_S (byte_of tt 8)) 16))
    (Z.shiftl (tbl aes_S (byte_of tt 0)) 8))
    (tbl aes_S (byte_of tt 24)))
    (Z.shiftl rcon 24).

Definition sub_word (tt : Z) : Z :=
  Z.lxor (Z.lxor (Z.lxor
    (tbl aes_S (byte_of tt 0))
    (Z.shiftl (tbl aes_S (byte_of tt 8)) 8))
    (Z.shiftl (tbl aes_S (byte_of tt 16)) 16))
    (Z.shiftl (tbl aes_S (byte_of tt 24)) 24).

(* one pass of the body of "while t < round_key_count" on tk *)
Definition expand_step (kc : nat) (tk : list Z) (rc : nat) : list Z :=
  let tt := nth (kc - 1) tk 0 in
  let t0 := Z.lxor (hd 0 tk) (sub_rot tt (nth rc aes_RCON 0)) in
  if Nat.eqb kc 8 then
    let first := t0 :: scan_xor t0 (firstn 3 (tl tk)) in        (* tk[0..3] *)
    let tt2 := nth 3 first 0 in                                  (* tk[kc//2 - 1] *)
    let t4 := Z.lxor (nth 4 tk 0) (sub_word tt2) in
    first ++ t4 :: scan_xor t4 (skipn 5 tk)
  else
    t0 :: scan_xor t0 (tl tk).

(* the while loop; [w] is the flat list of round-key words _ke[t // 4][t % 4] written so far.
   None = out of fuel (excluded: the callers give round_key_count fuel and every pass
   writes at least one word). *)
Fixpoint expand_loop (fuel : nat) (kc : nat) (rkc : nat) (tk : list Z) (rc : nat) (w : list Z)
  : option (list Z) :=
  if Nat.leb rkc (length w) then Some w else
  match fuel with
  | O => None
  | S f =>
      let tk' := expand_step kc tk rc in
      expand_loop f kc rkc tk' (S rc) (w ++ firstn (rkc - length w) (firstn kc tk'))
  end.

Fixpoint lookup_rounds (klen : Z) (t : list (Z * Z)) : option Z :=
  match t with
  | [] => None
  | (k, r) :: t' => if k =? klen then Some r else lookup_rounds klen t'
  end.

Fixpoint group4 (n : nat) (w : list Z) : list (Z * Z * Z * Z) :=
  match n with
  | O => []
  | S n' => (nth 0 w 0, nth 1 w 0, nth 2 w 0, nth 3 w 0) :: group4 n' (skipn 4 w)
  end.

(* _AES.__init__ : the encryption round keys _ke, or None = InvalidArgumentError *)
Definition aes_init (key : list Z) : option (list (Z * Z * Z * Z)) :=
  match lookup_rounds (len key) aes_ROUNDS with
  | None => None
  | Some rounds =>
      let rkc := Z.to_nat ((rounds + 1) * 4) in
      let kc := Nat.div (length key) 4 in
      let tk := words_of kc key in
      match expand_loop rkc kc rkc tk 0 tk with
      | None => None
      | Some w => Some (group4 (Z.to_nat (rounds + 1)) w)
      end
  end.

Definition xor5 (a b c d e : Z) : Z := Z.lxor (Z.lxor (Z.lxor (Z.lxor a b) c) d) e.

Definition aes_round (t k : Z * Z * Z * Z) : Z * Z * Z * Z :=
  let '(t0, t1, t2, t3) := t in
  let '(k0, k1, k2, k3) := k in
  let f a b c d k := xor5 (tbl aes_T1 (byte_of a 24)) (tbl aes_T2 (byte_of b 16))
                          (tbl aes_T3 (byte_of c 8)) (tbl aes_T4 (byte_of d 0)) k in
  (f t0 t1 t2 t3 k0, f t1 t2 t3 t0 k1, f t2 t3 t0 t1 k2, f t3 t0 t1 t2 k3).

Definition aes_last (t k : Z * Z * Z * Z) : list Z :=
  let '(t0, t1, t2, t3) := t in
  let '(k0, k1, k2, k3) := k in
  let f a b c d tt :=
    [ Z.land (Z.lxor (tbl aes_S (byte_of a 24)) (Z.shiftr tt 24)) 255;
      Z.land (Z.lxor (tbl aes_S (byte_of b 16)) (Z.shiftr tt 16)) 255;
      Z.land (Z.lxor (tbl aes_S (byte_of c 8)) (Z.shiftr tt 8)) 255;
      Z.land (Z.lxor (tbl aes_S (byte_of d 0)) tt) 255 ] in
  f t0 t1 t2 t3 k0 ++ f t1 t2 t3 t0 k1 ++ f t2 t3 t0 t1 k2 ++ f t3 t0 t1 t2 k3.

(* rounds 1 .. rounds-1, then the last round with the remaining key *)
Fixpoint aes_rounds (t : Z * Z * Z * Z) (ks : list (Z * Z * Z * Z)) : list Z :=
  match ks with
  | [] => []                       (* unreachable: _ke has rounds+1 >= 11 entries *)
  | [k] => aes_last t k
  | k :: ks' => aes_rounds (aes_round t k) ks'
  end.

(* _AES.encrypt : None = InvalidArgumentError (wrong block length) *)
Definition aes_encrypt (ke : list (Z * Z * Z * Z)) (pt : list Z) : option (list Z) :=
  if negb (len pt =? 16) then None else
  match ke with
  | [] => None
  | (k0, k1, k2, k3) :: ks =>
      let w i := be_int (firstn 4 (skipn (4 * i) pt)) in
      Some (aes_rounds (Z.lxor (w 0%nat) k0, Z.lxor (w 1%nat) k1, Z.lxor (w 2%nat) k2, Z.lxor (w 3%nat) k3) ks)
  end.

(* total block function used by the CMAC model for a fixed key schedule (blocks there are
   always 16 bytes; a wrong length maps to [] and is excluded by the CMAC theorems) *)
Definition aes_block (ke : list (Z * Z * Z * Z)) (pt : list Z) : list Z :=
  match aes_encrypt ke pt with Some c => c | None => [] end.

(* _ECB(key).encrypt(plaintext): every 16-byte slice, the last one zero-padded *)
Definition ecb_encrypt (ke : list (Z * Z * Z * Z)) (pt : list Z) : list Z :=
  concat (map (fun c => aes_block ke (ljust16 c)) (chunks16 pt)).

(* builtin.e(key, data) = _ECB(key[::-1]).encrypt(data[::-1])[::-1] *)
Definition e_builtin (key data : list Z) : option (list Z) :=
  match aes_init (rev key) with
  | None => None
  | Some ke => Some (rev (ecb_encrypt ke (rev data)))
  end.
