(* Which helper functions may raise synchronously inside an HCI command handler of
   bumble/controller.py.  tools/translate/c03_synccalls.py regenerates, for every handler, the
   helpers of controller.py / link.py it calls synchronously (transitively; what is handed to
   call_soon / call_later / create_task / add_done_callback and the bodies of nested functions run
   later and are not followed) together with a per-helper summary "its own body contains assert /
   raise / next() without default".  [reviewed] lists the (handler, helper) pairs that exist today
   and why they cannot fire; Props/C03.v proves on every run that the current source has no other
   pair: a deferred call turned synchronous, or an assert / raise added to a helper reachable from
   a handler, is a broken obligation. *)
From Coq Require Import List String Bool.
Import ListNotations.
Open Scope string_scope.

Definition pair_eqb (a b : string * string) : bool :=
  String.eqb (fst a) (fst b) && String.eqb (snd a) (snd b).

(* send_lmp_packet: `assert self.link` - every caller below returns early (with a Command Status,
   fix D03c) or branches on `self.link` before reaching it.
   allocate_connection_handle: next() over the free handles 0x0001..0x0EFF - raises only with 3838
   links allocated. *)
Definition reviewed : list (string * string) := [
  ("Controller.on_hci_accept_connection_request_command", "Controller.allocate_connection_handle");
  ("Controller.on_hci_accept_connection_request_command", "Controller.send_lmp_packet");
  ("Controller.on_hci_create_connection_command", "Controller.allocate_connection_handle");
  ("Controller.on_hci_create_connection_command", "Controller.send_lmp_packet");
  ("Controller.on_hci_disconnect_command", "Controller.send_lmp_packet");
  ("Controller.on_hci_enhanced_accept_synchronous_connection_request_command", "Controller.allocate_connection_handle");
  ("Controller.on_hci_enhanced_accept_synchronous_connection_request_command", "Controller.send_lmp_packet");
  ("Controller.on_hci_enhanced_setup_synchronous_connection_command", "Controller.send_lmp_packet");
  ("Controller.on_hci_le_set_cig_parameters_command", "Controller.allocate_connection_handle");
  ("Controller.on_hci_read_remote_extended_features_command", "Controller.send_lmp_packet");
  ("Controller.on_hci_read_remote_supported_features_command", "Controller.send_lmp_packet");
  ("Controller.on_hci_remote_name_request_command", "Controller.send_lmp_packet");
  ("Controller.on_hci_switch_role_command", "Controller.send_lmp_packet")
].

(* the (handler, helper) pairs of the generated table whose helper may raise and that were not reviewed *)
Definition unreviewed (t : list (string * list (string * bool))) : list (string * string) :=
  flat_map (fun row =>
              flat_map (fun hp => if snd hp && negb (existsb (pair_eqb (fst row, fst hp)) reviewed)
                                  then [(fst row, fst hp)] else [])
                       (snd row)) t.
