(* C17 - bumble/rfcomm.py DLC.process_tx: the loop that sends buffered data in frames of at
   most [mtu] bytes.  [mtu] = min(max_frame_size of the peer's Parameter Negotiation,
   L2CAP peer MTU - 5) is chosen by the peer and is stored unvalidated, so it can be 0 or
   negative.  Executable Gallina only; the buffer is abstracted to its length (Python
   slice semantics for a negative bound included).

   [spend_always = true] is the code as it is: a tx credit is spent whenever a data frame
   is attempted.  [spend_always = false] is the variant in which a credit is spent only
   when the frame carries payload (kept for the refutation lemma: with mtu <= 0 it never
   terminates). *)
From Coq Require Import ZArith List Bool.
Import ListNotations.
Open Scope Z_scope.

(* len(buffer[:n]) for a buffer of length len *)
Definition take (n len : Z) : Z := if 0 <=? n then Z.min n len else Z.max (len + n) 0.

(* one emitted UIH frame: (length of the information field, carries a credit byte) *)
Definition frame := (Z * bool)%type.

Record tx_state := mkTx { t_buf : Z; t_credits : Z }.

Fixpoint process_tx (spend_always : bool) (fuel : nat) (mtu : Z) (buf credits rxn : Z)
  : option (tx_state * list frame) :=
  match fuel with
  | O => None
  | S f =>
      if ((0 <? buf) && (0 <? credits)) || (0 <? rxn) then
        let '(chunk_len, payload, spent) :=
          if 0 <? rxn then
            if (0 <? buf) && (0 <? credits) then
              let p := take (mtu - 1) buf in (1 + p, p, true)
            else (1, 0, false)
          else
            let p := take mtu buf in (p, p, true) in
        let spent := if spend_always then spent else (0 <? payload) in
        let credits' := if spent then credits - 1 else credits in
        match process_tx spend_always f mtu (buf - payload) credits' 0 with
        | None => None
        | Some (st, frames) => Some (st, (chunk_len, 0 <? rxn) :: frames)
        end
      else Some (mkTx buf credits, [])
  end.

Definition process_tx_fuel (credits : Z) : nat := Z.to_nat (Z.max credits 0 + 2).

(* --- l2cap.py LeCreditBasedChannel.process_output, for one SDU being sent:
     while self.credits > 0: packet = out_sdu[:peer_mps]; send; credits -= 1;
                             if len(packet) == len(out_sdu): done else out_sdu = out_sdu[len(packet):]
   [sdu] is the number of bytes of the SDU (header included) still to send, > 0 while an SDU
   is in progress.  [credits_gt] = true is the code (loop while credits > 0); false is the
   boundary variant "credits >= 0" kept for the refutation lemma. *)
Fixpoint coc_output (credits_gt : bool) (fuel : nat) (mps sdu credits : Z) : option (Z * Z * Z) :=
  (* -> (bytes left, credits left, PDUs sent) *)
  match fuel with
  | O => None
  | S f =>
      if (if credits_gt then 0 <? credits else 0 <=? credits) && (0 <? sdu) then
        let packet := Z.min (Z.max mps 0) sdu in
        match coc_output credits_gt f mps (sdu - packet) (credits - 1) with
        | None => None
        | Some (rest, c, n) => Some (rest, c, n + 1)
        end
      else Some (sdu, credits, 0)
  end.
