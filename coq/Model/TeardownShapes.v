(* C16: the teardown code reduced to its shape, and the model's fan-out chain derived from it.

   tools/translate/c16_registries.py (shapes) reduces 20 functions of the teardown path to the
   ordered list of their effects (pop / del / emit / cancel / set_result / listener
   registration / sub-hook call), each prefixed by the control structure it sits in and with
   the text of every `if` test.  [expected_shapes] below is that list for the code the model
   was written against (hand-reviewed); Gen/C16Shapes.v is regenerated from the current
   source on every run and Props/C16.v requires the two to be equal, so that any change of
   the shape of these functions - a swapped order, a call that became conditional, a pop
   that disappeared, a listener registered elsewhere - breaks a proof obligation.

   [derive_chain] walks the shapes from Host.on_hci_disconnection_complete_event: the
   'disconnection' emit expands into the listeners in the order in which Device.host
   (setter) registers them, each listener into its effects; every effect is mapped to the
   step of the model's fan-out it stands for.  Props/C16.v requires
   derive_chain source_shapes = fanout_order: the order of the model is derived from the
   source, not just written down next to it.

   Definitions only. *)
From Coq Require Import List String Bool.
From BV Require Import Model.Teardown.
Import ListNotations.
Open Scope string_scope.

Definition pre_d16k_shapes : list (string * list string) := [
  ("host.Host.on_hci_disconnection_complete_event",
    ["if[(connection := (self.connections.get(handle) or self.cis_links.get(handle) or self.sco_links.get(handle))) is None]";
     "then>return";
     "if[event.status == hci.HCI_SUCCESS]";
     "then>self.emit('disconnection')";
     "then>self.link_ts_flags.pop(handle)";
     "then>self.connections.pop(handle)";
     "then>self.cis_links.pop(handle)";
     "then>self.sco_links.pop(handle)";
     "then>if[self.acl_packet_queue]";
     "then>then>self.acl_packet_queue.flush(handle)";
     "then>if[self.le_acl_packet_queue]";
     "then>then>self.le_acl_packet_queue.flush(handle)";
     "then>if[self.iso_packet_queue]";
     "then>then>self.iso_packet_queue.flush(handle)";
     "else>self.emit('disconnection_failure')"]);
  ("host.Host.on_transport_lost",
    ["if[self.pending_response and (not self.pending_response.done())]";
     "then>self.pending_response.set_exception()";
     "for[handle in [*self.connections, *self.cis_links, *self.sco_links]]";
     "for>self.on_hci_disconnection_complete_event()";
     "self.emit('flush')"]);
  ("host.Host._send_command",
    ["self.command_semaphore.acquire()";
     "set self.pending_response";
     "set self.pending_command";
     "try>return";
     "except[asyncio.TimeoutError]";
     "except[asyncio.TimeoutError]>raise";
     "except[Exception]";
     "except[Exception]>raise";
     "finally>set self.pending_command";
     "finally>set self.pending_response";
     "finally>if[response is None or (response.num_hci_command_packets and self.command_semaphore.locked())]";
     "finally>then>self.command_semaphore.release()"]);
  ("host.DataPacketQueue.flush",
    ["if[(flushed_count := (len(self._packets) - len(packets_to_keep)))]";
     "then>set self._completed";
     "then>set self._packets";
     "if[(connection_state := self._connection_state.pop(connection_handle, None))]";
     "test>self._connection_state.pop(connection_handle)";
     "then>set self._completed";
     "then>set self._in_flight";
     "then>connection_state.drained.set()";
     "self._check_queue()"]);
  ("device.Device.host",
    ["if[self._host]";
     "then>for[event_name in device_host_event_handlers]";
     "then>for>self._host.remove_listener(event_name)";
     "if[host]";
     "then>for[event_name in device_host_event_handlers]";
     "then>for>host.on(event_name)";
     "set self._host";
     "set self.l2cap_channel_manager.host";
     "if[host]";
     "then>set host.long_term_key_provider";
     "then>set host.link_key_provider"]);
  ("device.Device.on_disconnection",
    ["if[(connection := self.connections.pop(connection_handle, None))]";
     "test>self.connections.pop(connection_handle)";
     "then>connection.emit(connection.EVENT_DISCONNECTION)";
     "then>self.gatt_server.on_disconnection(connection)";
     "else>if[(sco_link := self.sco_links.pop(connection_handle, None))]";
     "else>test>self.sco_links.pop(connection_handle)";
     "else>then>sco_link.emit(sco_link.EVENT_DISCONNECTION)";
     "else>else>if[(cis_link := self.cis_links.pop(connection_handle, None))]";
     "else>else>test>self.cis_links.pop(connection_handle)";
     "else>else>then>cis_link.emit(cis_link.EVENT_DISCONNECTION)"]);
  ("device.Device.on_flush",
    ["self.emit(self.EVENT_FLUSH)";
     "for[(_, connection) in self.connections.items()]";
     "for>connection.emit(connection.EVENT_DISCONNECTION)";
     "set self.connections"]);
  ("device.Device.disconnect",
    ["connection.on(connection.EVENT_DISCONNECTION)";
     "connection.on(connection.EVENT_DISCONNECTION_FAILURE)";
     "try>set self.disconnecting";
     "try>return";
     "finally>connection.remove_listener(connection.EVENT_DISCONNECTION)";
     "finally>connection.remove_listener(connection.EVENT_DISCONNECTION_FAILURE)";
     "finally>set self.disconnecting"]);
  ("l2cap.ChannelManager.on_disconnection",
    ["del reason";
     "if[(channels := self.channels.pop(connection_handle, None))]";
     "test>self.channels.pop(connection_handle)";
     "then>for[channel in channels.values()]";
     "then>for>channel.abort()";
     "if[(le_coc_channels := self.le_coc_channels.pop(connection_handle, None))]";
     "test>self.le_coc_channels.pop(connection_handle)";
     "then>for[le_coc_channel in le_coc_channels.values()]";
     "then>for>le_coc_channel.abort()";
     "if[(pending_credit_based_connections := self.pending_credit_based_connections.pop(connection_handle, None))]";
     "test>self.pending_credit_based_connections.pop(connection_handle)";
     "then>for[(future, _) in pending_credit_based_connections.values()]";
     "then>for>if[not future.done()]";
     "then>for>then>future.cancel('ACL disconnected')";
     "self.le_coc_requests.pop(connection_handle)";
     "self.identifiers.pop(connection_handle)"]);
  ("gatt_server.Server.on_disconnection",
    ["self.subscribers.pop(bearer)";
     "self.indication_semaphores.pop(bearer)";
     "self.pending_confirmations.pop(bearer)"]);
  ("gatt_server.Server.register_eatt",
    ["def on_channel>channel.once(channel.EVENT_CLOSE)";
     "def on_channel>self.on_disconnection(channel)";
     "def on_channel>def on_pdu>except[Exception]";
     "def on_channel>def on_pdu>except[Exception]>return";
     "def on_channel>set channel.sink";
     "return"]);
  ("gatt_client.Client.__init__",
    ["then>bearer.on(bearer.EVENT_CLOSE)";
     "else>bearer.on(bearer.EVENT_DISCONNECTION)"]);
  ("gatt_client.Client.on_disconnection",
    ["del args";
     "if[self.pending_response and (not self.pending_response.done())]";
     "then>self.pending_response.cancel()"]);
  ("smp.Session.__init__",
    ["connection.on(connection.EVENT_DISCONNECTION)";
     "connection.on(connection.EVENT_CONNECTION_ENCRYPTION_CHANGE)";
     "connection.on(connection.EVENT_CONNECTION_ENCRYPTION_KEY_REFRESH)"]);
  ("smp.Session.on_pairing_failure",
    ["if[self.completed]";
     "then>return";
     "set self.completed";
     "if[self.pairing_result is not None and (not self.pairing_result.done())]";
     "then>self.pairing_result.set_exception(error)";
     "self.manager.on_session_end(self)"]);
  ("smp.Session.on_disconnection",
    ["self.connection.remove_listener(self.connection.EVENT_DISCONNECTION)";
     "self.connection.remove_listener(self.connection.EVENT_CONNECTION_ENCRYPTION_CHANGE)";
     "self.connection.remove_listener(self.connection.EVENT_CONNECTION_ENCRYPTION_KEY_REFRESH)";
     "self.manager.on_session_end(self)"]);
  ("smp.Manager.on_session_end",
    ["if[session.connection.handle in self.sessions]";
     "then>del self.sessions[session.connection.handle]"]);
  ("sdp.Client.on_channel_close",
    ["if[self.pending_response is not None and (not self.pending_response.done())]";
     "then>self.pending_response.cancel()"]);
  ("rfcomm.Multiplexer.on_l2cap_channel_close",
    ["if[self.connection_result]";
     "then>self.connection_result.cancel()";
     "then>set self.connection_result";
     "if[self.open_result]";
     "then>self.open_result.cancel()";
     "then>set self.open_result";
     "if[self.disconnection_result]";
     "then>self.disconnection_result.cancel()";
     "then>set self.disconnection_result";
     "for[dlc in self.dlcs.values()]";
     "for>dlc.abort()"]);
  ("utils.cancel_on_event",
    ["if[future.done()]";
     "then>return";
     "def on_event>del args";
     "def on_event>del kwargs";
     "def on_event>if[future.done()]";
     "def on_event>then>return";
     "def on_event>if[isinstance(future, asyncio.Task)]";
     "def on_event>then>future.cancel(msg)";
     "def on_event>else>future.set_exception()";
     "def on_done>emitter.remove_listener(event)";
     "emitter.on(event)";
     "future.add_done_callback(on_done)";
     "return"])
].

(* the reviewed shapes: the code with D16k (Host refuses to write a command into a lost transport);
   [pre_d16k_shapes] above is the shape before that repair, kept only to show that it is rejected *)
Definition expected_shapes : list (string * list string) := [
  ("host.Host.on_hci_disconnection_complete_event",
    ["if[(connection := (self.connections.get(handle) or self.cis_links.get(handle) or self.sco_links.get(handle))) is None]";
     "then>return";
     "if[event.status == hci.HCI_SUCCESS]";
     "then>self.emit('disconnection')";
     "then>self.link_ts_flags.pop(handle)";
     "then>self.connections.pop(handle)";
     "then>self.cis_links.pop(handle)";
     "then>self.sco_links.pop(handle)";
     "then>if[self.acl_packet_queue]";
     "then>then>self.acl_packet_queue.flush(handle)";
     "then>if[self.le_acl_packet_queue]";
     "then>then>self.le_acl_packet_queue.flush(handle)";
     "then>if[self.iso_packet_queue]";
     "then>then>self.iso_packet_queue.flush(handle)";
     "else>self.emit('disconnection_failure')"]);
  ("host.Host.on_transport_lost",
    ["set self.transport_lost";
     "if[self.pending_response and (not self.pending_response.done())]";
     "then>self.pending_response.set_exception()";
     "for[handle in [*self.connections, *self.cis_links, *self.sco_links]]";
     "for>self.on_hci_disconnection_complete_event()";
     "self.emit('flush')"]);
  ("host.Host._send_command",
    ["self.command_semaphore.acquire()";
     "if[self.transport_lost]";
     "then>self.command_semaphore.release()";
     "then>raise";
     "set self.pending_response";
     "set self.pending_command";
     "try>return";
     "except[asyncio.TimeoutError]";
     "except[asyncio.TimeoutError]>raise";
     "except[Exception]";
     "except[Exception]>raise";
     "finally>set self.pending_command";
     "finally>set self.pending_response";
     "finally>if[response is None or (response.num_hci_command_packets and self.command_semaphore.locked())]";
     "finally>then>self.command_semaphore.release()"]);
  ("host.DataPacketQueue.flush",
    ["if[(flushed_count := (len(self._packets) - len(packets_to_keep)))]";
     "then>set self._completed";
     "then>set self._packets";
     "if[(connection_state := self._connection_state.pop(connection_handle, None))]";
     "test>self._connection_state.pop(connection_handle)";
     "then>set self._completed";
     "then>set self._in_flight";
     "then>connection_state.drained.set()";
     "self._check_queue()"]);
  ("device.Device.host",
    ["if[self._host]";
     "then>for[event_name in device_host_event_handlers]";
     "then>for>self._host.remove_listener(event_name)";
     "if[host]";
     "then>for[event_name in device_host_event_handlers]";
     "then>for>host.on(event_name)";
     "set self._host";
     "set self.l2cap_channel_manager.host";
     "if[host]";
     "then>set host.long_term_key_provider";
     "then>set host.link_key_provider"]);
  ("device.Device.on_disconnection",
    ["if[(connection := self.connections.pop(connection_handle, None))]";
     "test>self.connections.pop(connection_handle)";
     "then>connection.emit(connection.EVENT_DISCONNECTION)";
     "then>self.gatt_server.on_disconnection(connection)";
     "else>if[(sco_link := self.sco_links.pop(connection_handle, None))]";
     "else>test>self.sco_links.pop(connection_handle)";
     "else>then>sco_link.emit(sco_link.EVENT_DISCONNECTION)";
     "else>else>if[(cis_link := self.cis_links.pop(connection_handle, None))]";
     "else>else>test>self.cis_links.pop(connection_handle)";
     "else>else>then>cis_link.emit(cis_link.EVENT_DISCONNECTION)"]);
  ("device.Device.on_flush",
    ["self.emit(self.EVENT_FLUSH)";
     "for[(_, connection) in self.connections.items()]";
     "for>connection.emit(connection.EVENT_DISCONNECTION)";
     "set self.connections"]);
  ("device.Device.disconnect",
    ["connection.on(connection.EVENT_DISCONNECTION)";
     "connection.on(connection.EVENT_DISCONNECTION_FAILURE)";
     "try>set self.disconnecting";
     "try>return";
     "finally>connection.remove_listener(connection.EVENT_DISCONNECTION)";
     "finally>connection.remove_listener(connection.EVENT_DISCONNECTION_FAILURE)";
     "finally>set self.disconnecting"]);
  ("l2cap.ChannelManager.on_disconnection",
    ["del reason";
     "if[(channels := self.channels.pop(connection_handle, None))]";
     "test>self.channels.pop(connection_handle)";
     "then>for[channel in channels.values()]";
     "then>for>channel.abort()";
     "if[(le_coc_channels := self.le_coc_channels.pop(connection_handle, None))]";
     "test>self.le_coc_channels.pop(connection_handle)";
     "then>for[le_coc_channel in le_coc_channels.values()]";
     "then>for>le_coc_channel.abort()";
     "if[(pending_credit_based_connections := self.pending_credit_based_connections.pop(connection_handle, None))]";
     "test>self.pending_credit_based_connections.pop(connection_handle)";
     "then>for[(future, _) in pending_credit_based_connections.values()]";
     "then>for>if[not future.done()]";
     "then>for>then>future.cancel('ACL disconnected')";
     "self.le_coc_requests.pop(connection_handle)";
     "self.identifiers.pop(connection_handle)"]);
  ("gatt_server.Server.on_disconnection",
    ["self.subscribers.pop(bearer)";
     "self.indication_semaphores.pop(bearer)";
     "self.pending_confirmations.pop(bearer)"]);
  ("gatt_server.Server.register_eatt",
    ["def on_channel>channel.once(channel.EVENT_CLOSE)";
     "def on_channel>self.on_disconnection(channel)";
     "def on_channel>def on_pdu>except[Exception]";
     "def on_channel>def on_pdu>except[Exception]>return";
     "def on_channel>set channel.sink";
     "return"]);
  ("gatt_client.Client.__init__",
    ["then>bearer.on(bearer.EVENT_CLOSE)";
     "else>bearer.on(bearer.EVENT_DISCONNECTION)"]);
  ("gatt_client.Client.on_disconnection",
    ["del args";
     "if[self.pending_response and (not self.pending_response.done())]";
     "then>self.pending_response.cancel()"]);
  ("smp.Session.__init__",
    ["connection.on(connection.EVENT_DISCONNECTION)";
     "connection.on(connection.EVENT_CONNECTION_ENCRYPTION_CHANGE)";
     "connection.on(connection.EVENT_CONNECTION_ENCRYPTION_KEY_REFRESH)"]);
  ("smp.Session.on_pairing_failure",
    ["if[self.completed]";
     "then>return";
     "set self.completed";
     "if[self.pairing_result is not None and (not self.pairing_result.done())]";
     "then>self.pairing_result.set_exception(error)";
     "self.manager.on_session_end(self)"]);
  ("smp.Session.on_disconnection",
    ["self.connection.remove_listener(self.connection.EVENT_DISCONNECTION)";
     "self.connection.remove_listener(self.connection.EVENT_CONNECTION_ENCRYPTION_CHANGE)";
     "self.connection.remove_listener(self.connection.EVENT_CONNECTION_ENCRYPTION_KEY_REFRESH)";
     "self.manager.on_session_end(self)"]);
  ("smp.Manager.on_session_end",
    ["if[session.connection.handle in self.sessions]";
     "then>del self.sessions[session.connection.handle]"]);
  ("sdp.Client.on_channel_close",
    ["if[self.pending_response is not None and (not self.pending_response.done())]";
     "then>self.pending_response.cancel()"]);
  ("rfcomm.Multiplexer.on_l2cap_channel_close",
    ["if[self.connection_result]";
     "then>self.connection_result.cancel()";
     "then>set self.connection_result";
     "if[self.open_result]";
     "then>self.open_result.cancel()";
     "then>set self.open_result";
     "if[self.disconnection_result]";
     "then>self.disconnection_result.cancel()";
     "then>set self.disconnection_result";
     "for[dlc in self.dlcs.values()]";
     "for>dlc.abort()"]);
  ("utils.cancel_on_event",
    ["if[future.done()]";
     "then>return";
     "def on_event>del args";
     "def on_event>del kwargs";
     "def on_event>if[future.done()]";
     "def on_event>then>return";
     "def on_event>if[isinstance(future, asyncio.Task)]";
     "def on_event>then>future.cancel(msg)";
     "def on_event>else>future.set_exception()";
     "def on_done>emitter.remove_listener(event)";
     "emitter.on(event)";
     "future.add_done_callback(on_done)";
     "return"])
].

(* ------------------------------------------------------------------ comparing shapes *)
Fixpoint list_eqb {A : Type} (eqb : A -> A -> bool) (a b : list A) : bool :=
  match a, b with
  | [], [] => true
  | x :: a', y :: b' => eqb x y && list_eqb eqb a' b'
  | _, _ => false
  end.

Definition shape_eqb (a b : string * list string) : bool :=
  String.eqb (fst a) (fst b) && list_eqb String.eqb (snd a) (snd b).

Definition shapes_eqb (a b : list (string * list string)) : bool := list_eqb shape_eqb a b.

(* the first function whose shape differs (for the error message of the harness) *)
Fixpoint first_difference (a b : list (string * list string)) : option string :=
  match a, b with
  | [], [] => None
  | x :: a', y :: b' => if shape_eqb x y then first_difference a' b' else Some (fst x)
  | x :: _, [] => Some (fst x)
  | [], y :: _ => Some (fst y)
  end.

(* ------------------------------------------------------------------ deriving the chain *)
Definition F_host_disc := "host.Host.on_hci_disconnection_complete_event".
Definition F_host_loss := "host.Host.on_transport_lost".
Definition F_dev_setter := "device.Device.host".
Definition F_dev_disc := "device.Device.on_disconnection".
Definition F_l2cap_disc := "l2cap.ChannelManager.on_disconnection".

Inductive effect := EHook (hk : hook) | ECall (fns : list string).

(* (function, token) -> what it stands for in the model *)
Definition effects : list (string * string * effect) := [
  (F_host_disc, "then>self.emit('disconnection')", ECall [F_dev_setter]);
  (F_dev_setter, "then>for>host.on(event_name)", ECall [F_dev_disc]);
  (F_dev_setter, "set self.l2cap_channel_manager.host", ECall [F_l2cap_disc]);
  (F_dev_disc, "test>self.connections.pop(connection_handle)", EHook HkDevice);
  (F_dev_disc, "then>connection.emit(connection.EVENT_DISCONNECTION)", EHook HkConnListeners);
  (F_dev_disc, "then>self.gatt_server.on_disconnection(connection)", EHook HkGattServer);
  (F_l2cap_disc, "test>self.channels.pop(connection_handle)", EHook HkL2cap);
  (F_l2cap_disc, "then>for>channel.abort()", EHook HkBearerClose);
  (F_host_disc, "then>self.connections.pop(handle)", EHook HkHost);
  (F_host_disc, "then>then>self.le_acl_packet_queue.flush(handle)", EHook HkQueueFlush)
].

Fixpoint classify (tbl : list (string * string * effect)) (fn tok : string) : option effect :=
  match tbl with
  | [] => None
  | (f, t, e) :: r => if String.eqb f fn && String.eqb t tok then Some e else classify r fn tok
  end.

Fixpoint tokens_of (sh : list (string * list string)) (fn : string) : list string :=
  match sh with
  | [] => []
  | (f, ts) :: r => if String.eqb f fn then ts else tokens_of r fn
  end.

Fixpoint chain (fuel : nat) (sh : list (string * list string)) (fn : string) : list hook :=
  match fuel with
  | O => []
  | S f =>
      flat_map (fun t => match classify effects fn t with
                         | Some (EHook hk) => [hk]
                         | Some (ECall fns) => flat_map (chain f sh) fns
                         | None => []
                         end) (tokens_of sh fn)
  end.

Fixpoint dedup (l : list hook) (seen : list hook) : list hook :=
  match l with
  | [] => []
  | x :: r => if existsb (hook_eqb x) seen then dedup r seen else x :: dedup r (x :: seen)
  end.

Definition derive_chain (sh : list (string * list string)) : list hook := dedup (chain 4 sh F_host_disc) [].

Definition hooks_eqb (a b : list hook) : bool := list_eqb hook_eqb a b.

(* Host.on_transport_lost: the pending command is failed only when still pending, every
   connection goes through the disconnection handler, and only then 'flush' is emitted -
   the order [Loss] has in the model *)
Fixpoint index_of (t : string) (l : list string) (i : nat) : option nat :=
  match l with
  | [] => None
  | x :: r => if String.eqb x t then Some i else index_of t r (S i)
  end.

(* Host._send_command, the HCI command gate: the semaphore is acquired first and released
   in the `finally`, under a test that holds whenever no response was received - i.e. on
   EVERY exit path of the awaiting caller: response, timeout, error and CANCELLATION
   (asyncio.CancelledError is a BaseException: an `except Exception` handler does not run) -
   and any early exit before the `try` releases before it raises. *)
Definition F_send_command := "host.Host._send_command".

Definition gate_release_ok (sh : list (string * list string)) : bool :=
  let ts := tokens_of sh F_send_command in
  match index_of "self.command_semaphore.acquire()" ts 0 with Some O => true | _ => false end &&
  match index_of "finally>if[response is None or (response.num_hci_command_packets and self.command_semaphore.locked())]" ts 0,
        index_of "finally>then>self.command_semaphore.release()" ts 0 with
  | Some a, Some b => Nat.eqb b (S a)
  | _, _ => false
  end &&
  (if existsb (String.eqb "then>raise") ts
   then match index_of "then>self.command_semaphore.release()" ts 0, index_of "then>raise" ts 0 with
        | Some a, Some b => Nat.ltb a b
        | _, _ => false
        end
   else true).

(* exit paths of the caller awaiting in _send_command, and whether the gate is released on
   each, as a function of where the release sits *)
Inductive gate_exit := XResponse | XTimeout | XError | XCancelled.
Inductive release_site := InFinallyWhenNoResponse | InExceptHandlersOnly.
Definition gate_released (site : release_site) (x : gate_exit) : bool :=
  match site, x with
  | InFinallyWhenNoResponse, _ => true          (* (with a response: released by its num_hci_command_packets) *)
  | InExceptHandlersOnly, XCancelled => false   (* `except asyncio.TimeoutError` / `except Exception` do not see it *)
  | InExceptHandlersOnly, _ => true
  end.
Definition site_of (sh : list (string * list string)) : release_site :=
  if gate_release_ok sh then InFinallyWhenNoResponse else InExceptHandlersOnly.

Definition loss_path_ok (sh : list (string * list string)) : bool :=
  gate_release_ok sh &&
  let ts := tokens_of sh F_host_loss in
  match index_of "if[self.pending_response and (not self.pending_response.done())]" ts 0,
        index_of "then>self.pending_response.set_exception()" ts 0,
        index_of "for>self.on_hci_disconnection_complete_event()" ts 0,
        index_of "self.emit('flush')" ts 0 with
  | Some a, Some b, Some c, Some d => Nat.ltb a b && Nat.ltb b c && Nat.ltb c d
  | _, _, _, _ => false
  end.

(* ------------------------------------------------------------------ which method empties which registry *)
Definition hook_of_method (m : string) : hook :=
  if String.eqb m "device.Device.on_disconnection" then HkDevice
  else if String.eqb m "smp.Manager.on_session_end" then HkConnListeners
  else if String.eqb m "gatt_server.Server.on_disconnection" then HkGattServer
  else if String.eqb m "l2cap.ChannelManager.on_disconnection" then HkL2cap
  else if String.eqb m "host.Host.on_hci_disconnection_complete_event" then HkHost
  else if String.eqb m "host.DataPacketQueue.flush" then HkQueueFlush
  else HkNone.

(* the three controller-side tables are state fields of the model (ctl), emptied by the
   controller itself before the host hears of it: they are not part of this comparison *)
Definition is_controller_registry (r : string) : bool := String.prefix "controller." r.

Definition remover_ok (tbl : table) (p : string * string) : bool :=
  is_controller_registry (fst p) || hook_eqb (hook_of_method (snd p)) (reg_hook tbl (fst p)).

Definition removers_match (tbl : table) (l : list (string * string)) : bool := forallb (remover_ok tbl) l.

(* ------------------------------------------------------------------ calls that can raise inside the fan-out *)
(* An exception raised by a listener propagates through the nested emits (pyee re-raises it
   when nobody listens for 'error') and aborts every later step of the fan-out.  The calls of
   the disconnection listeners that can raise - remove_listener of a listener that may be
   absent (KeyError when the event still has other listeners), `del d[k]` / `d[k]`,
   set_result / set_exception on a future that may be done - are projected out of the
   regenerated shapes and must be exactly the reviewed list below. *)
Fixpoint contains (sub s : string) : bool :=
  String.prefix sub s ||
  match s with
  | EmptyString => false
  | String _ r => contains sub r
  end.

Definition is_raising_token (t : string) : bool :=
  contains ".remove_listener(" t || contains "del " t || contains ".set_result(" t ||
  contains ".set_exception(" t.

Definition disconnection_listeners : list string := [
  "device.Device.on_disconnection"; "device.Device.on_flush"; "l2cap.ChannelManager.on_disconnection";
  "gatt_server.Server.on_disconnection"; "gatt_client.Client.on_disconnection";
  "smp.Session.on_disconnection"; "smp.Manager.on_session_end"; "smp.Session.on_pairing_failure";
  "sdp.Client.on_channel_close"; "rfcomm.Multiplexer.on_l2cap_channel_close"
].

Definition raising_calls (sh : list (string * list string)) : list (string * list string) :=
  map (fun fn => (fn, filter is_raising_token (tokens_of sh fn))) disconnection_listeners.

(* reviewed: why each cannot raise today
   - ChannelManager.on_disconnection `del reason`: a local name.
   - Session.on_disconnection: removes the three listeners Session.__init__ registered; nothing
     else removes them (Session.on_pairing_failure must not: see its shape), and the
     'disconnection' one is removed by this very call, so the method runs once.
   - Manager.on_session_end `del self.sessions[...]`: guarded by the `in` test just above.
   - Session.on_pairing_failure set_exception: guarded by `not done()`. *)
Definition expected_raising_calls : list (string * list string) := [
  ("device.Device.on_disconnection", []);
  ("device.Device.on_flush", []);
  ("l2cap.ChannelManager.on_disconnection", ["del reason"]);
  ("gatt_server.Server.on_disconnection", []);
  ("gatt_client.Client.on_disconnection", ["del args"]);
  ("smp.Session.on_disconnection",
    ["self.connection.remove_listener(self.connection.EVENT_DISCONNECTION)";
     "self.connection.remove_listener(self.connection.EVENT_CONNECTION_ENCRYPTION_CHANGE)";
     "self.connection.remove_listener(self.connection.EVENT_CONNECTION_ENCRYPTION_KEY_REFRESH)"]);
  ("smp.Manager.on_session_end", ["then>del self.sessions[session.connection.handle]"]);
  ("smp.Session.on_pairing_failure", ["then>self.pairing_result.set_exception(error)"]);
  ("sdp.Client.on_channel_close", []);
  ("rfcomm.Multiplexer.on_l2cap_channel_close", [])
].
