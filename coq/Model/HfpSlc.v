(* Model of the Hands-Free service-level-connection initialisation (bumble/hfp.py
   HfProtocol.initiate_slc / execute_command on one side, AgProtocol._on_brsf, _on_bac,
   _on_cind_test, _on_cind_read, _on_cmer, _on_chld_test, _on_bind, _on_bind_test,
   _on_bind_read on the other), at the level of parsed AT messages.  Executable Gallina.

   The code modelled is the code AFTER fixes D20a (HF takes an indicator's enabled flag
   from the +BIND? answer), D20e (HF builds AgIndicatorState with keyword arguments),
   D20f (HF skips the empty token an empty parenthesised list parses to) and D20g (AG
   reports its own enabled flag and records negotiated indicators as supported/enabled).

   What is abstracted: the text form of AT lines (rendering of integers and names,
   at.parse_parameters, RFCOMM transport) - this is what the correspondence run
   exercises on the real classes; the command lock / response queue of execute_command
   (one command outstanding: the procedure is sequential, each command is answered
   before the next is sent; the 1 s response timeout never fires because every command
   is answered); call control after the SLC.
   What is kept: every branch of initiate_slc on the feature bits of both sides; the
   AG handlers' refusals (ERROR) and their bookkeeping for the slc_complete event; the
   SINGLE / MULTIPLE response-count rule of execute_command; list rendering, including
   the one-empty-token form of an empty parenthesised list and the (min-max) / (v,...)
   forms of indicator value sets. *)
From Coq Require Import ZArith List Bool.
From BV Require Import Gen.C20Consts.
Import ListNotations.
Open Scope Z_scope.

(* supports_*_feature: (features & bit) != 0 *)
Definition has (features bit : Z) : bool := negb (Z.land features bit =? 0).

Record ag_ind := mkAgInd { ai_name : Z; ai_values : list Z; ai_status : Z }.

Record hf_cfg := mkHfCfg {
  hc_features : Z;
  hc_indicators : list Z;     (* keys of HfProtocol.hf_indicators, in order *)
  hc_codecs : list Z
}.

Record ag_cfg := mkAgCfg {
  ac_features : Z;
  ac_indicators : list ag_ind;      (* AgProtocol.ag_indicators *)
  ac_hf_indicators : list Z;        (* AgProtocol.supported_hf_indicators (a set) *)
  ac_chld : list Z;                 (* supported_ag_call_hold_operations, as enum indices *)
  ac_disabled : list Z              (* HF indicators the AG application disables once negotiated
                                       (hf_indicators[i].enabled = False after AT+BIND=) *)
}.

(* ---------- AT messages ---------- *)
Inductive vitem := VRange (lo hi : Z) | VSingle (v : Z).

Inductive cmd :=
| C_BRSF (f : Z) | C_BAC (codecs : list Z) | C_CIND_TEST | C_CIND_READ | C_CMER
| C_CHLD_TEST | C_BIND (inds : list Z) | C_BIND_TEST | C_BIND_READ.

Inductive rsp :=
| R_BRSF (f : Z)
| R_CIND_TEST (l : list (Z * list vitem))
| R_CIND_READ (l : list Z)
| R_CHLD (toks : list (option Z))        (* None: the empty token of "()" *)
| R_BIND_LIST (toks : list (option Z))
| R_BIND_STATE (ind : Z) (enabled : Z).

Inductive final := F_OK | F_ERROR.

Definition cmd_code (c : cmd) : Z :=
  match c with
  | C_BRSF _ => 0 | C_BAC _ => 1 | C_CIND_TEST => 2 | C_CIND_READ => 3 | C_CMER => 4
  | C_CHLD_TEST => 5 | C_BIND _ => 6 | C_BIND_TEST => 7 | C_BIND_READ => 8
  end.

(* a parenthesised list on the wire: "()" parses to one empty token *)
Definition render_list (l : list Z) : list (option Z) :=
  match l with [] => [None] | _ => map Some l end.

Fixpoint parse_list (toks : list (option Z)) : list Z :=
  match toks with
  | [] => []
  | None :: r => parse_list r
  | Some v :: r => v :: parse_list r
  end.

(* AgIndicatorState.on_test_text *)
Fixpoint list_min (d : Z) (l : list Z) : Z :=
  match l with [] => d | x :: r => list_min (Z.min d x) r end.
Fixpoint list_max (d : Z) (l : list Z) : Z :=
  match l with [] => d | x :: r => list_max (Z.max d x) r end.

Definition render_values (vs : list Z) : list vitem :=
  match vs with
  | [] => []
  | v :: r =>
      let lo := list_min v r in
      let hi := list_max v r in
      if Z.of_nat (length vs) =? hi - lo + 1 then [VRange lo hi] else map VSingle vs
  end.

(* HF: value.split('-'), range(min, max + 1) *)
Fixpoint zrange (lo : Z) (n : nat) : list Z :=
  match n with O => [] | S k => lo :: zrange (lo + 1) k end.
Definition expand_item (i : vitem) : list Z :=
  match i with VRange lo hi => zrange lo (Z.to_nat (hi - lo + 1)) | VSingle v => [v] end.
Definition expand_values (items : list vitem) : list Z := flat_map expand_item items.

Definition zmem (x : Z) (l : list Z) : bool := existsb (Z.eqb x) l.

(* ---------- audio gateway ---------- *)
Record ag_state := mkAg {
  ag_hf_features : Z;                 (* supported_hf_features *)
  ag_codecs : list Z;                 (* supported_audio_codecs *)
  ag_hf_ind : list (Z * bool);        (* hf_indicators: indicator -> enabled *)
  ag_report : bool;                   (* indicator_report_enabled *)
  ag_rem_hf_ind : bool;               (* HF_INDICATORS in _remained_slc_setup_features *)
  ag_rem_three_way : bool;            (* THREE_WAY_CALLING in _remained_slc_setup_features *)
  ag_slc_events : Z                   (* number of slc_complete events emitted *)
}.

Definition ag_init : ag_state := mkAg 0 [] [] false false false 0.


(* _check_remained_slc_commands *)
Definition check_remained (a : ag_state) : ag_state :=
  if negb (ag_rem_hf_ind a) && negb (ag_rem_three_way a)
  then mkAg (ag_hf_features a) (ag_codecs a) (ag_hf_ind a) (ag_report a)
            (ag_rem_hf_ind a) (ag_rem_three_way a) (ag_slc_events a + 1)
  else a.

Definition ag_handle (C : ag_cfg) (a : ag_state) (c : cmd) : ag_state * list rsp * final :=
  match c with
  | C_BRSF f =>
      (mkAg f (ag_codecs a) (ag_hf_ind a) (ag_report a)
            (ag_rem_hf_ind a || (has f hf_hf_indicators && has (ac_features C) ag_hf_indicators))
            (ag_rem_three_way a || (has f hf_three_way_calling && has (ac_features C) ag_three_way_calling))
            (ag_slc_events a),
       [R_BRSF (ac_features C)], F_OK)
  | C_BAC codecs =>
      (mkAg (ag_hf_features a) codecs (ag_hf_ind a) (ag_report a)
            (ag_rem_hf_ind a) (ag_rem_three_way a) (ag_slc_events a), [], F_OK)
  | C_CIND_TEST =>
      match ac_indicators C with
      | [] => (a, [], F_ERROR)
      | l => (a, [R_CIND_TEST (map (fun i => (ai_name i, render_values (ai_values i))) l)], F_OK)
      end
  | C_CIND_READ =>
      match ac_indicators C with
      | [] => (a, [], F_ERROR)
      | l => (check_remained a, [R_CIND_READ (map ai_status l)], F_OK)
      end
  | C_CMER =>
      (mkAg (ag_hf_features a) (ag_codecs a) (ag_hf_ind a) true
            (ag_rem_hf_ind a) (ag_rem_three_way a) (ag_slc_events a), [], F_OK)
  | C_CHLD_TEST =>
      if has (ac_features C) ag_three_way_calling then
        (* remove() raises KeyError when the feature is not pending: the final result
           code has been sent, the dispatcher swallows the exception, the event check
           is skipped *)
        ((if ag_rem_three_way a
          then check_remained (mkAg (ag_hf_features a) (ag_codecs a) (ag_hf_ind a) (ag_report a)
                                    (ag_rem_hf_ind a) false (ag_slc_events a))
          else a),
         [R_CHLD (render_list (ac_chld C))], F_OK)
      else (a, [], F_ERROR)
  | C_BIND inds =>
      if has (ac_features C) ag_hf_indicators then
        (mkAg (ag_hf_features a) (ag_codecs a)
              (map (fun i => (i, negb (zmem i (ac_disabled C)))) (filter (fun i => zmem i inds) (ac_hf_indicators C)))
              (ag_report a) (ag_rem_hf_ind a) (ag_rem_three_way a) (ag_slc_events a), [], F_OK)
      else (a, [], F_ERROR)
  | C_BIND_TEST =>
      if has (ac_features C) ag_hf_indicators
      then (a, [R_BIND_LIST (render_list (ac_hf_indicators C))], F_OK)
      else (a, [], F_ERROR)
  | C_BIND_READ =>
      if has (ac_features C) ag_hf_indicators then
        ((if ag_rem_hf_ind a
          then check_remained (mkAg (ag_hf_features a) (ag_codecs a) (ag_hf_ind a) (ag_report a)
                                    false (ag_rem_three_way a) (ag_slc_events a))
          else a),
         map (fun ie : Z * bool => R_BIND_STATE (fst ie) (if snd ie then 1 else 0)) (ag_hf_ind a), F_OK)
      else (a, [], F_ERROR)
  end.

(* ---------- hands-free ---------- *)
Record hf_ag_ind := mkHfAgInd { hi_name : Z; hi_values : list Z; hi_status : Z; hi_index : Z }.

Record hf_state := mkHf {
  hf_ag_features : Z;                          (* supported_ag_features *)
  hf_ag_indicators : list hf_ag_ind;           (* ag_indicators *)
  hf_chld : list Z;                            (* supported_ag_call_hold_operations *)
  hf_ind : list (Z * bool * bool)              (* hf_indicators: indicator, supported, enabled *)
}.

Inductive outcome :=
| Done (h : hf_state) (a : ag_state) (sent : list Z)     (* commands sent, by cmd_code *)
| Failed (at_cmd : Z) (why : Z).                          (* 1: ERROR, 2: NO ANSWER, 3: bad answer *)

Inductive rtype := RNone | RSingle | RMultiple.

(* execute_command: the final result code must be OK; SINGLE needs exactly one
   intermediate response *)
Definition execute (C : ag_cfg) (a : ag_state) (c : cmd) (t : rtype)
  : ag_state * option (list rsp) * Z :=
  let '(a', rs, f) := ag_handle C a c in
  match f with
  | F_ERROR => (a', None, 1)
  | F_OK =>
      match t, rs with
      | RSingle, [_] => (a', Some rs, 0)
      | RSingle, _ => (a', None, 2)
      | _, _ => (a', Some rs, 0)
      end
  end.

Fixpoint set_status (l : list hf_ag_ind) (vals : list Z) : option (list hf_ag_ind) :=
  match vals, l with
  | [], _ => Some l
  | v :: vr, i :: ir =>
      match set_status ir vr with
      | Some r => Some (mkHfAgInd (hi_name i) (hi_values i) v (hi_index i) :: r)
      | None => None
      end
  | _ :: _, [] => None         (* IndexError *)
  end.

Fixpoint index_from (k : Z) (l : list (Z * list vitem)) : list hf_ag_ind :=
  match l with
  | [] => []
  | (n, items) :: r => mkHfAgInd n (expand_values items) 0 k :: index_from (k + 1) r
  end.

Definition mark_supported (ag_list : list Z) (l : list (Z * bool * bool)) :=
  map (fun x => let '(i, s, e) := x in (i, s || zmem i ag_list, e)) l.

Fixpoint apply_states (rs : list rsp) (l : list (Z * bool * bool)) : option (list (Z * bool * bool)) :=
  match rs with
  | [] => Some l
  | R_BIND_STATE ind en :: r =>
      apply_states r (map (fun x => let '(i, s, e) := x in
                                    if i =? ind then (i, s, negb (en =? 0)) else x) l)
  | _ :: _ => None
  end.

(* HfProtocol.initiate_slc *)
Definition slc (H : hf_cfg) (C : ag_cfg) : outcome :=
  let a0 := ag_init in
  let ind0 := map (fun i => (i, false, false)) (hc_indicators H) in
  (* AT+BRSF *)
  match execute C a0 (C_BRSF (hc_features H)) RSingle with
  | (a1, Some [R_BRSF agf], _) =>
      let both_cn := has (hc_features H) hf_codec_negotiation && has agf ag_codec_negotiation in
      let both_3w := has (hc_features H) hf_three_way_calling && has agf ag_three_way_calling in
      let both_hi := has (hc_features H) hf_hf_indicators && has agf ag_hf_indicators in
      (* AT+BAC *)
      let '(a2, r2, e2) := if both_cn then execute C a1 (C_BAC (hc_codecs H)) RNone else (a1, Some [], 0) in
      match r2 with
      | None => Failed 1 e2
      | Some _ =>
      let sent2 := if both_cn then [0; 1] else [0] in
      (* AT+CIND=? *)
      match execute C a2 C_CIND_TEST RSingle with
      | (a3, Some [R_CIND_TEST l], _) =>
          let inds := index_from 0 l in
          (* AT+CIND? *)
          match execute C a3 C_CIND_READ RSingle with
          | (a4, Some [R_CIND_READ vals], _) =>
              match set_status inds vals with
              | None => Failed 3 3
              | Some inds' =>
                  (* AT+CMER *)
                  match execute C a4 C_CMER RNone with
                  | (a5, Some _, _) =>
                      (* AT+CHLD=? *)
                      let '(a6, r6, e6) :=
                        if both_3w then execute C a5 C_CHLD_TEST RSingle else (a5, Some [], 0) in
                      match r6 with
                      | None => Failed 5 e6
                      | Some rs6 =>
                          let chld := match rs6 with [R_CHLD toks] => parse_list toks | _ => [] end in
                          let sent6 := sent2 ++ [2; 3; 4] ++ (if both_3w then [5] else []) in
                          if both_hi then
                            (* AT+BIND= , AT+BIND=? , AT+BIND? *)
                            match execute C a6 (C_BIND (hc_indicators H)) RNone with
                            | (a7, Some _, _) =>
                                match execute C a7 C_BIND_TEST RSingle with
                                | (a8, Some [R_BIND_LIST toks], _) =>
                                    let ind1 := mark_supported (parse_list toks) ind0 in
                                    match execute C a8 C_BIND_READ RMultiple with
                                    | (a9, Some rs9, _) =>
                                        match apply_states rs9 ind1 with
                                        | Some ind2 =>
                                            Done (mkHf agf inds' chld ind2) a9 (sent6 ++ [6; 7; 8])
                                        | None => Failed 8 3
                                        end
                                    | (_, None, e) => Failed 8 e
                                    end
                                | (_, Some _, _) => Failed 7 3
                                | (_, None, e) => Failed 7 e
                                end
                            | (_, None, e) => Failed 6 e
                            end
                          else Done (mkHf agf inds' chld ind0) a6 sent6
                      end
                  | (_, None, e) => Failed 4 e
                  end
              end
          | (_, Some _, _) => Failed 3 3
          | (_, None, e) => Failed 3 e
          end
      | (_, Some _, _) => Failed 2 3
      | (_, None, e) => Failed 2 e
      end
      end
  | (_, Some _, _) => Failed 0 3
  | (_, None, e) => Failed 0 e
  end.

(* ---------- observables for the correspondence check ---------- *)
Definition hf_obs (h : hf_state) :=
  (hf_ag_features h,
   map (fun i => (hi_name i, hi_values i, hi_status i, hi_index i)) (hf_ag_indicators h),
   hf_chld h, hf_ind h).
Definition ag_obs (a : ag_state) :=
  (ag_hf_features a, ag_codecs a, ag_hf_ind a, ag_report a, ag_slc_events a).
Definition slc_obs (H : hf_cfg) (C : ag_cfg) :=
  match slc H C with
  | Done h a sent => (true, sent, Some (hf_obs h, ag_obs a))
  | Failed c w => (false, [c; w], None)
  end.

(* ---------- after the SLC: AG indicator updates (+CIEV) and codec selection (+BCS) ----------
   AgProtocol.update_ag_indicator / HfProtocol.handle_unsolicited -> update_ag_indicator,
   AgProtocol.negotiate_codec / HfProtocol.setup_codec_connection / AgProtocol._on_bcs, _on_bac.
   The AG finds the FIRST entry of its list with the given indicator name, stores the value
   and sends +CIEV: <position + 1>,<value>; the HF stores the value at <index - 1>.
   The AG proposes a codec with +BCS: the HF answers AT+BCS=<id> if it supports the codec
   (both ends then make it the active codec), otherwise AT+BAC=<its codecs> (the AG records
   the list; nothing becomes active; AgProtocol.negotiate_codec keeps waiting - see docs). *)
Inductive lop := OpCiev (name value : Z) | OpBcs (codec : Z).

Record live := mkLive {
  lv_ag_status : list Z;       (* current_status of AgProtocol.ag_indicators *)
  lv_hf_status : list Z;       (* current_status of HfProtocol.ag_indicators *)
  lv_ag_codec : Z;             (* AgProtocol.active_codec *)
  lv_hf_codec : Z;             (* HfProtocol.active_codec *)
  lv_ag_codecs : list Z        (* AgProtocol.supported_audio_codecs *)
}.

Fixpoint first_index (name : Z) (l : list ag_ind) (k : nat) : option nat :=
  match l with
  | [] => None
  | i :: r => if ai_name i =? name then Some k else first_index name r (S k)
  end.

Fixpoint set_nth (n : nat) (v : Z) (l : list Z) : list Z :=
  match l, n with
  | [], _ => []
  | _ :: r, O => v :: r
  | x :: r, S k => x :: set_nth k v r
  end.

Definition live_step (H : hf_cfg) (C : ag_cfg) (s : live) (o : lop) : live :=
  match o with
  | OpCiev name value =>
      match first_index name (ac_indicators C) 0 with
      | None => s                                   (* KeyError: nothing is sent *)
      | Some k =>
          let wire := Z.of_nat k + 1 in              (* +CIEV: index + 1 *)
          mkLive (set_nth k value (lv_ag_status s))
                 (set_nth (Z.to_nat (wire - 1)) value (lv_hf_status s))
                 (lv_ag_codec s) (lv_hf_codec s) (lv_ag_codecs s)
      end
  | OpBcs codec =>
      if zmem codec (hc_codecs H)
      then mkLive (lv_ag_status s) (lv_hf_status s) codec codec (lv_ag_codecs s)
      else mkLive (lv_ag_status s) (lv_hf_status s) (lv_ag_codec s) (lv_hf_codec s) (hc_codecs H)
  end.

(* both ends start with CVSD (1) as the active codec *)
Definition live_init (H : hf_cfg) (C : ag_cfg) : option live :=
  match slc H C with
  | Done h a _ => Some (mkLive (map ai_status (ac_indicators C)) (map hi_status (hf_ag_indicators h))
                               1 1 (ag_codecs a))
  | Failed _ _ => None
  end.

Definition live_run (H : hf_cfg) (C : ag_cfg) (ops : list lop) : option live :=
  match live_init H C with
  | Some s => Some (fold_left (live_step H C) ops s)
  | None => None
  end.

Definition live_obs (H : hf_cfg) (C : ag_cfg) (ops : list lop) :=
  match live_run H C ops with
  | Some s => Some (lv_ag_status s, lv_hf_status s, lv_ag_codec s, lv_hf_codec s, lv_ag_codecs s)
  | None => None
  end.
