(* Model/CodecsSdpState.v — DataElementParser with its nesting counter as STATE, as the code has it
   (property C18).  Model/CodecsSdp.v passes the remaining nesting budget down functionally, which
   cannot express a counter that is not restored; here [depth] is self.depth, [maxd] is
   self.max_depth, and the result carries self.depth after the call:

     _list_from_bytes:   if self.depth >= self.max_depth: raise
                         self.depth += 1
                         while self.offset < end_offset: parse_next(); overrun check
                         self.depth -= 1
                         return elements

   [leak = false] is the code.  [leak = true] is the rejected variant with an early
   `return []` for an empty container placed after the increment (the counter is not restored on
   that exit path); it exists only for the refuted lemma.  Leaf elements do not touch the counter:
   they are the leaf cases of Model/CodecsSdp.parse_next.
   Proofs/CodecsSdpState.v: the counter after parsing one element equals the counter before, and
   this parser is exactly Model/CodecsSdp.parse_next with budget maxd - depth. *)
From Coq Require Import ZArith List Bool.
From BV Require Import Base.Bytes Model.CodecsBase Model.CodecsSdp.
Import ListNotations.
Open Scope Z_scope.

Inductive sresult :=
  | SOk (e : elem) (consumed : Z) (raw : list Z) (canon : bool) (depth_after : nat)
  | SErr
  | SFuel.
Inductive slresult :=
  | SLOk (l : list elem) (used : Z) (canon : bool) (depth_after : nat)
  | SLErr
  | SLFuel.

Definition is_container (b : Z) : bool := (Z.shiftr b 3 =? 6) || (Z.shiftr b 3 =? 7).

Definition lift_leaf (r : presult) (depth : nat) : sresult :=
  match r with POk e c raw cn => SOk e c raw cn depth | PErr => SErr | PFuel => SFuel end.

Fixpoint sparse_next (leak : bool) (fuel maxd depth : nat) (d : list Z) : sresult :=
  match fuel with
  | O => SFuel
  | S k =>
      match d with
      | [] => SErr
      | b :: d1 =>
          if is_container b then
            let ty := Z.shiftr b 3 in
            let idx := Z.land b 7 in
            match size_of_header ty idx d1 with
            | None => SErr
            | Some (hs, vs) =>
                let body := skipn hs d1 in
                let consumed := 1 + Z.of_nat hs + Z.max 0 vs in
                let raw := takeZ consumed d in
                let whole := vs <=? lenZ body in
                if (maxd <=? depth)%nat then SErr            (* self.depth >= self.max_depth *)
                else
                  let depth1 := S depth in                   (* self.depth += 1 *)
                  if leak && (vs <=? 0)
                  then SOk (if ty =? 6 then ESeq [] else EAlt []) consumed raw
                           (whole && var_canon idx vs && (0 =? vs)) depth1    (* early return, counter not restored *)
                  else
                  match (fix slist (fuel : nat) (depth : nat) (d : list Z) (budget : Z) : slresult :=
                           if budget <=? 0 then SLOk [] 0 true depth
                           else match fuel with
                                | O => SLFuel
                                | S k' =>
                                    match sparse_next leak k maxd depth d with
                                    | SOk e c _ cn dep' =>
                                        if budget - c <? 0 then SLErr
                                        else match slist k' dep' (dropZ c d) (budget - c) with
                                             | SLOk l used cn' dep'' => SLOk (e :: l) (c + used) (cn && cn') dep''
                                             | SLErr => SLErr
                                             | SLFuel => SLFuel
                                             end
                                    | SErr => SLErr
                                    | SFuel => SLFuel
                                    end
                                end) k depth1 body vs with
                  | SLOk l used cn dep' =>
                      SOk (if ty =? 6 then ESeq l else EAlt l) consumed raw
                          (whole && var_canon idx vs && cn && (used =? vs)) (Nat.pred dep')   (* self.depth -= 1 *)
                  | SLErr => SErr
                  | SLFuel => SFuel
                  end
            end
          else lift_leaf (parse_next 1 0 d) depth
      end
  end.

(* the list loop as a top-level function *)
Fixpoint slist (leak : bool) (pn maxd : nat) (fuel : nat) (depth : nat) (d : list Z) (budget : Z) : slresult :=
  if budget <=? 0 then SLOk [] 0 true depth
  else match fuel with
       | O => SLFuel
       | S k' =>
           match sparse_next leak pn maxd depth d with
           | SOk e c _ cn dep' =>
               if budget - c <? 0 then SLErr
               else match slist leak pn maxd k' dep' (dropZ c d) (budget - c) with
                    | SLOk l used cn' dep'' => SLOk (e :: l) (c + used) (cn && cn') dep''
                    | SLErr => SLErr
                    | SLFuel => SLFuel
                    end
           | SErr => SLErr
           | SFuel => SLFuel
           end
       end.

(* DataElementParser(data).parse_next() on a fresh parser (depth 0) *)
Definition sfrom_bytes (leak : bool) (maxd : nat) (d : list Z) : sresult := sparse_next leak (S (length d)) maxd 0 d.

Definition erase (r : sresult) : presult :=
  match r with SOk e c raw cn _ => POk e c raw cn | SErr => PErr | SFuel => PFuel end.
Definition inject (r : presult) (depth : nat) : sresult := lift_leaf r depth.
Definition injectl (r : lresult) (depth : nat) : slresult :=
  match r with LOk l used cn => SLOk l used cn depth | LErr => SLErr | LFuel => SLFuel end.

(* observable for the harness: (1 ok / 0 raises / 2 fuel, signature, consumed, digest, depth after) *)
Definition sresult_sig (r : sresult) : Z * list Z * Z * (Z * Z) * Z :=
  match r with
  | SOk e c raw _ dep => (1, elem_sig e, c, dg raw, Z.of_nat dep)
  | SErr => (0, [], 0, (0, 0), 0)
  | SFuel => (2, [], 0, (0, 0), 0)
  end.
