(* The reading of the source that Model/AttServer.v was written from: the normalised code (docstrings,
   logging, annotations, comments and layout removed) of every modelled function, FROZEN.  Each model
   definition names the function it renders; Props/C10.v and Props/C11.v compare this text, inside the
   kernel, with coq/Gen/C10Skeleton.v regenerated from the current tree on every run, so that any edit
   of a size constant, comparison, loop exit, await position, error code or response in these functions
   breaks a proof obligation whether or not a generated input exercises it.  When the source changes
   legitimately: re-read the function, update the model and the proofs, then refresh this file with
   `python -m translate.c10_skeleton --snapshot`.  No proofs here. *)
From Coq Require Import String List Bool.
From BV Require Import Gen.C10Skeleton.
Import ListNotations.
Local Open Scope string_scope.

(* Device.on_gatt_pdu *)
Definition m_Device_on_gatt_pdu : list string := [
  "@with_connection_from_handle";
  "def on_gatt_pdu(self, connection, pdu):";
  "    try:";
  "        att_pdu = att.ATT_PDU.from_bytes(pdu)";
  "    except Exception:";
  "        if pdu and (not pdu[0] & 1) and (connection.gatt_server is not None):";
  "            connection.gatt_server.on_invalid_gatt_pdu(connection, pdu)";
  "            return";
  "        raise";
  "    if att_pdu.op_code & 1:";
  "        if connection.gatt_client is None:";
  "            return";
  "        connection.gatt_client.on_gatt_pdu(att_pdu)";
  "    else:";
  "        if connection.gatt_server is None:";
  "            return";
  "        connection.gatt_server.on_gatt_pdu(connection, att_pdu)"
].

(* _att_request_handler *)
Definition m_att_request_handler : list string := [
  "def _att_request_handler(handler):";
  "    @functools.wraps(handler)";
  "    async def guarded(self, bearer, request):";
  "        try:";
  "            await handler(self, bearer, request)";
  "        except att.ATT_Error as error:";
  "            response = att.ATT_Error_Response(request_opcode_in_error=request.op_code, attribute_handle_in_error=error.att_handle, error_code=error.error_code)";
  "            self.send_response(bearer, response)";
  "        except Exception:";
  "            response = att.ATT_Error_Response(request_opcode_in_error=request.op_code, attribute_handle_in_error=0, error_code=att.ATT_UNLIKELY_ERROR_ERROR)";
  "            self.send_response(bearer, response)";
  "    return utils.AsyncRunner.run_in_task()(guarded)"
].

(* Server.register_eatt *)
Definition m_Server_register_eatt : list string := [
  "def register_eatt(self, spec=None):";
  "    def on_channel(channel):";
  "        channel.once(channel.EVENT_CLOSE, lambda: self.on_disconnection(channel))";
  "        def on_pdu(pdu):";
  "            try:";
  "                att_pdu = att.ATT_PDU.from_bytes(pdu)";
  "            except Exception:";
  "                self.on_invalid_gatt_pdu(channel, pdu)";
  "                return";
  "            self.on_gatt_pdu(channel, att_pdu)";
  "        channel.sink = on_pdu";
  "    return self.device.create_l2cap_server(spec or l2cap.LeCreditBasedChannelSpec(psm=att.EATT_PSM), handler=on_channel)"
].

(* Server.send_gatt_pdu *)
Definition m_Server_send_gatt_pdu : list string := [
  "def send_gatt_pdu(self, bearer, pdu):";
  "    if att.is_enhanced_bearer(bearer):";
  "        bearer.write(pdu)";
  "    else:";
  "        self.device.send_l2cap_pdu(bearer.handle, att.ATT_CID, pdu)"
].

(* Server.get_attribute *)
Definition m_Server_get_attribute : list string := [
  "def get_attribute(self, handle):";
  "    attribute = self.attributes_by_handle.get(handle)";
  "    if attribute:";
  "        return attribute";
  "    for attribute in self.attributes:";
  "        if attribute.handle == handle:";
  "            self.attributes_by_handle[handle] = attribute";
  "            return attribute";
  "    return None"
].

(* Server.read_cccd *)
Definition m_Server_read_cccd : list string := [
  "def read_cccd(self, bearer, characteristic):";
  "    subscribers = self.subscribers.get(bearer)";
  "    cccd = None";
  "    if subscribers:";
  "        cccd = subscribers.get(characteristic.handle)";
  "    return cccd or bytes([0, 0])"
].

(* Server.write_cccd *)
Definition m_Server_write_cccd : list string := [
  "def write_cccd(self, bearer, characteristic, value):";
  "    if len(value) != 2:";
  "        return";
  "    if att.is_enhanced_bearer(bearer):";
  "        bearer_is_open = bearer.state == bearer.State.CONNECTED";
  "    else:";
  "        bearer_is_open = self.device.lookup_connection(bearer.handle) is bearer";
  "    if not bearer_is_open:";
  "        return";
  "    cccds = self.subscribers.setdefault(bearer, {})";
  "    cccds[characteristic.handle] = value";
  "    notify_enabled = value[0] & 1 != 0";
  "    indicate_enabled = value[0] & 2 != 0";
  "    characteristic.emit(characteristic.EVENT_SUBSCRIPTION, bearer, notify_enabled, indicate_enabled)";
  "    self.emit(self.EVENT_CHARACTERISTIC_SUBSCRIPTION, bearer, characteristic, notify_enabled, indicate_enabled)"
].

(* Server.send_response *)
Definition m_Server_send_response : list string := [
  "def send_response(self, bearer, response):";
  "    self.send_gatt_pdu(bearer, bytes(response))"
].

(* Server._notify_single_subscriber *)
Definition m_Server_notify_single_subscriber : list string := [
  "async def _notify_single_subscriber(self, bearer, attribute, value, force):";
  "    if not force:";
  "        subscribers = self.subscribers.get(bearer)";
  "        if not subscribers:";
  "            return";
  "        cccd = subscribers.get(attribute.handle)";
  "        if not cccd:";
  "            return";
  "        if len(cccd) != 2 or cccd[0] & 1 == 0:";
  "            return";
  "    value_as_bytes = await attribute.read_value(bearer) if value is None else attribute.encode_value(value)";
  "    if len(value_as_bytes) > bearer.att_mtu - 3:";
  "        value_as_bytes = value_as_bytes[:bearer.att_mtu - 3]";
  "    notification = att.ATT_Handle_Value_Notification(attribute_handle=attribute.handle, attribute_value=value_as_bytes)";
  "    self.send_gatt_pdu(bearer, bytes(notification))"
].

(* Server._indicate_single_bearer *)
Definition m_Server_indicate_single_bearer : list string := [
  "async def _indicate_single_bearer(self, bearer, attribute, value, force):";
  "    if not force:";
  "        subscribers = self.subscribers.get(bearer)";
  "        if not subscribers:";
  "            return";
  "        cccd = subscribers.get(attribute.handle)";
  "        if not cccd:";
  "            return";
  "        if len(cccd) != 2 or cccd[0] & 2 == 0:";
  "            return";
  "    value_as_bytes = await attribute.read_value(bearer) if value is None else attribute.encode_value(value)";
  "    if len(value_as_bytes) > bearer.att_mtu - 3:";
  "        value_as_bytes = value_as_bytes[:bearer.att_mtu - 3]";
  "    indication = att.ATT_Handle_Value_Indication(attribute_handle=attribute.handle, attribute_value=value_as_bytes)";
  "    async with self.indication_semaphores[bearer]:";
  "        assert self.pending_confirmations[bearer] is None";
  "        pending_confirmation = self.pending_confirmations[bearer] = asyncio.get_running_loop().create_future()";
  "        try:";
  "            self.send_gatt_pdu(bearer, bytes(indication))";
  "            await asyncio.wait_for(pending_confirmation, GATT_REQUEST_TIMEOUT)";
  "        except asyncio.TimeoutError as error:";
  "            raise TimeoutError(f'GATT timeout for {indication.name}') from error";
  "        finally:";
  "            self.pending_confirmations.pop(bearer, None)"
].

(* Server.on_disconnection *)
Definition m_Server_on_disconnection : list string := [
  "def on_disconnection(self, bearer):";
  "    self.subscribers.pop(bearer, None)";
  "    self.indication_semaphores.pop(bearer, None)";
  "    self.pending_confirmations.pop(bearer, None)"
].

(* Server.on_invalid_gatt_pdu *)
Definition m_Server_on_invalid_gatt_pdu : list string := [
  "def on_invalid_gatt_pdu(self, bearer, pdu):";
  "    if pdu and pdu[0] in att.ATT_REQUESTS:";
  "        response = att.ATT_Error_Response(request_opcode_in_error=pdu[0], attribute_handle_in_error=0, error_code=att.ATT_INVALID_PDU_ERROR)";
  "        self.send_response(bearer, response)"
].

(* Server.on_gatt_pdu *)
Definition m_Server_on_gatt_pdu : list string := [
  "def on_gatt_pdu(self, bearer, att_pdu):";
  "    handler_name = f'on_{att_pdu.name.lower()}'";
  "    handler = getattr(self, handler_name, None)";
  "    if handler is not None:";
  "        try:";
  "            handler(bearer, att_pdu)";
  "        except att.ATT_Error as error:";
  "            response = att.ATT_Error_Response(request_opcode_in_error=att_pdu.op_code, attribute_handle_in_error=error.att_handle, error_code=error.error_code)";
  "            self.send_response(bearer, response)";
  "        except Exception:";
  "            response = att.ATT_Error_Response(request_opcode_in_error=att_pdu.op_code, attribute_handle_in_error=0, error_code=att.ATT_UNLIKELY_ERROR_ERROR)";
  "            self.send_response(bearer, response)";
  "            raise";
  "    elif att_pdu.op_code in att.ATT_REQUESTS:";
  "        self.on_att_request(bearer, att_pdu)"
].

(* Server.on_att_request *)
Definition m_Server_on_att_request : list string := [
  "def on_att_request(self, bearer, pdu):";
  "    response = att.ATT_Error_Response(request_opcode_in_error=pdu.op_code, attribute_handle_in_error=0, error_code=att.ATT_REQUEST_NOT_SUPPORTED_ERROR)";
  "    self.send_response(bearer, response)"
].

(* Server.on_att_exchange_mtu_request *)
Definition m_Server_on_att_exchange_mtu_request : list string := [
  "def on_att_exchange_mtu_request(self, bearer, request):";
  "    if att.is_enhanced_bearer(bearer):";
  "        self.on_att_request(bearer, request)";
  "        return";
  "    self.send_response(bearer, att.ATT_Exchange_MTU_Response(server_rx_mtu=self.max_mtu))";
  "    if request.client_rx_mtu >= att.ATT_DEFAULT_MTU:";
  "        mtu = min(self.max_mtu, request.client_rx_mtu)";
  "        bearer.on_att_mtu_update(mtu)"
].

(* Server.on_att_find_information_request *)
Definition m_Server_on_att_find_information_request : list string := [
  "def on_att_find_information_request(self, bearer, request):";
  "    if request.starting_handle == 0 or request.starting_handle > request.ending_handle:";
  "        self.send_response(bearer, att.ATT_Error_Response(request_opcode_in_error=request.op_code, attribute_handle_in_error=request.starting_handle, error_code=att.ATT_INVALID_HANDLE_ERROR))";
  "        return";
  "    pdu_space_available = bearer.att_mtu - 2";
  "    attributes = []";
  "    uuid_size = 0";
  "    for attribute in (attribute for attribute in self.attributes if attribute.handle >= request.starting_handle and attribute.handle <= request.ending_handle):";
  "        this_uuid_size = len(attribute.type.to_pdu_bytes())";
  "        if attributes:";
  "            if this_uuid_size != uuid_size:";
  "                break";
  "        uuid_size = this_uuid_size";
  "        if pdu_space_available < 2 + uuid_size:";
  "            break";
  "        attributes.append(attribute)";
  "        pdu_space_available -= 2 + uuid_size";
  "    if attributes:";
  "        information_data_list = [struct.pack('<H', attribute.handle) + attribute.type.to_pdu_bytes() for attribute in attributes]";
  "        response = att.ATT_Find_Information_Response(format=1 if len(attributes[0].type.to_pdu_bytes()) == 2 else 2, information_data=b''.join(information_data_list))";
  "    else:";
  "        response = att.ATT_Error_Response(request_opcode_in_error=request.op_code, attribute_handle_in_error=request.starting_handle, error_code=att.ATT_ATTRIBUTE_NOT_FOUND_ERROR)";
  "    self.send_response(bearer, response)"
].

(* Server.on_att_find_by_type_value_request *)
Definition m_Server_on_att_find_by_type_value_request : list string := [
  "@_att_request_handler";
  "async def on_att_find_by_type_value_request(self, bearer, request):";
  "    async def value_matches(attribute):";
  "        try:";
  "            return await attribute.read_value(bearer) == request.attribute_value";
  "        except att.ATT_Error:";
  "            return False";
  "    pdu_space_available = bearer.att_mtu - 2";
  "    attributes = []";
  "    async for attribute in (attribute for attribute in self.attributes if attribute.handle >= request.starting_handle and attribute.handle <= request.ending_handle and (attribute.type == request.attribute_type) and await value_matches(attribute) and (pdu_space_available >= 4)):";
  "        attributes.append(attribute)";
  "        pdu_space_available -= 4";
  "    if attributes:";
  "        handles_information_list = []";
  "        for attribute in attributes:";
  "            if attribute.type in (GATT_PRIMARY_SERVICE_ATTRIBUTE_TYPE, GATT_SECONDARY_SERVICE_ATTRIBUTE_TYPE, GATT_CHARACTERISTIC_ATTRIBUTE_TYPE):";
  "                group_end_handle = attribute.end_group_handle";
  "            else:";
  "                group_end_handle = attribute.handle";
  "            handles_information_list.append(struct.pack('<HH', attribute.handle, group_end_handle))";
  "        response = att.ATT_Find_By_Type_Value_Response(handles_information_list=b''.join(handles_information_list))";
  "    else:";
  "        response = att.ATT_Error_Response(request_opcode_in_error=request.op_code, attribute_handle_in_error=request.starting_handle, error_code=att.ATT_ATTRIBUTE_NOT_FOUND_ERROR)";
  "    self.send_response(bearer, response)"
].

(* Server.on_att_read_by_type_request *)
Definition m_Server_on_att_read_by_type_request : list string := [
  "@_att_request_handler";
  "async def on_att_read_by_type_request(self, bearer, request):";
  "    pdu_space_available = bearer.att_mtu - 2";
  "    response = att.ATT_Error_Response(request_opcode_in_error=request.op_code, attribute_handle_in_error=request.starting_handle, error_code=att.ATT_ATTRIBUTE_NOT_FOUND_ERROR)";
  "    if request.starting_handle == 0 or request.starting_handle > request.ending_handle:";
  "        response = att.ATT_Error_Response(request_opcode_in_error=request.op_code, attribute_handle_in_error=request.starting_handle, error_code=att.ATT_INVALID_HANDLE_ERROR)";
  "        self.send_response(bearer, response)";
  "        return";
  "    attributes = []";
  "    for attribute in (attribute for attribute in self.attributes if attribute.type == request.attribute_type and attribute.handle >= request.starting_handle and (attribute.handle <= request.ending_handle) and pdu_space_available):";
  "        try:";
  "            attribute_value = await attribute.read_value(bearer)";
  "        except att.ATT_Error as error:";
  "            if not attributes:";
  "                response = att.ATT_Error_Response(request_opcode_in_error=request.op_code, attribute_handle_in_error=attribute.handle, error_code=error.error_code)";
  "            break";
  "        max_attribute_size = min(bearer.att_mtu - 4, 253)";
  "        if len(attribute_value) > max_attribute_size:";
  "            attribute_value = attribute_value[:max_attribute_size]";
  "        if attributes and len(attributes[0][1]) != len(attribute_value):";
  "            break";
  "        entry_size = 2 + len(attribute_value)";
  "        if pdu_space_available < entry_size:";
  "            break";
  "        attributes.append((attribute.handle, attribute_value))";
  "        pdu_space_available -= entry_size";
  "    if attributes:";
  "        attribute_data_list = [struct.pack('<H', handle) + value for handle, value in attributes]";
  "        response = att.ATT_Read_By_Type_Response(length=entry_size, attribute_data_list=b''.join(attribute_data_list))";
  "    self.send_response(bearer, response)"
].

(* Server.on_att_read_request *)
Definition m_Server_on_att_read_request : list string := [
  "@_att_request_handler";
  "async def on_att_read_request(self, bearer, request):";
  "    if (attribute := self.get_attribute(request.attribute_handle)):";
  "        try:";
  "            value = await attribute.read_value(bearer)";
  "        except att.ATT_Error as error:";
  "            response = att.ATT_Error_Response(request_opcode_in_error=request.op_code, attribute_handle_in_error=request.attribute_handle, error_code=error.error_code)";
  "        else:";
  "            value_size = min(bearer.att_mtu - 1, len(value))";
  "            response = att.ATT_Read_Response(attribute_value=value[:value_size])";
  "    else:";
  "        response = att.ATT_Error_Response(request_opcode_in_error=request.op_code, attribute_handle_in_error=request.attribute_handle, error_code=att.ATT_INVALID_HANDLE_ERROR)";
  "    self.send_response(bearer, response)"
].

(* Server.on_att_read_blob_request *)
Definition m_Server_on_att_read_blob_request : list string := [
  "@_att_request_handler";
  "async def on_att_read_blob_request(self, bearer, request):";
  "    if (attribute := self.get_attribute(request.attribute_handle)):";
  "        try:";
  "            value = await attribute.read_value(bearer)";
  "        except att.ATT_Error as error:";
  "            response = att.ATT_Error_Response(request_opcode_in_error=request.op_code, attribute_handle_in_error=request.attribute_handle, error_code=error.error_code)";
  "        else:";
  "            if request.value_offset > len(value):";
  "                response = att.ATT_Error_Response(request_opcode_in_error=request.op_code, attribute_handle_in_error=request.attribute_handle, error_code=att.ATT_INVALID_OFFSET_ERROR)";
  "            elif request.value_offset == 0 and len(value) <= bearer.att_mtu - 1:";
  "                response = att.ATT_Error_Response(request_opcode_in_error=request.op_code, attribute_handle_in_error=request.attribute_handle, error_code=att.ATT_ATTRIBUTE_NOT_LONG_ERROR)";
  "            else:";
  "                part_size = min(bearer.att_mtu - 1, len(value) - request.value_offset)";
  "                response = att.ATT_Read_Blob_Response(part_attribute_value=value[request.value_offset:request.value_offset + part_size])";
  "    else:";
  "        response = att.ATT_Error_Response(request_opcode_in_error=request.op_code, attribute_handle_in_error=request.attribute_handle, error_code=att.ATT_INVALID_HANDLE_ERROR)";
  "    self.send_response(bearer, response)"
].

(* Server.on_att_read_by_group_type_request *)
Definition m_Server_on_att_read_by_group_type_request : list string := [
  "@_att_request_handler";
  "async def on_att_read_by_group_type_request(self, bearer, request):";
  "    if request.attribute_group_type not in (GATT_PRIMARY_SERVICE_ATTRIBUTE_TYPE, GATT_SECONDARY_SERVICE_ATTRIBUTE_TYPE):";
  "        response = att.ATT_Error_Response(request_opcode_in_error=request.op_code, attribute_handle_in_error=request.starting_handle, error_code=att.ATT_UNSUPPORTED_GROUP_TYPE_ERROR)";
  "        self.send_response(bearer, response)";
  "        return";
  "    pdu_space_available = bearer.att_mtu - 2";
  "    attributes = []";
  "    response = att.ATT_Error_Response(request_opcode_in_error=request.op_code, attribute_handle_in_error=request.starting_handle, error_code=att.ATT_ATTRIBUTE_NOT_FOUND_ERROR)";
  "    for attribute in (attribute for attribute in self.attributes if attribute.type == request.attribute_group_type and attribute.handle >= request.starting_handle and (attribute.handle <= request.ending_handle) and pdu_space_available):";
  "        try:";
  "            attribute_value = await attribute.read_value(bearer)";
  "        except att.ATT_Error as error:";
  "            if not attributes:";
  "                response = att.ATT_Error_Response(request_opcode_in_error=request.op_code, attribute_handle_in_error=attribute.handle, error_code=error.error_code)";
  "            break";
  "        max_attribute_size = min(bearer.att_mtu - 6, 251)";
  "        if len(attribute_value) > max_attribute_size:";
  "            attribute_value = attribute_value[:max_attribute_size]";
  "        if attributes and len(attributes[0][2]) != len(attribute_value):";
  "            break";
  "        entry_size = 4 + len(attribute_value)";
  "        if pdu_space_available < entry_size:";
  "            break";
  "        attributes.append((attribute.handle, attribute.end_group_handle, attribute_value))";
  "        pdu_space_available -= entry_size";
  "    if attributes:";
  "        attribute_data_list = [struct.pack('<HH', handle, end_group_handle) + value for handle, end_group_handle, value in attributes]";
  "        response = att.ATT_Read_By_Group_Type_Response(length=len(attribute_data_list[0]), attribute_data_list=b''.join(attribute_data_list))";
  "    self.send_response(bearer, response)"
].

(* Server.on_att_read_multiple_request *)
Definition m_Server_on_att_read_multiple_request : list string := [
  "@_att_request_handler";
  "async def on_att_read_multiple_request(self, bearer, request):";
  "    pdu_space_available = bearer.att_mtu - 1";
  "    values = []";
  "    for handle in request.set_of_handles:";
  "        if not (attribute := self.get_attribute(handle)):";
  "            response = att.ATT_Error_Response(request_opcode_in_error=request.op_code, attribute_handle_in_error=handle, error_code=att.ATT_ATTRIBUTE_NOT_FOUND_ERROR)";
  "            self.send_response(bearer, response)";
  "            return";
  "        try:";
  "            attribute_value = await attribute.read_value(bearer)";
  "        except att.ATT_Error as error:";
  "            response = att.ATT_Error_Response(request_opcode_in_error=request.op_code, attribute_handle_in_error=handle, error_code=error.error_code)";
  "            self.send_response(bearer, response)";
  "            return";
  "        max_attribute_size = min(bearer.att_mtu - 1, 251)";
  "        if len(attribute_value) > max_attribute_size:";
  "            attribute_value = attribute_value[:max_attribute_size]";
  "        entry_size = len(attribute_value)";
  "        if pdu_space_available < entry_size:";
  "            break";
  "        values.append(attribute_value)";
  "        pdu_space_available -= entry_size";
  "    response = att.ATT_Read_Multiple_Response(set_of_values=b''.join(values))";
  "    self.send_response(bearer, response)"
].

(* Server.on_att_read_multiple_variable_request *)
Definition m_Server_on_att_read_multiple_variable_request : list string := [
  "@_att_request_handler";
  "async def on_att_read_multiple_variable_request(self, bearer, request):";
  "    pdu_space_available = bearer.att_mtu - 1";
  "    length_value_tuple_list = []";
  "    for handle in request.set_of_handles:";
  "        if not (attribute := self.get_attribute(handle)):";
  "            response = att.ATT_Error_Response(request_opcode_in_error=request.op_code, attribute_handle_in_error=handle, error_code=att.ATT_ATTRIBUTE_NOT_FOUND_ERROR)";
  "            self.send_response(bearer, response)";
  "            return";
  "        try:";
  "            attribute_value = await attribute.read_value(bearer)";
  "        except att.ATT_Error as error:";
  "            response = att.ATT_Error_Response(request_opcode_in_error=request.op_code, attribute_handle_in_error=handle, error_code=error.error_code)";
  "            self.send_response(bearer, response)";
  "            return";
  "        length = len(attribute_value)";
  "        max_attribute_size = min(pdu_space_available - 2, 251)";
  "        if len(attribute_value) > max_attribute_size:";
  "            attribute_value = attribute_value[:max_attribute_size]";
  "        entry_size = 2 + len(attribute_value)";
  "        length_value_tuple_list.append((length, attribute_value))";
  "        pdu_space_available -= entry_size";
  "        if pdu_space_available < 2:";
  "            break";
  "    response = att.ATT_Read_Multiple_Variable_Response(length_value_tuple_list=length_value_tuple_list)";
  "    self.send_response(bearer, response)"
].

(* Server.on_att_write_request *)
Definition m_Server_on_att_write_request : list string := [
  "@_att_request_handler";
  "async def on_att_write_request(self, bearer, request):";
  "    attribute = self.get_attribute(request.attribute_handle)";
  "    if attribute is None:";
  "        self.send_response(bearer, att.ATT_Error_Response(request_opcode_in_error=request.op_code, attribute_handle_in_error=request.attribute_handle, error_code=att.ATT_INVALID_HANDLE_ERROR))";
  "        return";
  "    if len(request.attribute_value) > GATT_MAX_ATTRIBUTE_VALUE_SIZE:";
  "        self.send_response(bearer, att.ATT_Error_Response(request_opcode_in_error=request.op_code, attribute_handle_in_error=request.attribute_handle, error_code=att.ATT_INVALID_ATTRIBUTE_LENGTH_ERROR))";
  "        return";
  "    try:";
  "        await attribute.write_value(bearer, request.attribute_value)";
  "    except att.ATT_Error as error:";
  "        response = att.ATT_Error_Response(request_opcode_in_error=request.op_code, attribute_handle_in_error=request.attribute_handle, error_code=error.error_code)";
  "    else:";
  "        response = att.ATT_Write_Response()";
  "    self.send_response(bearer, response)"
].

(* Server.on_att_write_command *)
Definition m_Server_on_att_write_command : list string := [
  "@utils.AsyncRunner.run_in_task()";
  "async def on_att_write_command(self, bearer, request):";
  "    attribute = self.get_attribute(request.attribute_handle)";
  "    if attribute is None:";
  "        return";
  "    if len(request.attribute_value) > GATT_MAX_ATTRIBUTE_VALUE_SIZE:";
  "        return";
  "    try:";
  "        await attribute.write_value(bearer, request.attribute_value)";
  "    except Exception:";
  "        pass"
].

(* Server.on_att_handle_value_confirmation *)
Definition m_Server_on_att_handle_value_confirmation : list string := [
  "def on_att_handle_value_confirmation(self, bearer, confirmation):";
  "    pending_confirmation = self.pending_confirmations[bearer]";
  "    if pending_confirmation is None or pending_confirmation.done():";
  "        return";
  "    pending_confirmation.set_result(None)"
].

(* LeCreditBasedChannel.__init__ *)
Definition m_LeCreditBasedChannel__init : list string := [
  "def __init__(self, manager, connection, psm, source_cid, destination_cid, mtu, mps, credits, peer_mtu, peer_mps, peer_credits, connected):";
  "    super().__init__()";
  "    self.manager = manager";
  "    self.connection = connection";
  "    self.psm = psm";
  "    self.source_cid = source_cid";
  "    self.destination_cid = destination_cid";
  "    self.mtu = mtu";
  "    self.mps = mps";
  "    self.credits = credits";
  "    self.peer_mtu = peer_mtu";
  "    self.peer_mps = peer_mps";
  "    self.peer_credits = peer_credits";
  "    self.peer_max_credits = self.peer_credits";
  "    self.peer_credits_threshold = self.peer_max_credits // 2";
  "    self.in_sdu = None";
  "    self.in_sdu_length = 0";
  "    self.out_queue = deque()";
  "    self.out_sdu = None";
  "    self.sink = None";
  "    self.connected = False";
  "    self.connection_result = None";
  "    self.disconnection_result = None";
  "    self.drained = asyncio.Event()";
  "    self.att_mtu = min(mtu, peer_mtu)";
  "    self.drained.set()";
  "    if connected:";
  "        self.state = self.State.CONNECTED";
  "    else:";
  "        self.state = self.State.INIT"
].

(* LeCreditBasedChannel.on_connection_response *)
Definition m_LeCreditBasedChannel_on_connection_response : list string := [
  "def on_connection_response(self, response):";
  "    if self.connection_result is None:";
  "        return";
  "    result = response.result";
  "    if result == L2CAP_LE_Credit_Based_Connection_Response.Result.CONNECTION_SUCCESSFUL and (not _credit_based_parameters_acceptable(response.mtu, response.mps)):";
  "        result = L2CAP_LE_Credit_Based_Connection_Response.Result.CONNECTION_REFUSED_UNACCEPTABLE_PARAMETERS";
  "    if result == L2CAP_LE_Credit_Based_Connection_Response.Result.CONNECTION_SUCCESSFUL:";
  "        self.destination_cid = response.destination_cid";
  "        self.peer_mtu = response.mtu";
  "        self.peer_mps = response.mps";
  "        self.credits = response.initial_credits";
  "        self.connected = True";
  "        self.connection_result.set_result(self)";
  "        self._change_state(self.State.CONNECTED)";
  "    else:";
  "        self.connection_result.set_exception(L2capError(result, L2CAP_LE_Credit_Based_Connection_Response.Result(result).name))";
  "        self._change_state(self.State.CONNECTION_ERROR)";
  "    self.connection_result = None"
].

(* LeCreditBasedChannel.on_enhanced_connection_response *)
Definition m_LeCreditBasedChannel_on_enhanced_connection_response : list string := [
  "def on_enhanced_connection_response(self, destination_cid, response):";
  "    if response.result == L2CAP_Credit_Based_Connection_Response.Result.ALL_CONNECTIONS_SUCCESSFUL:";
  "        self.destination_cid = destination_cid";
  "        self.peer_mtu = response.mtu";
  "        self.peer_mps = response.mps";
  "        self.credits = response.initial_credits";
  "        self.connected = True";
  "        self._change_state(self.State.CONNECTED)";
  "    else:";
  "        self._change_state(self.State.CONNECTION_ERROR)"
].

(* LeCreditBasedChannel.on_att_mtu_update *)
Definition m_LeCreditBasedChannel_on_att_mtu_update : list string := [
  "def on_att_mtu_update(self, mtu):";
  "    self.att_mtu = mtu";
  "    self.emit(self.EVENT_ATT_MTU_UPDATE, mtu)"
].

(* LeCreditBasedChannel.write *)
Definition m_LeCreditBasedChannel_write : list string := [
  "def write(self, data):";
  "    if self.state != self.State.CONNECTED:";
  "        return";
  "    self.out_queue.append(data)";
  "    self.drained.clear()";
  "    self.process_output()"
].

(* LeCreditBasedChannel.process_output *)
Definition m_LeCreditBasedChannel_process_output : list string := [
  "def process_output(self):";
  "    while self.credits > 0:";
  "        if self.out_sdu is not None:";
  "            packet = self.out_sdu[:self.peer_mps]";
  "            self.send_pdu(packet)";
  "            self.credits -= 1";
  "            if len(packet) == len(self.out_sdu):";
  "                self.out_sdu = None";
  "            else:";
  "                self.out_sdu = self.out_sdu[len(packet):]";
  "            continue";
  "        if self.out_queue:";
  "            payload = b''";
  "            while self.out_queue and len(payload) < self.peer_mtu:";
  "                chunk = self.out_queue[0][:self.peer_mtu - len(payload)]";
  "                payload += chunk";
  "                self.out_queue[0] = self.out_queue[0][len(chunk):]";
  "                if len(self.out_queue[0]) == 0:";
  "                    self.out_queue.popleft()";
  "            assert len(payload) != 0";
  "            self.out_sdu = struct.pack('<H', len(payload)) + payload";
  "        else:";
  "            self.drained.set()";
  "            return"
].

(* ChannelManager.on_l2cap_le_credit_based_connection_request *)
Definition m_ChannelManager_on_l2cap_le_credit_based_connection_request : list string := [
  "def on_l2cap_le_credit_based_connection_request(self, connection, cid, request):";
  "    if not (server := self.le_coc_servers.get(request.le_psm)):";
  "        self.send_control_frame(connection, cid, L2CAP_LE_Credit_Based_Connection_Response(identifier=request.identifier, destination_cid=0, mtu=L2CAP_LE_CREDIT_BASED_CONNECTION_DEFAULT_MTU, mps=L2CAP_LE_CREDIT_BASED_CONNECTION_DEFAULT_MPS, initial_credits=0, result=L2CAP_LE_Credit_Based_Connection_Response.Result.CONNECTION_REFUSED_LE_PSM_NOT_SUPPORTED))";
  "        return";
  "    if request.mtu < L2CAP_LE_CREDIT_BASED_CONNECTION_MIN_MTU or request.mps < L2CAP_LE_CREDIT_BASED_CONNECTION_MIN_MPS or request.mps > L2CAP_LE_CREDIT_BASED_CONNECTION_MAX_MPS:";
  "        self.send_control_frame(connection, cid, L2CAP_LE_Credit_Based_Connection_Response(identifier=request.identifier, destination_cid=0, mtu=server.mtu, mps=server.mps, initial_credits=0, result=L2CAP_LE_Credit_Based_Connection_Response.Result.CONNECTION_REFUSED_UNACCEPTABLE_PARAMETERS))";
  "        return";
  "    le_connection_channels = self.le_coc_channels.setdefault(connection.handle, {})";
  "    if request.source_cid in le_connection_channels:";
  "        self.send_control_frame(connection, cid, L2CAP_LE_Credit_Based_Connection_Response(identifier=request.identifier, destination_cid=0, mtu=server.mtu, mps=server.mps, initial_credits=0, result=L2CAP_LE_Credit_Based_Connection_Response.Result.CONNECTION_REFUSED_SOURCE_CID_ALREADY_ALLOCATED))";
  "        return";
  "    connection_channels = self.channels.setdefault(connection.handle, {})";
  "    source_cid = self.find_free_le_cid(connection_channels)";
  "    if source_cid is None:";
  "        self.send_control_frame(connection, cid, L2CAP_LE_Credit_Based_Connection_Response(identifier=request.identifier, destination_cid=0, mtu=server.mtu, mps=server.mps, initial_credits=0, result=L2CAP_LE_Credit_Based_Connection_Response.Result.CONNECTION_REFUSED_NO_RESOURCES_AVAILABLE))";
  "        return";
  "    channel = LeCreditBasedChannel(self, connection, request.le_psm, source_cid, request.source_cid, server.mtu, server.mps, request.initial_credits, request.mtu, request.mps, server.max_credits, True)";
  "    connection_channels[source_cid] = channel";
  "    le_connection_channels[request.source_cid] = channel";
  "    self.send_control_frame(connection, cid, L2CAP_LE_Credit_Based_Connection_Response(identifier=request.identifier, destination_cid=source_cid, mtu=server.mtu, mps=server.mps, initial_credits=server.max_credits, result=L2CAP_LE_Credit_Based_Connection_Response.Result.CONNECTION_SUCCESSFUL))";
  "    server.on_connection(channel)"
].

(* ChannelManager.on_l2cap_credit_based_connection_request *)
Definition m_ChannelManager_on_l2cap_credit_based_connection_request : list string := [
  "def on_l2cap_credit_based_connection_request(self, connection, cid, request):";
  "    if not (server := self.le_coc_servers.get(request.spsm)):";
  "        self.send_control_frame(connection, cid, L2CAP_Credit_Based_Connection_Response(identifier=request.identifier, destination_cid=[], mtu=L2CAP_LE_CREDIT_BASED_CONNECTION_DEFAULT_MTU, mps=L2CAP_LE_CREDIT_BASED_CONNECTION_DEFAULT_MPS, initial_credits=0, result=L2CAP_Credit_Based_Connection_Response.Result.ALL_CONNECTIONS_REFUSED_SPSM_NOT_SUPPORTED))";
  "        return";
  "    if request.mtu < L2CAP_LE_CREDIT_BASED_CONNECTION_MIN_MTU or request.mps < L2CAP_LE_CREDIT_BASED_CONNECTION_MIN_MPS or request.mps > L2CAP_LE_CREDIT_BASED_CONNECTION_MAX_MPS:";
  "        self.send_control_frame(connection, cid, L2CAP_Credit_Based_Connection_Response(identifier=request.identifier, destination_cid=[], mtu=server.mtu, mps=server.mps, initial_credits=0, result=L2CAP_Credit_Based_Connection_Response.Result.ALL_CONNECTIONS_REFUSED_INVALID_PARAMETERS))";
  "        return";
  "    le_connection_channels = self.le_coc_channels.setdefault(connection.handle, {})";
  "    if (cid_in_use := set(request.source_cid).intersection(set(le_connection_channels))):";
  "        self.send_control_frame(connection, cid, L2CAP_Credit_Based_Connection_Response(identifier=request.identifier, mtu=server.mtu, mps=server.mps, initial_credits=0, result=L2CAP_Credit_Based_Connection_Response.Result.SOME_CONNECTIONS_REFUSED_SOURCE_CID_ALREADY_ALLOCATED, destination_cid=[]))";
  "        return";
  "    connection_channels = self.channels.setdefault(connection.handle, {})";
  "    source_cids = self.find_free_le_cids(connection_channels, len(request.source_cid))";
  "    if not source_cids:";
  "        self.send_control_frame(connection, cid, L2CAP_Credit_Based_Connection_Response(identifier=request.identifier, destination_cid=[], mtu=server.mtu, mps=server.mps, initial_credits=server.max_credits, result=L2CAP_Credit_Based_Connection_Response.Result.SOME_CONNECTIONS_REFUSED_INSUFFICIENT_RESOURCES_AVAILABLE))";
  "        return";
  "    for destination_cid in request.source_cid:";
  "        if not (source_cid := self.find_free_le_cid(connection_channels)):";
  "            break";
  "        channel = LeCreditBasedChannel(self, connection, request.spsm, source_cid, destination_cid, server.mtu, server.mps, request.initial_credits, request.mtu, request.mps, server.max_credits, True)";
  "        connection_channels[source_cid] = channel";
  "        le_connection_channels[destination_cid] = channel";
  "        server.on_connection(channel)";
  "    self.send_control_frame(connection, cid, L2CAP_Credit_Based_Connection_Response(identifier=request.identifier, destination_cid=source_cids, mtu=server.mtu, mps=server.mps, initial_credits=server.max_credits, result=L2CAP_Credit_Based_Connection_Response.Result.ALL_CONNECTIONS_SUCCESSFUL))"
].

(* Connection.on_att_mtu_update *)
Definition m_Connection_on_att_mtu_update : list string := [
  "def on_att_mtu_update(self, mtu):";
  "    self.att_mtu = mtu";
  "    self.emit(self.EVENT_CONNECTION_ATT_MTU_UPDATE)"
].

(* ATT_PDU.from_bytes *)
Definition m_ATT_PDU_from_bytes : list string := [
  "@classmethod";
  "def from_bytes(cls, pdu):";
  "    if not pdu:";
  "        raise InvalidPacketError('Empty ATT PDU')";
  "    op_code = pdu[0]";
  "    subclass = ATT_PDU.pdu_classes.get(op_code)";
  "    if subclass is None:";
  "        instance = ATT_PDU()";
  "        instance.op_code = op_code";
  "        instance.payload = pdu[1:]";
  "        instance.name = Opcode(op_code).name";
  "        return instance";
  "    instance = subclass(**HCI_Object.dict_from_bytes(pdu, 1, subclass.fields))";
  "    instance.payload = pdu[1:]";
  "    return instance"
].

(* Attribute.read_value *)
Definition m_Attribute_read_value : list string := [
  "async def read_value(self, bearer):";
  "    connection = bearer.connection if is_enhanced_bearer(bearer) else bearer";
  "    if self.permissions & self.READ_REQUIRES_ENCRYPTION and connection is not None and (not connection.encryption):";
  "        raise ATT_Error(error_code=ATT_INSUFFICIENT_ENCRYPTION_ERROR, att_handle=self.handle)";
  "    if self.permissions & self.READ_REQUIRES_AUTHENTICATION and connection is not None and (not connection.authenticated):";
  "        raise ATT_Error(error_code=ATT_INSUFFICIENT_AUTHENTICATION_ERROR, att_handle=self.handle)";
  "    if self.permissions & self.READ_REQUIRES_AUTHORIZATION:";
  "        raise ATT_Error(error_code=ATT_INSUFFICIENT_AUTHORIZATION_ERROR, att_handle=self.handle)";
  "    match self.value:";
  "        case AttributeValue():";
  "            try:";
  "                read_value = self.value.read(connection)";
  "                if inspect.isawaitable(read_value):";
  "                    value = await read_value";
  "                else:";
  "                    value = read_value";
  "            except ATT_Error as error:";
  "                raise ATT_Error(error_code=error.error_code, att_handle=self.handle) from error";
  "        case AttributeValueV2():";
  "            try:";
  "                read_value = self.value.read(bearer)";
  "                if inspect.isawaitable(read_value):";
  "                    value = await read_value";
  "                else:";
  "                    value = read_value";
  "            except ATT_Error as error:";
  "                raise ATT_Error(error_code=error.error_code, att_handle=self.handle) from error";
  "        case _:";
  "            value = self.value";
  "    self.emit(self.EVENT_READ, connection, b'' if value is None else value)";
  "    return b'' if value is None else self.encode_value(value)"
].

(* Attribute.write_value *)
Definition m_Attribute_write_value : list string := [
  "async def write_value(self, bearer, value):";
  "    connection = bearer.connection if is_enhanced_bearer(bearer) else bearer";
  "    if self.permissions & self.WRITE_REQUIRES_ENCRYPTION and connection is not None and (not connection.encryption):";
  "        raise ATT_Error(error_code=ATT_INSUFFICIENT_ENCRYPTION_ERROR, att_handle=self.handle)";
  "    if self.permissions & self.WRITE_REQUIRES_AUTHENTICATION and connection is not None and (not connection.authenticated):";
  "        raise ATT_Error(error_code=ATT_INSUFFICIENT_AUTHENTICATION_ERROR, att_handle=self.handle)";
  "    if self.permissions & self.WRITE_REQUIRES_AUTHORIZATION:";
  "        raise ATT_Error(error_code=ATT_INSUFFICIENT_AUTHORIZATION_ERROR, att_handle=self.handle)";
  "    decoded_value = self.decode_value(value)";
  "    match self.value:";
  "        case AttributeValue():";
  "            try:";
  "                result = self.value.write(connection, decoded_value)";
  "                if inspect.isawaitable(result):";
  "                    await result";
  "            except ATT_Error as error:";
  "                raise ATT_Error(error_code=error.error_code, att_handle=self.handle) from error";
  "        case AttributeValueV2():";
  "            try:";
  "                result = self.value.write(bearer, decoded_value)";
  "                if inspect.isawaitable(result):";
  "                    await result";
  "            except ATT_Error as error:";
  "                raise ATT_Error(error_code=error.error_code, att_handle=self.handle) from error";
  "        case _:";
  "            self.value = decoded_value";
  "    self.emit(self.EVENT_WRITE, connection, decoded_value)"
].

(* att_mtu sites *)
Definition m_att_mtu_sites : list string := [
  "bumble/l2cap.py: LeCreditBasedChannel.__init__: self.att_mtu = min(mtu, peer_mtu)";
  "bumble/l2cap.py: LeCreditBasedChannel.on_att_mtu_update: self.att_mtu = mtu";
  "bumble/device.py: Connection.__init__: self.att_mtu = att.ATT_DEFAULT_MTU";
  "bumble/device.py: Connection.on_att_mtu_update: self.att_mtu = mtu";
  "bumble/gatt_server.py: Server.on_att_exchange_mtu_request: bearer.on_att_mtu_update(mtu)"
].

(* names of the modelled functions (keys of the skeleton tables) *)
Definition k_Device_on_gatt_pdu : string := "Device.on_gatt_pdu".
Definition k_att_request_handler : string := "_att_request_handler".
Definition k_Server_register_eatt : string := "Server.register_eatt".
Definition k_Server_send_gatt_pdu : string := "Server.send_gatt_pdu".
Definition k_Server_get_attribute : string := "Server.get_attribute".
Definition k_Server_read_cccd : string := "Server.read_cccd".
Definition k_Server_write_cccd : string := "Server.write_cccd".
Definition k_Server_send_response : string := "Server.send_response".
Definition k_Server_notify_single_subscriber : string := "Server._notify_single_subscriber".
Definition k_Server_indicate_single_bearer : string := "Server._indicate_single_bearer".
Definition k_Server_on_disconnection : string := "Server.on_disconnection".
Definition k_Server_on_invalid_gatt_pdu : string := "Server.on_invalid_gatt_pdu".
Definition k_Server_on_gatt_pdu : string := "Server.on_gatt_pdu".
Definition k_Server_on_att_request : string := "Server.on_att_request".
Definition k_Server_on_att_exchange_mtu_request : string := "Server.on_att_exchange_mtu_request".
Definition k_Server_on_att_find_information_request : string := "Server.on_att_find_information_request".
Definition k_Server_on_att_find_by_type_value_request : string := "Server.on_att_find_by_type_value_request".
Definition k_Server_on_att_read_by_type_request : string := "Server.on_att_read_by_type_request".
Definition k_Server_on_att_read_request : string := "Server.on_att_read_request".
Definition k_Server_on_att_read_blob_request : string := "Server.on_att_read_blob_request".
Definition k_Server_on_att_read_by_group_type_request : string := "Server.on_att_read_by_group_type_request".
Definition k_Server_on_att_read_multiple_request : string := "Server.on_att_read_multiple_request".
Definition k_Server_on_att_read_multiple_variable_request : string := "Server.on_att_read_multiple_variable_request".
Definition k_Server_on_att_write_request : string := "Server.on_att_write_request".
Definition k_Server_on_att_write_command : string := "Server.on_att_write_command".
Definition k_Server_on_att_handle_value_confirmation : string := "Server.on_att_handle_value_confirmation".
Definition k_LeCreditBasedChannel__init : string := "LeCreditBasedChannel.__init__".
Definition k_LeCreditBasedChannel_on_connection_response : string := "LeCreditBasedChannel.on_connection_response".
Definition k_LeCreditBasedChannel_on_enhanced_connection_response : string := "LeCreditBasedChannel.on_enhanced_connection_response".
Definition k_LeCreditBasedChannel_on_att_mtu_update : string := "LeCreditBasedChannel.on_att_mtu_update".
Definition k_LeCreditBasedChannel_write : string := "LeCreditBasedChannel.write".
Definition k_LeCreditBasedChannel_process_output : string := "LeCreditBasedChannel.process_output".
Definition k_ChannelManager_on_l2cap_le_credit_based_connection_request : string := "ChannelManager.on_l2cap_le_credit_based_connection_request".
Definition k_ChannelManager_on_l2cap_credit_based_connection_request : string := "ChannelManager.on_l2cap_credit_based_connection_request".
Definition k_Connection_on_att_mtu_update : string := "Connection.on_att_mtu_update".
Definition k_ATT_PDU_from_bytes : string := "ATT_PDU.from_bytes".
Definition k_Attribute_read_value : string := "Attribute.read_value".
Definition k_Attribute_write_value : string := "Attribute.write_value".
Definition k_att_mtu_sites : string := "att_mtu sites".

Definition m_skeleton : list (string * list string) := [
  ("Device.on_gatt_pdu", m_Device_on_gatt_pdu);
  ("_att_request_handler", m_att_request_handler);
  ("Server.register_eatt", m_Server_register_eatt);
  ("Server.send_gatt_pdu", m_Server_send_gatt_pdu);
  ("Server.get_attribute", m_Server_get_attribute);
  ("Server.read_cccd", m_Server_read_cccd);
  ("Server.write_cccd", m_Server_write_cccd);
  ("Server.send_response", m_Server_send_response);
  ("Server._notify_single_subscriber", m_Server_notify_single_subscriber);
  ("Server._indicate_single_bearer", m_Server_indicate_single_bearer);
  ("Server.on_disconnection", m_Server_on_disconnection);
  ("Server.on_invalid_gatt_pdu", m_Server_on_invalid_gatt_pdu);
  ("Server.on_gatt_pdu", m_Server_on_gatt_pdu);
  ("Server.on_att_request", m_Server_on_att_request);
  ("Server.on_att_exchange_mtu_request", m_Server_on_att_exchange_mtu_request);
  ("Server.on_att_find_information_request", m_Server_on_att_find_information_request);
  ("Server.on_att_find_by_type_value_request", m_Server_on_att_find_by_type_value_request);
  ("Server.on_att_read_by_type_request", m_Server_on_att_read_by_type_request);
  ("Server.on_att_read_request", m_Server_on_att_read_request);
  ("Server.on_att_read_blob_request", m_Server_on_att_read_blob_request);
  ("Server.on_att_read_by_group_type_request", m_Server_on_att_read_by_group_type_request);
  ("Server.on_att_read_multiple_request", m_Server_on_att_read_multiple_request);
  ("Server.on_att_read_multiple_variable_request", m_Server_on_att_read_multiple_variable_request);
  ("Server.on_att_write_request", m_Server_on_att_write_request);
  ("Server.on_att_write_command", m_Server_on_att_write_command);
  ("Server.on_att_handle_value_confirmation", m_Server_on_att_handle_value_confirmation);
  ("LeCreditBasedChannel.__init__", m_LeCreditBasedChannel__init);
  ("LeCreditBasedChannel.on_connection_response", m_LeCreditBasedChannel_on_connection_response);
  ("LeCreditBasedChannel.on_enhanced_connection_response", m_LeCreditBasedChannel_on_enhanced_connection_response);
  ("LeCreditBasedChannel.on_att_mtu_update", m_LeCreditBasedChannel_on_att_mtu_update);
  ("LeCreditBasedChannel.write", m_LeCreditBasedChannel_write);
  ("LeCreditBasedChannel.process_output", m_LeCreditBasedChannel_process_output);
  ("ChannelManager.on_l2cap_le_credit_based_connection_request", m_ChannelManager_on_l2cap_le_credit_based_connection_request);
  ("ChannelManager.on_l2cap_credit_based_connection_request", m_ChannelManager_on_l2cap_credit_based_connection_request);
  ("Connection.on_att_mtu_update", m_Connection_on_att_mtu_update);
  ("ATT_PDU.from_bytes", m_ATT_PDU_from_bytes);
  ("Attribute.read_value", m_Attribute_read_value);
  ("Attribute.write_value", m_Attribute_write_value);
  ("att_mtu sites", m_att_mtu_sites)
].

(* ------------------------------------------------------------------ comparison with the current source *)
Fixpoint lines_eqb (a b : list string) : bool :=
  match a, b with
  | [], [] => true
  | x :: a', y :: b' => String.eqb x y && lines_eqb a' b'
  | _, _ => false
  end.

Fixpoint sk_find (k : string) (l : list (string * list string)) : option (list string) :=
  match l with
  | [] => None
  | (k', v) :: l' => if String.eqb k k' then Some v else sk_find k l'
  end.

(* the function named k reads today exactly as it did when the model was written *)
Definition src_matches (k : string) : bool :=
  match sk_find k g_skeleton, sk_find k m_skeleton with
  | Some a, Some b => lines_eqb a b
  | _, _ => false
  end.

Definition skeleton_keys : list string := map fst m_skeleton.

