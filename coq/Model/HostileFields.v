(* C17 - the field-driven PDU parsers a peer reaches with its first byte:
     hci.HCI_Object.parse_field / dict_and_offset_from_bytes (the vocabulary used by the ATT,
     SMP and L2CAP signalling classes), att.ATT_PDU.from_bytes, smp.SMP_Command.from_bytes,
     l2cap.L2CAP_Control_Frame.from_bytes, L2CAP_Control_Frame.decode_configuration_options.
   Executable Gallina only.  The per-class field lists are regenerated into Gen/C17Tables.v.

   What is abstracted: field values of enum type are kept as integers; the parsers of the
   eight classes that use a named callable (UUID, address, PSM, handle list, CID list,
   length-value list) are [FOpaque]: the model gives no verdict for those classes. *)
From Coq Require Import ZArith List Bool.
Import ListNotations.
Open Scope Z_scope.

Inductive fspec :=
| FU1                      (* 1 / {'size': 1}: data[offset]                     -> IndexError when short *)
| FU2                      (* 2 / {'size': 2}: struct.unpack_from('<H')          -> struct.error when short *)
| FBytes (n : nat)         (* 5..256: data[offset:offset+n]                     -> short slice accepted *)
| FEnum (n : nat)          (* SpecableEnum/SpecableFlag.type_spec(n): int.from_bytes(slice) -> lenient *)
| FRest                    (* '*': data[offset:] *)
| FOpaque.                 (* a named callable outside this model *)

Inductive fval := VInt (v : Z) | VBytes (b : list Z)
  | VItems (l : list (list Z)).   (* a list built by a class's __post_init__ loop *)

Inductive perr :=
| EIndex                   (* IndexError *)
| EStruct                  (* struct.error *)
| EOpaque                  (* class outside the model *)
| EEmpty.                  (* InvalidPacketError("Empty ... PDU") *)

Definition le_int (bs : list Z) : Z := fold_right (fun b acc => b + 256 * acc) 0 bs.
Definition slice (data : list Z) (off n : nat) : list Z := firstn n (skipn off data).

Definition parse_field (data : list Z) (off : nat) (f : fspec) : perr + (fval * nat) :=
  match f with
  | FU1 => match nth_error data off with
           | Some b => inr (VInt b, 1%nat)
           | None => inl EIndex
           end
  | FU2 => if (off + 2 <=? length data)%nat then inr (VInt (le_int (slice data off 2)), 2%nat)
           else inl EStruct
  | FBytes n => inr (VBytes (slice data off n), n)
  | FEnum n => inr (VInt (le_int (slice data off n)), n)
  | FRest => let v := skipn off data in inr (VBytes v, length v)
  | FOpaque => inl EOpaque
  end.

(* dict_and_offset_from_bytes for non-array field lists: one step per field *)
Fixpoint parse_fields (fs : list fspec) (data : list Z) (off : nat) : perr + (list fval * nat) :=
  match fs with
  | [] => inr ([], off)
  | f :: rest =>
      match parse_field data off f with
      | inl e => inl e
      | inr (v, size) =>
          match parse_fields rest data (off + size) with
          | inl e => inl e
          | inr (vs, off') => inr (v :: vs, off')
          end
      end
  end.

Fixpoint lookup (code : Z) (table : list (Z * list fspec)) : option (list fspec) :=
  match table with
  | [] => None
  | (c, fs) :: rest => if c =? code then Some fs else lookup code rest
  end.

(* result of X.from_bytes(pdu) *)
Inductive pdu_res :=
| PErr (e : perr)                                   (* an exception; nothing is dispatched *)
| PGeneric (code : Z) (payload : list Z)            (* unregistered code: base-class instance *)
| PKnown (code : Z) (vals : list fval)              (* registered class with its field values *)
| POutOfFuel.                                       (* a __post_init__ loop ran out of fuel (excluded by theorem) *)

(* The __post_init__ loops of the four ATT response classes that split a '*' field into
   items, all of one shape:
     while offset + guard <= len(data): <struct.unpack_from needs hdr bytes>; item; offset += stride
   Find Information Response   (5): guard = uuid_size (2 or 16), hdr = 2, stride = 2 + uuid_size
   Find By Type Value Response (7): guard = hdr = stride = 4
   Read By Type Response       (9): guard = stride = length (loop skipped when length = 0), hdr = 2
   Read By Group Type Response (17): same with hdr = 4
   An item is recorded as the bytes the code reads for it: the hdr header bytes followed by
   data[off+hdr : off+stride] (empty when stride < hdr), i.e. data[off : off+max(hdr,stride)].
   The stride comes from the peer, hence explicit fuel; [None] is "out of fuel". *)
Fixpoint item_loop (fuel : nat) (guard hdr stride : nat) (data : list Z) (off : nat)
  : option (perr + list (list Z)) :=
  match fuel with
  | O => None
  | S f =>
      if (off + guard <=? length data)%nat then
        if (off + hdr <=? length data)%nat then
          match item_loop f guard hdr stride data (off + stride) with
          | None => None
          | Some (inl e) => Some (inl e)
          | Some (inr items) => Some (inr (slice data off (Nat.max hdr stride) :: items))
          end
        else Some (inl EStruct)
      else Some (inr [])
  end.

Definition item_fuel (data : list Z) : nat := S (length data).

Definition att_post_classes : list Z := [5; 7; 9; 17].

Definition wrap_items (vals : list fval) (r : option (perr + list (list Z))) : option (perr + list fval) :=
  match r with
  | None => None
  | Some (inl e) => Some (inl e)
  | Some (inr items) => Some (inr (vals ++ [VItems items]))
  end.

(* length-driven loop of the Read By [Group] Type responses; skipped when length = 0 *)
Definition len_items (hdr : nat) (len : Z) (data : list Z) : option (perr + list (list Z)) :=
  if len =? 0 then Some (inr [])
  else item_loop (item_fuel data) (Z.to_nat len) hdr (Z.to_nat len) data 0.

Definition att_post (op : Z) (vals : list fval) : option (perr + list fval) :=
  if op =? 5 then
    match vals with
    | [VInt format; VBytes data] =>
        wrap_items vals (if format =? 1 then item_loop (item_fuel data) 2 2 4 data 0
                         else item_loop (item_fuel data) 16 2 18 data 0)
    | _ => Some (inr vals)
    end
  else if op =? 7 then
    match vals with
    | [VBytes data] => wrap_items vals (item_loop (item_fuel data) 4 4 4 data 0)
    | _ => Some (inr vals)
    end
  else if op =? 9 then
    match vals with
    | [VInt len; VBytes data] => wrap_items vals (len_items 2 len data)
    | _ => Some (inr vals)
    end
  else if op =? 17 then
    match vals with
    | [VInt len; VBytes data] => wrap_items vals (len_items 4 len data)
    | _ => Some (inr vals)
    end
  else Some (inr vals).

(* att.ATT_PDU.from_bytes *)
Definition att_from_bytes (table : list (Z * list fspec)) (pdu : list Z) : pdu_res :=
  match pdu with
  | [] => PErr EEmpty
  | op :: _ =>
      match lookup op table with
      | None => PGeneric op (tl pdu)
      | Some fs => match parse_fields fs pdu 1 with
                   | inl e => PErr e
                   | inr (vals, _) =>
                       match att_post op vals with
                       | None => POutOfFuel
                       | Some (inl e) => PErr e
                       | Some (inr vals') => PKnown op vals'
                       end
                   end
      end
  end.

(* smp.SMP_Command.from_bytes (the generic instance keeps pdu[1:] as payload, like ATT) *)
Definition smp_from_bytes (table : list (Z * list fspec)) (pdu : list Z) : pdu_res :=
  match pdu with
  | [] => PErr EEmpty
  | code :: _ =>
      match lookup code table with
      | None => PGeneric code (tl pdu)
      | Some fs => match parse_fields fs pdu 1 with
                   | inl e => PErr e
                   | inr (vals, _) => PKnown code vals
                   end
      end
  end.

(* l2cap.L2CAP_Control_Frame.from_bytes: struct.unpack_from('<BBH', pdu) needs 4 bytes; the
   length field is only compared with the payload length for a warning.  The identifier is
   returned beside the result. *)
Definition sig_from_bytes (table : list (Z * list fspec)) (pdu : list Z) : pdu_res * Z :=
  match pdu with
  | code :: ident :: _ :: _ :: _ =>
      match lookup code table with
      | None => (PGeneric code (skipn 4 pdu), ident)
      | Some fs => match parse_fields fs pdu 4 with
                   | inl e => (PErr e, ident)
                   | inr (vals, _) => (PKnown code vals, ident)
                   end
      end
  | _ => (PErr EStruct, 0)
  end.

(* L2CAP_Control_Frame.decode_configuration_options:
     while len(data) >= 2: type = data[0]; length = data[1];
                           value = data[2:2+length]; data = data[2+length:]
   The loop is driven by attacker-controlled lengths, hence explicit fuel; [None] is
   "out of fuel". *)
Fixpoint decode_options (fuel : nat) (data : list Z) : option (list (Z * list Z)) :=
  match fuel with
  | O => None
  | S fuel' =>
      match data with
      | t :: l :: rest =>
          match decode_options fuel' (skipn (Z.to_nat l) rest) with
          | None => None
          | Some opts => Some ((t, firstn (Z.to_nat l) rest) :: opts)
          end
      | _ => Some []
      end
  end.

Definition decode_options_fuel (data : list Z) : nat := S (Nat.div2 (length data)).

(* --- the signalling channel handler: ChannelManager.on_pdu (signalling CIDs) followed by
   on_control_frame.  The per-command handlers are outside this model: a handler is a
   function of the manager's channel tables that returns new tables, the frames it sent
   and whether it raised. *)
Section Signalling.
  Variable chan_state : Type.
  Variable handler : Z -> Z -> list fval -> chan_state -> chan_state * list (list Z) * bool.
  Variable classes : list (Z * list fspec).      (* L2CAP_Control_Frame.classes *)
  Variable handled : list Z.                      (* codes with an on_<name> method *)

  Inductive sig_outcome :=
  | SigParseError (e : perr)      (* exception out of from_bytes: nothing sent *)
  | SigRejected                   (* no handler: Command Reject sent *)
  | SigHandled                    (* handler ran *)
  | SigHandlerRaised.             (* handler raised: Command Reject sent, exception re-raised *)

  (* L2CAP_Command_Reject(identifier, reason=COMMAND_NOT_UNDERSTOOD, data=b'') as bytes *)
  Definition command_reject (ident : Z) : list Z := [1; ident; 2; 0; 0; 0].

  Definition mem (x : Z) (l : list Z) : bool := existsb (Z.eqb x) l.

  (* handler_name = 'on_' + frame.name.lower(); [handled] lists the codes (registered or
     not) for which ChannelManager has such a method *)
  Definition dispatch (st : chan_state) (code ident : Z) (vals : list fval)
    : chan_state * list (list Z) * sig_outcome :=
    if mem code handled then
      match handler code ident vals st with
      | (st', sent, false) => (st', sent, SigHandled)
      | (st', sent, true) => (st', sent ++ [command_reject ident], SigHandlerRaised)
      end
    else (st, [command_reject ident], SigRejected).

  Definition on_signalling_pdu (st : chan_state) (pdu : list Z)
    : chan_state * list (list Z) * sig_outcome :=
    match sig_from_bytes classes pdu with
    | (PErr e, _) => (st, [], SigParseError e)
    | (PGeneric code payload, ident) => dispatch st code ident [VBytes payload]
    | (PKnown code vals, ident) => dispatch st code ident vals
    | (POutOfFuel, _) => (st, [], SigParseError EOpaque)     (* sig_from_bytes never yields it *)
    end.
End Signalling.
