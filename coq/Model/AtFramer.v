(* The two AT line readers of bumble/hfp.py as framers: HfProtocol._read_at (responses,
   delimited by <CR><LF>, empty lines skipped) and AgProtocol._read_at (commands, delimited
   by <CR>, an empty line is a line).  They are the sinks of the RFCOMM data link: the byte
   stream reaches them cut into chunks by the RFCOMM segmentation, at arbitrary places.
   Executable Gallina only.

   Reading of the code (both readers):
       self.read_buffer.extend(data)
       while self.read_buffer:
           trailer = self.read_buffer.find(DELIM)
           if trailer == -1: return
           [HF only]  if trailer == 0: self.read_buffer = self.read_buffer[2:]; continue
           raw = self.read_buffer[:trailer]
           self.read_buffer = self.read_buffer[trailer + len(DELIM):]
           ... parse raw, dispatch ...
   State = read_buffer; one step = feed a chunk; output = the raw lines handed to the parser,
   in order.  What happens to a line afterwards (parsing, routing to the response or the
   unsolicited queue, the command handlers) does not touch read_buffer and is the subject of
   Model/HfpSlc.v / Model/AtSkeleton.v.  The loop runs on explicit fuel (every iteration
   consumes at least len(DELIM) >= 1 bytes; length + 1 is enough, shown in the proofs). *)
From Coq Require Import ZArith List Bool.
Import ListNotations.
Open Scope Z_scope.

Record reader := mkReader {
  r_delim : list Z;          (* the bytes find() looks for *)
  r_skip_empty : bool        (* a delimiter at position 0 is dropped without producing a line *)
}.

Definition hf_reader : reader := mkReader [13; 10] true.
Definition ag_reader : reader := mkReader [13] false.

Fixpoint prefixb (d l : list Z) : bool :=
  match d, l with
  | [], _ => true
  | _ :: _, [] => false
  | a :: d', b :: l' => (a =? b) && prefixb d' l'
  end.

(* bytes.find(d): index of the first occurrence *)
Fixpoint find_sub (d l : list Z) : option nat :=
  match l with
  | [] => None
  | x :: r =>
      if prefixb d l then Some O
      else match find_sub d r with Some i => Some (S i) | None => None end
  end.

(* the while loop: lines produced, buffer left *)
Fixpoint rd_loop (R : reader) (fuel : nat) (buf : list Z) : list (list Z) * list Z :=
  match fuel with
  | O => ([], buf)
  | S f =>
      match find_sub (r_delim R) buf with
      | None => ([], buf)
      | Some i =>
          let rest := skipn (i + length (r_delim R)) buf in
          if r_skip_empty R && Nat.eqb i 0 then rd_loop R f rest
          else let '(ls, r) := rd_loop R f rest in (firstn i buf :: ls, r)
      end
  end.

(* _read_at(data) *)
Definition feed (R : reader) (buf chunk : list Z) : list (list Z) * list Z :=
  rd_loop R (S (length (buf ++ chunk))) (buf ++ chunk).

(* a sequence of _read_at calls *)
Fixpoint feed_chunks (R : reader) (buf : list Z) (chunks : list (list Z)) : list (list Z) * list Z :=
  match chunks with
  | [] => ([], buf)
  | c :: cs =>
      let '(l1, b1) := feed R buf c in
      let '(l2, b2) := feed_chunks R b1 cs in
      (l1 ++ l2, b2)
  end.

(* the seeded variant the coordinator found missed (C20-c): "nothing to parse unless the
   chunk itself contains a delimiter" *)
Definition feed_seeded (R : reader) (buf chunk : list Z) : list (list Z) * list Z :=
  match find_sub (r_delim R) chunk with
  | None => ([], buf ++ chunk)
  | Some _ => feed R buf chunk
  end.

Fixpoint feed_chunks_seeded (R : reader) (buf : list Z) (chunks : list (list Z)) : list (list Z) * list Z :=
  match chunks with
  | [] => ([], buf)
  | c :: cs =>
      let '(l1, b1) := feed_seeded R buf c in
      let '(l2, b2) := feed_chunks_seeded R b1 cs in
      (l1 ++ l2, b2)
  end.

(* what the translator extracts from the source of a reader *)
Record reader_shape := mkShape {
  sh_delim : list Z;          (* the constant passed to find() *)
  sh_consumed : Z;            (* k in  read_buffer[trailer + k:] *)
  sh_skip_empty : bool;       (* the  if trailer == 0: ...; continue  clause is present *)
  sh_skip_width : Z           (* k in  read_buffer[k:]  of that clause (0 when absent) *)
}.

Definition shape_of (R : reader) : reader_shape :=
  mkShape (r_delim R) (Z.of_nat (length (r_delim R))) (r_skip_empty R)
          (if r_skip_empty R then Z.of_nat (length (r_delim R)) else 0).
