(* Model/CodecsBase.v — small executable helpers shared by the C18 codec models
   (Model/Codecs*.v).  Definitions only; lemmas are in Proofs/CodecsBase.v.
   Bytes are [list Z] ([Base.Bytes.bytes_ok]); Python's integer bit operators are
   modelled by the corresponding [Z] operators ([Z.lor], [Z.land], [Z.shiftl],
   [Z.shiftr], [Z.lxor]), which agree with Python on all (unbounded) integers. *)
From Coq Require Import ZArith List Bool.
From BV Require Import Base.Bytes.
Import ListNotations.
Open Scope Z_scope.

(* [0; 1; ...; n-1] *)
Fixpoint zrange_from (lo : Z) (n : nat) : list Z :=
  match n with
  | O => []
  | S k => lo :: zrange_from (lo + 1) k
  end.
Definition zrange (n : nat) : list Z := zrange_from 0 n.

(* 0 <= v < n *)
Definition zlt (n v : Z) : bool := (0 <=? v) && (v <? n).

(* Python [bytes([...])] raises ValueError unless every item is in range(256). *)
Definition lenZ {A : Type} (l : list A) : Z := Z.of_nat (length l).

(* nth byte with default 0 (only used under a length guard) *)
Definition nthz (i : nat) (d : list Z) : Z := nth i d 0.

(* Python data[-1] of a non-empty sequence *)
Definition lastz (d : list Z) : Z := last d 0.

(* list equality on Z *)
Fixpoint zlist_eqb (a b : list Z) : bool :=
  match a, b with
  | [], [] => true
  | x :: a', y :: b' => (x =? y) && zlist_eqb a' b'
  | _, _ => false
  end.

Definition bool_z (b : bool) : Z := if b then 1 else 0.

(* all pairs / triples of finite ranges, for complete finite evaluation *)
Definition forall2b (xs ys : list Z) (f : Z -> Z -> bool) : bool :=
  forallb (fun x => forallb (fun y => f x y) ys) xs.

(* digest used by the correspondence harness to compare long octet strings *)
Definition dgst (l : list Z) : Z := fold_left (fun a x => Z.land (a * 31 + x + 1) 1073741823) l 7.
Definition dg (l : list Z) : Z * Z := (lenZ l, dgst l).
Definition odg (o : option (list Z)) : option (Z * Z) := option_map dg o.
