(* Model of the credit-based data path of one RFCOMM data link (bumble/rfcomm.py,
   class DLC: write / process_tx / rx_credits_needed / on_uih_frame) and of the
   two-party system formed by the two ends of a DLC over the two order-preserving
   directions of the L2CAP channel.  Executable Gallina only; no proofs here.

   Reading of the code:
     - DLC.__init__: tx_credits = the peer's initial credits (from its PN),
       rx_credits = our own initial credits, rx_max_credits = 32,
       rx_credits_threshold = 16 (module constants, regenerated into Gen/C20Consts.v),
       mtu = min(tx_max_frame_size, l2cap_channel.peer_mtu - 5).
     - rx_credits_needed: rx_max_credits - rx_credits when rx_credits <= threshold, else 0.
     - process_tx: while (tx_buffer and tx_credits > 0) or rx_credits_needed > 0:
         with credits to give: information = [credits] ++ tx_buffer[:mtu-1] when data can
         be sent (one tx credit spent), else the single credit byte (no tx credit spent);
         p/f = 1.  Without: information = tx_buffer[:mtu], one tx credit spent, p/f = 0.
         rx_credits_needed is reset to 0 after the first frame.
     - on_uih_frame: p/f = 1 -> tx_credits += information[0], data = information[1:];
       non-empty data goes to the sink and costs one rx credit (if rx_credits > 0;
       the "no rx credits" warning branch leaves rx_credits unchanged); then process_tx.
     - write: tx_buffer += data; process_tx.
   A frame on the wire is (p/f bit, information bytes); the address/length/FCS
   envelope is the RFCOMM frame codec (property C18) and is not modelled here.
   The sink is assumed set (HfProtocol/AgProtocol set it at construction): data is
   handed to the sink inside on_uih_frame, there is no receive-side buffering.
   What is abstracted: bytes([n]) raising for n outside 0..255 and Python's negative
   slice bounds (both excluded by the well-formedness predicate of the theorems:
   2 <= mtu, 0 <= threshold < max_credits <= 255). *)
From Coq Require Import ZArith List Bool.
Import ListNotations.
Open Scope Z_scope.

Record params := mkParams { p_max_credits : Z; p_threshold : Z }.

Record dlc := mkDlc {
  d_mtu : Z;
  d_tx_credits : Z;
  d_rx_credits : Z;
  d_tx_buf : list Z
}.

Record frame := mkFrame { f_pf : bool; f_info : list Z }.

Definition is_nil {A} (l : list A) : bool := match l with [] => true | _ => false end.

Definition take (n : Z) (l : list Z) : list Z := firstn (Z.to_nat n) l.

(* rx_credits_needed *)
Definition needed (P : params) (d : dlc) : Z :=
  if d_rx_credits d <=? p_threshold P then p_max_credits P - d_rx_credits d else 0.

(* one iteration of the while loop of process_tx; None = loop condition false *)
Definition ptx_iter (d : dlc) (need : Z) : option (dlc * frame) :=
  let can_data := negb (is_nil (d_tx_buf d)) && (0 <? d_tx_credits d) in
  if can_data || (0 <? need) then
    if 0 <? need then
      if can_data then
        let data := take (d_mtu d - 1) (d_tx_buf d) in
        Some (mkDlc (d_mtu d) (d_tx_credits d - 1) (d_rx_credits d + need)
                    (skipn (length data) (d_tx_buf d)),
              mkFrame true (need :: data))
      else
        Some (mkDlc (d_mtu d) (d_tx_credits d) (d_rx_credits d + need) (d_tx_buf d),
              mkFrame true [need])
    else
      let data := take (d_mtu d) (d_tx_buf d) in
      Some (mkDlc (d_mtu d) (d_tx_credits d - 1) (d_rx_credits d)
                  (skipn (length data) (d_tx_buf d)),
            mkFrame false data)
  else None.

(* the while loop, on explicit fuel; the boolean is false when the fuel ran out
   (the theorems show it is true for the fuel process_tx provides) *)
Fixpoint ptx_loop (fuel : nat) (d : dlc) (need : Z) : dlc * list frame * bool :=
  match fuel with
  | O => (d, [], false)
  | S f =>
      match ptx_iter d need with
      | None => (d, [], true)
      | Some (d1, fr) =>
          let '(d2, frs, ok) := ptx_loop f d1 0 in (d2, fr :: frs, ok)
      end
  end.

Definition process_tx (P : params) (d : dlc) : dlc * list frame * bool :=
  ptx_loop (S (S (length (d_tx_buf d)))) d (needed P d).

(* DLC.write *)
Definition dlc_write (P : params) (d : dlc) (data : list Z) : dlc * list frame * bool :=
  process_tx P (mkDlc (d_mtu d) (d_tx_credits d) (d_rx_credits d) (d_tx_buf d ++ data)).

(* DLC.on_uih_frame: new state, frames sent, bytes handed to the sink, fuel flag *)
Definition dlc_on_uih (P : params) (d : dlc) (fr : frame) : dlc * list frame * list Z * bool :=
  let '(tx1, data) :=
    if f_pf fr then (d_tx_credits d + hd 0 (f_info fr), tl (f_info fr))
    else (d_tx_credits d, f_info fr) in
  let rx1 :=
    if is_nil data then d_rx_credits d
    else if 0 <? d_rx_credits d then d_rx_credits d - 1 else d_rx_credits d in
  let '(d2, frs, ok) := process_tx P (mkDlc (d_mtu d) tx1 rx1 (d_tx_buf d)) in
  (d2, frs, data, ok).

(* ---------- the two ends of one DLC ---------- *)
Record sys := mkSys {
  s_a : dlc; s_b : dlc;
  s_ab : list frame;          (* frames in flight A -> B, oldest first *)
  s_ba : list frame;
  s_rcv_a : list Z;           (* everything A's sink received so far *)
  s_rcv_b : list Z;
  s_ok : bool                 (* no process_tx ran out of fuel *)
}.

Inductive label :=
| WriteA (data : list Z)
| WriteB (data : list Z)
| DeliverAB
| DeliverBA.

(* a disabled label (delivery from an empty channel) is a stutter *)
Definition step (P : params) (s : sys) (l : label) : sys :=
  match l with
  | WriteA data =>
      let '(a', frs, ok) := dlc_write P (s_a s) data in
      mkSys a' (s_b s) (s_ab s ++ frs) (s_ba s) (s_rcv_a s) (s_rcv_b s) (s_ok s && ok)
  | WriteB data =>
      let '(b', frs, ok) := dlc_write P (s_b s) data in
      mkSys (s_a s) b' (s_ab s) (s_ba s ++ frs) (s_rcv_a s) (s_rcv_b s) (s_ok s && ok)
  | DeliverAB =>
      match s_ab s with
      | [] => s
      | fr :: rest =>
          let '(b', frs, data, ok) := dlc_on_uih P (s_b s) fr in
          mkSys (s_a s) b' rest (s_ba s ++ frs) (s_rcv_a s) (s_rcv_b s ++ data) (s_ok s && ok)
      end
  | DeliverBA =>
      match s_ba s with
      | [] => s
      | fr :: rest =>
          let '(a', frs, data, ok) := dlc_on_uih P (s_a s) fr in
          mkSys a' (s_b s) (s_ab s ++ frs) rest (s_rcv_a s ++ data) (s_rcv_b s) (s_ok s && ok)
      end
  end.

Fixpoint run (P : params) (s : sys) (ls : list label) : sys :=
  match ls with
  | [] => s
  | l :: ls' => run P (step P s l) ls'
  end.

(* ---------- parameter negotiation (Multiplexer.open_dlc / on_mcc_pn / DLC.accept) ----------
   The initiator proposes (max_frame_size, initial_credits) in a PN command; the
   responder answers with its own pair.  RFCOMM_MCC_PN.__bytes__ / from_bytes carry
   max_frame_size in 16 bits and initial_credits in 3 bits.  Each end then creates its
   DLC with tx_* = the peer's pair and rx_* = its own pair. *)
Record pn := mkPn { pn_mfs : Z; pn_credits : Z }.

Definition pn_wire (p : pn) : pn := mkPn (pn_mfs p mod 65536) (pn_credits p mod 8).

Definition mk_dlc (peer own : pn) (l2cap_peer_mtu : Z) : dlc :=
  mkDlc (Z.min (pn_mfs peer) (l2cap_peer_mtu - 5)) (pn_credits peer) (pn_credits own) [].

(* ini: the initiator's proposal, rsp: the responder's configuration;
   mtu_i / mtu_r: the L2CAP MTU each end announced (= the other end's peer_mtu) *)
Definition setup (ini rsp : pn) (mtu_i mtu_r : Z) : sys :=
  mkSys (mk_dlc (pn_wire rsp) ini mtu_r) (mk_dlc (pn_wire ini) rsp mtu_i) [] [] [] [] true.

(* Multiplexer.acceptable_frame_size (fix D17i): a PN command whose N1 fails this test is
   answered with DM, a PN response whose N1 fails it is treated like a DM; peer_mtu is the
   L2CAP MTU the peer announced *)
Definition acceptable (n peer_mtu : Z) : bool :=
  (n <=? 32767) && (23 <=? Z.min n (peer_mtu - 5)).

(* outcome of open_dlc as far as the frame sizes go: 0 the responder answers DM, 1 the
   responder accepts but the initiator refuses the response (the responder keeps a DLC in
   CONNECTING), 2 the data link comes up with the DLCs of [setup] *)
Definition pn_negotiate (ini rsp : pn) (mtu_i mtu_r : Z) : Z :=
  if negb (acceptable (pn_mfs (pn_wire ini)) mtu_i) then 0
  else if negb (acceptable (pn_mfs (pn_wire rsp)) mtu_r) then 1
  else 2.

(* ---------- observables for the correspondence check ---------- *)
Definition frame_obs (f : frame) : bool * list Z := (f_pf f, f_info f).
Definition dlc_obs (d : dlc) := (d_mtu d, d_tx_credits d, d_rx_credits d, Z.of_nat (length (d_tx_buf d))).

(* run a schedule and report, per label, the frames put on each channel and the bytes
   delivered to each sink *)
Definition step_obs (P : params) (s : sys) (l : label)
  : sys * (list (bool * list Z) * list (bool * list Z) * list Z * list Z) :=
  let s' := step P s l in
  let new_ab := skipn (length (s_ab s) - match l with DeliverAB => 1 | _ => 0 end)%nat (s_ab s') in
  let new_ba := skipn (length (s_ba s) - match l with DeliverBA => 1 | _ => 0 end)%nat (s_ba s') in
  (s', (map frame_obs new_ab, map frame_obs new_ba,
        skipn (length (s_rcv_a s)) (s_rcv_a s'), skipn (length (s_rcv_b s)) (s_rcv_b s'))).

Fixpoint run_obs (P : params) (s : sys) (ls : list label) :=
  match ls with
  | [] => (s, [])
  | l :: ls' =>
      let '(s1, o) := step_obs P s l in
      let '(s2, os) := run_obs P s1 ls' in (s2, o :: os)
  end.

Definition sys_obs (s : sys) :=
  (dlc_obs (s_a s), dlc_obs (s_b s), Z.of_nat (length (s_ab s)), Z.of_nat (length (s_ba s)), s_ok s).

(* ---------- a seeded variant (C20-e), kept to show that the credit-grant rule matters ----------
   "a side that is out of tx credits with data queued withholds the credits it owes: they
   will be piggy-backed on the next data frame".  With bulk data queued at BOTH ends each
   side then waits for the other's credits: see Proofs/Rfcomm.v seeded_withhold_deadlocks. *)
Definition needed_seeded (P : params) (d : dlc) : Z :=
  if (0 <? needed P d) && negb (is_nil (d_tx_buf d)) && (d_tx_credits d =? 0) then 0 else needed P d.

Definition process_tx_seeded (P : params) (d : dlc) : dlc * list frame * bool :=
  ptx_loop (S (S (length (d_tx_buf d)))) d (needed_seeded P d).

Definition dlc_write_seeded (P : params) (d : dlc) (data : list Z) :=
  process_tx_seeded P (mkDlc (d_mtu d) (d_tx_credits d) (d_rx_credits d) (d_tx_buf d ++ data)).

Definition dlc_on_uih_seeded (P : params) (d : dlc) (fr : frame) : dlc * list frame * list Z * bool :=
  let '(tx1, data) :=
    if f_pf fr then (d_tx_credits d + hd 0 (f_info fr), tl (f_info fr))
    else (d_tx_credits d, f_info fr) in
  let rx1 :=
    if is_nil data then d_rx_credits d
    else if 0 <? d_rx_credits d then d_rx_credits d - 1 else d_rx_credits d in
  let '(d2, frs, ok) := process_tx_seeded P (mkDlc (d_mtu d) tx1 rx1 (d_tx_buf d)) in
  (d2, frs, data, ok).

Definition step_seeded (P : params) (s : sys) (l : label) : sys :=
  match l with
  | WriteA data =>
      let '(a', frs, ok) := dlc_write_seeded P (s_a s) data in
      mkSys a' (s_b s) (s_ab s ++ frs) (s_ba s) (s_rcv_a s) (s_rcv_b s) (s_ok s && ok)
  | WriteB data =>
      let '(b', frs, ok) := dlc_write_seeded P (s_b s) data in
      mkSys (s_a s) b' (s_ab s) (s_ba s ++ frs) (s_rcv_a s) (s_rcv_b s) (s_ok s && ok)
  | DeliverAB =>
      match s_ab s with
      | [] => s
      | fr :: rest =>
          let '(b', frs, data, ok) := dlc_on_uih_seeded P (s_b s) fr in
          mkSys (s_a s) b' rest (s_ba s ++ frs) (s_rcv_a s) (s_rcv_b s ++ data) (s_ok s && ok)
      end
  | DeliverBA =>
      match s_ba s with
      | [] => s
      | fr :: rest =>
          let '(a', frs, data, ok) := dlc_on_uih_seeded P (s_a s) fr in
          mkSys a' (s_b s) (s_ab s ++ frs) rest (s_rcv_a s ++ data) (s_rcv_b s) (s_ok s && ok)
      end
  end.

Fixpoint run_seeded (P : params) (s : sys) (ls : list label) : sys :=
  match ls with [] => s | l :: r => run_seeded P (step_seeded P s l) r end.
