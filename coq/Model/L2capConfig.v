(* Model of the connection / configuration handshake of two bumble ClassicChannels
   (bumble/l2cap.py: ClassicChannel.connect, on_connection_request / _response,
   send_configure_request, on_configure_request, on_configure_response,
   _disconnect_sync, on_disconnection_request / _response, and the ChannelManager
   routing that drops signalling for a channel no longer in its table), AFTER the
   repair fixes/D08.patch.  Executable Gallina only, no proofs.

   Abstraction: a channel spec is (mode, fcs_enabled, FCS_OPTION in the manager's
   extended features).  The numeric parameters (MTU; tx window / max retransmission /
   timeouts / MPS of the retransmission option) are never inspected by the handshake:
   a message carries only WHOSE values they are (a [side]); the end state records whose
   values each end holds.  Signalling identifiers and CIDs are not modelled (C09).

   Reading of the code:
     ClassicChannel.__init__   fcs_enabled = spec.fcs_enabled and FCS_OPTION supported
                               locally (D08 repair).
     connect                   WAIT_CONNECT_RSP, Connection Request.
     manager.on_l2cap_connection_request
                               server for the PSM: create channel, on_connection_request
                               (Connection Response success, WAIT_CONFIG, configure
                               request, WAIT_CONFIG_REQ_RSP); no server: refusal.
     on_connection_response    only in WAIT_CONNECT_RSP; success: WAIT_CONFIG, configure
                               request, WAIT_CONFIG_REQ_RSP; refusal: CLOSED, waiter fails.
     send_configure_request    MTU; retransmission option iff mode is ERTM; FCS=1 iff
                               fcs_enabled.
     on_configure_request      only in WAIT_CONFIG / WAIT_CONFIG_REQ / WAIT_CONFIG_REQ_RSP;
                               options in the order sent: MTU -> peer_mtu; retransmission
                               option: mode differs from own -> fail the waiter,
                               _disconnect_sync (WAIT_DISCONNECT + Disconnection Request),
                               NO response; ERTM: build the processor from the option;
                               FCS: value 0 or FCS supported locally -> fcs_enabled :=
                               value, else respond UNACCEPTABLE suggesting FCS=0 and stop.
                               SUCCESS response echoing the options, then WAIT_CONFIG ->
                               (configure request) WAIT_CONFIG_RSP; WAIT_CONFIG_REQ -> OPEN;
                               WAIT_CONFIG_REQ_RSP -> WAIT_CONFIG_RSP.
                               A request WITHOUT a retransmission option is never compared
                               with the own mode (the ERTM end does not detect a Basic peer;
                               the Basic end does, when it sees the ERTM end's option).
     on_configure_response     SUCCESS: WAIT_CONFIG_REQ_RSP -> WAIT_CONFIG_REQ;
                               WAIT_CONFIG_RSP / WAIT_CONTROL_IND -> OPEN; else ignored.
                               UNACCEPTABLE: adopt a suggested MTU / FCS value and send a
                               complete configure request again; nothing adopted: nothing.
     on_disconnection_request  Disconnection Response, waiter fails if pending, CLOSED,
                               removed from the manager's table.
     on_disconnection_response CLOSED, removed from the table. *)
From Coq Require Import List Bool.
Import ListNotations.

Inductive mode := Basic | Ertm.
Definition mode_eqb (a b : mode) : bool :=
  match a, b with Basic, Basic | Ertm, Ertm => true | _, _ => false end.

Inductive cst :=
| CLOSED | WAIT_CONNECT | WAIT_CONNECT_RSP | OPEN | WAIT_DISCONNECT
| WAIT_CONFIG | WAIT_SEND_CONFIG | WAIT_CONFIG_REQ_RSP | WAIT_CONFIG_RSP | WAIT_CONFIG_REQ
| WAIT_CONTROL_IND.

Inductive side := SA | SB.

Record spec := mkSpec { sp_mode : mode; sp_fcs : bool; sp_feat : bool }.

Inductive cres := Success | Unacceptable.

Record opts := mkOpts {
  o_mtu : option side;            (* MTU option: whose value *)
  o_rfc : option (mode * side);   (* retransmission & flow control option *)
  o_fcs : option bool             (* FCS option value *)
}.

Inductive msg :=
| ConnReq
| ConnRsp (ok : bool)
| ConfReq (o : opts)
| ConfRsp (r : cres) (o : opts)
| DiscReq
| DiscRsp.

(* connection_result of the initiator *)
Inductive waiter := WNone | WPending | WOk | WErr.

Record cend := mkEnd {
  c_spec : spec;
  c_me : side;
  c_exists : bool;            (* present in manager.channels *)
  c_st : cst;
  c_fcs : bool;               (* channel.fcs_enabled *)
  c_mtu : side;               (* whose value channel.mtu holds *)
  c_peer_mtu : option side;   (* None: still L2CAP_MIN_BR_EDR_MTU *)
  c_proc : option side;       (* ERTM processor built from whose option; None: Processor *)
  c_wait : waiter
}.

Definition set_st (e : cend) (st : cst) : cend :=
  mkEnd (c_spec e) (c_me e) (c_exists e) st (c_fcs e) (c_mtu e) (c_peer_mtu e) (c_proc e) (c_wait e).
Definition set_wait (e : cend) (w : waiter) : cend :=
  mkEnd (c_spec e) (c_me e) (c_exists e) (c_st e) (c_fcs e) (c_mtu e) (c_peer_mtu e) (c_proc e) w.
Definition set_fcs (e : cend) (b : bool) : cend :=
  mkEnd (c_spec e) (c_me e) (c_exists e) (c_st e) b (c_mtu e) (c_peer_mtu e) (c_proc e) (c_wait e).
Definition set_mtu (e : cend) (t : side) : cend :=
  mkEnd (c_spec e) (c_me e) (c_exists e) (c_st e) (c_fcs e) t (c_peer_mtu e) (c_proc e) (c_wait e).
Definition set_peer_mtu (e : cend) (t : side) : cend :=
  mkEnd (c_spec e) (c_me e) (c_exists e) (c_st e) (c_fcs e) (c_mtu e) (Some t) (c_proc e) (c_wait e).
Definition set_proc (e : cend) (t : side) : cend :=
  mkEnd (c_spec e) (c_me e) (c_exists e) (c_st e) (c_fcs e) (c_mtu e) (c_peer_mtu e) (Some t) (c_wait e).
Definition set_gone (e : cend) : cend :=
  mkEnd (c_spec e) (c_me e) false (c_st e) (c_fcs e) (c_mtu e) (c_peer_mtu e) (c_proc e) (c_wait e).

(* ClassicChannel(...) as created by either manager *)
Definition new_end (sp : spec) (me : side) (st : cst) (w : waiter) : cend :=
  mkEnd sp me true st (sp_fcs sp && sp_feat sp) me None None w.

(* a server end before any Connection Request: no channel object yet *)
Definition no_end (sp : spec) (me : side) : cend :=
  mkEnd sp me false CLOSED false me None None WNone.

Definition configure_request (e : cend) : msg :=
  ConfReq (mkOpts (Some (c_mtu e))
                  (match sp_mode (c_spec e) with Ertm => Some (Ertm, c_me e) | Basic => None end)
                  (if c_fcs e then Some true else None)).

(* _abort_connection_result (also the refusal branch of on_connection_response): the
   pending connect() raises, and ChannelManager.create_classic_channel's exception
   handler drops the channel from the table.  That handler runs one event-loop turn
   later; the model merges it into the step that fails the waiter (the harness runs the
   loop to idle after every delivery).  Consequence, faithfully modelled: an initiator
   that aborts on a mode mismatch is unregistered while still in WAIT_DISCONNECT, the
   peer's Disconnection Response finds no channel, and the orphaned object never
   reaches CLOSED. *)
Definition abort_wait (e : cend) : cend :=
  match c_wait e with WPending => set_gone (set_wait e WErr) | _ => e end.
(* connection_result.set_result(None) *)
Definition ok_wait (e : cend) : cend :=
  match c_wait e with WPending => set_wait e WOk | _ => e end.

Definition on_connection_response (e : cend) (ok : bool) : cend * list msg :=
  match c_st e with
  | WAIT_CONNECT_RSP =>
      if ok then (set_st e WAIT_CONFIG_REQ_RSP, [configure_request e])
      else (abort_wait (set_st e CLOSED), [])
  | _ => (e, [])
  end.

Definition on_configure_request (e : cend) (o : opts) : cend * list msg :=
  match c_st e with
  | WAIT_CONFIG | WAIT_CONFIG_REQ | WAIT_CONFIG_REQ_RSP =>
      let e1 := match o_mtu o with Some t => set_peer_mtu e t | None => e end in
      let after_rfc : option cend :=
        match o_rfc o with
        | None => Some e1
        | Some (m, t) =>
            if mode_eqb m (sp_mode (c_spec e1)) then
              match m with Basic => Some e1 | Ertm => Some (set_proc e1 t) end
            else None
        end in
      match after_rfc with
      | None => (set_st (abort_wait e1) WAIT_DISCONNECT, [DiscReq])
      | Some e2 =>
          let fcs_ok := match o_fcs o with
                        | Some b => negb b || sp_feat (c_spec e2)
                        | None => true
                        end in
          if negb fcs_ok then (e2, [ConfRsp Unacceptable (mkOpts None None (Some false))])
          else
            let e3 := match o_fcs o with Some b => set_fcs e2 b | None => e2 end in
            match c_st e3 with
            | WAIT_CONFIG =>
                (set_st e3 WAIT_CONFIG_RSP, [ConfRsp Success o; configure_request e3])
            | WAIT_CONFIG_REQ => (ok_wait (set_st e3 OPEN), [ConfRsp Success o])
            | WAIT_CONFIG_REQ_RSP => (set_st e3 WAIT_CONFIG_RSP, [ConfRsp Success o])
            | _ => (e3, [ConfRsp Success o])
            end
      end
  | _ => (e, [])
  end.

Definition on_configure_response (e : cend) (r : cres) (o : opts) : cend * list msg :=
  match r with
  | Success =>
      match c_st e with
      | WAIT_CONFIG_REQ_RSP => (set_st e WAIT_CONFIG_REQ, [])
      | WAIT_CONFIG_RSP | WAIT_CONTROL_IND => (ok_wait (set_st e OPEN), [])
      | _ => (e, [])
      end
  | Unacceptable =>
      let e1 := match o_mtu o with Some t => set_mtu e t | None => e end in
      let e2 := match o_fcs o with Some b => set_fcs e1 b | None => e1 end in
      match o_mtu o, o_fcs o with
      | None, None => (e, [])
      | _, _ => (e2, [configure_request e2])
      end
  end.

Definition on_disconnection_request (e : cend) : cend * list msg :=
  (set_gone (set_st (abort_wait e) CLOSED), [DiscRsp]).

Definition on_disconnection_response (e : cend) : cend * list msg :=
  (set_gone (set_st e CLOSED), []).

(* manager-level dispatch at one end; [srv]: a server is registered for the PSM *)
Definition on_msg (srv : bool) (e : cend) (m : msg) : cend * list msg :=
  match m with
  | ConnReq =>
      if srv then
        let e' := new_end (c_spec e) (c_me e) WAIT_CONFIG_REQ_RSP WNone in
        (e', [ConnRsp true; configure_request e'])
      else (e, [ConnRsp false])
  | ConnRsp ok => if c_exists e then on_connection_response e ok else (e, [])
  | ConfReq o => if c_exists e then on_configure_request e o else (e, [])
  | ConfRsp r o => if c_exists e then on_configure_response e r o else (e, [])
  | DiscReq => if c_exists e then on_disconnection_request e else (e, [])
  | DiscRsp => if c_exists e then on_disconnection_response e else (e, [])
  end.

Record csys := mkCsys {
  k_a : cend; k_b : cend;
  k_ab : list msg; k_ba : list msg;
  k_log_ab : list msg; k_log_ba : list msg;
  k_srv : bool
}.

Inductive clabel := DAB | DBA.

(* A has called connect(); B listens *)
Definition cinit (sa sb : spec) (srv : bool) : csys :=
  mkCsys (new_end sa SA WAIT_CONNECT_RSP WPending) (no_end sb SB) [ConnReq] [] [ConnReq] [] srv.

(* None: the label is not enabled *)
Definition cstep (s : csys) (l : clabel) : option csys :=
  match l with
  | DAB =>
      match k_ab s with
      | [] => None
      | m :: rest =>
          let '(b, out) := on_msg (k_srv s) (k_b s) m in
          Some (mkCsys (k_a s) b rest (k_ba s ++ out) (k_log_ab s) (k_log_ba s ++ out) (k_srv s))
      end
  | DBA =>
      match k_ba s with
      | [] => None
      | m :: rest =>
          let '(a, out) := on_msg false (k_a s) m in
          Some (mkCsys a (k_b s) (k_ab s ++ out) rest (k_log_ab s ++ out) (k_log_ba s) (k_srv s))
      end
  end.

Definition succs (s : csys) : list csys :=
  (match cstep s DAB with Some x => [x] | None => [] end) ++
  (match cstep s DBA with Some x => [x] | None => [] end).

(* run a schedule; disabled labels are skipped *)
Fixpoint crun (s : csys) (sched : list clabel) : csys :=
  match sched with
  | [] => s
  | l :: r => match cstep s l with Some s' => crun s' r | None => crun s r end
  end.

Definition terminal (s : csys) : bool :=
  match k_ab s, k_ba s with [], [] => true | _, _ => false end.

Definition st_eqb (a b : cst) : bool :=
  match a, b with
  | CLOSED, CLOSED | WAIT_CONNECT, WAIT_CONNECT | WAIT_CONNECT_RSP, WAIT_CONNECT_RSP
  | OPEN, OPEN | WAIT_DISCONNECT, WAIT_DISCONNECT | WAIT_CONFIG, WAIT_CONFIG
  | WAIT_SEND_CONFIG, WAIT_SEND_CONFIG | WAIT_CONFIG_REQ_RSP, WAIT_CONFIG_REQ_RSP
  | WAIT_CONFIG_RSP, WAIT_CONFIG_RSP | WAIT_CONFIG_REQ, WAIT_CONFIG_REQ
  | WAIT_CONTROL_IND, WAIT_CONTROL_IND => true
  | _, _ => false
  end.

Definition side_eqb (a b : side) : bool :=
  match a, b with SA, SA | SB, SB => true | _, _ => false end.
Definition oside_eqb (a b : option side) : bool :=
  match a, b with
  | None, None => true
  | Some x, Some y => side_eqb x y
  | _, _ => false
  end.
Definition wait_eqb (a b : waiter) : bool :=
  match a, b with
  | WNone, WNone | WPending, WPending | WOk, WOk | WErr, WErr => true
  | _, _ => false
  end.

(* both ends OPEN in the same mode, with the same FCS setting, each holding the
   peer's parameters; the initiator's connect() returned *)
Definition open_ok (s : csys) : bool :=
  let a := k_a s in let b := k_b s in
  st_eqb (c_st a) OPEN && st_eqb (c_st b) OPEN && c_exists a && c_exists b &&
  mode_eqb (sp_mode (c_spec a)) (sp_mode (c_spec b)) &&
  Bool.eqb (c_fcs a) (c_fcs b) &&
  oside_eqb (c_peer_mtu a) (Some SB) && oside_eqb (c_peer_mtu b) (Some SA) &&
  (match sp_mode (c_spec a) with
   | Ertm => oside_eqb (c_proc a) (Some SB) && oside_eqb (c_proc b) (Some SA)
   | Basic => oside_eqb (c_proc a) None && oside_eqb (c_proc b) None
   end) &&
  wait_eqb (c_wait a) WOk.

(* both ends closed: out of the managers' tables, connect() raised, the acceptor's
   channel (if any was created) CLOSED, the initiator's CLOSED - or, when it was the
   initiator that aborted, orphaned in WAIT_DISCONNECT (see abort_wait) *)
Definition closed_ok (s : csys) : bool :=
  let a := k_a s in let b := k_b s in
  negb (c_exists a) && negb (c_exists b) &&
  (st_eqb (c_st a) CLOSED || st_eqb (c_st a) WAIT_DISCONNECT) && st_eqb (c_st b) CLOSED &&
  wait_eqb (c_wait a) WErr.

(* the strict reading: both state fields are CLOSED *)
Definition closed_strict (s : csys) : bool :=
  closed_ok s && st_eqb (c_st (k_a s)) CLOSED.

Definition good (s : csys) : bool := open_ok s || closed_ok s.

(* the outcome is determined by the specs: open iff there is a server and the modes agree *)
Definition expected_open (sa sb : spec) (srv : bool) : bool :=
  srv && mode_eqb (sp_mode sa) (sp_mode sb).

Definition ok_state (sa sb : spec) (srv : bool) (s : csys) : bool :=
  (if terminal s then (if expected_open sa sb srv then open_ok s else closed_ok s) else true) &&
  (* when the set-up must fail no end is ever OPEN, not even transiently *)
  (if expected_open sa sb srv then true
   else negb (st_eqb (c_st (k_a s)) OPEN) && negb (st_eqb (c_st (k_b s)) OPEN)).

(* complete exploration: every state within [fuel] steps satisfies [ok] and no run is
   longer than [fuel] - 1 steps *)
Fixpoint explore (ok : csys -> bool) (fuel : nat) (front : list csys) : bool :=
  match fuel with
  | O => match front with [] => true | _ :: _ => false end
  | S f => forallb ok front && explore ok f (flat_map succs front)
  end.

Definition SETUP_BOUND : nat := 12.

(* observables for the correspondence check *)
Definition end_obs (e : cend) :=
  (c_exists e, c_st e, c_fcs e, c_mtu e, c_peer_mtu e, c_proc e, c_wait e).
Definition csys_obs (s : csys) :=
  (k_log_ab s, k_log_ba s, k_ab s, k_ba s, end_obs (k_a s), end_obs (k_b s)).
