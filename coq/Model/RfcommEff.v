(* A small effect language for the set-up / teardown code of bumble/rfcomm.py and its
   interpreter.  tools/translate/c20_statemachine.py compiles the SOURCE of
   Multiplexer.on_pdu / on_frame / on_sabm_frame / on_ua_frame / on_dm_frame /
   on_disc_frame / on_uih_frame / on_mcc_pn / on_mcc_msc / on_dlc_open_complete /
   on_dlc_disconnection / connect / disconnect / open_dlc and DLC.on_frame / on_sabm_frame /
   on_ua_frame / on_dm_frame / on_disc_frame / on_mcc_msc / accept / connect / disconnect
   into terms of this language (Gen/C20MuxEff.v, regenerated on every run); Proofs/RfcommEff.v
   shows by complete evaluation that interpreting those terms IS the hand-written
   transition function of Model/RfcommSm2.v.  Executable Gallina only.

   What the language keeps: tests of self.state (multiplexer or DLC), of the frame
   (DLCI 0 or not, DM or not, MCC type, command/response bit), of the acceptor and its
   answer, of the DLC lookup, of a pending open_result; assignments of self.state;
   frames sent (kind, and whether on DLCI 0); creation / removal of the DLC table entry;
   resolution of open_result; return / raise.  What it drops (ENop): logging, event
   emission, the connection_result / disconnection_result futures, local values. *)
From Coq Require Import List Bool.
From BV Require Import Model.RfcommSm Model.RfcommSm2.
Import ListNotations.

(* DLC.State including INIT (which exists only inside one handler) *)
Inductive dstf := FInit | FConnecting | FConnected | FDisconnecting | FDisconnected | FReset.

Inductive fkind := KSabm | KUa | KDm | KDisc | KPnCmd | KPnRsp | KMscCmd | KMscRsp.

Inductive cnd :=
| CMuxIs (m : mst) | CMuxIsNot (m : mst)
| CDlcIs (d : dstf) | CDlcIsNot (d : dstf)
| CDlci0 | CTypeDm | CMccPn | CMccMsc | CCommand | COddDlci
| CHasAcceptor | CAccepts | CDlcUnknown | COpenPending
| CSizeOk                         (* self.acceptable_frame_size(pn.max_frame_size) *)
| CNot (c : cnd) | CAnd (a b : cnd).

Inductive eff :=
| ENop | ERet | ERaise
| ESeq (a b : eff)
| EIf (c : cnd) (a b : eff)
| EFn (a : eff)                    (* an inlined call: return stops the callee only *)
| ESetMux (m : mst) | ESetDlc (d : dstf)
| ESend (k : fkind) (on0 : bool)   (* on0: the frame is sent on DLCI 0 *)
| ECreateDlc | ERemoveDlc
| EOpenPend | EOpenOk | EOpenFail
| EMuxHandler | EDlcHandler.       (* getattr(self, 'on_<type>_frame')(frame) *)

Record handlers := mkHandlers {
  h_on_pdu : eff;
  h_mux_sabm : eff; h_mux_ua : eff; h_mux_dm : eff; h_mux_disc : eff; h_mux_uih : eff;
  h_dlc_sabm : eff; h_dlc_ua : eff; h_dlc_dm : eff; h_dlc_disc : eff;
  h_open_dlc : eff; h_mux_connect : eff; h_mux_disconnect : eff; h_dlc_disconnect : eff
}.

(* the frame being processed *)
Record fin := mkFin { f_kind : fkind; f_on0 : bool }.

Record env := mkEnv {
  v_frame : fin;
  v_acceptor : bool;       (* self.acceptor is set (responder) *)
  v_accepts : bool;        (* the acceptor's answer for this channel *)
  v_size_ok : bool         (* the PN's frame size is acceptable to this end *)
}.

Record ist := mkIst {
  i_mux : mst;
  i_dlc : option dstf;     (* the DLC table entry of the frame's DLCI *)
  i_open : bool;           (* open_result is pending *)
  i_out : list fin;
  i_ev : oev;
  i_stop : nat             (* 0 running, 1 returned, 2 raised *)
}.

Definition dstf_eqb (a b : dstf) : bool :=
  match a, b with
  | FInit, FInit | FConnecting, FConnecting | FConnected, FConnected
  | FDisconnecting, FDisconnecting | FDisconnected, FDisconnected | FReset, FReset => true
  | _, _ => false
  end.

Definition is_pn (k : fkind) := match k with KPnCmd | KPnRsp => true | _ => false end.
Definition is_msc (k : fkind) := match k with KMscCmd | KMscRsp => true | _ => false end.
Definition is_cmd (k : fkind) := match k with KPnCmd | KMscCmd => true | _ => false end.

Fixpoint eval_cnd (E : env) (s : ist) (c : cnd) : bool :=
  match c with
  | CSizeOk => v_size_ok E
  | CNot a => negb (eval_cnd E s a)
  | CAnd a b => eval_cnd E s a && eval_cnd E s b
  | CMuxIs m => is_mst (i_mux s) m
  | CMuxIsNot m => negb (is_mst (i_mux s) m)
  | CDlcIs d => match i_dlc s with Some x => dstf_eqb x d | None => false end
  | CDlcIsNot d => match i_dlc s with Some x => negb (dstf_eqb x d) | None => true end
  | CDlci0 => f_on0 (v_frame E)
  | CTypeDm => match f_kind (v_frame E) with KDm => true | _ => false end
  | CMccPn => is_pn (f_kind (v_frame E))
  | CMccMsc => is_msc (f_kind (v_frame E))
  | CCommand => is_cmd (f_kind (v_frame E))
  | COddDlci => false                       (* channels are addressed by even DLCIs *)
  | CHasAcceptor => v_acceptor E
  | CAccepts => v_accepts E
  | CDlcUnknown => match i_dlc s with None => true | Some _ => false end
  | COpenPending => i_open s
  end.

Definition upd (s : ist) mux dlc opn out ev stop := mkIst mux dlc opn out ev stop.

(* the handler getattr(...) selects for the frame's type *)
Definition mux_handler (H : handlers) (k : fkind) : eff :=
  match k with
  | KSabm => h_mux_sabm H | KUa => h_mux_ua H | KDm => h_mux_dm H | KDisc => h_mux_disc H
  | _ => h_mux_uih H
  end.
Definition dlc_handler (H : handlers) (k : fkind) : eff :=
  match k with
  | KSabm => h_dlc_sabm H | KUa => h_dlc_ua H | KDm => h_dlc_dm H | KDisc => h_dlc_disc H
  | _ => ENop
  end.

(* handlers are looked up at most twice in a row (on_pdu -> on_frame -> handler): depth
   bounds the unfolding; running out of depth raises (i_stop = 3) *)
Fixpoint exec (depth : nat) (H : handlers) (E : env) : eff -> ist -> ist :=
  fix go (e : eff) (s : ist) {struct e} : ist :=
  match i_stop s with
  | S _ => s
  | O =>
    match e with
    | ENop => s
    | ERet => upd s (i_mux s) (i_dlc s) (i_open s) (i_out s) (i_ev s) 1
    | ERaise => upd s (i_mux s) (i_dlc s) (i_open s) (i_out s) (i_ev s) 2
    | ESeq a b => go b (go a s)
    | EIf c a b => if eval_cnd E s c then go a s else go b s
    | EFn a =>
        let s' := go a s in
        match i_stop s' with
        | 1 => upd s' (i_mux s') (i_dlc s') (i_open s') (i_out s') (i_ev s') 0
        | _ => s'
        end
    | ESetMux m => upd s m (i_dlc s) (i_open s) (i_out s) (i_ev s) 0
    | ESetDlc d => upd s (i_mux s) (match i_dlc s with Some _ => Some d | None => None end)
                       (i_open s) (i_out s) (i_ev s) 0
    | ESend k on0 => upd s (i_mux s) (i_dlc s) (i_open s) (i_out s ++ [mkFin k on0]) (i_ev s) 0
    | ECreateDlc => upd s (i_mux s) (Some FInit) (i_open s) (i_out s) (i_ev s) 0
    | ERemoveDlc => upd s (i_mux s) None (i_open s) (i_out s) (i_ev s) 0
    | EOpenPend => upd s (i_mux s) (i_dlc s) true (i_out s) (i_ev s) 0
    | EOpenOk => upd s (i_mux s) (i_dlc s) false (i_out s) EvOk 0
    | EOpenFail => upd s (i_mux s) (i_dlc s) false (i_out s) EvFail 0
    | EMuxHandler =>
        match depth with
        | O => upd s (i_mux s) (i_dlc s) (i_open s) (i_out s) (i_ev s) 3
        | S k => exec k H E (EFn (mux_handler H (f_kind (v_frame E)))) s
        end
    | EDlcHandler =>
        match depth with
        | O => upd s (i_mux s) (i_dlc s) (i_open s) (i_out s) (i_ev s) 3
        | S k => exec k H E (EFn (dlc_handler H (f_kind (v_frame E)))) s
        end
    end
  end.

(* ---------- relating the interpreter to Model/RfcommSm2.v ---------- *)
Definition to_full (x : option dst) : option dstf :=
  match x with
  | None => None
  | Some DConnecting => Some FConnecting | Some DConnected => Some FConnected
  | Some DDisconnecting => Some FDisconnecting | Some DDisconnected => Some FDisconnected
  | Some DReset => Some FReset
  end.

(* a table entry left in INIT or DISCONNECTED-and-removed never survives a handler; INIT
   maps to nothing the model knows: reported as a mismatch by the comparison *)
Definition of_full (x : option dstf) : option (option dst) :=
  match x with
  | None => Some None
  | Some FInit => None
  | Some FConnecting => Some (Some DConnecting) | Some FConnected => Some (Some DConnected)
  | Some FDisconnecting => Some (Some DDisconnecting) | Some FDisconnected => Some (Some DDisconnected)
  | Some FReset => Some (Some DReset)
  end.

Definition fin_of (f : fr2) : fin * nat :=
  match f with
  | G_SABM0 => (mkFin KSabm true, 0) | G_UA0 => (mkFin KUa true, 0) | G_DISC0 => (mkFin KDisc true, 0)
  | G_PNcmd d => (mkFin KPnCmd true, d) | G_PNrsp d => (mkFin KPnRsp true, d)
  | G_PNcmdRB d => (mkFin KPnCmd true, d) | G_PNrspBad d => (mkFin KPnRsp true, d)
  | G_DM d => (mkFin KDm false, d) | G_SABM d => (mkFin KSabm false, d)
  | G_UA d => (mkFin KUa false, d) | G_DISC d => (mkFin KDisc false, d)
  end.

(* frames the interpreted code sends, as model frames for channel d; MSC frames are
   not part of Model/RfcommSm2.v and are dropped *)
(* rb: the PN response carries this end's own, unacceptable, configured frame size *)
Definition fr2_of_gen (rb : bool) (d : nat) (f : fin) : list fr2 :=
  match f_kind f, f_on0 f with
  | KPnRsp, _ => if rb then [G_PNrspBad d] else [G_PNrsp d]
  | KSabm, true => [G_SABM0] | KUa, true => [G_UA0] | KDisc, true => [G_DISC0]
  | KSabm, false => [G_SABM d] | KUa, false => [G_UA d] | KDisc, false => [G_DISC d]
  | KDm, _ => [G_DM d]
  | KPnCmd, _ => [G_PNcmd d]
  | KMscCmd, _ | KMscRsp, _ => []
  end.

Definition fr2_of (d : nat) (f : fin) : list fr2 :=
  match f_kind f, f_on0 f with
  | KSabm, true => [G_SABM0] | KUa, true => [G_UA0] | KDisc, true => [G_DISC0]
  | KSabm, false => [G_SABM d] | KUa, false => [G_UA d] | KDisc, false => [G_DISC d]
  | KDm, _ => [G_DM d]
  | KPnCmd, _ => [G_PNcmd d] | KPnRsp, _ => [G_PNrsp d]
  | KMscCmd, _ | KMscRsp, _ => []
  end.
