(* Model of bumble/avdtp.py MessageAssembler (reset / on_pdu / on_message_complete) and of
   the fragmentation loop of Protocol.send_message, as executable Gallina.  No proofs.

   Reading of the code (after the repairs fixes/D19c.patch and fixes/D19e.patch):
     - on_pdu increments packet_count first, for every PDU, including the ones it drops
       (empty PDU, SINGLE/START shorter than its header).
     - SINGLE / START: if a message is being assembled, reset(); then (D19c) packet_count
       is set to 1: this packet is the first of a new message.  Before the repair the
       counter kept whatever dropped or unterminated packets had left in it (reset() zeroed
       it after the increment), and the count check of the following well-formed message
       failed.
     - CONTINUE / END: dropped when the transaction label or the message type differ from
       the START packet's; otherwise the body is appended; END checks
       packet_count = number_of_signal_packets (else reset), CONTINUE checks
       packet_count <= number_of_signal_packets (else reset).
       The test "packet_count == 0 -> unexpected continuation" is kept although the
       increment above makes it unreachable for a non-negative counter.
     - on_message_complete: Message.create(signal_identifier, message_type, payload),
       callback(transaction_label, message), reset().
   Abstraction: Message.create is modelled as the identity on (signal identifier, message
   type, payload): the delivered observable is (label, signal id, type, payload bytes).
   Message.create parses the payload for registered (signal, type) pairs and can raise on
   a malformed payload; the correspondence check uses pairs for which it is total.
     - send_message: single packet when len + 2 <= mtu, sent whole (D19e: before the repair
       a single packet was cut at mtu - 3 bytes and the last byte of a payload of exactly
       mtu - 2 bytes went out as a stray END packet); otherwise START with
       ceil(len / (mtu - 3)) in the third byte -- bytes([...]) raises when that exceeds 255,
       before anything is sent -- followed by CONTINUE packets and one END packet, each
       carrying mtu - 3 bytes except the last. *)
From Coq Require Import ZArith List Bool.
From BV Require Import Model.C19Chunks.
Import ListNotations.
Open Scope Z_scope.

Record astate := mkA {
  a_label : Z;               (* transaction_label *)
  a_msg : option (list Z);   (* message: None or the bytes accumulated so far *)
  a_mtype : Z;               (* message_type *)
  a_sig : Z;                 (* signal_identifier *)
  a_nsp : Z;                 (* number_of_signal_packets *)
  a_count : Z                (* packet_count *)
}.

(* callback(transaction_label, Message.create(signal_identifier, message_type, payload)) *)
Inductive aout := AMsg (label sig mtype : Z) (payload : list Z).

Definition a_reset : astate := mkA 0 None 0 0 0 0.

Definition a_set_count (s : astate) (c : Z) : astate :=
  mkA (a_label s) (a_msg s) (a_mtype s) (a_sig s) (a_nsp s) c.

Definition PT_SINGLE := 0.
Definition PT_START := 1.
Definition PT_CONTINUE := 2.
Definition PT_END := 3.

(* on_pdu after the first header byte has been split into its three fields;
   [rest] is pdu[1:] and [s] already carries the incremented packet_count. *)
Definition a_on_frame (s : astate) (label pt mt : Z) (rest : list Z) : astate * list aout :=
  if (pt =? PT_SINGLE) || (pt =? PT_START) then
    match rest with
    | [] => (s, [])                                   (* len(pdu) < 2: dropped *)
    | b1 :: rest2 =>
        let sig := b1 mod 64 in
        if pt =? PT_SINGLE then
          (* message = pdu[2:]; on_message_complete(); reset() *)
          (a_reset, [AMsg label sig mt rest2])
        else
          match rest2 with
          | [] => (s, [])                             (* START without a count: dropped *)
          | b2 :: body =>
              (* (reset() if a message was pending;) packet_count = 1 *)
              (mkA label (Some body) mt sig b2 1, [])
          end
    end
  else
    if a_count s =? 0 then (s, [])                    (* 'unexpected continuation' *)
    else if negb (label =? a_label s) then (s, [])    (* label mismatch: dropped *)
    else if negb (mt =? a_mtype s) then (s, [])       (* message type mismatch: dropped *)
    else
      let msg := (match a_msg s with Some m => m | None => [] end) ++ rest in
      if pt =? PT_END then
        if negb (a_count s =? a_nsp s) then (a_reset, [])
        else (a_reset, [AMsg (a_label s) (a_sig s) (a_mtype s) msg])
      else
        if a_nsp s <? a_count s then (a_reset, [])
        else (mkA (a_label s) (Some msg) (a_mtype s) (a_sig s) (a_nsp s) (a_count s), []).

Definition a_on_pdu (s : astate) (pdu : list Z) : astate * list aout :=
  let s1 := a_set_count s (a_count s + 1) in
  match pdu with
  | [] => (s1, [])                                    (* empty PDU dropped *)
  | b0 :: rest => a_on_frame s1 (b0 / 16) ((b0 / 4) mod 4) (b0 mod 4) rest
  end.

Fixpoint a_run (s : astate) (pdus : list (list Z)) : astate * list aout :=
  match pdus with
  | [] => (s, [])
  | p :: ps =>
      let '(s1, o1) := a_on_pdu s p in
      let '(s2, o2) := a_run s1 ps in
      (s2, o1 ++ o2)
  end.

(* ---- Protocol.send_message ---- *)
Definition a_hdr (label pt mt : Z) : Z := label * 16 + pt * 4 + mt.

(* the packets after the START packet: CONTINUE while more than F bytes remain, then END *)
Fixpoint a_tail_packets (label mt : Z) (cs : list (list Z)) : list (list Z) :=
  match cs with
  | [] => []
  | [c] => [a_hdr label PT_END mt :: c]
  | c :: cs' => (a_hdr label PT_CONTINUE mt :: c) :: a_tail_packets label mt cs'
  end.

Inductive fragres :=
| FPackets (ps : list (list Z))
| FRaise            (* bytes([.., packet_count]) with packet_count > 255: ValueError, nothing sent *)
| FOutOfFuel.

Definition a_frag (mtu label sig mt : Z) (payload : list Z) : fragres :=
  let F := mtu - 3 in
  if zlen payload + 2 <=? mtu then
    FPackets [a_hdr label PT_SINGLE mt :: sig :: payload]
  else
    let n := (F - 1 + zlen payload) / F in
    if 255 <? n then FRaise
    else
      match chunks (length payload) (Z.to_nat F) (skipn (Z.to_nat F) payload) with
      | None => FOutOfFuel
      | Some cs =>
          FPackets ((a_hdr label PT_START mt :: sig :: n :: firstn (Z.to_nat F) payload)
                    :: a_tail_packets label mt cs)
      end.

(* observables for the correspondence check *)
Definition aout_obs (o : aout) := match o with AMsg l sg mt p => (l, sg, mt, p) end.
Definition a_obs (s : astate) :=
  (a_label s, a_msg s, a_mtype s, a_sig s, a_nsp s, a_count s).
