(* Model of bumble/l2cap.py ChannelManager: the per-connection tables
   (channels, le_coc_channels, le_coc_requests, pending_credit_based_connections,
   identifiers), the CID allocators, and every open / accept / refuse / close / abort /
   on_channel_closed / on_disconnection path of LE credit-based, enhanced credit-based and
   classic channels together with the futures ("waiters") those paths create and resolve.
   Executable Gallina only; no proofs here.

   The code modelled is l2cap.py AFTER the repairs fixes/D09a..D09f and fixes/D07:
     D09a  on_channel_closed removes the channel from BOTH tables (was if/elif), and only
           the entries that are this very channel;
     D09b  le_coc_requests is keyed by connection handle and identifier, and is dropped on
           disconnection;
     D09c  ClassicChannel.abort also handles WAIT_DISCONNECT, resolves disconnection_result
           and unregisters the channel;
     D09d  LeCreditBasedChannel.flush_output sets `drained`; abort() flushes;
     D09e  ClassicChannel.on_disconnection_request resolves disconnection_result
           (disconnection collision);
     D09f  LE / enhanced client channels are filed in le_coc_channels by the response handler
           (not when the opening coroutine resumes); in this model both are one step;
     D09g  cancelling (or aborting) a pending LE / enhanced open unregisters the channel(s) and
           forgets the request; D09h futures are completed only if not already done;
     D09i  a disconnection request whose source CID is not the channel's destination CID is
           discarded; D09j a classic disconnection response is only accepted in WAIT_DISCONNECT;
     D07   enhanced server channels are filed in le_coc_channels under the peer's CID;
     D08   (C08) a Configure Response "unacceptable parameters" makes the channel adopt a
           suggested MTU / FCS value and send a complete Configure Request, or nothing.

   One manager is modelled; its peers are the environment: an EVENT is an API call made by
   the application, a signalling frame received on a connection (ANY frame: the peer is
   universally quantified), or the loss of a connection.  One step = the synchronous
   handler plus the continuation of the coroutine it wakes up (the harness runs the event
   loop to idle after each event).

   Abstractions (exactly these):
   - a channel object is a record in a heap (list, uid = position = creation order);
     tables map (handle, cid) to uid, as flat association lists with dict semantics;
   - a future/awaited call is an entry of m_w (wid = position): outcome + ghost info;
   - MTU/MPS negotiation is dropped; credits and queued output are counted in whole
     frames (c_credits, c_pending); `drained` is kept exactly;
   - classic configuration options are abstracted to: the mode in the
     retransmission-and-flow-control option (-1 = absent) and "contains an option that is
     rejected"; timers do not exist in the modelled paths;
   - data frames are outputs only (channels of the scenarios have no sink). *)
From Coq Require Import ZArith List Bool.
From BV Require Import Gen.C09Tables.
Import ListNotations.
Open Scope Z_scope.

(* ------------------------------------------------------------------ channels *)
Inductive ckind := KLe | KCl.

Inductive cst :=
| SInit | SConnecting | SConnected | SDisconnecting | SDisconnected | SConnError
| SClosed | SWaitConnectRsp | SWaitConfigReqRsp | SWaitConfigReq | SWaitConfigRsp
| SOpen | SWaitDisconnect
| SOrphan.   (* classic WAIT_DISCONNECT after create_classic_channel unregistered it *)

(* the integer the implementation reports (classic states offset by 100) *)
Definition st_code (s : cst) : Z :=
  match s with
  | SInit => 0 | SConnected => 1 | SConnecting => 2 | SDisconnecting => 3
  | SDisconnected => 4 | SConnError => 5
  | SClosed => 100 | SWaitConnectRsp => 102 | SOpen => 103 | SWaitDisconnect => 104
  | SWaitConfigReqRsp => 118 | SWaitConfigRsp => 119 | SWaitConfigReq => 120
  | SOrphan => 104
  end.

Record chan := mkChan {
  c_kind : ckind;
  c_conn : Z;            (* connection handle *)
  c_scid : Z;            (* source (local) CID *)
  c_dcid : Z;            (* destination (peer) CID *)
  c_st : cst;
  c_mode : Z;            (* classic: 0 basic, 3 enhanced retransmission *)
  c_credits : Z;         (* LE: frames we may still send *)
  c_pending : Z;         (* LE: frames queued and not sent *)
  c_drained : bool;      (* LE: the `drained` event *)
  c_cw : option Z;       (* connection_result: waiter id *)
  c_dw : option Z;       (* disconnection_result awaited by disconnect(): waiter id *)
  c_ref : Z;             (* ghost: identifier of the LE / enhanced request that is opening it *)
  c_live : bool          (* ghost: the connection object it was created on is still the
                            current one (no link loss since) *)
}.

Definition set_st (c : chan) (s : cst) : chan :=
  mkChan (c_kind c) (c_conn c) (c_scid c) (c_dcid c) s (c_mode c) (c_credits c) (c_pending c)
         (c_drained c) (c_cw c) (c_dw c) (c_ref c) (c_live c).
Definition set_dcid (c : chan) (d : Z) : chan :=
  mkChan (c_kind c) (c_conn c) (c_scid c) d (c_st c) (c_mode c) (c_credits c) (c_pending c)
         (c_drained c) (c_cw c) (c_dw c) (c_ref c) (c_live c).
Definition set_cw (c : chan) (w : option Z) : chan :=
  mkChan (c_kind c) (c_conn c) (c_scid c) (c_dcid c) (c_st c) (c_mode c) (c_credits c) (c_pending c)
         (c_drained c) w (c_dw c) (c_ref c) (c_live c).
Definition set_dw (c : chan) (w : option Z) : chan :=
  mkChan (c_kind c) (c_conn c) (c_scid c) (c_dcid c) (c_st c) (c_mode c) (c_credits c) (c_pending c)
         (c_drained c) (c_cw c) w (c_ref c) (c_live c).
Definition set_ref (c : chan) (r : Z) : chan :=
  mkChan (c_kind c) (c_conn c) (c_scid c) (c_dcid c) (c_st c) (c_mode c) (c_credits c) (c_pending c)
         (c_drained c) (c_cw c) (c_dw c) r (c_live c).
Definition set_live (c : chan) (b : bool) : chan :=
  mkChan (c_kind c) (c_conn c) (c_scid c) (c_dcid c) (c_st c) (c_mode c) (c_credits c) (c_pending c)
         (c_drained c) (c_cw c) (c_dw c) (c_ref c) b.
Definition set_out (c : chan) (credits pending : Z) (drained : bool) : chan :=
  mkChan (c_kind c) (c_conn c) (c_scid c) (c_dcid c) (c_st c) (c_mode c) credits pending
         drained (c_cw c) (c_dw c) (c_ref c) (c_live c).

(* ------------------------------------------------------------------ waiters *)
(* outcome of a future / awaited call *)
Definition O_PENDING := 0.
Definition O_RESULT := 1.
Definition O_ERROR := 2.
Definition O_CANCELLED := 3.

Inductive wkind := WOpen | WOpenEnh | WClose.
(* w_ref is ghost: the uid of the channel whose connection_result / disconnection_result the
   future is (WOpen, WClose), or the identifier of the enhanced request (WOpenEnh) *)
Record waiter := mkW { w_out : Z; w_kind : wkind; w_conn : Z; w_ref : Z }.

(* ------------------------------------------------------------------ tables *)
(* (handle, key, value) with dictionary semantics: at most one entry per (handle, key) *)
Definition table (V : Type) := list (Z * Z * V).

Definition key_is {V} (h k : Z) (e : Z * Z * V) : bool :=
  Z.eqb (fst (fst e)) h && Z.eqb (snd (fst e)) k.
Definition conn_is {V} (h : Z) (e : Z * Z * V) : bool := Z.eqb (fst (fst e)) h.

Fixpoint tget {V} (h k : Z) (t : table V) : option V :=
  match t with
  | [] => None
  | e :: t' => if key_is h k e then Some (snd e) else tget h k t'
  end.
Definition tdel {V} (h k : Z) (t : table V) : table V := filter (fun e => negb (key_is h k e)) t.
Definition tset {V} (h k : Z) (v : V) (t : table V) : table V := (h, k, v) :: tdel h k t.
Definition tdrop {V} (h : Z) (t : table V) : table V := filter (fun e => negb (conn_is h e)) t.
Definition tconn {V} (h : Z) (t : table V) : table V := filter (conn_is h) t.
Definition tkeys {V} (h : Z) (t : table V) : list Z := map (fun e => snd (fst e)) (tconn h t).

Fixpoint memz (x : Z) (l : list Z) : bool :=
  match l with [] => false | y :: l' => Z.eqb x y || memz x l' end.

(* ------------------------------------------------------------------ the manager *)
Record mgr := mkM {
  m_heap : list chan;                       (* every channel object ever created *)
  m_chs : table Z;                          (* channels: (handle, source cid) -> uid *)
  m_le : table Z;                           (* le_coc_channels: (handle, destination cid) -> uid *)
  m_reqs : table Z;                         (* le_coc_requests: (handle, identifier) -> source cid *)
  m_pend : table (Z * list Z);              (* pending_credit_based_connections: -> (waiter, uids) *)
  m_ids : list (Z * Z);                     (* identifiers: handle -> last identifier used *)
  m_w : list waiter;                        (* every future / awaited call *)
  m_lesrv : list (Z * Z);                   (* le_coc_servers: psm -> max_credits *)
  m_clsrv : list (Z * Z)                    (* servers: psm -> mode *)
}.

Definition m_init (lesrv clsrv : list (Z * Z)) : mgr := mkM [] [] [] [] [] [] [] lesrv clsrv.

Definition with_heap (m : mgr) (x : list chan) :=
  mkM x (m_chs m) (m_le m) (m_reqs m) (m_pend m) (m_ids m) (m_w m) (m_lesrv m) (m_clsrv m).
Definition with_chs (m : mgr) (x : table Z) :=
  mkM (m_heap m) x (m_le m) (m_reqs m) (m_pend m) (m_ids m) (m_w m) (m_lesrv m) (m_clsrv m).
Definition with_le (m : mgr) (x : table Z) :=
  mkM (m_heap m) (m_chs m) x (m_reqs m) (m_pend m) (m_ids m) (m_w m) (m_lesrv m) (m_clsrv m).
Definition with_reqs (m : mgr) (x : table Z) :=
  mkM (m_heap m) (m_chs m) (m_le m) x (m_pend m) (m_ids m) (m_w m) (m_lesrv m) (m_clsrv m).
Definition with_pend (m : mgr) (x : table (Z * list Z)) :=
  mkM (m_heap m) (m_chs m) (m_le m) (m_reqs m) x (m_ids m) (m_w m) (m_lesrv m) (m_clsrv m).
Definition with_ids (m : mgr) (x : list (Z * Z)) :=
  mkM (m_heap m) (m_chs m) (m_le m) (m_reqs m) (m_pend m) x (m_w m) (m_lesrv m) (m_clsrv m).
Definition with_w (m : mgr) (x : list waiter) :=
  mkM (m_heap m) (m_chs m) (m_le m) (m_reqs m) (m_pend m) (m_ids m) x (m_lesrv m) (m_clsrv m).

(* heap access *)
Definition hget (m : mgr) (u : Z) : option chan :=
  if u <? 0 then None else nth_error (m_heap m) (Z.to_nat u).
Fixpoint lupd {A} (l : list A) (n : nat) (f : A -> A) : list A :=
  match l, n with
  | [], _ => []
  | x :: l', O => f x :: l'
  | x :: l', S n' => x :: lupd l' n' f
  end.
Definition hupd (m : mgr) (u : Z) (f : chan -> chan) : mgr :=
  if u <? 0 then m else with_heap m (lupd (m_heap m) (Z.to_nat u) f).
(* a new channel object gets the next uid *)
Definition huid (m : mgr) : Z := Z.of_nat (length (m_heap m)).
Definition hnew (m : mgr) (c : chan) : mgr := with_heap m (m_heap m ++ [c]).

(* waiters *)
Definition wuid (m : mgr) : Z := Z.of_nat (length (m_w m)).
Definition wnew (m : mgr) (o : Z) (k : wkind) (h r : Z) : mgr := with_w m (m_w m ++ [mkW o k h r]).
(* a future can be completed once: set_result / set_exception / cancel on a pending future *)
Definition wres1 (o : Z) (w : waiter) : waiter :=
  if Z.eqb (w_out w) O_PENDING then mkW o (w_kind w) (w_conn w) (w_ref w) else w.
Definition wres (m : mgr) (w : Z) (o : Z) : mgr :=
  if w <? 0 then m else with_w m (lupd (m_w m) (Z.to_nat w) (wres1 o)).
Definition wres_opt (m : mgr) (w : option Z) (o : Z) : mgr :=
  match w with Some x => wres m x o | None => m end.
Definition wout (m : mgr) (w : Z) : Z :=
  if w <? 0 then O_ERROR else
  match nth_error (m_w m) (Z.to_nat w) with Some x => w_out x | None => O_ERROR end.

(* ------------------------------------------------------------------ CID allocation *)
(* find_free_le_cids / find_free_br_edr_cid: the smallest CIDs of [cid, hi] that are not in
   `used`, in ascending order.  Python scans the whole range; scanning
   length used + count candidates is enough (pigeonhole), which keeps the recursion
   structural and small. *)
Fixpoint scan (fuel : nat) (cid hi : Z) (used : list Z) (count : nat) : list Z :=
  match count with
  | O => []
  | S count' =>
      match fuel with
      | O => []
      | S fuel' =>
          if hi <? cid then []
          else if memz cid used then scan fuel' (cid + 1) hi used count
          else cid :: scan fuel' (cid + 1) hi used count'
      end
  end.

Definition find_free_n (lo hi : Z) (used : list Z) (count : nat) : list Z :=
  let r := scan (length used + count) lo hi used count in
  if Nat.eqb (length r) count then r else [].

Definition find_free_le_n (used : list Z) (count : nat) : list Z :=
  match count with O => [] | _ => find_free_n le_cid_lo le_cid_hi used count end.
Definition find_free_le (used : list Z) : option Z := hd_error (find_free_le_n used 1).
Definition find_free_bredr (used : list Z) : option Z :=
  hd_error (find_free_n bredr_cid_lo bredr_cid_hi used 1).

(* ------------------------------------------------------------------ frames and events *)
Inductive frame :=
| FConnReq (id psm scid : Z)
| FConnRsp (id dcid scid result : Z)
| FConfReq (id dcid rfc : Z) (bad : bool)
| FConfRsp (id scid result sugg : Z)   (* sugg: the options carry 0 nothing usable, 1 an MTU / FCS-off value, 2 FCS on *)
| FDiscReq (id dcid scid : Z)
| FDiscRsp (id dcid scid : Z)
| FLeReq (id psm scid credits : Z) (okp : bool)   (* okp: MTU and MPS of the request are within the limits *)
| FLeRsp (id dcid credits result : Z) (okp : bool)   (* okp: MTU and MPS of the response are within the limits *)
| FEnhReq (id psm credits : Z) (scids : list Z) (okp : bool)
| FEnhRsp (id credits result : Z) (dcids : list Z) (okp : bool)
| FCredit (id cid credits : Z)
| FReject (id : Z)
| FData (cid : Z).

Definition K_LE := 0.
Definition K_ENH := 1.
Definition K_CL := 2.

Inductive event :=
| EOpen (h kind psm n mode credits : Z)   (* create_le_credit_based_channel /
                                             create_enhanced_credit_based_channels(count n) /
                                             create_classic_channel *)
| EClose (uid : Z)                        (* channel.disconnect() *)
| EAbort (uid : Z)                        (* channel.abort() *)
| ECancel (w : Z)                         (* the caller cancels the task awaiting call w *)
| EWrite (uid k : Z)                      (* channel.write of k whole frames *)
| EGrant (uid n : Z)                      (* send n credits for the channel *)
| ERecv (h : Z) (f : frame)               (* a signalling frame arrives *)
| EDown (h : Z).                          (* the connection is lost *)

(* next_identifier *)
Fixpoint aget (h : Z) (l : list (Z * Z)) : option Z :=
  match l with [] => None | (k, v) :: l' => if Z.eqb k h then Some v else aget h l' end.
Definition adel (h : Z) (l : list (Z * Z)) : list (Z * Z) :=
  filter (fun e => negb (Z.eqb (fst e) h)) l.
Definition nid (m : mgr) (h : Z) : Z :=
  let cur := match aget h (m_ids m) with Some v => v | None => 0 end in
  let i := (cur + 1) mod 256 in
  if Z.eqb i 0 then 1 else i.
Definition next_id (m : mgr) (h : Z) : mgr := with_ids m ((h, nid m h) :: adel h (m_ids m)).

(* process_output: send while credits > 0; `drained` is set only when the loop finds the
   queue empty with a credit in hand *)
Definition po_sent (c : chan) : Z :=
  let sent := Z.min (c_credits c) (c_pending c) in
  if sent <? 0 then 0 else sent.
Definition process_output (c : chan) : chan :=
  let sent := po_sent c in
  let cr := c_credits c - sent in
  let pe := c_pending c - sent in
  set_out c cr pe (if Z.eqb pe 0 && (0 <? cr) then true else c_drained c).

Definition flush_output (c : chan) : chan := set_out c (c_credits c) 0 true.

Definition datas (cid : Z) (n : Z) : list frame := repeat (FData cid) (Z.to_nat n).

(* on_channel_closed (repaired): both tables, only this channel's entries *)
Definition is_uid (o : option Z) (u : Z) : bool :=
  match o with Some x => Z.eqb x u | None => false end.
Definition on_channel_closed (m : mgr) (u : Z) (c : chan) : mgr :=
  let m1 := if is_uid (tget (c_conn c) (c_scid c) (m_chs m)) u
            then with_chs m (tdel (c_conn c) (c_scid c) (m_chs m)) else m in
  if is_uid (tget (c_conn c) (c_dcid c) (m_le m1)) u
  then with_le m1 (tdel (c_conn c) (c_dcid c) (m_le m1)) else m1.

Definition wpending (m : mgr) (w : option Z) : bool :=
  match w with Some x => Z.eqb (wout m x) O_PENDING | None => false end.

(* create_le_credit_based_channel whose connect() was cancelled (by abort() or by the
   caller): connect() forgets the request, the channel is unregistered (both only if the
   entries are still this channel's) *)
Definition le_open_abandoned (m : mgr) (u : Z) (c : chan) : mgr :=
  let m1 := if is_uid (tget (c_conn c) (c_ref c) (m_reqs m)) (c_scid c)
            then with_reqs m (tdel (c_conn c) (c_ref c) (m_reqs m)) else m in
  if is_uid (tget (c_conn c) (c_scid c) (m_chs m1)) u
  then with_chs m1 (tdel (c_conn c) (c_scid c) (m_chs m1)) else m1.

(* LeCreditBasedChannel.abort / ClassicChannel.abort (repaired) *)
Definition abort_chan (m : mgr) (u : Z) : mgr :=
  match hget m u with
  | None => m
  | Some c =>
      match c_kind c with
      | KLe =>
          let closing := match c_st c with SConnected | SDisconnecting => true | _ => false end in
          let m1 := if closing then on_channel_closed (hupd m u (fun c => set_st c SDisconnected)) u c
                    else m in
          let m2 := wres_opt m1 (c_cw c) O_CANCELLED in
          let m3 := wres_opt m2 (c_dw c) O_RESULT in
          let m4 := hupd m3 u (fun c => flush_output (set_dw (set_cw c None) None)) in
          (* a pending connect() is cancelled: its coroutine cleans up *)
          if wpending m (c_cw c) then le_open_abandoned m4 u c else m4
      | KCl =>
          let closing := match c_st c with SOpen | SWaitDisconnect | SOrphan => true | _ => false end in
          let m1 := if closing then on_channel_closed (hupd m u (fun c => set_st c SClosed)) u c
                    else m in
          let m2 := wres_opt m1 (c_dw c) O_RESULT in
          hupd m2 u (fun c => set_dw c None)
      end
  end.

Definition rfc_of_mode (mode : Z) : Z := if Z.eqb mode 3 then 3 else (-1).

(* results *)
Definition R_OK := 0.
Definition R_PENDING := 1.
Definition R_NO_PSM := 2.
Definition R_NO_RESOURCES := 4.
Definition R_CID_IN_USE := 10.
Definition R_LE_BAD_PARAMS := 11.     (* CONNECTION_REFUSED_UNACCEPTABLE_PARAMETERS *)
Definition R_ENH_BAD_PARAMS := 12.    (* ALL_CONNECTIONS_REFUSED_INVALID_PARAMETERS *)
Definition CONF_UNACCEPTABLE := 1.
Definition CONF_UNKNOWN_OPTIONS := 3.

(* create LE channels in state st, file them in `channels` and, for accepted (connected)
   channels, in `le_coc_channels` under the peer's CID, one after the other as the code
   does; returns the uids in creation order *)
Fixpoint new_le_chans (m : mgr) (h : Z) (st : cst) (credits r : Z) (regle : bool) (pairs : list (Z * Z))
  : mgr * list Z :=
  match pairs with
  | [] => (m, [])
  | (scid, dcid) :: ps =>
      let u := huid m in
      let m1 := hnew m (mkChan KLe h scid dcid st 0 credits 0 true None None r true) in
      let m2 := with_chs m1 (tset h scid u (m_chs m1)) in
      let m2' := if regle then with_le m2 (tset h dcid u (m_le m2)) else m2 in
      let '(m3, us) := new_le_chans m2' h st credits r regle ps in
      (m3, u :: us)
  end.

Fixpoint le_register (m : mgr) (us : list Z) : mgr :=
  match us with
  | [] => m
  | u :: us' =>
      let m1 := match hget m u with
                | Some c => with_le m (tset (c_conn c) (c_dcid c) u (m_le m))
                | None => m end in
      le_register m1 us'
  end.

Fixpoint chs_unregister (m : mgr) (us : list Z) : mgr :=
  match us with
  | [] => m
  | u :: us' =>
      let m1 := match hget m u with
                | Some c => with_chs m (tdel (c_conn c) (c_scid c) (m_chs m))
                | None => m end in
      chs_unregister m1 us'
  end.

(* create_enhanced_credit_based_channels creates the channels, then files
   (future, channels) under the request identifier.  The model files the future with an
   empty channel list first and appends each channel as it is created: the same final
   state, reached through states that each satisfy the invariant. *)
Definition pend_add (m : mgr) (h i u : Z) : mgr :=
  match tget h i (m_pend m) with
  | Some (w, us) => with_pend m (tset h i (w, us ++ [u]) (m_pend m))
  | None => m
  end.

Fixpoint new_enh_chans (m : mgr) (h i : Z) (scids : list Z) : mgr :=
  match scids with
  | [] => m
  | scid :: rest =>
      let u := huid m in
      let m1 := hnew m (mkChan KLe h scid 0 SInit 0 0 0 true None None i true) in
      let m2 := with_chs m1 (tset h scid u (m_chs m1)) in
      new_enh_chans (pend_add m2 h i u) h i rest
  end.

(* on_l2cap_credit_based_connection_response: for (channel, cid) in zip(channels, cids):
   channel.on_enhanced_connection_response; then the future is completed and the
   continuation of create_enhanced_credit_based_channels files every channel in
   le_coc_channels (success) or removes every channel from `channels` (failure).  The model
   handles one channel completely before the next (the operations on different channels
   commute) and completes the future last. *)
Definition pend_set (m : mgr) (h i : Z) (us : list Z) : mgr :=
  match tget h i (m_pend m) with
  | Some (w, _) => with_pend m (tset h i (w, us) (m_pend m))
  | None => m
  end.

Fixpoint enh_each (m : mgr) (h i : Z) (us dcids : list Z) (ok : bool) (credits : Z) : mgr :=
  match us with
  | [] => m
  | u :: us' =>
      let m1 := pend_set m h i us' in
      let m2 := match dcids with
                | d :: _ =>
                    hupd m1 u (fun c => if ok then set_st (set_out (set_dcid c d) credits (c_pending c) (c_drained c)) SConnected
                                        else set_st c SConnError)
                | [] => m1 end in
      let m3 := if ok then le_register m2 [u] else chs_unregister m2 [u] in
      enh_each m3 h i us' (tl dcids) ok credits
  end.

(* ------------------------------------------------------------------ API calls *)
Definition open_le (m : mgr) (h psm credits : Z) : mgr * list frame :=
  match find_free_le (tkeys h (m_chs m)) with
  | None => (wnew m O_ERROR WOpen h (-1), [])                      (* OutOfResourcesError *)
  | Some scid =>
      let u := huid m in
      let m1 := hnew m (mkChan KLe h scid 0 SInit 0 0 0 true None None 0 true) in
      let m2 := with_chs m1 (tset h scid u (m_chs m1)) in
      let i := nid m2 h in
      let m3 := next_id m2 h in
      match tget h i (m_reqs m3) with
      | Some _ =>                                                  (* too many concurrent requests *)
          (wnew (with_chs m3 (tdel h scid (m_chs m3))) O_ERROR WOpen h u, [])
      | None =>
          let w := wuid m3 in
          let m4 := wnew m3 O_PENDING WOpen h u in
          let m5 := hupd m4 u (fun c => set_ref (set_st (set_cw c (Some w)) SConnecting) i) in
          (with_reqs m5 (tset h i scid (m_reqs m5)), [FLeReq i psm scid credits true])
      end
  end.

Definition open_enh (m : mgr) (h psm n credits : Z) : mgr * list frame :=
  match find_free_le_n (tkeys h (m_chs m)) (Z.to_nat n) with
  | [] => (wnew m O_ERROR WOpenEnh h (-1), [])
  | scids =>
      let i := nid m h in
      let w := wuid m in
      let m1 := wnew (next_id m h) O_PENDING WOpenEnh h i in
      let m2 := with_pend m1 (tset h i (w, []) (m_pend m1)) in
      (new_enh_chans m2 h i scids, [FEnhReq i psm credits scids true])
  end.

Definition open_cl (m : mgr) (h psm mode : Z) : mgr * list frame :=
  match find_free_bredr (tkeys h (m_chs m)) with
  | None => (wnew m O_ERROR WOpen h (-1), [])
  | Some scid =>
      let u := huid m in
      let m1 := hnew m (mkChan KCl h scid 0 SClosed mode 0 0 true None None 0 true) in
      let m2 := with_chs m1 (tset h scid u (m_chs m1)) in
      let i := nid m2 h in
      let m3 := next_id m2 h in
      let w := wuid m3 in
      let m4 := wnew m3 O_PENDING WOpen h u in
      (hupd m4 u (fun c => set_st (set_cw c (Some w)) SWaitConnectRsp), [FConnReq i psm scid])
  end.

Definition do_close (m : mgr) (u : Z) : mgr * list frame :=
  match hget m u with
  | None => (m, [])
  | Some c =>
      let ok := match c_kind c, c_st c with
                | KLe, SConnected => true | KCl, SOpen => true | _, _ => false end in
      if negb ok then (wnew m O_ERROR WClose (c_conn c) u, [])   (* InvalidStateError *)
      else
        let w := wuid m in
        let m1 := wnew m O_PENDING WClose (c_conn c) u in
        let i := nid m1 (c_conn c) in
        let m2 := next_id m1 (c_conn c) in
        let m3 := hupd m2 u (fun c =>
                     match c_kind c with
                     | KLe => flush_output (set_st (set_dw c (Some w)) SDisconnecting)
                     | KCl => set_st (set_dw c (Some w)) SWaitDisconnect
                     end) in
        (m3, [FDiscReq i (c_dcid c) (c_scid c)])
  end.

Definition do_write (m : mgr) (u k : Z) : mgr * list frame :=
  match hget m u with
  | Some c =>
      match c_kind c, c_st c with
      | KLe, SConnected =>
          let c1 := set_out c (c_credits c) (c_pending c + k) false in
          (hupd m u (fun _ => process_output c1), datas (c_dcid c) (po_sent c1))
      | _, _ => (m, [])
      end
  | None => (m, [])
  end.

Definition do_grant (m : mgr) (u n : Z) : mgr * list frame :=
  match hget m u with
  | Some c => (next_id m (c_conn c), [FCredit (nid m (c_conn c)) (c_scid c) n])
  | None => (m, [])
  end.

(* ------------------------------------------------------------------ received frames *)
Definition srv_get (psm : Z) (l : list (Z * Z)) : option Z := aget psm l.

Definition recv_le_req (m : mgr) (h id psm scid credits : Z) (okp : bool) : mgr * list frame :=
  match srv_get psm (m_lesrv m) with
  | None => (m, [FLeRsp id 0 0 R_NO_PSM true])
  | Some srv_credits =>
      if negb okp then (m, [FLeRsp id 0 0 R_LE_BAD_PARAMS true])        (* MTU / MPS below the minimum *)
      else if memz scid (tkeys h (m_le m)) then (m, [FLeRsp id 0 0 R_CID_IN_USE true])
      else match find_free_le (tkeys h (m_chs m)) with
           | None => (m, [FLeRsp id 0 0 R_NO_RESOURCES true])
           | Some local =>
               (fst (new_le_chans m h SConnected credits 0 true [(local, scid)]),
                [FLeRsp id local srv_credits R_OK true])
           end
  end.

Definition recv_le_rsp (m : mgr) (h id dcid credits result : Z) : mgr * list frame :=
  match tget h id (m_reqs m) with
  | None => (m, [])
  | Some scid =>
      let m1 := with_reqs m (tdel h id (m_reqs m)) in
      match tget h scid (m_chs m1) with
      | None => (m1, [])
      | Some u =>
          match hget m1 u with
          | None => (m1, [])
          | Some c =>
              match c_cw c with
              | None => (m1, [])                       (* unexpected connection response *)
              | Some w =>
                  if Z.eqb result R_OK then
                    let m2 := wres m1 w O_RESULT in
                    let m3 := hupd m2 u (fun c =>
                                set_cw (set_st (set_out (set_dcid c dcid) credits (c_pending c) (c_drained c))
                                               SConnected) None) in
                    (le_register m3 [u], [])           (* continuation of create_le_... *)
                  else
                    let m2 := wres m1 w O_ERROR in
                    let m3 := hupd m2 u (fun c => set_cw (set_st c SConnError) None) in
                    (with_chs m3 (tdel h scid (m_chs m3)), [])
              end
          end
      end
  end.

Fixpoint any_mem (xs ys : list Z) : bool :=
  match xs with [] => false | x :: xs' => memz x ys || any_mem xs' ys end.

Definition recv_enh_req (m : mgr) (h id psm credits : Z) (scids : list Z) (okp : bool) : mgr * list frame :=
  match srv_get psm (m_lesrv m) with
  | None => (m, [FEnhRsp id 0 R_NO_PSM [] true])
  | Some srv_credits =>
      if negb okp then (m, [FEnhRsp id 0 R_ENH_BAD_PARAMS [] true])
      else if any_mem scids (tkeys h (m_le m)) then (m, [FEnhRsp id 0 R_CID_IN_USE [] true])
      else match find_free_le_n (tkeys h (m_chs m)) (length scids) with
           | [] => (m, [FEnhRsp id srv_credits R_NO_RESOURCES [] true])
           | locals =>
               (fst (new_le_chans m h SConnected credits 0 true (combine locals scids)),
                [FEnhRsp id srv_credits R_OK locals true])
           end
  end.

Definition enh_finish (m : mgr) (h id w : Z) (us dcids : list Z) (ok : bool) (credits o : Z) : mgr :=
  let m1 := enh_each m h id us dcids ok credits in
  wres (with_pend m1 (tdel h id (m_pend m1))) w o.

Definition recv_enh_rsp (m : mgr) (h id credits result : Z) (dcids : list Z) : mgr * list frame :=
  match tget h id (m_pend m) with
  | None => (m, [])
  | Some (w, us) =>
      let ok := Z.eqb result R_OK in
      (enh_finish m h id w us dcids ok credits (if ok then O_RESULT else O_ERROR), [])
  end.

Definition recv_conn_req (m : mgr) (h id psm scid : Z) : mgr * list frame :=
  match srv_get psm (m_clsrv m) with
  | None => (m, [FConnRsp id 0 scid R_NO_PSM])
  | Some mode =>
      match find_free_bredr (tkeys h (m_chs m)) with
      | None => (m, [FReject id])                      (* OutOfResourcesError escapes the handler *)
      | Some local =>
          let u := huid m in
          let m1 := hnew m (mkChan KCl h local scid SWaitConfigReqRsp mode 0 0 true None None 0 true) in
          let m2 := with_chs m1 (tset h local u (m_chs m1)) in
          let i := nid m2 h in
          let m3 := next_id m2 h in
          (m3, [FConnRsp id local scid R_OK; FConfReq i scid (rfc_of_mode mode) false])
      end
  end.

(* the channel a classic signalling frame addresses; None also when the CID belongs to an
   LE channel (the implementation then raises AttributeError: Command Reject, nothing
   changes) -- see ev_ok *)
Definition find_cl (m : mgr) (h cid : Z) : option (Z * chan) :=
  match tget h cid (m_chs m) with
  | None => None
  | Some u => match hget m u with
              | Some c => match c_kind c with KCl => Some (u, c) | KLe => None end
              | None => None end
  end.

(* the end of create_classic_channel after connect() raised: the channel is unregistered *)
Definition cl_connect_failed (m : mgr) (u : Z) (c : chan) : mgr :=
  let m1 := hupd m u (fun c => set_cw c None) in
  with_chs m1 (tdel (c_conn c) (c_scid c) (m_chs m1)).


Definition recv_conn_rsp (m : mgr) (h id dcid scid result : Z) : mgr * list frame :=
  match find_cl m h scid with
  | None => (m, [])
  | Some (u, c) =>
      match c_st c with
      | SWaitConnectRsp =>
          if Z.eqb result R_OK then
            let i := nid m h in
            let m1 := next_id m h in
            (hupd m1 u (fun c => set_st (set_dcid c dcid) SWaitConfigReqRsp),
             [FConfReq i dcid (rfc_of_mode (c_mode c)) false])
          else if Z.eqb result R_PENDING then (m, [])
          else
            let m1 := hupd m u (fun c => set_st c SClosed) in
            if wpending m1 (c_cw c)
            then (cl_connect_failed (wres_opt m1 (c_cw c) O_ERROR) u c, [])
            else (hupd m1 u (fun c => set_cw c None), [])
      | _ => (m, [])
      end
  end.

Definition recv_conf_req (m : mgr) (h id dcid rfc : Z) (bad : bool) : mgr * list frame :=
  match find_cl m h dcid with
  | None => (m, [])
  | Some (u, c) =>
      let in_config := match c_st c with SWaitConfigReqRsp | SWaitConfigReq => true | _ => false end in
      if negb in_config then (m, [])
      else if (0 <=? rfc) && negb (Z.eqb rfc (c_mode c)) then
        (* mode mismatch: fail the pending connect, start a disconnection *)
        let failing := wpending m (c_cw c) in
        let m1 := wres_opt m (c_cw c) O_ERROR in
        let i := nid m1 h in
        let m2 := next_id m1 h in
        let m3 := hupd m2 u (fun c => set_st c SWaitDisconnect) in
        let m4 := if failing
                  then hupd (cl_connect_failed m3 u c) u (fun c => set_st c SOrphan)
                  else m3 in
        (m4, [FDiscReq i (c_dcid c) (c_scid c)])
      else if bad then (m, [FConfRsp id (c_dcid c) CONF_UNKNOWN_OPTIONS 0])
      else
        match c_st c with
        | SWaitConfigReqRsp =>
            (hupd m u (fun c => set_st c SWaitConfigRsp), [FConfRsp id (c_dcid c) 0 1])
        | _ =>  (* SWaitConfigReq *)
            let m1 := wres_opt m (c_cw c) O_RESULT in
            (hupd m1 u (fun c => set_cw (set_st c SOpen) None), [FConfRsp id (c_dcid c) 0 1])
        end
  end.

Definition recv_conf_rsp (m : mgr) (h id scid result sugg : Z) : mgr * list frame :=
  match find_cl m h scid with
  | None => (m, [])
  | Some (u, c) =>
      if Z.eqb result 0 then
        match c_st c with
        | SWaitConfigReqRsp => (hupd m u (fun c => set_st c SWaitConfigReq), [])
        | SWaitConfigRsp =>
            let m1 := wres_opt m (c_cw c) O_RESULT in
            (hupd m1 u (fun c => set_cw (set_st c SOpen) None), [])
        | _ => (m, [])
        end
      else if Z.eqb result CONF_UNACCEPTABLE then
        (* (after D08) adopt the suggested MTU / FCS value and send a complete Configure Request
           again; with nothing usable suggested, nothing is sent *)
        if Z.eqb sugg 0 then (m, [])
        else (next_id m h, [FConfReq (nid m h) (c_dcid c) (rfc_of_mode (c_mode c)) false])
      else (m, [])
  end.

Definition recv_disc_req (m : mgr) (h id dcid scid : Z) : mgr * list frame :=
  match tget h dcid (m_chs m) with
  | None => (m, [])
  | Some u =>
      match hget m u with
      | None => (m, [])
      | Some c =>
          if negb (Z.eqb scid (c_dcid c)) then (m, [])      (* not a request for this channel *)
          else
          match c_kind c with
          | KLe =>
              let m1 := hupd m u (fun c => set_st c SDisconnected) in
              let m2 := on_channel_closed m1 u c in
              let m3 := wres_opt m2 (c_dw c) O_RESULT in
              (hupd m3 u (fun c => flush_output (set_dw c None)), [FDiscRsp id dcid scid])
          | KCl =>
              let failing := wpending m (c_cw c) in
              let m1 := wres_opt m (c_cw c) O_ERROR in
              let m2 := hupd m1 u (fun c => set_st c SClosed) in
              let m3 := wres_opt m2 (c_dw c) O_RESULT in
              let m4 := on_channel_closed (hupd m3 u (fun c => set_dw c None)) u c in
              ((if failing then cl_connect_failed m4 u c else m4), [FDiscRsp id dcid scid])
          end
      end
  end.

Definition recv_disc_rsp (m : mgr) (h id dcid scid : Z) : mgr * list frame :=
  match tget h scid (m_chs m) with
  | None => (m, [])
  | Some u =>
      match hget m u with
      | None => (m, [])
      | Some c =>
          let cids_ok := Z.eqb dcid (c_dcid c) && Z.eqb scid (c_scid c) in
          match c_kind c with
          | KLe =>
              match c_st c with
              | SDisconnecting =>
                  if negb cids_ok then (m, [])
                  else
                    let m1 := hupd m u (fun c => set_st c SDisconnected) in
                    let m2 := on_channel_closed m1 u c in
                    let m3 := wres_opt m2 (c_dw c) O_RESULT in
                    (hupd m3 u (fun c => set_dw c None), [])
              | _ => (m, [])
              end
          | KCl =>
              match c_st c with
              | SWaitDisconnect =>
                  if negb cids_ok then (m, [])
                  else
                    let m1 := hupd m u (fun c => set_st c SClosed) in
                    let m2 := wres_opt m1 (c_dw c) O_RESULT in
                    (on_channel_closed (hupd m2 u (fun c => set_dw c None)) u c, [])
              | _ => (m, [])
              end
          end
      end
  end.

Definition recv_credit (m : mgr) (h cid n : Z) : mgr * list frame :=
  match tget h cid (m_le m) with
  | None => (m, [])
  | Some u =>
      match hget m u with
      | None => (m, [])
      | Some c =>
          let c1 := set_out c (c_credits c + n) (c_pending c) (c_drained c) in
          (hupd m u (fun _ => process_output c1), datas (c_dcid c) (po_sent c1))
      end
  end.

(* (D17g) a successful response whose MTU / MPS are outside the limits is handled as a refusal:
   LeCreditBasedChannel.on_connection_response / on_l2cap_credit_based_connection_response
   replace the result before anything else is done with it *)
Definition eff_le (result : Z) (okp : bool) : Z :=
  if Z.eqb result R_OK && negb okp then R_LE_BAD_PARAMS else result.
Definition eff_enh (result : Z) (okp : bool) : Z :=
  if Z.eqb result R_OK && negb okp then R_ENH_BAD_PARAMS else result.

Definition recv (m : mgr) (h : Z) (f : frame) : mgr * list frame :=
  match f with
  | FConnReq id psm scid => recv_conn_req m h id psm scid
  | FConnRsp id dcid scid result => recv_conn_rsp m h id dcid scid result
  | FConfReq id dcid rfc bad => recv_conf_req m h id dcid rfc bad
  | FConfRsp id scid result sugg => recv_conf_rsp m h id scid result sugg
  | FDiscReq id dcid scid => recv_disc_req m h id dcid scid
  | FDiscRsp id dcid scid => recv_disc_rsp m h id dcid scid
  | FLeReq id psm scid credits okp => recv_le_req m h id psm scid credits okp
  | FLeRsp id dcid credits result okp => recv_le_rsp m h id dcid credits (eff_le result okp)
  | FEnhReq id psm credits scids okp => recv_enh_req m h id psm credits scids okp
  | FEnhRsp id credits result dcids okp => recv_enh_rsp m h id credits (eff_enh result okp) dcids
  | FCredit id cid credits => recv_credit m h cid credits
  | FReject _ => (m, [])
  | FData _ => (m, [])
  end.

(* ------------------------------------------------------------------ link loss *)
(* Device.on_disconnection emits the connection's 'disconnection' event first: every pending
   ClassicChannel.connect() on that connection is cancelled (cancel_on_disconnection; its
   `finally` clears connection_result).  Then ChannelManager.on_disconnection:
     channels.pop(handle)        -> abort() each channel filed there
     le_coc_channels.pop(handle) -> abort() each channel filed there
     pending_credit_based_connections.pop(handle) -> cancel each pending future
     le_coc_requests.pop(handle); identifiers.pop(handle)
   abort() of one channel changes only that channel, its own waiters and its own entry of
   le_coc_channels (which is dropped anyway), and aborting twice is the same as once, so
   the two loops are written here as one pass over the heap: `us` are the channels filed
   under the handle in either table. *)
Fixpoint map_from {A B} (f : Z -> A -> B) (i : Z) (l : list A) : list B :=
  match l with [] => [] | x :: l' => f i x :: map_from f (i + 1) l' end.
Fixpoint flat_map_from {A B} (f : Z -> A -> list B) (i : Z) (l : list A) : list B :=
  match l with [] => [] | x :: l' => f i x ++ flat_map_from f (i + 1) l' end.

Definition le_open_st (s : cst) : bool :=
  match s with SConnected | SDisconnecting => true | _ => false end.
Definition cl_abortable_st (s : cst) : bool :=
  match s with SOpen | SWaitDisconnect => true | _ => false end.

(* the channel after abort() *)
Definition aborted (c : chan) : chan :=
  match c_kind c with
  | KLe => flush_output (set_dw (set_cw (if le_open_st (c_st c) then set_st c SDisconnected else c) None) None)
  | KCl => set_dw (if cl_abortable_st (c_st c) then set_st c SClosed else c) None
  end.

Definition down_chan (h : Z) (us : list Z) (u : Z) (c : chan) : chan :=
  let c1 := match c_kind c with
            | KCl => if Z.eqb (c_conn c) h then set_cw c None else c     (* cancelled connect() *)
            | KLe => c end in
  let c2 := if memz u us then aborted c1 else c1 in
  if Z.eqb (c_conn c) h then set_live c2 false else c2.

Definition opt_list (o : option Z) : list Z := match o with Some x => [x] | None => [] end.

(* futures cancelled: connection_result of aborted LE channels, pending classic connect()s
   of the connection, pending enhanced requests of the connection *)
Definition down_cancels (m : mgr) (h : Z) (us : list Z) : list Z :=
  flat_map_from (fun u c => match c_kind c with
                            | KLe => if memz u us then opt_list (c_cw c) else []
                            | KCl => if Z.eqb (c_conn c) h then opt_list (c_cw c) else []
                            end) 0 (m_heap m)
  ++ map (fun e => fst (snd e)) (tconn h (m_pend m)).
(* futures resolved: disconnection_result of aborted channels *)
Definition down_results (m : mgr) (us : list Z) : list Z :=
  flat_map_from (fun u c => if memz u us then opt_list (c_dw c) else []) 0 (m_heap m).

Definition do_down (m : mgr) (h : Z) : mgr :=
  let us := map snd (tconn h (m_chs m)) ++ map snd (tconn h (m_le m)) in
  let cancels := down_cancels m h us in
  let results := down_results m us in
  mkM (map_from (down_chan h us) 0 (m_heap m))
      (tdrop h (m_chs m)) (tdrop h (m_le m)) (tdrop h (m_reqs m)) (tdrop h (m_pend m))
      (adel h (m_ids m))
      (map_from (fun w x => if memz w cancels then wres1 O_CANCELLED x
                            else if memz w results then wres1 O_RESULT x else x) 0 (m_w m))
      (m_lesrv m) (m_clsrv m).

(* ------------------------------------------------------------------ cancellation by the caller *)
(* task.cancel() on the task awaiting call w (e.g. asyncio.wait_for timing out): the future
   the coroutine awaits is cancelled and the coroutine's handlers run:
   - create_le_credit_based_channel: the request is forgotten, the channel unregistered;
   - create_enhanced_credit_based_channels: the channels are unregistered, the pending entry
     removed (as after a refusal);
   - create_classic_channel: connection_result is dropped, the channel unregistered (it keeps
     its state; the ghost c_live marks it as no longer managed);
   - disconnect(): only the future; the channel goes on disconnecting. *)
Definition wget_m (m : mgr) (w : Z) : option waiter :=
  if w <? 0 then None else nth_error (m_w m) (Z.to_nat w).

Definition do_cancel (m : mgr) (w : Z) : mgr :=
  match wget_m m w with
  | None => m
  | Some x =>
      if negb (Z.eqb (w_out x) O_PENDING) then m
      else
        match w_kind x with
        | WOpenEnh =>
            match tget (w_conn x) (w_ref x) (m_pend m) with
            | Some (w', us) =>
                if Z.eqb w' w then enh_finish m (w_conn x) (w_ref x) w us [] false 0 O_CANCELLED else m
            | None => m
            end
        | WOpen =>
            let u := w_ref x in
            match hget m u with
            | Some c =>
                if is_uid (c_cw c) w then
                  match c_kind c with
                  | KLe => le_open_abandoned (hupd (wres m w O_CANCELLED) u (fun c => set_cw c None)) u c
                  | KCl =>
                      let m1 := hupd (wres m w O_CANCELLED) u (fun c => set_live (set_cw c None) false) in
                      with_chs m1 (tdel (c_conn c) (c_scid c) (m_chs m1))
                  end
                else m
            | None => m
            end
        | WClose =>
            let u := w_ref x in
            match hget m u with
            | Some c => if is_uid (c_dw c) w
                        then hupd (wres m w O_CANCELLED) u (fun c => set_dw c None) else m
            | None => m
            end
        end
  end.

(* ------------------------------------------------------------------ step / run *)
Definition step (m : mgr) (e : event) : mgr * list frame :=
  match e with
  | EOpen h kind psm n mode credits =>
      if Z.eqb kind K_LE then open_le m h psm credits
      else if Z.eqb kind K_ENH then open_enh m h psm n credits
      else open_cl m h psm mode
  | EClose u => do_close m u
  | EAbort u => (abort_chan m u, [])
  | ECancel w => (do_cancel m w, [])
  | EWrite u k => do_write m u k
  | EGrant u n => do_grant m u n
  | ERecv h f => recv m h f
  | EDown h => (do_down m h, [])
  end.

Fixpoint run (m : mgr) (es : list event) : mgr * list (list frame) :=
  match es with
  | [] => (m, [])
  | e :: es' =>
      let '(m1, out) := step m e in
      let '(m2, outs) := run m1 es' in
      (m2, out :: outs)
  end.

(* ------------------------------------------------------------------ observables *)
Definition chan_obs (c : chan) :=
  (match c_kind c with KLe => 0 | KCl => 2 end, c_conn c, c_scid c, c_dcid c, st_code (c_st c),
   match c_kind c with KLe => c_credits c | KCl => 0 end,
   match c_kind c with KLe => c_drained c | KCl => true end).

Definition m_obs (m : mgr) :=
  (m_chs m, m_le m, m_reqs m, map (fun e => (fst e, snd (snd e))) (m_pend m), m_ids m,
   map chan_obs (m_heap m), map w_out (m_w m)).

(* ------------------------------------------------------------------ hypotheses on events *)
(* What the theorems assume about the application and the peer, as a decidable predicate
   evaluated along the run.  Everything else (any frame, any CID, any identifier, any
   order, unsolicited and duplicate responses, any number of connections) is allowed. *)
Fixpoint nodupz (l : list Z) : bool :=
  match l with [] => true | x :: l' => negb (memz x l') && nodupz l' end.

Definition target_kind (m : mgr) (h cid : Z) : option (ckind * cst * Z * Z) :=
  match tget h cid (m_chs m) with
  | Some u => match hget m u with
              | Some c => Some (c_kind c, c_st c, c_dcid c, c_scid c) | None => None end
  | None => None
  end.

Definition not_le_target (m : mgr) (h cid : Z) : bool :=
  match target_kind m h cid with Some (KLe, _, _, _) => false | _ => true end.

(* the frame answers an LE request (not a classic channel that reuses the CID), and a
   response that is (after the parameter check) successful assigns a CID the peer does not
   already use on this connection *)
Definition le_rsp_ok (m : mgr) (h id dcid result : Z) : bool :=
  match tget h id (m_reqs m) with
  | Some scid =>
      match target_kind m h scid with Some (KCl, _, _, _) => false | _ => true end
      && (negb (Z.eqb result R_OK) || negb (memz dcid (tkeys h (m_le m))))
  | None => true
  end.
Definition enh_rsp_ok (m : mgr) (h id result : Z) (dcids : list Z) : bool :=
  match tget h id (m_pend m) with
  | Some (_, us) =>
      negb (Z.eqb result R_OK)
      || (Nat.eqb (length dcids) (length us) && nodupz dcids
          && negb (any_mem dcids (tkeys h (m_le m))))
  | None => true
  end.

Definition frame_ok (m : mgr) (h : Z) (f : frame) : bool :=
  match f with
  | FLeRsp id dcid _ result okp => le_rsp_ok m h id dcid (eff_le result okp)
  | FEnhRsp id _ result dcids okp => enh_rsp_ok m h id (eff_enh result okp) dcids
  | FEnhReq _ _ _ scids _ => nodupz scids
  | FConnRsp _ _ scid _ => not_le_target m h scid
  | FConfReq _ dcid _ _ => not_le_target m h dcid
  | FConfRsp _ scid _ sugg =>
      (* a suggestion to switch FCS on is not modelled (the scenario managers do not support FCS) *)
      not_le_target m h scid && (Z.eqb sugg 0 || Z.eqb sugg 1)
  | FDiscReq _ dcid scid =>
      (* a disconnection request for a channel whose connection request is unanswered is
         discarded by the source CID check, unless it carries that channel's (null)
         destination CID *)
      match target_kind m h dcid with
      | Some (KLe, SInit, d, _) | Some (KLe, SConnecting, d, _) => negb (Z.eqb scid d)
      | _ => true
      end
  | _ => true
  end.

Definition ev_ok (m : mgr) (e : event) : bool :=
  match e with
  | EOpen h kind psm n mode credits =>
      if Z.eqb kind K_LE then true
      else if Z.eqb kind K_ENH then
        (* the identifier of the request is not the one of a still pending enhanced request
           (needs 255 other signalling packets in between; the code does not check) *)
        match tget h (nid m h) (m_pend m) with Some _ => false | None => true end
      else Z.eqb mode 0 || Z.eqb mode 3
  | EWrite u k =>
      (1 <=? k) && match hget m u with
                   | Some c => match c_kind c with KLe => true | KCl => false end
                   | None => true end
  | EGrant u n =>
      match hget m u with
      | Some c => match c_kind c with KLe => true | KCl => false end
      | None => true end
  | ERecv h f => frame_ok m h f
  | _ => true
  end.

Fixpoint evs_ok (m : mgr) (es : list event) : bool :=
  match es with
  | [] => true
  | e :: es' => ev_ok m e && evs_ok (fst (step m e)) es'
  end.
