(* C14 - a small Python-subset abstract syntax and its interpreter.  The translator
   tools/translate/c14_ast.py turns the source of the anchored functions (crypto/__init__.py
   toolbox, builtin.py _CMAC / _JacobianPoint / _EllipticCurve / EccKey, RPA helpers) into terms
   of [stmt]; the [..._matches_source] theorems state that running those terms here gives the
   hand-written models.  Executable Gallina only.
   Python semantics kept: truthiness of ints / bytes / None in conditions, [and] / [or] returning
   an operand, negative and open slice bounds, slice assignment, zip-free byte concatenation and
   repetition, early [return], [assert] / [raise] as an exceptional outcome. *)
From Coq Require Import ZArith List Bool String.
From BV Require Import Model.CryptoBytes.
Import ListNotations.
Open Scope Z_scope.

Inductive binop := Add | Sub | Mul | Pow | Mod | FloorDiv | BitXor | BitAnd | BitOr | LShift | RShift.
Inductive cmpop := CEq | CNotEq | CLt | CLtE | CGt | CGtE | CIs | CIsNot.

Inductive expr :=
| EName (s : string)                       (* local name, or flattened attribute "self._cache_n" *)
| EInt (z : Z) | EBytes (b : list Z) | EStr (s : string) | ENone | EBool (b : bool)
| EBin (op : binop) (a b : expr)
| ENot (a : expr)
| ENeg (a : expr)
| ECmp (op : cmpop) (a b : expr)
| EAnd (a b : expr) | EOr (a b : expr)
| ECall (f : string) (args : list expr)
| EAttr (a : expr) (name : string)
| ESlice (a : expr) (lo hi : option expr)
| EIndex (a i : expr)
| ETuple (l : list expr).

Inductive stmt :=
| SAssign (t : string) (e : expr)
| SAssignTuple (ts : list string) (e : expr)
| SSliceAssign (t : string) (lo hi : option expr) (e : expr)
| SAug (t : string) (op : binop) (e : expr)
| SIf (c : expr) (th el : list stmt)
| SWhile (c : expr) (body : list stmt)
| SReturn (e : expr)
| SExpr (e : expr)
| SAssert (c : expr)
| SRaise
| SPass
| SCall (target : option string) (f : string) (args : list expr).   (* call of an interpreted method *)

Inductive val :=
| VInt (z : Z) | VBytes (b : list Z) | VStr (s : string) | VBool (b : bool) | VNone
| VTuple (l : list val)
| VErr.                                    (* a Python exception raised while evaluating *)

Definition env := list (string * val).

(* concatenation of statement lists (kept apart from [app] on byte strings, which the proofs
   keep folded while they evaluate programs) *)
Fixpoint sapp (a b : list stmt) : list stmt :=
  match a with [] => b | s :: r => s :: sapp r b end.

Fixpoint lookup (x : string) (en : env) : val :=
  match en with
  | [] => VErr
  | (k, v) :: r => if String.eqb k x then v else lookup x r
  end.

Fixpoint set_var (x : string) (v : val) (en : env) : env :=
  match en with
  | [] => [(x, v)]
  | (k, w) :: r => if String.eqb k x then (k, v) :: r else (k, w) :: set_var x v r
  end.

Definition is_err (v : val) : bool := match v with VErr => true | _ => false end.

Definition truthy (v : val) : bool :=
  match v with
  | VInt z => negb (z =? 0)
  | VBytes b => negb (len b =? 0)
  | VStr s => negb (String.eqb s "")
  | VBool b => b
  | VNone => false
  | VTuple l => match l with [] => false | _ => true end
  | VErr => false
  end.

Fixpoint repeat_bytes (n : nat) (b : list Z) : list Z :=
  match n with O => [] | S n' => b ++ repeat_bytes n' b end.

Section Interp.
  (* primitives: builtins, functions of other modules, constructors; by name *)
  Variable prim : string -> list val -> val.
  (* attribute access on a value held in a local variable *)
  Variable attr : string -> val -> val.
  (* operators on objects ( __add__ / __mul__ of _JacobianPoint ) *)
  Variable obj_op : binop -> val -> val -> val.
  (* interpreted methods: parameter names and body *)
  Variable meth : string -> option (list string * list stmt).

  Definition bin (op : binop) (a b : val) : val :=
    match op, a, b with
    | Add, VInt x, VInt y => VInt (x + y)
    | Add, VBytes x, VBytes y => VBytes (x ++ y)
    | Sub, VInt x, VInt y => VInt (x - y)
    | Mul, VInt x, VInt y => VInt (x * y)
    | Mul, VBytes x, VInt n => VBytes (repeat_bytes (Z.to_nat n) x)
    | Pow, VInt x, VInt y => match y with Zneg _ => VErr | _ => VInt (x ^ y) end
    | Mod, VInt x, VInt y => match y with 0 => VErr | _ => VInt (x mod y) end
    | FloorDiv, VInt x, VInt y => match y with 0 => VErr | _ => VInt (x / y) end
    | BitXor, VInt x, VInt y => VInt (Z.lxor x y)
    | BitAnd, VInt x, VInt y => VInt (Z.land x y)
    | BitOr, VInt x, VInt y => VInt (Z.lor x y)
    | LShift, VInt x, VInt y => match y with Zneg _ => VErr | _ => VInt (Z.shiftl x y) end
    | RShift, VInt x, VInt y => match y with Zneg _ => VErr | _ => VInt (Z.shiftr x y) end
    | _, VErr, _ => VErr
    | _, _, VErr => VErr
    | _, _, _ => obj_op op a b
    end.

  Fixpoint val_eqb (a b : val) : bool :=
    match a, b with
    | VInt x, VInt y => x =? y
    | VBytes x, VBytes y => list_eqb x y
    | VStr x, VStr y => String.eqb x y
    | VBool x, VBool y => Bool.eqb x y
    | VNone, VNone => true
    | VTuple x, VTuple y =>
        (fix go (l1 l2 : list val) : bool :=
           match l1, l2 with
           | [], [] => true
           | u :: r1, w :: r2 => val_eqb u w && go r1 r2
           | _, _ => false
           end) x y
    | _, _ => false
    end.

  Definition cmp (op : cmpop) (a b : val) : val :=
    match op, a, b with
    | _, VErr, _ => VErr
    | _, _, VErr => VErr
    | CEq, _, _ => VBool (val_eqb a b)
    | CNotEq, _, _ => VBool (negb (val_eqb a b))
    | CLt, VInt x, VInt y => VBool (x <? y)
    | CLtE, VInt x, VInt y => VBool (x <=? y)
    | CGt, VInt x, VInt y => VBool (y <? x)
    | CGtE, VInt x, VInt y => VBool (y <=? x)
    | CIs, _, VNone => VBool (match a with VNone => true | _ => false end)
    | CIsNot, _, VNone => VBool (match a with VNone => false | _ => true end)
    | _, _, _ => VErr
    end.

  Definition opt_int (o : option val) (dflt : Z) : option Z :=
    match o with
    | None => Some dflt
    | Some (VInt z) => Some z
    | Some VNone => Some dflt
    | Some _ => None
    end.

  Fixpoint eval (en : env) (e : expr) {struct e} : val :=
    match e with
    | EName s => lookup s en
    | EInt z => VInt z
    | EBytes b => VBytes b
    | EStr s => VStr s
    | ENone => VNone
    | EBool b => VBool b
    | EBin op a b => bin op (eval en a) (eval en b)
    | ENot a => match eval en a with VErr => VErr | v => VBool (negb (truthy v)) end
    | ENeg a => match eval en a with VInt z => VInt (- z) | _ => VErr end
    | ECmp op a b => cmp op (eval en a) (eval en b)
    | EAnd a b => let va := eval en a in if is_err va then VErr else if truthy va then eval en b else va
    | EOr a b => let va := eval en a in if is_err va then VErr else if truthy va then va else eval en b
    | ECall f args =>
        prim f ((fix go (l : list expr) : list val :=
                   match l with [] => [] | a :: r => eval en a :: go r end) args)
    | EAttr a name => match eval en a with VErr => VErr | v => attr name v end
    | ESlice a lo hi =>
        match eval en a with
        | VBytes b =>
            match opt_int (match lo with Some x => Some (eval en x) | None => None end) 0,
                  opt_int (match hi with Some x => Some (eval en x) | None => None end) (len b) with
            | Some l, Some h => VBytes (py_slice b l h)
            | _, _ => VErr
            end
        | _ => VErr
        end
    | EIndex a i =>
        match eval en a, eval en i with
        | VBytes b, VInt k =>
            let k' := match k with Zneg _ => len b + k | _ => k end in
            if (0 <=? k') && (k' <? len b) then VInt (nth (Z.to_nat k') b 0) else VErr
        | VTuple l, VInt k => if (0 <=? k) && (k <? Z.of_nat (List.length l)) then nth (Z.to_nat k) l VErr else VErr
        | _, _ => VErr
        end
    | ETuple l =>
        VTuple ((fix go (l : list expr) : list val :=
                   match l with [] => [] | a :: r => eval en a :: go r end) l)
    end.

  Definition any_err (l : list val) : bool := existsb is_err l.

  Inductive outcome :=
  | ONormal (en : env)
  | OReturn (en : env) (v : val)
  | ORaise
  | OFuel.

  Fixpoint bind (ps : list string) (vs : list val) (en : env) : env :=
    match ps, vs with
    | p :: ps', v :: vs' => bind ps' vs' (set_var p v en)
    | _, _ => en
    end.

  Definition is_self (k : string) : bool := String.prefix "self." k.
  Definition self_part (en : env) : env := filter (fun kv => let '(k, _) := kv in is_self k) en.
  (* write the callee's self.* entries back into the caller's environment *)
  Fixpoint merge_self (callee caller : env) : env :=
    match callee with
    | [] => caller
    | (k, v) :: r => merge_self r (if is_self k then set_var k v caller else caller)
    end.

  Fixpoint set_tuple (ts : list string) (vs : list val) (en : env) : option env :=
    match ts, vs with
    | [], [] => Some en
    | t :: ts', v :: vs' => set_tuple ts' vs' (set_var t v en)
    | _, _ => None
    end.

  (* truthiness of a condition and whether evaluating it raises, computed as booleans so that
     [a and b] / [a or b] / [not a] keep Python's short-circuit meaning without building an
     intermediate value *)
  Fixpoint cond_val (en : env) (e : expr) : bool :=
    match e with
    | EAnd a b => cond_val en a && cond_val en b
    | EOr a b => cond_val en a || cond_val en b
    | ENot a => negb (cond_val en a)
    | _ => truthy (eval en e)
    end.
  Fixpoint cond_err (en : env) (e : expr) : bool :=
    match e with
    | EAnd a b => cond_err en a || (cond_val en a && cond_err en b)
    | EOr a b => cond_err en a || (negb (cond_val en a) && cond_err en b)
    | ENot a => cond_err en a
    | _ => is_err (eval en e)
    end.

  Fixpoint exec (fuel : nat) (en : env) (ss : list stmt) {struct fuel} : outcome :=
    match fuel with
    | O => OFuel
    | S f =>
      match ss with
      | [] => ONormal en
      | s :: rest =>
        match s with
        | SAssign t e =>
            match eval en e with VErr => ORaise | v => exec f (set_var t v en) rest end
        | SAssignTuple ts e =>
            match eval en e with
            | VTuple vs => if any_err vs then ORaise else
                           match set_tuple ts vs en with Some en' => exec f en' rest | None => ORaise end
            | _ => ORaise
            end
        | SSliceAssign t lo hi e =>
            match lookup t en, eval en e with
            | VBytes b, VBytes v =>
                match opt_int (match lo with Some x => Some (eval en x) | None => None end) 0,
                      opt_int (match hi with Some x => Some (eval en x) | None => None end) (len b) with
                | Some l, Some h => exec f (set_var t (VBytes (py_splice b l h v)) en) rest
                | _, _ => ORaise
                end
            | _, _ => ORaise
            end
        | SAug t op e =>
            match bin op (lookup t en) (eval en e) with VErr => ORaise | v => exec f (set_var t v en) rest end
        | SIf c th el =>
            if cond_err en c then ORaise
            else if cond_val en c then exec f en (sapp th rest) else exec f en (sapp el rest)
        | SWhile c body =>
            if cond_err en c then ORaise
            else if cond_val en c then exec f en (sapp body (s :: rest)) else exec f en rest
        | SReturn e => match eval en e with VErr => ORaise | v => OReturn en v end
        | SExpr e => match eval en e with VErr => ORaise | _ => exec f en rest end
        | SAssert c =>
            if cond_err en c then ORaise else if cond_val en c then exec f en rest else ORaise
        | SRaise => ORaise
        | SPass => exec f en rest
        | SCall target fname args =>
            let vs := map (eval en) args in
            if any_err vs then ORaise else
            match meth fname with
            | None => ORaise
            | Some (ps, body) =>
                match exec f (bind ps vs (self_part en)) body with
                | ONormal en' =>
                    let en'' := merge_self en' en in
                    exec f (match target with Some t => set_var t VNone en'' | None => en'' end) rest
                | OReturn en' v =>
                    let en'' := merge_self en' en in
                    exec f (match target with Some t => set_var t v en'' | None => en'' end) rest
                | ORaise => ORaise
                | OFuel => OFuel
                end
            end
        end
      end
    end.

  (* call a function: bind parameters in the given initial environment (object state) *)
  Definition call (fuel : nat) (init : env) (ps : list string) (body : list stmt) (vs : list val) : outcome :=
    exec fuel (bind ps vs init) body.

  (* the value a call produces: the returned value, None for falling off the end, VErr for an
     exception (or running out of fuel, which the theorems exclude by giving enough) *)
  Definition result_of (o : outcome) : val :=
    match o with
    | OReturn _ v => v
    | ONormal _ => VNone
    | ORaise => VErr
    | OFuel => VErr
    end.
  Definition env_of (o : outcome) : env :=
    match o with
    | OReturn en _ => en
    | ONormal en => en
    | _ => []
    end.
End Interp.
