(* Model/CodecsSdp.v — bumble/sdp.py DataElement.__bytes__ and DataElementParser.parse_next /
   _list_from_bytes (property C18).

   Values.  An element is (type, value, value_size); [elem] carries exactly what
   DataElement.__eq__ compares: integers keep their value_size, UUIDs are their
   uuid_bytes (little endian, as core.UUID stores them; UUID.from_bytes is modelled as
   returning a UUID with the bytes it was given, which is Proofs/CodecsUuid.v's theorem
   about the registry after fixes/D18d.patch), TEXT_STRING is bytes, URL is modelled by
   its UTF-8 octets (str.encode / bytes.decode are trusted to be mutually inverse on valid
   UTF-8; undecodable input is outside the model), element types 9..31 are [EOther].

   Serialiser.  [encode] is the uncached path of __bytes__; [None] = the code raises.
   Parser.  [parse_next fuel depth d] parses one element at the start of [d] (= data[offset:]);
   the result carries the element, the number of octets the parser advances by
   (header + declared size as an integer, even when the data is shorter: Python slices clamp), the
   cached slice [_bytes] (= firstn consumed d) and a flag [canon] that is true iff every
   header met was the minimal form for its size, nothing was truncated, every boolean
   octet was 0/1 and every sequence ended exactly at its declared end.  [PErr] = the code
   raises; [PFuel] = out of fuel (excluded by the theorems: fuel > length d suffices).
   A child element that ends beyond the declared end of its SEQUENCE / ALTERNATIVE makes
   _list_from_bytes raise (InvalidPacketError, as after fixes/D17b.patch of property C17).
   [depth] is max_depth - self.depth. *)
From Coq Require Import ZArith List Bool.
From BV Require Import Base.Bytes Model.CodecsBase.
Import ListNotations.
Open Scope Z_scope.

Inductive elem :=
  | ENil
  | EUInt (size : Z) (v : Z)
  | ESInt (size : Z) (v : Z)
  | EUuid (b : list Z)
  | EText (b : list Z)
  | EBool (b : bool)
  | ESeq (l : list elem)
  | EAlt (l : list elem)
  | EUrl (b : list Z)
  | EOther (t : Z) (b : list Z).

(* type << 3 | size_index *)
Definition hdr (ty idx : Z) : Z := Z.lor (Z.shiftl ty 3) idx.

Definition int_size_ok (s : Z) : bool := (s =? 1) || (s =? 2) || (s =? 4) || (s =? 8).
Definition fixed_index (n : Z) : option Z :=
  if n <=? 1 then Some 0 else if n =? 2 then Some 1 else if n =? 4 then Some 2
  else if n =? 8 then Some 3 else if n =? 16 then Some 4 else None.

(* TEXT_STRING / SEQUENCE / ALTERNATIVE / URL: 8-, 16- or 32-bit length *)
Definition var_header (ty : Z) (d : list Z) : option (list Z) :=
  let n := lenZ d in
  if n <=? 255 then Some (hdr ty 5 :: n :: d)
  else if n <=? 65535 then Some (hdr ty 6 :: be_encode 2 n ++ d)
  else if n <=? 4294967295 then Some (hdr ty 7 :: be_encode 4 n ++ d)
  else None.

Fixpoint encode (e : elem) : option (list Z) :=
  match e with
  | ENil => Some [hdr 0 0]
  | EUInt s v =>
      if (0 <=? v) && int_size_ok s && u_range (Z.to_nat s) v
      then match fixed_index s with
           | Some i => Some (hdr 1 i :: be_encode (Z.to_nat s) v)
           | None => None
           end
      else None
  | ESInt s v =>
      if int_size_ok s && s_range (Z.to_nat s) v
      then match fixed_index s with
           | Some i => Some (hdr 2 i :: bes_encode (Z.to_nat s) v)
           | None => None
           end
      else None
  | EUuid b =>
      let n := lenZ b in
      if (n =? 2) || (n =? 4) || (n =? 16)
      then match fixed_index n with
           | Some i => Some (hdr 3 i :: rev b)
           | None => None
           end
      else None
  | EText b => var_header 4 b
  | EBool b => Some [hdr 5 0; bool_z b]
  | ESeq l =>
      match (fix enc_list (l : list elem) : option (list Z) :=
               match l with
               | [] => Some []
               | x :: r => match encode x, enc_list r with
                           | Some a, Some b => Some (a ++ b)
                           | _, _ => None
                           end
               end) l with
      | Some d => var_header 6 d
      | None => None
      end
  | EAlt l =>
      match (fix enc_list (l : list elem) : option (list Z) :=
               match l with
               | [] => Some []
               | x :: r => match encode x, enc_list r with
                           | Some a, Some b => Some (a ++ b)
                           | _, _ => None
                           end
               end) l with
      | Some d => var_header 7 d
      | None => None
      end
  | EUrl b => var_header 8 b
  | EOther _ _ => None            (* "internal error - type not supported" *)
  end.

Fixpoint encode_list (l : list elem) : option (list Z) :=
  match l with
  | [] => Some []
  | x :: r => match encode x, encode_list r with
              | Some a, Some b => Some (a ++ b)
              | _, _ => None
              end
  end.

(* nesting of SEQUENCE / ALTERNATIVE *)
Fixpoint elem_depth (e : elem) : nat :=
  match e with
  | ESeq l | EAlt l =>
      S ((fix dl (l : list elem) : nat := match l with [] => O | x :: r => Nat.max (elem_depth x) (dl r) end) l)
  | _ => O
  end.
Fixpoint list_depth (l : list elem) : nat :=
  match l with [] => O | x :: r => Nat.max (elem_depth x) (list_depth r) end.

(* octet strings inside a value are octets (TEXT_STRING and URL are the caller's bytes) *)
Fixpoint elem_bytes_ok (e : elem) : bool :=
  match e with
  | EUuid b | EText b | EUrl b | EOther _ b => bytes_ok b
  | ESeq l | EAlt l =>
      (fix ok_list (l : list elem) : bool := match l with [] => true | x :: r => elem_bytes_ok x && ok_list r end) l
  | _ => true
  end.
Fixpoint list_bytes_ok (l : list elem) : bool :=
  match l with [] => true | x :: r => elem_bytes_ok x && list_bytes_ok r end.

(* ---------------------------------------------------------------- parser *)
(* Python slices with a possibly huge bound: data[:z] / data[z:], computed without ever
   building a unary number larger than the data (a 32-bit size field can announce 4 GiB) *)
Definition takeZ (z : Z) (d : list Z) : list Z := firstn (Z.to_nat (Z.min z (lenZ d))) d.
Definition dropZ (z : Z) (d : list Z) : list Z := skipn (Z.to_nat (Z.min z (lenZ d))) d.

Inductive presult :=
  | POk (e : elem) (consumed : Z) (raw : list Z) (canon : bool)
  | PErr
  | PFuel.

Inductive lresult :=
  | LOk (l : list elem) (used : Z) (canon : bool)
  | LErr
  | LFuel.

(* minimal header form for a variable-length size *)
Definition var_canon (idx size : Z) : bool :=
  ((idx =? 5)) || ((idx =? 6) && (255 <? size)) || ((idx =? 7) && (65535 <? size)).

Definition size_of_header (ty idx : Z) (d1 : list Z) : option (nat * Z) :=
  (* returns (octets of the size field, value_size); None = struct.error / IndexError *)
  if idx =? 0 then Some (O, if ty =? 0 then 0 else 1)
  else if idx =? 1 then Some (O, 2)
  else if idx =? 2 then Some (O, 4)
  else if idx =? 3 then Some (O, 8)
  else if idx =? 4 then Some (O, 16)
  else if idx =? 5 then match d1 with b :: _ => Some (1%nat, b) | _ => None end
  else if idx =? 6 then match d1 with b0 :: b1 :: _ => Some (2%nat, be_decode [b0; b1]) | _ => None end
  else match d1 with b0 :: b1 :: b2 :: b3 :: _ => Some (4%nat, be_decode [b0; b1; b2; b3]) | _ => None end.

Fixpoint parse_next (fuel : nat) (depth : nat) (d : list Z) : presult :=
  match fuel with
  | O => PFuel
  | S k =>
      match d with
      | [] => PErr                              (* offset >= len(data): InvalidStateError *)
      | b :: d1 =>
          let ty := Z.shiftr b 3 in
          let idx := Z.land b 7 in
          match size_of_header ty idx d1 with
          | None => PErr
          | Some (hs, vs) =>
              let body := skipn hs d1 in        (* data[value_start:] *)
              let consumed := 1 + Z.of_nat hs + Z.max 0 vs in
              let raw := takeZ consumed d in
              let value := takeZ vs body in     (* data[value_start:value_end], clamped *)
              let whole := vs <=? lenZ body in
              if ty =? 0 then POk ENil consumed raw ((idx =? 0))
              else if ty =? 1 then
                if int_size_ok vs && whole
                then POk (EUInt vs (be_decode value)) consumed raw (idx <=? 3)
                else PErr                       (* invalid integer length / struct.error / IndexError *)
              else if ty =? 2 then
                if int_size_ok vs && whole
                then POk (ESInt vs (bes_decode value)) consumed raw (idx <=? 3)
                else PErr
              else if ty =? 3 then
                let m := lenZ value in
                if (m =? 2) || (m =? 4) || (m =? 16)
                then POk (EUuid (rev value)) consumed raw
                         (whole && ((idx =? 1) || (idx =? 2) || (idx =? 4)))
                else PErr                       (* only 2, 4 and 16 bytes are allowed *)
              else if ty =? 4 then POk (EText value) consumed raw (whole && var_canon idx vs)
              else if ty =? 5 then
                match body with
                | [] => PErr                    (* data[value_start]: IndexError *)
                | x :: _ => POk (EBool (x =? 1)) consumed raw
                                ((idx =? 0) && ((x =? 0) || (x =? 1)))
                end
              else if (ty =? 6) || (ty =? 7) then
                match depth with
                | O => PErr                     (* nesting exceeds max depth *)
                | S dep =>
                    match (fix parse_list (fuel : nat) (d : list Z) (budget : Z) : lresult :=
                             (* while self.offset < end_offset *)
                             if budget <=? 0 then LOk [] 0 true
                             else match fuel with
                                  | O => LFuel
                                  | S k' =>
                                      match parse_next k dep d with
                                      | POk e c _ cn =>
                                          if budget - c <? 0 then LErr   (* element ends beyond its container *)
                                          else
                                          match parse_list k' (dropZ c d) (budget - c) with
                                          | LOk l used cn' => LOk (e :: l) (c + used) (cn && cn')
                                          | LErr => LErr
                                          | LFuel => LFuel
                                          end
                                      | PErr => LErr
                                      | PFuel => LFuel
                                      end
                                  end) k body vs with
                    | LOk l used cn =>
                        POk (if ty =? 6 then ESeq l else EAlt l) consumed raw
                            (whole && var_canon idx vs && cn && (used =? vs))
                    | LErr => PErr
                    | LFuel => PFuel
                    end
                end
              else if ty =? 8 then POk (EUrl value) consumed raw (whole && var_canon idx vs)
              else POk (EOther ty value) consumed raw false
          end
      end
  end.

(* the same list loop as a top-level function (unfolded form of the local fix) *)
Fixpoint parse_list (pn : nat) (dep : nat) (fuel : nat) (d : list Z) (budget : Z) : lresult :=
  if budget <=? 0 then LOk [] 0 true
  else match fuel with
       | O => LFuel
       | S k' =>
           match parse_next pn dep d with
           | POk e c _ cn =>
               if budget - c <? 0 then LErr
               else
               match parse_list pn dep k' (dropZ c d) (budget - c) with
               | LOk l used cn' => LOk (e :: l) (c + used) (cn && cn')
               | LErr => LErr
               | LFuel => LFuel
               end
           | PErr => LErr
           | PFuel => LFuel
           end
       end.

(* DataElement.from_bytes(data) with the default parser *)
Definition sdp_fuel (d : list Z) : nat := S (length d).
Definition from_bytes (max_depth : nat) (d : list Z) : presult := parse_next (sdp_fuel d) max_depth d.

(* bytes(element) for a parsed element: the cached slice (never empty) *)
Definition parsed_bytes (r : presult) : option (list Z) :=
  match r with POk _ _ raw _ => Some raw | _ => None end.

(* well-formed value: encodable and within the parser's nesting limit *)
Definition elem_ok (max_depth : nat) (e : elem) : bool :=
  elem_bytes_ok e && (elem_depth e <=? max_depth)%nat
  && match encode e with Some _ => true | None => false end.

(* ---------------------------------------------------------------- observables for the harness *)
Fixpoint elem_sig (e : elem) : list Z :=
  match e with
  | ENil => [0]
  | EUInt s v => [1; s; v]
  | ESInt s v => [2; s; v]
  | EUuid b => [3; lenZ b; dgst b]
  | EText b => [4; lenZ b; dgst b]
  | EBool b => [5; bool_z b]
  | ESeq l => 6 :: lenZ l :: (fix go (l : list elem) : list Z := match l with [] => [] | x :: r => elem_sig x ++ go r end) l
  | EAlt l => 7 :: lenZ l :: (fix go (l : list elem) : list Z := match l with [] => [] | x :: r => elem_sig x ++ go r end) l
  | EUrl b => [8; lenZ b; dgst b]
  | EOther t b => [9; t; lenZ b; dgst b]
  end.
(* 0 = raises, 1 = parsed, 2 = out of fuel (never, by C18_sdp_fuel_sufficient) *)
Definition presult_sig (r : presult) : Z * list Z * Z * (Z * Z) * bool :=
  match r with
  | POk e c raw cn => (1, elem_sig e, c, dg raw, cn)
  | PErr => (0, [], 0, (0, 0), false)
  | PFuel => (2, [], 0, (0, 0), false)
  end.
Definition encode_sig (e : elem) (max_depth : nat) :=
  match encode e with
  | Some b => (Some (dg b), presult_sig (from_bytes max_depth b))
  | None => (None, presult_sig PErr)
  end.
