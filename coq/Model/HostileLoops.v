(* C17 - two more length-driven loops a peer / controller reaches:
     avdtp.py ServiceCapabilities.parse_capabilities  (AVDTP capability lists)
     core.py  AdvertisingData.append                  (advertising / scan-response / EIR data)
   Executable Gallina only; explicit fuel, [None] is "out of fuel". *)
From Coq Require Import ZArith List Bool.
Import ListNotations.
Open Scope Z_scope.

Inductive lerr := LIndex.      (* IndexError: the length byte of the last capability is missing *)

Definition slice (data : list Z) (off n : nat) : list Z := firstn n (skipn off data).

(* while offset < len(payload): category = payload[offset]; length = payload[offset + 1];
     bytes = payload[offset + 2 : offset + 2 + length]; offset += 2 + length
   (ServiceCapabilities.create of each item is outside the model) *)
Fixpoint parse_capabilities (fuel : nat) (payload : list Z) (off : nat)
  : option (lerr + list (Z * list Z)) :=
  match fuel with
  | O => None
  | S f =>
      match nth_error payload off with
      | None => Some (inr [])                                   (* offset >= len(payload) *)
      | Some cat =>
          match nth_error payload (off + 1) with
          | None => Some (inl LIndex)
          | Some len =>
              match parse_capabilities f payload (off + 2 + Z.to_nat len) with
              | None => None
              | Some (inl e) => Some (inl e)
              | Some (inr items) => Some (inr ((cat, slice payload (off + 2) (Z.to_nat len)) :: items))
              end
          end
      end
  end.

(* while offset + 1 < len(data): length = data[offset]; offset += 1;
     if length > 0: (type, value) = (data[offset], data[offset + 1 : offset + length]); offset += length *)
Fixpoint parse_advertising (fuel : nat) (data : list Z) (off : nat) : option (list (Z * list Z)) :=
  match fuel with
  | O => None
  | S f =>
      if (off + 1 <? length data)%nat then
        match nth_error data off with
        | None => Some []                                        (* unreachable under the guard *)
        | Some len =>
            let off1 := (off + 1)%nat in
            match parse_advertising f data (off1 + Z.to_nat len) with
            | None => None
            | Some items =>
                if 0 <? len then
                  match nth_error data off1 with
                  | Some t => Some ((t, slice data (off1 + 1) (Z.to_nat len - 1)) :: items)
                  | None => Some items                            (* unreachable under the guard *)
                  end
                else Some items
            end
        end
      else Some []
  end.

Definition tlv_fuel (data : list Z) : nat := S (length data).
