(* Model/CodecsAv.v — property C18, remaining hand-written codecs:
   - core.AdvertisingData.append / __bytes__ (length-type-value structures);
   - avdtp: signalling header of single / start packets as written by
     Protocol.send_message and read by MessageAssembler.on_pdu, EndPointInfo;
     (ServiceCapabilities.parse_capabilities / serialize_capabilities is the strict TLV
     loop of Model/CodecsL2cap.v);
   - avctp: single-packet header of Protocol.send_message / MessageAssembler.on_pdu;
   - rtp.MediaPacket.__bytes__ / from_bytes (CSRC entries read at 12 + 4*i, as after
     fixes/D18e.patch).
   A Python exception is [None]. *)
From Coq Require Import ZArith List Bool.
From BV Require Import Base.Bytes Model.CodecsBase.
Import ListNotations.
Open Scope Z_scope.

(* ---------------------------------------------------------------- AdvertisingData *)
(* append(data): while offset + 1 < len(data): length = data[offset]; offset += 1;
   if length > 0: (data[offset], data[offset+1 : offset+length]); offset += length.
   Never raises: zero lengths are skipped, a short last structure is clamped, a single
   trailing octet is ignored. *)
Fixpoint ad_parse (fuel : nat) (d : list Z) : option (list (Z * list Z)) :=
  match fuel with
  | O => None                                    (* out of fuel: excluded, see ad_parse_all *)
  | S k =>
      match d with
      | l :: ((t :: v) as rest) =>
          if 0 <? l
          then match ad_parse k (skipn (Z.to_nat l) rest) with
               | Some r => Some ((t, firstn (Z.to_nat l - 1) v) :: r)
               | None => None
               end
          else ad_parse k rest
      | _ => Some []
      end
  end.
Definition ad_parse_all (d : list Z) := ad_parse (S (length d)) d.

(* __bytes__: b''.join(bytes([len(x[1]) + 1, x[0]]) + x[1] ...); ValueError (None) out of range *)
Fixpoint ad_bytes (items : list (Z * list Z)) : option (list Z) :=
  match items with
  | [] => Some []
  | (t, v) :: r =>
      if byte_ok (lenZ v + 1) && byte_ok t then
        match ad_bytes r with
        | Some rb => Some (lenZ v + 1 :: t :: v ++ rb)
        | None => None
        end
      else None
  end.
Definition ad_item_ok (x : Z * list Z) : bool :=
  byte_ok (fst x) && byte_ok (lenZ (snd x) + 1) && bytes_ok (snd x).
Definition ad_ok (items : list (Z * list Z)) : bool := forallb ad_item_ok items.
(* received advertising data made only of complete, non-empty structures *)
Fixpoint ad_exact (fuel : nat) (d : list Z) : bool :=
  match fuel with
  | O => false
  | S k =>
      match d with
      | [] => true
      | l :: rest => (0 <? l) && (Z.to_nat l <=? length rest)%nat && ad_exact k (skipn (Z.to_nat l) rest)
      end
  end.
Definition ad_exact_all (d : list Z) := ad_exact (S (length d)) d.

(* ---------------------------------------------------------------- AVDTP *)
(* first header octet: transaction_label << 4 | packet_type << 2 | message_type *)
Definition avdtp_b0 (tl pt mt : Z) : Z := Z.lor (Z.lor (Z.shiftl tl 4) (Z.shiftl pt 2)) mt.
(* single packet: [b0, signal_identifier] + payload *)
Definition avdtp_single_bytes (tl mt sig : Z) (payload : list Z) : list Z :=
  avdtp_b0 tl 0 mt :: sig :: payload.
(* start packet: [b0, signal_identifier, packet_count] + first fragment *)
Definition avdtp_start_bytes (tl mt sig count : Z) (frag : list Z) : list Z :=
  avdtp_b0 tl 1 mt :: sig :: count :: frag.
(* what the assembler reads from a single / start packet:
   (transaction_label, packet_type, message_type, signal_identifier, [count], rest) *)
Definition avdtp_header_parse (d : list Z) : option (list Z * list Z) :=
  match d with
  | b0 :: r =>
      let tl := Z.shiftr b0 4 in
      let pt := Z.land (Z.shiftr b0 2) 3 in
      let mt := Z.land b0 3 in
      if pt =? 0 then
        match r with
        | b1 :: p => Some ([tl; pt; mt; Z.land b1 63], p)
        | _ => None                                   (* "packet too short; dropped" *)
        end
      else if pt =? 1 then
        match r with
        | b1 :: c :: p => Some ([tl; pt; mt; Z.land b1 63; c], p)
        | _ => None
        end
      else
        Some ([tl; pt; mt], r)                        (* continue / end: pdu[1:] *)
  | [] => None                                        (* empty PDU dropped *)
  end.
Definition avdtp_hdr_ok (tl mt sig : Z) : bool := zlt 16 tl && zlt 4 mt && zlt 64 sig.

(* EndPointInfo: seid in_use media_type tsep *)
Definition epi_bytes (p : list Z) : list Z :=
  match p with
  | [seid; in_use; mt; tsep] =>
      [Z.lor (Z.shiftl seid 2) (Z.shiftl in_use 1); Z.lor (Z.shiftl mt 4) (Z.shiftl tsep 3)]
  | _ => []
  end.
Definition epi_parse (d : list Z) : option (list Z) :=
  match d with
  | b0 :: b1 :: _ => Some [Z.shiftr b0 2; Z.land (Z.shiftr b0 1) 1; Z.shiftr b1 4; Z.land (Z.shiftr b1 3) 1]
  | _ => None
  end.
Definition epi_ok (p : list Z) : bool :=
  match p with
  | [seid; in_use; mt; tsep] => zlt 64 seid && zlt 2 in_use && zlt 16 mt && zlt 2 tsep
  | _ => false
  end.
Definition epi_canonical (b0 b1 : Z) : bool := (Z.land b0 1 =? 0) && (Z.land b1 7 =? 0).

(* ---------------------------------------------------------------- AVCTP *)
(* send_message: struct.pack(">BH", tl << 4 | SINGLE << 2 | (0 if is_command else 1) << 1 | ipid, pid) + payload *)
Definition avctp_bytes (tl : Z) (is_command ipid : bool) (pid : Z) (payload : list Z) : option (list Z) :=
  let b0 := Z.lor (Z.lor (Z.lor (Z.shiftl tl 4) (Z.shiftl 0 2)) (Z.shiftl (if is_command then 0 else 1) 1))
                  (bool_z ipid) in
  if u_range 1 b0 && u_range 2 pid then Some (b0 :: be_encode 2 pid ++ payload) else None.
(* MessageAssembler.on_pdu on a fresh assembler, single packet -> callback arguments
   (transaction_label, is_command, ipid, pid, payload); [Some None] = dropped
   ("invalid IPID in command frame"); other packet types are not modelled here *)
Definition avctp_parse (d : list Z) : option (option (Z * bool * bool * Z * list Z)) :=
  match d with
  | b0 :: r =>
      let tl := Z.shiftr b0 4 in
      let pt := Z.land (Z.shiftr b0 2) 3 in
      let cr := Z.land (Z.shiftr b0 1) 1 in
      let ipid := Z.land b0 1 in
      if (cr =? 0) && negb (ipid =? 0) then Some None
      else if pt =? 0 then
        match r with
        | p0 :: p1 :: payload => Some (Some (tl, cr =? 0, negb (ipid =? 0), be_decode [p0; p1], payload))
        | _ => None                                   (* struct.error *)
        end
      else None                                       (* fragments: property C19 *)
  | [] => None                                        (* IndexError *)
  end.

(* ---------------------------------------------------------------- RTP *)
Record rtp := { r_version : Z; r_padding : Z; r_extension : Z; r_marker : Z; r_seq : Z; r_ts : Z;
                r_ssrc : Z; r_csrc : list Z; r_pt : Z; r_payload : list Z }.

Definition rtp_bytes (p : rtp) : list Z :=
  [ Z.lor (Z.lor (Z.lor (Z.shiftl (r_version p) 6) (Z.shiftl (r_padding p) 5)) (Z.shiftl (r_extension p) 4))
          (lenZ (r_csrc p));
    Z.lor (Z.shiftl (r_marker p) 7) (r_pt p) ]
  ++ be_encode 2 (r_seq p) ++ be_encode 4 (r_ts p) ++ be_encode 4 (r_ssrc p)
  ++ flat_map (be_encode 4) (r_csrc p) ++ r_payload p.

Definition rtp_ok (p : rtp) : bool :=
  zlt 4 (r_version p) && zlt 2 (r_padding p) && zlt 2 (r_extension p) && zlt 2 (r_marker p)
  && u_range 2 (r_seq p) && u_range 4 (r_ts p) && u_range 4 (r_ssrc p)
  && forallb (u_range 4) (r_csrc p) && zlt 16 (lenZ (r_csrc p)) && zlt 128 (r_pt p)
  && bytes_ok (r_payload p).

(* n big-endian 32-bit words; struct.error (None) when the data is too short *)
Fixpoint rtp_words (n : nat) (d : list Z) : option (list Z * list Z) :=
  match n with
  | O => Some ([], d)
  | S k =>
      match d with
      | a :: b :: c :: e :: r =>
          match rtp_words k r with
          | Some (ws, rest) => Some (be_decode [a; b; c; e] :: ws, rest)
          | None => None
          end
      | _ => None
      end
  end.

Definition rtp_parse (d : list Z) : option rtp :=
  match d with
  | b0 :: b1 :: s0 :: s1 :: t0 :: t1 :: t2 :: t3 :: c0 :: c1 :: c2 :: c3 :: r =>
      let cc := Z.land b0 15 in
      match rtp_words (Z.to_nat cc) r with
      | Some (ws, payload) =>
          Some {| r_version := Z.land (Z.shiftr b0 6) 3; r_padding := Z.land (Z.shiftr b0 5) 1;
                  r_extension := Z.land (Z.shiftr b0 4) 1; r_marker := Z.land (Z.shiftr b1 7) 1;
                  r_seq := be_decode [s0; s1]; r_ts := be_decode [t0; t1; t2; t3];
                  r_ssrc := be_decode [c0; c1; c2; c3]; r_csrc := ws; r_pt := Z.land b1 127;
                  r_payload := payload |}
      | None => None
      end
  | _ => None
  end.

(* the code before fixes/D18e.patch: CSRC i read at offset 12 + i *)
Fixpoint rtp_words_unfixed (n : nat) (i : nat) (d : list Z) : option (list Z) :=
  match n with
  | O => Some []
  | S k =>
      match skipn i d with
      | a :: b :: c :: e :: _ =>
          match rtp_words_unfixed k (S i) d with
          | Some ws => Some (be_decode [a; b; c; e] :: ws)
          | None => None
          end
      | _ => None
      end
  end.

Definition rtp_obs (p : rtp) : (list Z * list Z * list Z) :=
  ([r_version p; r_padding p; r_extension p; r_marker p; r_seq p; r_ts p; r_ssrc p; r_pt p],
   r_csrc p, r_payload p).
