(* The shape of the anchored code that Model/GattClient.v was written from: a hand-kept copy of
   what tools/translate/c12_shape.py extracts from bumble/gatt_client.py, gatt_server.py, gatt.py
   and att.py (control-flow skeletons with logging, docstrings and exception messages removed;
   the integer constants of the size / handle / bit arithmetic).  Props/C12.v proves that the
   tables regenerated from the current source (Gen/C12Shape.v) equal these, and
   Proofs/GattClient.v (section "the model is stated in these constants") proves that the model
   functions use exactly these constants.  No proofs here.

   When the source changes on purpose: re-read the changed function, update Model/GattClient.v
   and its proofs, then update the entry here. *)
From Coq Require Import ZArith List String.
Import ListNotations.
Open Scope Z_scope.
Open Scope string_scope.


Definition model_skeletons : list (string * string) := [
  ("client.discover_services",
   "(self,uuids){starting_handle = 1;services = [];while starting_handle < 65535{response = await self.send_request(att.ATT_Read_By_Group_Type_Request(starting_handle=starting_handle, ending_handle=65535, attribute_group_type=GATT_PRIMARY_SERVICE_ATTRIBUTE_TYPE));if response is None{return []};if response.op_code == att.Opcode.ATT_ERROR_RESPONSE{if response.error_code != att.ATT_ATTRIBUTE_NOT_FOUND_ERROR{raise att.ATT_Error(error_code=response.error_code)};break};for (attribute_handle, end_group_handle, attribute_value) in response.attributes{if attribute_handle < starting_handle or end_group_handle < attribute_handle{return []};service = ServiceProxy(self, attribute_handle, end_group_handle, UUID.from_bytes(attribute_value), True);if not uuids or service.uuid in uuids{services.append(service)};self.on_service_discovered(service)};if not response.attributes{break};starting_handle = response.attributes[-1][1] + 1};return services}");
  ("client.discover_service",
   "(self,uuid){if isinstance(uuid, str){uuid = UUID(uuid)};starting_handle = 1;services = [];while starting_handle < 65535{response = await self.send_request(att.ATT_Find_By_Type_Value_Request(starting_handle=starting_handle, ending_handle=65535, attribute_type=GATT_PRIMARY_SERVICE_ATTRIBUTE_TYPE, attribute_value=uuid.to_pdu_bytes()));if response is None{return []};if response.op_code == att.Opcode.ATT_ERROR_RESPONSE{if response.error_code != att.ATT_ATTRIBUTE_NOT_FOUND_ERROR{return []};break};for (attribute_handle, end_group_handle) in response.handles_information{if attribute_handle < starting_handle or end_group_handle < attribute_handle{return []};service = ServiceProxy(self, attribute_handle, end_group_handle, uuid, True);services.append(service);self.on_service_discovered(service);if end_group_handle == 65535{return services}};if not response.handles_information{break};starting_handle = response.handles_information[-1][1] + 1};return services}");
  ("client.discover_included_services",
   "(self,service){starting_handle = service.handle;ending_handle = service.end_group_handle;included_services = [];while starting_handle <= ending_handle{response = await self.send_request(att.ATT_Read_By_Type_Request(starting_handle=starting_handle, ending_handle=ending_handle, attribute_type=GATT_INCLUDE_ATTRIBUTE_TYPE));if response is None{return []};if response.op_code == att.Opcode.ATT_ERROR_RESPONSE{if response.error_code != att.ATT_ATTRIBUTE_NOT_FOUND_ERROR{raise att.ATT_Error(error_code=response.error_code)};break};if not response.attributes{break};for (attribute_handle, attribute_value) in response.attributes{if attribute_handle < starting_handle{return []};group_starting_handle, group_ending_handle = struct.unpack_from('<HH', attribute_value);if len(attribute_value) > 4{service_uuid = UUID.from_bytes(attribute_value[4:])}else{service_uuid = UUID.from_bytes(await self.read_value(group_starting_handle, no_long_read=True))};included_service = ServiceProxy(self, group_starting_handle, group_ending_handle, service_uuid, True);included_services.append(included_service)};starting_handle = response.attributes[-1][0] + 1};service.included_services = included_services;return included_services}");
  ("client.discover_characteristics",
   "(self,uuids,service){uuids = [UUID(uuid) if isinstance(uuid, str) else uuid for uuid in uuids];services = [service] if service else self.services;discovered_characteristics = [];for service in services{starting_handle = service.handle;ending_handle = service.end_group_handle;characteristics = [];while starting_handle <= ending_handle{response = await self.send_request(att.ATT_Read_By_Type_Request(starting_handle=starting_handle, ending_handle=ending_handle, attribute_type=GATT_CHARACTERISTIC_ATTRIBUTE_TYPE));if response is None{return []};if response.op_code == att.Opcode.ATT_ERROR_RESPONSE{if response.error_code != att.ATT_ATTRIBUTE_NOT_FOUND_ERROR{raise att.ATT_Error(error_code=response.error_code)};break};if not response.attributes{break};for (attribute_handle, attribute_value) in response.attributes{if attribute_handle < starting_handle{return []};properties, handle = struct.unpack_from('<BH', attribute_value);characteristic_uuid = UUID.from_bytes(attribute_value[3:]);characteristic = CharacteristicProxy[bytes](self, handle, 0, characteristic_uuid, properties);if characteristics{characteristics[-1].end_group_handle = attribute_handle - 1};characteristics.append(characteristic)};starting_handle = response.attributes[-1][0] + 1};if characteristics{characteristics[-1].end_group_handle = service.end_group_handle};characteristics = [c for c in characteristics if not uuids or c.uuid in uuids];service.characteristics = characteristics;discovered_characteristics.extend(characteristics)};return discovered_characteristics}");
  ("client.discover_descriptors",
   "(self,characteristic,start_handle,end_handle){if characteristic{starting_handle = characteristic.handle + 1;ending_handle = characteristic.end_group_handle}else{if start_handle and end_handle{starting_handle = start_handle;ending_handle = end_handle}else{return []}};descriptors = [];while starting_handle <= ending_handle{response = await self.send_request(att.ATT_Find_Information_Request(starting_handle=starting_handle, ending_handle=ending_handle));if response is None{return []};if response.op_code == att.Opcode.ATT_ERROR_RESPONSE{if response.error_code != att.ATT_ATTRIBUTE_NOT_FOUND_ERROR{return []};break};if not response.information{break};for (attribute_handle, attribute_uuid) in response.information{if attribute_handle < starting_handle{return []};descriptor = DescriptorProxy(self, attribute_handle, UUID.from_bytes(attribute_uuid));descriptors.append(descriptor)};starting_handle = response.information[-1][0] + 1};if characteristic{characteristic.descriptors = descriptors};return descriptors}");
  ("client.discover_attributes",
   "(self){starting_handle = 1;ending_handle = 65535;attributes = [];while starting_handle <= ending_handle{response = await self.send_request(att.ATT_Find_Information_Request(starting_handle=starting_handle, ending_handle=ending_handle));if response is None{return []};if response.op_code == att.Opcode.ATT_ERROR_RESPONSE{if response.error_code != att.ATT_ATTRIBUTE_NOT_FOUND_ERROR{return []};break};if not response.information{break};for (attribute_handle, attribute_uuid) in response.information{if attribute_handle < starting_handle{return []};attribute = AttributeProxy[bytes](self, attribute_handle, 0, UUID.from_bytes(attribute_uuid));attributes.append(attribute)};starting_handle = attributes[-1].handle + 1};return attributes}");
  ("client.read_characteristics_by_uuid",
   "(self,uuid,service){if service is None{starting_handle = 1;ending_handle = 65535}else{starting_handle = service.handle;ending_handle = service.end_group_handle};characteristics_values = [];while starting_handle <= ending_handle{response = await self.send_request(att.ATT_Read_By_Type_Request(starting_handle=starting_handle, ending_handle=ending_handle, attribute_type=uuid));if response is None{return []};if response.op_code == att.Opcode.ATT_ERROR_RESPONSE{if response.error_code != att.ATT_ATTRIBUTE_NOT_FOUND_ERROR{return []};break};if not response.attributes{break};for (attribute_handle, attribute_value) in response.attributes{if attribute_handle < starting_handle{return []};characteristics_values.append(attribute_value)};starting_handle = response.attributes[-1][0] + 1};return characteristics_values}");
  ("client.read_value",
   "(self,attribute,no_long_read){attribute_handle = attribute if isinstance(attribute, int) else attribute.handle;response = await self.send_request(att.ATT_Read_Request(attribute_handle=attribute_handle));if response is None{raise TimeoutError()};if response.op_code == att.Opcode.ATT_ERROR_RESPONSE{raise att.ATT_Error(error_code=response.error_code)};attribute_value = response.attribute_value;if not no_long_read and len(attribute_value) == self.mtu - 1{offset = len(attribute_value);while True{response = await self.send_request(att.ATT_Read_Blob_Request(attribute_handle=attribute_handle, value_offset=offset));if response is None{raise TimeoutError()};if response.op_code == att.Opcode.ATT_ERROR_RESPONSE{if response.error_code in (att.ATT_ATTRIBUTE_NOT_LONG_ERROR, att.ATT_INVALID_OFFSET_ERROR){break};raise att.ATT_Error(error_code=response.error_code)};part = response.part_attribute_value;attribute_value += part;if len(part) < self.mtu - 1{break};offset += len(part)}};self.cache_value(attribute_handle, attribute_value);return attribute_value}");
  ("client.write_value",
   "(self,attribute,value,with_response){attribute_handle = attribute if isinstance(attribute, int) else attribute.handle;if with_response{response = await self.send_request(att.ATT_Write_Request(attribute_handle=attribute_handle, attribute_value=value));if response.op_code == att.Opcode.ATT_ERROR_RESPONSE{raise att.ATT_Error(error_code=response.error_code)}}else{await self.send_command(att.ATT_Write_Command(attribute_handle=attribute_handle, attribute_value=value))}}");
  ("client.on_att_handle_value_notification",
   "(self,notification){subscribers = self.notification_subscribers.get(notification.attribute_handle, set());if not subscribers{};self.cache_value(notification.attribute_handle, notification.attribute_value);for subscriber in subscribers{if callable(subscriber){subscriber(notification.attribute_value)}else{subscriber.emit(subscriber.EVENT_UPDATE, notification.attribute_value)}}}");
  ("client.on_att_handle_value_indication",
   "(self,indication){subscribers = self.indication_subscribers.get(indication.attribute_handle, set());if not subscribers{};self.cache_value(indication.attribute_handle, indication.attribute_value);for subscriber in subscribers{if callable(subscriber){subscriber(indication.attribute_value)}else{subscriber.emit(subscriber.EVENT_UPDATE, indication.attribute_value)}};self.send_confirmation(att.ATT_Handle_Value_Confirmation())}");
  ("server.next_handle",
   "(self){return 1 + len(self.attributes)}");
  ("server.add_attribute",
   "(self,attribute){attribute.handle = self.next_handle();attribute.end_group_handle = attribute.handle;self.attributes.append(attribute)}");
  ("server.add_service",
   "(self,service){for included_service in service.included_services{if included_service not in self.services{self.add_service(included_service)}};self.add_attribute(service);for included_service in service.included_services{include_declaration = IncludedServiceDeclaration(included_service);self.add_attribute(include_declaration)};for characteristic in service.characteristics{characteristic_declaration = CharacteristicDeclaration(characteristic, self.next_handle() + 1);self.add_attribute(characteristic_declaration);self.add_attribute(characteristic);for descriptor in characteristic.descriptors{self.add_attribute(descriptor)};if characteristic.properties & (Characteristic.Properties.NOTIFY | Characteristic.Properties.INDICATE) and characteristic.get_descriptor(GATT_CLIENT_CHARACTERISTIC_CONFIGURATION_DESCRIPTOR) is None{self.add_attribute(Descriptor(GATT_CLIENT_CHARACTERISTIC_CONFIGURATION_DESCRIPTOR, att.Attribute.READABLE | att.Attribute.WRITEABLE, self.make_descriptor_value(characteristic)))};characteristic_declaration.end_group_handle = self.attributes[-1].handle;characteristic.end_group_handle = self.attributes[-1].handle};service.end_group_handle = self.attributes[-1].handle;self.services.append(service)}");
  ("server.read_cccd",
   "(self,bearer,characteristic){subscribers = self.subscribers.get(bearer);cccd = None;if subscribers{cccd = subscribers.get(characteristic.handle)};return cccd or bytes([0, 0])}");
  ("server.write_cccd",
   "(self,bearer,characteristic,value){if len(value) != 2{return };if att.is_enhanced_bearer(bearer){bearer_is_open = bearer.state == bearer.State.CONNECTED}else{bearer_is_open = self.device.lookup_connection(bearer.handle) is bearer};if not bearer_is_open{return };cccds = self.subscribers.setdefault(bearer, {});cccds[characteristic.handle] = value;notify_enabled = value[0] & 1 != 0;indicate_enabled = value[0] & 2 != 0;characteristic.emit(characteristic.EVENT_SUBSCRIPTION, bearer, notify_enabled, indicate_enabled);self.emit(self.EVENT_CHARACTERISTIC_SUBSCRIPTION, bearer, characteristic, notify_enabled, indicate_enabled)}");
  ("server.notify_subscriber",
   "(self,bearer,attribute,value,force){if att.is_enhanced_bearer(bearer) or force{return await self._notify_single_subscriber(bearer, attribute, value, force)}else{bearers = [channel for channel in self.device.l2cap_channel_manager.le_coc_channels.get(bearer.handle, {}).values() if channel.psm == att.EATT_PSM] + [bearer];for bearer in bearers{await self._notify_single_subscriber(bearer, attribute, value, force)}}}");
  ("server._notify_single_subscriber",
   "(self,bearer,attribute,value,force){if not force{subscribers = self.subscribers.get(bearer);if not subscribers{return };cccd = subscribers.get(attribute.handle);if not cccd{return };if len(cccd) != 2 or cccd[0] & 1 == 0{return }};value_as_bytes = await attribute.read_value(bearer) if value is None else attribute.encode_value(value);if len(value_as_bytes) > bearer.att_mtu - 3{value_as_bytes = value_as_bytes[:bearer.att_mtu - 3]};notification = att.ATT_Handle_Value_Notification(attribute_handle=attribute.handle, attribute_value=value_as_bytes);self.send_gatt_pdu(bearer, bytes(notification))}");
  ("server.indicate_subscriber",
   "(self,bearer,attribute,value,force){if att.is_enhanced_bearer(bearer) or force{return await self._indicate_single_bearer(bearer, attribute, value, force)}else{bearers = [channel for channel in self.device.l2cap_channel_manager.le_coc_channels.get(bearer.handle, {}).values() if channel.psm == att.EATT_PSM] + [bearer];for bearer in bearers{await self._indicate_single_bearer(bearer, attribute, value, force)}}}");
  ("server._indicate_single_bearer",
   "(self,bearer,attribute,value,force){if not force{subscribers = self.subscribers.get(bearer);if not subscribers{return };cccd = subscribers.get(attribute.handle);if not cccd{return };if len(cccd) != 2 or cccd[0] & 2 == 0{return }};value_as_bytes = await attribute.read_value(bearer) if value is None else attribute.encode_value(value);if len(value_as_bytes) > bearer.att_mtu - 3{value_as_bytes = value_as_bytes[:bearer.att_mtu - 3]};indication = att.ATT_Handle_Value_Indication(attribute_handle=attribute.handle, attribute_value=value_as_bytes);with self.indication_semaphores[bearer]{assert self.pending_confirmations[bearer] is None;pending_confirmation = self.pending_confirmations[bearer] = asyncio.get_running_loop().create_future();try{self.send_gatt_pdu(bearer, bytes(indication));await asyncio.wait_for(pending_confirmation, GATT_REQUEST_TIMEOUT)}except asyncio.TimeoutError{raise TimeoutError()}finally{self.pending_confirmations.pop(bearer, None)}}}");
  ("server._notify_or_indicate_subscribers",
   "(self,indicate,attribute,value,force){bearers = [bearer for bearer, subscribers in self.subscribers.items() if force or subscribers.get(attribute.handle)];if bearers{coroutine = self._indicate_single_bearer if indicate else self._notify_single_subscriber;await asyncio.wait([asyncio.create_task(coroutine(bearer, attribute, value, force)) for bearer in bearers])}}");
  ("server.on_att_find_information_request",
   "(self,bearer,request){if request.starting_handle == 0 or request.starting_handle > request.ending_handle{self.send_response(bearer, att.ATT_Error_Response(request_opcode_in_error=request.op_code, attribute_handle_in_error=request.starting_handle, error_code=att.ATT_INVALID_HANDLE_ERROR));return };pdu_space_available = bearer.att_mtu - 2;attributes = [];uuid_size = 0;for attribute in (attribute for attribute in self.attributes if attribute.handle >= request.starting_handle and attribute.handle <= request.ending_handle){this_uuid_size = len(attribute.type.to_pdu_bytes());if attributes{if this_uuid_size != uuid_size{break}};uuid_size = this_uuid_size;if pdu_space_available < 2 + uuid_size{break};attributes.append(attribute);pdu_space_available -= 2 + uuid_size};if attributes{information_data_list = [struct.pack('<H', attribute.handle) + attribute.type.to_pdu_bytes() for attribute in attributes];response = att.ATT_Find_Information_Response(format=1 if len(attributes[0].type.to_pdu_bytes()) == 2 else 2, information_data=b''.join(information_data_list))}else{response = att.ATT_Error_Response(request_opcode_in_error=request.op_code, attribute_handle_in_error=request.starting_handle, error_code=att.ATT_ATTRIBUTE_NOT_FOUND_ERROR)};self.send_response(bearer, response)}");
  ("server.on_att_find_by_type_value_request",
   "(self,bearer,request){def value_matches{try{return await attribute.read_value(bearer) == request.attribute_value}except att.ATT_Error{return False}};pdu_space_available = bearer.att_mtu - 2;attributes = [];for attribute in (attribute for attribute in self.attributes if attribute.handle >= request.starting_handle and attribute.handle <= request.ending_handle and (attribute.type == request.attribute_type) and await value_matches(attribute) and (pdu_space_available >= 4)){attributes.append(attribute);pdu_space_available -= 4};if attributes{handles_information_list = [];for attribute in attributes{if attribute.type in (GATT_PRIMARY_SERVICE_ATTRIBUTE_TYPE, GATT_SECONDARY_SERVICE_ATTRIBUTE_TYPE, GATT_CHARACTERISTIC_ATTRIBUTE_TYPE){group_end_handle = attribute.end_group_handle}else{group_end_handle = attribute.handle};handles_information_list.append(struct.pack('<HH', attribute.handle, group_end_handle))};response = att.ATT_Find_By_Type_Value_Response(handles_information_list=b''.join(handles_information_list))}else{response = att.ATT_Error_Response(request_opcode_in_error=request.op_code, attribute_handle_in_error=request.starting_handle, error_code=att.ATT_ATTRIBUTE_NOT_FOUND_ERROR)};self.send_response(bearer, response)}");
  ("server.on_att_read_by_type_request",
   "(self,bearer,request){pdu_space_available = bearer.att_mtu - 2;response = att.ATT_Error_Response(request_opcode_in_error=request.op_code, attribute_handle_in_error=request.starting_handle, error_code=att.ATT_ATTRIBUTE_NOT_FOUND_ERROR);if request.starting_handle == 0 or request.starting_handle > request.ending_handle{response = att.ATT_Error_Response(request_opcode_in_error=request.op_code, attribute_handle_in_error=request.starting_handle, error_code=att.ATT_INVALID_HANDLE_ERROR);self.send_response(bearer, response);return };attributes = [];for attribute in (attribute for attribute in self.attributes if attribute.type == request.attribute_type and attribute.handle >= request.starting_handle and (attribute.handle <= request.ending_handle) and pdu_space_available){try{attribute_value = await attribute.read_value(bearer)}except att.ATT_Error{if not attributes{response = att.ATT_Error_Response(request_opcode_in_error=request.op_code, attribute_handle_in_error=attribute.handle, error_code=error.error_code)};break};max_attribute_size = min(bearer.att_mtu - 4, 253);if len(attribute_value) > max_attribute_size{attribute_value = attribute_value[:max_attribute_size]};if attributes and len(attributes[0][1]) != len(attribute_value){break};entry_size = 2 + len(attribute_value);if pdu_space_available < entry_size{break};attributes.append((attribute.handle, attribute_value));pdu_space_available -= entry_size};if attributes{attribute_data_list = [struct.pack('<H', handle) + value for handle, value in attributes];response = att.ATT_Read_By_Type_Response(length=entry_size, attribute_data_list=b''.join(attribute_data_list))}else{};self.send_response(bearer, response)}");
  ("server.on_att_read_by_group_type_request",
   "(self,bearer,request){if request.attribute_group_type not in (GATT_PRIMARY_SERVICE_ATTRIBUTE_TYPE, GATT_SECONDARY_SERVICE_ATTRIBUTE_TYPE){response = att.ATT_Error_Response(request_opcode_in_error=request.op_code, attribute_handle_in_error=request.starting_handle, error_code=att.ATT_UNSUPPORTED_GROUP_TYPE_ERROR);self.send_response(bearer, response);return };pdu_space_available = bearer.att_mtu - 2;attributes = [];response = att.ATT_Error_Response(request_opcode_in_error=request.op_code, attribute_handle_in_error=request.starting_handle, error_code=att.ATT_ATTRIBUTE_NOT_FOUND_ERROR);for attribute in (attribute for attribute in self.attributes if attribute.type == request.attribute_group_type and attribute.handle >= request.starting_handle and (attribute.handle <= request.ending_handle) and pdu_space_available){try{attribute_value = await attribute.read_value(bearer)}except att.ATT_Error{if not attributes{response = att.ATT_Error_Response(request_opcode_in_error=request.op_code, attribute_handle_in_error=attribute.handle, error_code=error.error_code)};break};max_attribute_size = min(bearer.att_mtu - 6, 251);if len(attribute_value) > max_attribute_size{attribute_value = attribute_value[:max_attribute_size]};if attributes and len(attributes[0][2]) != len(attribute_value){break};entry_size = 4 + len(attribute_value);if pdu_space_available < entry_size{break};attributes.append((attribute.handle, attribute.end_group_handle, attribute_value));pdu_space_available -= entry_size};if attributes{attribute_data_list = [struct.pack('<HH', handle, end_group_handle) + value for handle, end_group_handle, value in attributes];response = att.ATT_Read_By_Group_Type_Response(length=len(attribute_data_list[0]), attribute_data_list=b''.join(attribute_data_list))};self.send_response(bearer, response)}");
  ("server.on_att_read_request",
   "(self,bearer,request){if (attribute := self.get_attribute(request.attribute_handle)){try{value = await attribute.read_value(bearer)}except att.ATT_Error{response = att.ATT_Error_Response(request_opcode_in_error=request.op_code, attribute_handle_in_error=request.attribute_handle, error_code=error.error_code)}else{value_size = min(bearer.att_mtu - 1, len(value));response = att.ATT_Read_Response(attribute_value=value[:value_size])}}else{response = att.ATT_Error_Response(request_opcode_in_error=request.op_code, attribute_handle_in_error=request.attribute_handle, error_code=att.ATT_INVALID_HANDLE_ERROR)};self.send_response(bearer, response)}");
  ("server.on_att_read_blob_request",
   "(self,bearer,request){if (attribute := self.get_attribute(request.attribute_handle)){try{value = await attribute.read_value(bearer)}except att.ATT_Error{response = att.ATT_Error_Response(request_opcode_in_error=request.op_code, attribute_handle_in_error=request.attribute_handle, error_code=error.error_code)}else{if request.value_offset > len(value){response = att.ATT_Error_Response(request_opcode_in_error=request.op_code, attribute_handle_in_error=request.attribute_handle, error_code=att.ATT_INVALID_OFFSET_ERROR)}else{if request.value_offset == 0 and len(value) <= bearer.att_mtu - 1{response = att.ATT_Error_Response(request_opcode_in_error=request.op_code, attribute_handle_in_error=request.attribute_handle, error_code=att.ATT_ATTRIBUTE_NOT_LONG_ERROR)}else{part_size = min(bearer.att_mtu - 1, len(value) - request.value_offset);response = att.ATT_Read_Blob_Response(part_attribute_value=value[request.value_offset:request.value_offset + part_size])}}}}else{response = att.ATT_Error_Response(request_opcode_in_error=request.op_code, attribute_handle_in_error=request.attribute_handle, error_code=att.ATT_INVALID_HANDLE_ERROR)};self.send_response(bearer, response)}");
  ("server.on_att_write_request",
   "(self,bearer,request){attribute = self.get_attribute(request.attribute_handle);if attribute is None{self.send_response(bearer, att.ATT_Error_Response(request_opcode_in_error=request.op_code, attribute_handle_in_error=request.attribute_handle, error_code=att.ATT_INVALID_HANDLE_ERROR));return };if len(request.attribute_value) > GATT_MAX_ATTRIBUTE_VALUE_SIZE{self.send_response(bearer, att.ATT_Error_Response(request_opcode_in_error=request.op_code, attribute_handle_in_error=request.attribute_handle, error_code=att.ATT_INVALID_ATTRIBUTE_LENGTH_ERROR));return };try{await attribute.write_value(bearer, request.attribute_value)}except att.ATT_Error{response = att.ATT_Error_Response(request_opcode_in_error=request.op_code, attribute_handle_in_error=request.attribute_handle, error_code=error.error_code)}else{response = att.ATT_Write_Response()};self.send_response(bearer, response)}");
  ("server.on_att_write_command",
   "(self,bearer,request){attribute = self.get_attribute(request.attribute_handle);if attribute is None{return };if len(request.attribute_value) > GATT_MAX_ATTRIBUTE_VALUE_SIZE{return };try{await attribute.write_value(bearer, request.attribute_value)}except Exception{}}");
  ("gatt.IncludedServiceDeclaration.__init__",
   "(self,service){declaration_bytes = struct.pack('<HH', service.handle, service.end_group_handle);uuid_bytes = service.uuid.to_pdu_bytes();if len(uuid_bytes) == 2{declaration_bytes += uuid_bytes};super().__init__(GATT_INCLUDE_ATTRIBUTE_TYPE, Attribute.READABLE, declaration_bytes);self.service = service}");
  ("gatt.CharacteristicDeclaration.__init__",
   "(self,characteristic,value_handle){declaration_bytes = struct.pack('<BH', characteristic.properties, value_handle) + characteristic.uuid.to_pdu_bytes();super().__init__(GATT_CHARACTERISTIC_ATTRIBUTE_TYPE, Attribute.READABLE, declaration_bytes);self.value_handle = value_handle;self.characteristic = characteristic}")
].

Definition model_consts : list (string * Z) := [
  ("services.first_handle", 1);
  ("services.while_lt", 65535);
  ("services.ending", 65535);
  ("services.advance", 1);
  ("service.first_handle", 1);
  ("service.while_lt", 65535);
  ("service.stop_at", 65535);
  ("service.advance", 1);
  ("included.advance", 1);
  ("chars.advance", 1);
  ("chars.prev_end", 1);
  ("descs.first", 1);
  ("descs.advance", 1);
  ("attrs.first_handle", 1);
  ("attrs.ending", 65535);
  ("attrs.advance", 1);
  ("read_by_uuid.advance", 1);
  ("read.long_if", 1);
  ("read.short_part", 1);
  ("fi.space", 2);
  ("fi.entry_hdr", 2);
  ("fi.entry_hdr2", 2);
  ("fbtv.space", 2);
  ("fbtv.entry", 4);
  ("fbtv.entry2", 4);
  ("rbt.space", 2);
  ("rbt.limit_off", 4);
  ("rbt.limit_max", 253);
  ("rbt.entry_hdr", 2);
  ("rbgt.space", 2);
  ("rbgt.limit_off", 6);
  ("rbgt.limit_max", 251);
  ("rbgt.entry_hdr", 4);
  ("read.size", 1);
  ("blob.not_long", 1);
  ("blob.part", 1);
  ("write.max", 512);
  ("notify.trunc_if", 3);
  ("notify.trunc", 3);
  ("notify.cccd_len", 2);
  ("notify.bit", 1);
  ("indicate.trunc_if", 3);
  ("indicate.trunc", 3);
  ("indicate.cccd_len", 2);
  ("indicate.bit", 2);
  ("write_cccd.len", 2);
  ("next_handle.base", 1);
  ("chardecl.value_handle", 1);
  ("prop.notify", 16);
  ("prop.indicate", 32);
  ("op.notification", 27);
  ("op.indication", 29);
  ("err.invalid_handle", 1);
  ("err.invalid_offset", 7);
  ("err.not_found", 10);
  ("err.not_long", 11);
  ("err.invalid_length", 13);
  ("uuid.primary", 10240);
  ("uuid.secondary", 10241);
  ("uuid.include", 10242);
  ("uuid.characteristic", 10243);
  ("uuid.cccd", 10498);
  ("att.default_mtu", 23)
].

Fixpoint lookup_const (k : string) (l : list (string * Z)) : Z :=
  match l with
  | [] => -1000000
  | (k', v) :: l' => if String.eqb k' k then v else lookup_const k l'
  end.

(* a constant of the modelled code, by name *)
Definition mc (k : string) : Z := lookup_const k model_consts.

(* the constants by name, for statements that do not want string notations *)
Definition k_services_first_handle : Z := mc "services.first_handle".
Definition k_services_while_lt : Z := mc "services.while_lt".
Definition k_services_ending : Z := mc "services.ending".
Definition k_services_advance : Z := mc "services.advance".
Definition k_service_first_handle : Z := mc "service.first_handle".
Definition k_service_while_lt : Z := mc "service.while_lt".
Definition k_service_stop_at : Z := mc "service.stop_at".
Definition k_service_advance : Z := mc "service.advance".
Definition k_included_advance : Z := mc "included.advance".
Definition k_chars_advance : Z := mc "chars.advance".
Definition k_chars_prev_end : Z := mc "chars.prev_end".
Definition k_descs_first : Z := mc "descs.first".
Definition k_descs_advance : Z := mc "descs.advance".
Definition k_attrs_first_handle : Z := mc "attrs.first_handle".
Definition k_attrs_ending : Z := mc "attrs.ending".
Definition k_attrs_advance : Z := mc "attrs.advance".
Definition k_read_by_uuid_advance : Z := mc "read_by_uuid.advance".
Definition k_read_long_if : Z := mc "read.long_if".
Definition k_read_short_part : Z := mc "read.short_part".
Definition k_fi_space : Z := mc "fi.space".
Definition k_fi_entry_hdr : Z := mc "fi.entry_hdr".
Definition k_fi_entry_hdr2 : Z := mc "fi.entry_hdr2".
Definition k_fbtv_space : Z := mc "fbtv.space".
Definition k_fbtv_entry : Z := mc "fbtv.entry".
Definition k_fbtv_entry2 : Z := mc "fbtv.entry2".
Definition k_rbt_space : Z := mc "rbt.space".
Definition k_rbt_limit_off : Z := mc "rbt.limit_off".
Definition k_rbt_limit_max : Z := mc "rbt.limit_max".
Definition k_rbt_entry_hdr : Z := mc "rbt.entry_hdr".
Definition k_rbgt_space : Z := mc "rbgt.space".
Definition k_rbgt_limit_off : Z := mc "rbgt.limit_off".
Definition k_rbgt_limit_max : Z := mc "rbgt.limit_max".
Definition k_rbgt_entry_hdr : Z := mc "rbgt.entry_hdr".
Definition k_read_size : Z := mc "read.size".
Definition k_blob_not_long : Z := mc "blob.not_long".
Definition k_blob_part : Z := mc "blob.part".
Definition k_write_max : Z := mc "write.max".
Definition k_notify_trunc_if : Z := mc "notify.trunc_if".
Definition k_notify_trunc : Z := mc "notify.trunc".
Definition k_notify_cccd_len : Z := mc "notify.cccd_len".
Definition k_notify_bit : Z := mc "notify.bit".
Definition k_indicate_trunc_if : Z := mc "indicate.trunc_if".
Definition k_indicate_trunc : Z := mc "indicate.trunc".
Definition k_indicate_cccd_len : Z := mc "indicate.cccd_len".
Definition k_indicate_bit : Z := mc "indicate.bit".
Definition k_write_cccd_len : Z := mc "write_cccd.len".
Definition k_next_handle_base : Z := mc "next_handle.base".
Definition k_chardecl_value_handle : Z := mc "chardecl.value_handle".
Definition k_prop_notify : Z := mc "prop.notify".
Definition k_prop_indicate : Z := mc "prop.indicate".
Definition k_op_notification : Z := mc "op.notification".
Definition k_op_indication : Z := mc "op.indication".
Definition k_err_invalid_handle : Z := mc "err.invalid_handle".
Definition k_err_invalid_offset : Z := mc "err.invalid_offset".
Definition k_err_not_found : Z := mc "err.not_found".
Definition k_err_not_long : Z := mc "err.not_long".
Definition k_err_invalid_length : Z := mc "err.invalid_length".
Definition k_uuid_primary : Z := mc "uuid.primary".
Definition k_uuid_secondary : Z := mc "uuid.secondary".
Definition k_uuid_include : Z := mc "uuid.include".
Definition k_uuid_characteristic : Z := mc "uuid.characteristic".
Definition k_uuid_cccd : Z := mc "uuid.cccd".
Definition k_att_default_mtu : Z := mc "att.default_mtu".

Fixpoint skeletons_eqb (a b : list (string * string)) : bool :=
  match a, b with
  | [], [] => true
  | (n1, s1) :: a', (n2, s2) :: b' => andb (andb (String.eqb n1 n2) (String.eqb s1 s2)) (skeletons_eqb a' b')
  | _, _ => false
  end.

Fixpoint consts_eqb (a b : list (string * Z)) : bool :=
  match a, b with
  | [], [] => true
  | (n1, v1) :: a', (n2, v2) :: b' => andb (andb (String.eqb n1 n2) (Z.eqb v1 v2)) (consts_eqb a' b')
  | _, _ => false
  end.

(* names of the functions whose skeleton differs (for the failing-input search) *)
Fixpoint skeleton_diff (a b : list (string * string)) : list string :=
  match a, b with
  | [], [] => []
  | (n1, s1) :: a', (n2, s2) :: b' =>
      if andb (String.eqb n1 n2) (String.eqb s1 s2) then skeleton_diff a' b' else n1 :: skeleton_diff a' b'
  | (n1, _) :: _, [] => [n1]
  | [], (n2, _) :: _ => [n2]
  end.
