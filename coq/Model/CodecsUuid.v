(* Model/CodecsUuid.v — bumble/core.py UUID (with the process-wide registry UUID.UUIDS as
   explicit state) and bumble/hci.py Address (bytes and string forms) — property C18.

   UUID.  A UUID object is modelled by its uuid_bytes (little endian, 2 / 4 / 16 octets);
   the name is not modelled (it takes no part in equality or serialisation).  The
   registry is the list of the uuid_bytes of the registered objects, oldest first.
   [register] is UUID.register as after fixes/D18d.patch: a registered object is returned
   only when its uuid_bytes are identical (same width); [register_unfixed] is the code
   before the patch (first entry equal as a 128-bit UUID, whatever its width).
   A history is a list of the operations that touch the registry.

   Address.  (address_bytes little endian, address_type).  Strings are lists of character
   codes.  bytes.fromhex is modelled for hexadecimal digits only (it also skips ASCII
   whitespace; strings with whitespace are outside the model). *)
From Coq Require Import ZArith List Bool.
From BV Require Import Base.Bytes Model.CodecsBase Gen.C18Tables.
Import ListNotations.
Open Scope Z_scope.

(* ---------------------------------------------------------------- UUID *)
Definition uuid_len_ok (b : list Z) : bool :=
  let n := lenZ b in (n =? 2) || (n =? 4) || (n =? 16).

(* uuid_128_bytes *)
Definition uuid_128 (b : list Z) : list Z :=
  if lenZ b =? 2 then uuid_base ++ b ++ [0; 0]
  else if lenZ b =? 4 then uuid_base ++ b
  else b.

(* __eq__ between UUIDs *)
Definition uuid_eq (a b : list Z) : bool := zlist_eqb (uuid_128 a) (uuid_128 b).

Definition registry := list (list Z).

(* register(): returns (registry afterwards, uuid_bytes of the returned object) *)
Definition register (reg : registry) (u : list Z) : registry * list Z :=
  if existsb (zlist_eqb u) reg then (reg, u) else (reg ++ [u], u).

Definition register_unfixed (reg : registry) (u : list Z) : registry * list Z :=
  match find (uuid_eq u) reg with
  | Some r => (reg, r)
  | None => (reg ++ [u], u)
  end.

(* from_bytes: InvalidArgumentError (None) unless 2, 4 or 16 octets *)
Definition uuid_from_bytes (reg : registry) (b : list Z) : option (registry * list Z) :=
  if uuid_len_ok b then Some (register reg b) else None.
Definition uuid_from_bytes_unfixed (reg : registry) (b : list Z) : option (registry * list Z) :=
  if uuid_len_ok b then Some (register_unfixed reg b) else None.

(* operations that touch the registry: from_bytes / from_16_bits / from_32_bits (and every
   parser that ends in from_bytes); UUID(str) and UUID(int) do not register *)
Inductive uuid_op := UFromBytes (b : list Z) | UFrom16 (v : Z) | UFrom32 (v : Z).
Definition uuid_op_bytes (o : uuid_op) : list Z :=
  match o with
  | UFromBytes b => b
  | UFrom16 v => le_encode 2 v
  | UFrom32 v => le_encode 4 v
  end.
Definition uuid_step (reg : registry) (o : uuid_op) : registry :=
  match uuid_from_bytes reg (uuid_op_bytes o) with Some (r, _) => r | None => reg end.
Definition uuid_run (reg : registry) (h : list uuid_op) : registry := fold_left uuid_step h reg.
Definition uuid_step_unfixed (reg : registry) (o : uuid_op) : registry :=
  match uuid_from_bytes_unfixed reg (uuid_op_bytes o) with Some (r, _) => r | None => reg end.
Definition uuid_run_unfixed (reg : registry) (h : list uuid_op) : registry := fold_left uuid_step_unfixed h reg.

(* to_bytes(force_128) and to_pdu_bytes (32-bit UUIDs are sent as 128-bit in ATT PDUs) *)
Definition uuid_to_bytes (u : list Z) (force_128 : bool) : list Z := if force_128 then uuid_128 u else u.
Definition uuid_to_pdu_bytes (u : list Z) : list Z := uuid_to_bytes u (lenZ u =? 4).

(* parse_uuid(data, offset) = from_bytes(data[offset:]); parse_uuid_2 = from_bytes(data[offset:offset+2]) *)
Definition parse_uuid (reg : registry) (d : list Z) := uuid_from_bytes reg d.
Definition parse_uuid_2 (reg : registry) (d : list Z) := uuid_from_bytes reg (firstn 2 d).

(* ---------------------------------------------------------------- Address *)
Definition addr := (list Z * Z)%type.       (* address_bytes, address_type *)
Definition is_public (t : Z) : bool := (t =? addr_type_PUBLIC_DEVICE) || (t =? addr_type_PUBLIC_IDENTITY).
Definition addr_eq (a b : addr) : bool :=
  zlist_eqb (fst a) (fst b) && Bool.eqb (is_public (snd a)) (is_public (snd b)).
Definition addr_ok (a : addr) : bool := (length (fst a) =? 6)%nat && bytes_ok (fst a) && byte_ok (snd a).

(* parse_address_with_type: Address(data[offset:offset+6], type); 'invalid address length' when short *)
Definition addr_parse (t : Z) (d : list Z) : option (addr * list Z) :=
  if (6 <=? length d)%nat then Some ((firstn 6 d, t), skipn 6 d) else None.
Definition addr_bytes (a : addr) : list Z := fst a.

(* hexadecimal *)
Definition hexchar (d : Z) : Z := if d <? 10 then 48 + d else 55 + d.     (* '0'..'9', 'A'..'F' *)
Definition hexval (c : Z) : option Z :=
  if (48 <=? c) && (c <=? 57) then Some (c - 48)
  else if (65 <=? c) && (c <=? 70) then Some (c - 55)
  else if (97 <=? c) && (c <=? 102) then Some (c - 87)
  else None.
Definition hex2 (b : Z) : list Z := [hexchar (b / 16); hexchar (b mod 16)].   (* f'{x:02X}' *)
Fixpoint fromhex (s : list Z) : option (list Z) :=
  match s with
  | [] => Some []
  | h :: l :: r =>
      match hexval h, hexval l, fromhex r with
      | Some a, Some b, Some rest => Some (16 * a + b :: rest)
      | _, _, _ => None
      end
  | [_] => None
  end.
Fixpoint join_colon (l : list (list Z)) : list Z :=
  match l with
  | [] => []
  | [x] => x
  | x :: r => x ++ 58 :: join_colon r
  end.

(* to_string(with_type_qualifier=True): ':'.join(f'{x:02X}' for x in reversed(bytes)) + '/P' if public *)
Definition addr_to_string (a : addr) : list Z :=
  join_colon (map hex2 (rev (fst a))) ++ (if is_public (snd a) then [47; 80] else []).

(* Address(string, address_type) *)
Definition addr_from_string (s : list Z) (t : Z) : option addr :=
  let '(s1, t1) := if last s 0 =? 80 then (removelast (removelast s), addr_type_PUBLIC_DEVICE) else (s, t) in
  let s2 := if (length s1 =? 17)%nat then filter (fun c => negb (c =? 58)) s1 else s1 in
  match fromhex s2 with
  | Some bs => if (length bs =? 6)%nat then Some (rev bs, t1) else None
  | None => None
  end.

(* per-operation results of a history (None = raises), and the registry afterwards *)
Fixpoint uuid_trace (reg : registry) (h : list uuid_op) : list (option (list Z)) * registry :=
  match h with
  | [] => ([], reg)
  | o :: r =>
      match uuid_from_bytes reg (uuid_op_bytes o) with
      | Some (reg', u) => let '(t, rf) := uuid_trace reg' r in (Some u :: t, rf)
      | None => let '(t, rf) := uuid_trace reg r in (None :: t, rf)
      end
  end.
