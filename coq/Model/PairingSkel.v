(* The reading of the anchored functions the model was written from, and the interpreters of the
   generated skeletons (Gen/C13Skeleton.v).  Executable Gallina only.

   [*_reading] are written by hand: they are the statements of Session.on_pairing, Device.encrypt,
   Device.get_long_term_key and Session.get_long_term_key that file or read a key - (target,
   guard path, value) - as they stood when Model/Pairing.v ([stored], [central_request],
   [peripheral_reply], the link key of phase 2) was transcribed (after fixes D13a-D13e).
   Proofs/PairingSkel.v shows the regenerated source equal to them on every run. *)
From Coq Require Import ZArith List Bool String.
From BV Require Import Gen.C13Tables Gen.C13Skeleton Model.Pairing.
Import ListNotations.
Open Scope Z_scope.

(* compute_peer_expected_distributions, from its clauses *)
Definition interp_expected (sk : list (bool * Z * list Z)) (sc bredr : bool) (kd : Z) : list Z :=
  flat_map (fun cl : bool * Z * list Z => let '(g, bit, cmds) := cl in
                      if (if g then negb sc && negb bredr else true) && has_flag kd bit then cmds else []) sk.

(* distribute_keys, from its clauses: the commands sent *)
Definition interp_distribute (sk : list dclause) (sc bredr : bool) (kd : Z) : list Z :=
  flat_map (fun cl => match cl with
                      | DEnc bit cmds => if bredr && has_flag kd bit then []
                                         else if negb sc then (if has_flag kd bit then cmds else []) else []
                      | DSend bit cmds => if has_flag kd bit then cmds else []
                      | DLink _ _ _ => []
                      end) sk.

(* ... and whether it derives a BR/EDR link key *)
Definition interp_link (sk : list dclause) (sc bredr : bool) (kd : Z) : bool :=
  existsb (fun cl => match cl with
                     | DLink bit nsc nle => has_flag kd bit && (if nsc then sc else true) && (if nle then negb bredr else true)
                     | _ => false
                     end) sk.

(* the model's condition for a stored link key (Model/Pairing.v, [stored]) *)
Definition model_link (sc bredr : bool) (kd : Z) : bool := has_flag kd KD_LINK_KEY && sc && negb bredr.

Fixpoint zlist_eq (a b : list Z) : bool :=
  match a, b with
  | [], [] => true
  | x :: a', y :: b' => (x =? y) && zlist_eq a' b'
  | _, _ => false
  end.

Definition bytes256 : list Z := map Z.of_nat (seq 0 256).

Definition skeleton_case (sc bredr : bool) (kd : Z) : bool :=
  zlist_eq (interp_expected expected_skeleton sc bredr kd) (expected sc bredr kd)
  && zlist_eq (interp_distribute distribute_skeleton_initiator sc bredr kd) (distributed sc bredr kd)
  && zlist_eq (interp_distribute distribute_skeleton_responder sc bredr kd) (distributed sc bredr kd)
  && Bool.eqb (interp_link distribute_skeleton_initiator sc bredr kd) (model_link sc bredr kd)
  && Bool.eqb (interp_link distribute_skeleton_responder sc bredr kd) (model_link sc bredr kd).

Open Scope string_scope.

Definition on_pairing_reading : list (string * string * string) := [
  ("authenticated", "self.pairing_method == PairingMethod.CTKD_OVER_CLASSIC", "self.ctkd_link_key_authenticated");
  ("authenticated", "not (self.pairing_method == PairingMethod.CTKD_OVER_CLASSIC)", "self.pairing_method != PairingMethod.JUST_WORKS");
  ("keys.ltk", "self.sc or self.connection.transport == PhysicalTransport.BR_EDR", "PairingKeys.Key(value=self.ltk, authenticated=authenticated)");
  ("keys.ltk_central", "not (self.sc or self.connection.transport == PhysicalTransport.BR_EDR) ; self.peer_ltk is not None", "PairingKeys.Key(value=self.peer_ltk, authenticated=authenticated, ediv=self.peer_ediv, rand=self.peer_rand)");
  ("keys.ltk_peripheral", "not (self.sc or self.connection.transport == PhysicalTransport.BR_EDR) ; (self.initiator_key_distribution if self.is_initiator else self.responder_key_distribution) & KeyDistribution.ENC_KEY", "PairingKeys.Key(value=self.ltk, authenticated=authenticated, ediv=self.ltk_ediv, rand=self.ltk_rand)");
  ("keys.irk", "self.peer_identity_resolving_key is not None", "PairingKeys.Key(value=self.peer_identity_resolving_key, authenticated=authenticated)");
  ("keys.csrk", "self.peer_signature_key is not None", "PairingKeys.Key(value=self.peer_signature_key, authenticated=authenticated)");
  ("keys.link_key", "self.link_key is not None", "PairingKeys.Key(value=self.link_key, authenticated=authenticated)")
].

Definition encrypt_reading : list (string * string * string) := [
  ("ltk", "connection.transport == PhysicalTransport.LE ; keys.ltk is not None", "keys.ltk.value");
  ("rand", "connection.transport == PhysicalTransport.LE ; keys.ltk is not None", "bytes(8)");
  ("ediv", "connection.transport == PhysicalTransport.LE ; keys.ltk is not None", "0");
  ("ltk", "connection.transport == PhysicalTransport.LE ; not (keys.ltk is not None) ; keys.ltk_central is not None", "keys.ltk_central.value");
  ("rand", "connection.transport == PhysicalTransport.LE ; not (keys.ltk is not None) ; keys.ltk_central is not None", "keys.ltk_central.rand or b''");
  ("ediv", "connection.transport == PhysicalTransport.LE ; not (keys.ltk is not None) ; keys.ltk_central is not None", "keys.ltk_central.ediv or 0")
].

Definition provider_reading : list (string * string * string) := [
  ("return", "(connection := self.lookup_connection(connection_handle)) is None", "None");
  ("return", "ltk is not None", "ltk");
  ("return", "self.keystore is not None ; keys is not None ; keys.ltk", "keys.ltk.value");
  ("return", "self.keystore is not None ; keys is not None ; connection.role == hci.Role.CENTRAL and keys.ltk_central", "keys.ltk_central.value");
  ("return", "self.keystore is not None ; keys is not None ; connection.role == hci.Role.PERIPHERAL and keys.ltk_peripheral", "keys.ltk_peripheral.value");
  ("return", "", "None")
].

Definition session_provider_reading : list (string * string * string) := [
  ("return", "not self.sc and (not self.completed) ; rand == self.ltk_rand and ediv == self.ltk_ediv", "self.stk");
  ("return", "not (not self.sc and (not self.completed))", "self.ltk");
  ("return", "", "None")
].

(* The negotiation handlers as they stood when responder_session / initiator_session
   (Model/Pairing.v) and on_request / on_response (Model/PairingMsg.v) were transcribed: the
   assignments of the negotiated fields, the decisions, the sends and the tests, in source order with
   nesting depth.  In particular bonding, sc (and ct2) are negotiated BEFORE the OOB test and
   decide_pairing_method read self.sc, and the masks are set before
   compute_peer_expected_distributions. *)

Definition request_handler_reading : list (string * string) := [
  ("0:try", "");
  ("1:call", "self.pairing_config.delegate.accept()");
  ("1:set accepted", "await self.pairing_config.delegate.accept()");
  ("0:except", "");
  ("1:set accepted", "False");
  ("0:if", "not accepted");
  ("1:call", "self.send_pairing_failed(ErrorCode.PAIRING_NOT_SUPPORTED)");
  ("1:return", "");
  ("0:set self.preq", "bytes(command)");
  ("0:set self.bonding", "self.bonding and command.auth_req & AuthReq.BONDING != 0");
  ("0:set self.sc", "self.sc and command.auth_req & AuthReq.SC != 0");
  ("0:set self.ct2", "self.ct2 and command.auth_req & AuthReq.CT2 != 0");
  ("0:if", "self.sc and (self.oob_data_flag != 0 or command.oob_data_flag != 0) or (not self.sc and (self.oob_data_flag != 0 and command.oob_data_flag != 0))");
  ("1:set self.pairing_method", "PairingMethod.OOB");
  ("1:if", "not self.sc and self.tk is None");
  ("2:call", "self.send_pairing_failed(ErrorCode.OOB_NOT_AVAILABLE)");
  ("2:return", "");
  ("1:if", "command.oob_data_flag == 0");
  ("2:set self.r", "bytes(16)");
  ("0:else", "");
  ("1:call", "self.decide_pairing_method(command.auth_req, command.io_capability, self.io_capability)");
  ("0:call", "self.pairing_config.delegate.key_distribution_response(command.initiator_key_distribution, command.responder_key_distribution)");
  ("0:set (self.initiator_key_distribution, self.responder_key_distribution)", "map(KeyDistribution, await self.pairing_config.delegate.key_distribution_response(command.initiator_key_distribution, command.responder_key_distribution))");
  ("0:call", "self.compute_peer_expected_distributions(self.initiator_key_distribution)");
  ("0:call", "self.manager.on_session_start(self)");
  ("0:if", "not self.sc");
  ("1:if", "self.pairing_method == PairingMethod.PASSKEY and self.passkey_display");
  ("2:call", "self.display_passkey()");
  ("0:call", "self.send_pairing_response_command()");
  ("0:if", "self.connection.transport == PhysicalTransport.BR_EDR and self.connection.is_encrypted and self.is_responder and accepted");
  ("1:call", "self.distribute_keys()");
  ("1:if", "not self.peer_expected_distributions");
  ("2:call", "self.on_peer_key_distribution_complete()")
].

Definition response_handler_reading : list (string * string) := [
  ("0:if", "self.is_responder");
  ("1:return", "");
  ("0:set self.pres", "bytes(command)");
  ("0:set self.peer_io_capability", "command.io_capability");
  ("0:set self.bonding", "self.bonding and command.auth_req & AuthReq.BONDING != 0");
  ("0:set self.sc", "self.sc and command.auth_req & AuthReq.SC != 0");
  ("0:if", "self.sc and (self.oob_data_flag != 0 or command.oob_data_flag != 0) or (not self.sc and (self.oob_data_flag != 0 and command.oob_data_flag != 0))");
  ("1:set self.pairing_method", "PairingMethod.OOB");
  ("1:if", "not self.sc and self.tk is None");
  ("2:call", "self.send_pairing_failed(ErrorCode.OOB_NOT_AVAILABLE)");
  ("2:return", "");
  ("1:if", "command.oob_data_flag == 0");
  ("2:set self.r", "bytes(16)");
  ("0:else", "");
  ("1:call", "self.decide_pairing_method(command.auth_req, self.io_capability, command.io_capability)");
  ("0:if", "command.initiator_key_distribution & ~self.initiator_key_distribution != 0 or command.responder_key_distribution & ~self.responder_key_distribution != 0");
  ("1:call", "self.send_pairing_failed(ErrorCode.INVALID_PARAMETERS)");
  ("1:return", "");
  ("0:set self.initiator_key_distribution", "command.initiator_key_distribution");
  ("0:set self.responder_key_distribution", "command.responder_key_distribution");
  ("0:call", "self.compute_peer_expected_distributions(self.responder_key_distribution)");
  ("0:if", "self.pairing_method == PairingMethod.CTKD_OVER_CLASSIC");
  ("1:if", "not self.peer_expected_distributions");
  ("2:call", "self.on_peer_key_distribution_complete()");
  ("1:return", "");
  ("0:if", "self.sc");
  ("1:call", "self.send_public_key_command()");
  ("1:if", "self.pairing_method == PairingMethod.PASSKEY");
  ("2:call", "self.display_or_input_passkey()");
  ("0:else", "");
  ("1:if", "self.pairing_method == PairingMethod.PASSKEY");
  ("2:call", "self.display_or_input_passkey(self.send_pairing_confirm_command)");
  ("1:else", "");
  ("2:call", "self.send_pairing_confirm_command()")
].

(* The session table of smp.Manager, as it stood when [mgr_step] (Model/PairingMsg.v) was
   transcribed: Session.on_disconnection removes its listeners and ends the session unconditionally;
   Session.on_pairing_failure ends it; Manager.on_session_end deletes the entry of the connection
   handle; Manager.pair and Manager.on_smp_pdu register a new session under the handle (the latter
   only for a Pairing Request and only when none is registered). *)

Definition session_on_disconnection_reading : list (string * string) := [
  ("0:call", "self.connection.remove_listener(self.connection.EVENT_DISCONNECTION, self.on_disconnection)");
  ("0:call", "self.connection.remove_listener(self.connection.EVENT_CONNECTION_ENCRYPTION_CHANGE, self.on_connection_encryption_change)");
  ("0:call", "self.connection.remove_listener(self.connection.EVENT_CONNECTION_ENCRYPTION_KEY_REFRESH, self.on_connection_encryption_key_refresh)");
  ("0:call", "self.manager.on_session_end(self)")
].

Definition session_on_pairing_failure_reading : list (string * string) := [
  ("0:if", "self.completed");
  ("1:return", "");
  ("0:set self.completed", "True");
  ("0:if", "self.pairing_result is not None and (not self.pairing_result.done())");
  ("1:call", "self.pairing_result.set_exception(error)");
  ("0:call", "self.manager.on_pairing_failure(self, reason)");
  ("0:call", "self.manager.on_session_end(self)")
].

Definition manager_on_session_end_reading : list (string * string) := [
  ("0:if", "session.connection.handle in self.sessions");
  ("1:del", "self.sessions[session.connection.handle]")
].

Definition manager_pair_reading : list (string * string) := [
  ("0:if", "connection.role != Role.CENTRAL");
  ("0:call", "self.session_proxy(self, connection, pairing_config)");
  ("0:set session", "self.session_proxy(self, connection, pairing_config, is_initiator=True)");
  ("0:set self.sessions[connection.handle]", "session");
  ("0:call", "session.pair()");
  ("0:return", "await session.pair()")
].

Definition manager_on_smp_pdu_reading : list (string * string) := [
  ("0:if", "command.code == CommandCode.SECURITY_REQUEST");
  ("1:call", "self.on_smp_security_request_command(connection, cast(SMP_Security_Request_Command, command))");
  ("1:return", "");
  ("0:if", "not (session := self.sessions.get(connection.handle))");
  ("1:if", "command.code != CommandCode.PAIRING_REQUEST");
  ("2:if", "command.code != CommandCode.PAIRING_FAILED");
  ("3:call", "self.send_command(connection, SMP_Pairing_Failed_Command(reason=ErrorCode.UNSPECIFIED_REASON))");
  ("2:return", "");
  ("1:if", "connection.role == Role.CENTRAL");
  ("1:call", "self.session_proxy(self, connection, pairing_config)");
  ("1:set session", "self.session_proxy(self, connection, pairing_config, is_initiator=False)");
  ("1:set self.sessions[connection.handle]", "session");
  ("0:call", "session.on_smp_command(command)")
].
