(* The reading of the anchored functions the model was written from, and the interpreters of the
   generated skeletons (Gen/C13Skeleton.v).  Executable Gallina only.

   [*_reading] are written by hand: they are the statements of Session.on_pairing, Device.encrypt,
   Device.get_long_term_key and Session.get_long_term_key that file or read a key - (target,
   guard path, value) - as they stood when Model/Pairing.v ([stored], [central_request],
   [peripheral_reply], the link key of phase 2) was transcribed (after fixes D13a-D13e).
   Proofs/PairingSkel.v shows the regenerated source equal to them on every run. *)
From Coq Require Import ZArith List Bool String.
From BV Require Import Gen.C13Tables Gen.C13Skeleton Model.Pairing.
Import ListNotations.
Open Scope Z_scope.

(* compute_peer_expected_distributions, from its clauses *)
Definition interp_expected (sk : list (bool * Z * list Z)) (sc bredr : bool) (kd : Z) : list Z :=
  flat_map (fun cl : bool * Z * list Z => let '(g, bit, cmds) := cl in
                      if (if g then negb sc && negb bredr else true) && has_flag kd bit then cmds else []) sk.

(* distribute_keys, from its clauses: the commands sent *)
Definition interp_distribute (sk : list dclause) (sc bredr : bool) (kd : Z) : list Z :=
  flat_map (fun cl => match cl with
                      | DEnc bit cmds => if bredr && has_flag kd bit then []
                                         else if negb sc then (if has_flag kd bit then cmds else []) else []
                      | DSend bit cmds => if has_flag kd bit then cmds else []
                      | DLink _ _ _ => []
                      end) sk.

(* ... and whether it derives a BR/EDR link key *)
Definition interp_link (sk : list dclause) (sc bredr : bool) (kd : Z) : bool :=
  existsb (fun cl => match cl with
                     | DLink bit nsc nle => has_flag kd bit && (if nsc then sc else true) && (if nle then negb bredr else true)
                     | _ => false
                     end) sk.

(* the model's condition for a stored link key (Model/Pairing.v, [stored]) *)
Definition model_link (sc bredr : bool) (kd : Z) : bool := has_flag kd KD_LINK_KEY && sc && negb bredr.

Fixpoint zlist_eq (a b : list Z) : bool :=
  match a, b with
  | [], [] => true
  | x :: a', y :: b' => (x =? y) && zlist_eq a' b'
  | _, _ => false
  end.

Definition bytes256 : list Z := map Z.of_nat (seq 0 256).

Definition skeleton_case (sc bredr : bool) (kd : Z) : bool :=
  zlist_eq (interp_expected expected_skeleton sc bredr kd) (expected sc bredr kd)
  && zlist_eq (interp_distribute distribute_skeleton_initiator sc bredr kd) (distributed sc bredr kd)
  && zlist_eq (interp_distribute distribute_skeleton_responder sc bredr kd) (distributed sc bredr kd)
  && Bool.eqb (interp_link distribute_skeleton_initiator sc bredr kd) (model_link sc bredr kd)
  && Bool.eqb (interp_link distribute_skeleton_responder sc bredr kd) (model_link sc bredr kd).

Open Scope string_scope.

Definition on_pairing_reading : list (string * string * string) := [
  ("authenticated", "self.pairing_method == PairingMethod.CTKD_OVER_CLASSIC", "self.ctkd_link_key_authenticated");
  ("authenticated", "not (self.pairing_method == PairingMethod.CTKD_OVER_CLASSIC)", "self.pairing_method != PairingMethod.JUST_WORKS");
  ("keys.ltk", "self.sc or self.connection.transport == PhysicalTransport.BR_EDR", "PairingKeys.Key(value=self.ltk, authenticated=authenticated)");
  ("keys.ltk_central", "not (self.sc or self.connection.transport == PhysicalTransport.BR_EDR) ; self.peer_ltk is not None", "PairingKeys.Key(value=self.peer_ltk, authenticated=authenticated, ediv=self.peer_ediv, rand=self.peer_rand)");
  ("keys.ltk_peripheral", "not (self.sc or self.connection.transport == PhysicalTransport.BR_EDR) ; (self.initiator_key_distribution if self.is_initiator else self.responder_key_distribution) & KeyDistribution.ENC_KEY", "PairingKeys.Key(value=self.ltk, authenticated=authenticated, ediv=self.ltk_ediv, rand=self.ltk_rand)");
  ("keys.irk", "self.peer_identity_resolving_key is not None", "PairingKeys.Key(value=self.peer_identity_resolving_key, authenticated=authenticated)");
  ("keys.csrk", "self.peer_signature_key is not None", "PairingKeys.Key(value=self.peer_signature_key, authenticated=authenticated)");
  ("keys.link_key", "self.link_key is not None", "PairingKeys.Key(value=self.link_key, authenticated=authenticated)")
].

Definition encrypt_reading : list (string * string * string) := [
  ("ltk", "connection.transport == PhysicalTransport.LE ; keys.ltk is not None", "keys.ltk.value");
  ("rand", "connection.transport == PhysicalTransport.LE ; keys.ltk is not None", "bytes(8)");
  ("ediv", "connection.transport == PhysicalTransport.LE ; keys.ltk is not None", "0");
  ("ltk", "connection.transport == PhysicalTransport.LE ; not (keys.ltk is not None) ; keys.ltk_central is not None", "keys.ltk_central.value");
  ("rand", "connection.transport == PhysicalTransport.LE ; not (keys.ltk is not None) ; keys.ltk_central is not None", "keys.ltk_central.rand or b''");
  ("ediv", "connection.transport == PhysicalTransport.LE ; not (keys.ltk is not None) ; keys.ltk_central is not None", "keys.ltk_central.ediv or 0")
].

Definition provider_reading : list (string * string * string) := [
  ("return", "(connection := self.lookup_connection(connection_handle)) is None", "None");
  ("return", "ltk is not None", "ltk");
  ("return", "self.keystore is not None ; keys is not None ; keys.ltk", "keys.ltk.value");
  ("return", "self.keystore is not None ; keys is not None ; connection.role == hci.Role.CENTRAL and keys.ltk_central", "keys.ltk_central.value");
  ("return", "self.keystore is not None ; keys is not None ; connection.role == hci.Role.PERIPHERAL and keys.ltk_peripheral", "keys.ltk_peripheral.value");
  ("return", "", "None")
].

Definition session_provider_reading : list (string * string * string) := [
  ("return", "not self.sc and (not self.completed) ; rand == self.ltk_rand and ediv == self.ltk_ediv", "self.stk");
  ("return", "not (not self.sc and (not self.completed))", "self.ltk");
  ("return", "", "None")
].
