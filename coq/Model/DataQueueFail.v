(* DataPacketQueue when the send callback can RAISE (a transport write error in
   Host.send_hci_packet / hci_sink.on_packet).  No proofs here.

   Reading of the code (host.py _check_queue):
       packet, connection_handle = self._packets.pop()
       self._send(packet)                      # may raise
       self._in_flight += 1 ; connection_state.in_flight += 1 ; drained.clear()
   The packet is popped BEFORE the callback runs and accounted AFTER it returned: when the
   callback raises, the packet is gone (it never reached the controller), no credit is taken
   for it, the loop is left and the exception propagates to the caller of enqueue / flush /
   on_packets_completed - whose own state updates were all made before _check_queue() ran.
   `fails p` says whether handing packet p over raises. *)
From Coq Require Import ZArith List Bool.
From BV Require Import Model.DataQueue.
Import ListNotations.
Open Scope Z_scope.

Fixpoint check_queue_f (fails : Z -> bool) (maxf infl : Z) (cs : list conn) (w : list (Z * Z))
  : Z * list conn * list (Z * Z) * list (Z * Z) * bool :=
  match w with
  | [] => (infl, cs, [], [], false)
  | (p, h) :: w' =>
      if Z.ltb infl maxf then
        if fails p then (infl, cs, w', [], true)
        else
          let '(infl', cs', w'', sent, r) :=
            check_queue_f fails maxf (infl + 1) (bump_conn h cs) w' in
          (infl', cs', w'', (p, h) :: sent, r)
      else (infl, cs, w, [], false)
  end.

Definition run_check_f (fails : Z -> bool) (s : qstate) : qstate * list (Z * Z) * bool :=
  let '(infl, cs, w, sent, r) :=
    check_queue_f fails (q_max s) (q_inflight s) (q_conns s) (q_wait s) in
  (mkQ (q_max s) infl cs w (q_queued s) (q_completed s), sent, r).

(* the state each operation has reached when it calls _check_queue() (None: the operation
   returns before that - a completion report for an unknown handle) *)
Definition q_pre (s : qstate) (o : qop) : option qstate :=
  match o with
  | Enqueue p h =>
      Some (mkQ (q_max s) (q_inflight s) (q_conns s) (q_wait s ++ [(p, h)])
                (q_queued s + 1) (q_completed s))
  | Flush h =>
      let keep := filter (not_handle h) (q_wait s) in
      let flushed := Z.of_nat (length (q_wait s)) - Z.of_nat (length keep) in
      let s1 := mkQ (q_max s) (q_inflight s) (q_conns s) keep (q_queued s)
                    (q_completed s + flushed) in
      Some match find_conn h (q_conns s1) with
           | Some c =>
               mkQ (q_max s1) (q_inflight s1 - c_inflight c) (remove_conn h (q_conns s1))
                   (q_wait s1) (q_queued s1) (q_completed s1 + c_inflight c)
           | None => s1
           end
  | Completed n h =>
      match find_conn h (q_conns s) with
      | None => None
      | Some c =>
          let done := if Z.leb n (c_inflight c) then n else c_inflight c in
          let left := c_inflight c - done in
          let cs := set_conn h left (orb (Z.eqb left 0) (c_drained c)) (q_conns s) in
          Some (mkQ (q_max s) (q_inflight s - done) cs (q_wait s) (q_queued s)
                    (q_completed s + done))
      end
  end.

Definition q_step_f (fails : Z -> bool) (s : qstate) (o : qop) : qstate * list (Z * Z) * bool :=
  match q_pre s o with
  | Some t => run_check_f fails t
  | None => (s, [], false)
  end.

(* a history; per operation: what was handed over and whether the operation raised *)
Fixpoint q_run_f (fails : Z -> bool) (s : qstate) (ops : list qop)
  : qstate * list (list (Z * Z) * bool) :=
  match ops with
  | [] => (s, [])
  | o :: ops' =>
      let '(s1, out1, r1) := q_step_f fails s o in
      let '(s2, outs) := q_run_f fails s1 ops' in
      (s2, (out1, r1) :: outs)
  end.

Definition in_list (l : list Z) (p : Z) : bool := existsb (Z.eqb p) l.
