(* Model/CodecsShapes.v — the bit-field LAYOUTS the hand-written codec models were written from,
   as data, and their interpreter (property C18).  A layout row is a disjunction of terms
   (kind, index, shr, mask, shl) = ((source >> shr) & mask) << shl with kind 0 = the constant
   [index], 1 = input octet data[index], 2 = field number [index]; mask = -1: no mask.
   Proofs/CodecsShapes.v: the model functions ARE this interpreter on these layouts.
   Gen/C18Shapes.v: the same layouts extracted from the source AST on every run
   (tools/translate/c18_shapes.py); Props/C18.v checks they are equal. *)
From Coq Require Import ZArith List.
Import ListNotations.
Open Scope Z_scope.

Definition eval_term (data fields : list Z) (t : Z * Z * Z * Z * Z) : Z :=
  let '(k, i, shr, mask, shl) := t in
  let src := if k =? 0 then i else if k =? 1 then nth (Z.to_nat i) data 0 else nth (Z.to_nat i) fields 0 in
  let a := Z.shiftr src shr in
  let b := if mask =? -1 then a else Z.land a mask in
  Z.shiftl b shl.
Definition eval_row (data fields : list Z) (row : list (Z * Z * Z * Z * Z)) : Z :=
  fold_left (fun acc t => Z.lor acc (eval_term data fields t)) row 0.
Definition eval_shape (data fields : list Z) (shape : list (list (Z * Z * Z * Z * Z))) : list Z :=
  map (eval_row data fields) shape.

Definition ertm_i_parse_layout : list (list (Z * Z * Z * Z * Z)) :=
  [[(1, 0, 1, 63, 0)];
   [(1, 1, 6, 3, 0)];
   [(1, 1, 0, 63, 0)];
   [(1, 0, 7, 1, 0)]].

Definition ertm_i_ser_layout : list (list (Z * Z * Z * Z * Z)) :=
  [[(0, 0, 0, (-1), 0); (2, 0, 0, (-1), 1); (2, 3, 0, (-1), 7)];
   [(2, 2, 0, (-1), 0); (2, 1, 0, (-1), 6)]].

Definition ertm_s_parse_layout : list (list (Z * Z * Z * Z * Z)) :=
  [[(1, 0, 2, 3, 0)];
   [(1, 0, 4, 1, 0)];
   [(1, 1, 0, 127, 0)];
   [(1, 0, 7, 1, 0)]].

Definition ertm_s_ser_layout : list (list (Z * Z * Z * Z * Z)) :=
  [[(0, 1, 0, (-1), 0); (2, 0, 0, (-1), 2); (2, 1, 0, (-1), 4); (2, 3, 0, (-1), 7)];
   [(2, 2, 0, (-1), 0)]].

Definition msc_parse_layout : list (list (Z * Z * Z * Z * Z)) :=
  [[(1, 0, 2, (-1), 0)];
   [(1, 1, 1, 1, 0)];
   [(1, 1, 2, 1, 0)];
   [(1, 1, 3, 1, 0)];
   [(1, 1, 6, 1, 0)];
   [(1, 1, 7, 1, 0)]].

Definition msc_ser_layout : list (list (Z * Z * Z * Z * Z)) :=
  [[(2, 0, 0, (-1), 2); (0, 3, 0, (-1), 0)];
   [(0, 1, 0, (-1), 0); (2, 1, 0, (-1), 1); (2, 2, 0, (-1), 2); (2, 3, 0, (-1), 3); (2, 4, 0, (-1), 6); (2, 5, 0, (-1), 7)]].

Definition pn_parse_layout : list (list (Z * Z * Z * Z * Z)) :=
  [[(1, 0, 0, (-1), 0)];
   [(1, 1, 0, (-1), 0)];
   [(1, 2, 0, (-1), 0)];
   [(1, 3, 0, (-1), 0)];
   [(1, 4, 0, (-1), 0); (1, 5, 0, (-1), 8)];
   [(1, 6, 0, (-1), 0)];
   [(1, 7, 0, 7, 0)]].

Definition pn_ser_layout : list (list (Z * Z * Z * Z * Z)) :=
  [[(2, 0, 0, 255, 0)];
   [(2, 1, 0, 255, 0)];
   [(2, 2, 0, 255, 0)];
   [(2, 3, 0, 255, 0)];
   [(2, 4, 0, 255, 0)];
   [(2, 4, 8, 255, 0)];
   [(2, 5, 0, 255, 0)];
   [(2, 6, 0, 7, 0)]].

Definition rfcomm_header_parse_layout : list (list (Z * Z * Z * Z * Z)) :=
  [[(1, 0, 2, 63, 0)];
   [(1, 0, 1, 1, 0)];
   [(1, 1, 0, 239, 0)];
   [(1, 1, 4, 1, 0)]].

Definition rfcomm_header_ser_layout : list (list (Z * Z * Z * Z * Z)) :=
  [[(2, 0, 0, (-1), 2); (2, 1, 0, (-1), 1); (0, 1, 0, (-1), 0)];
   [(2, 2, 0, (-1), 0); (2, 3, 0, (-1), 4)]].

Definition rfcomm_length_threshold_layout : Z := 127.
Definition rfcomm_length2_layout : list (list (Z * Z * Z * Z * Z)) :=
  [[(2, 0, 0, 127, 1)];
   [(2, 0, 7, 255, 0)]].

Definition rfcomm_length1_layout : list (list (Z * Z * Z * Z * Z)) :=
  [[(2, 0, 0, (-1), 1); (0, 1, 0, (-1), 0)]].

Definition epi_parse_layout : list (list (Z * Z * Z * Z * Z)) :=
  [[(1, 0, 2, (-1), 0)];
   [(1, 0, 1, 1, 0)];
   [(1, 1, 4, (-1), 0)];
   [(1, 1, 3, 1, 0)]].

Definition epi_ser_layout : list (list (Z * Z * Z * Z * Z)) :=
  [[(2, 0, 0, (-1), 2); (2, 1, 0, (-1), 1)];
   [(2, 2, 0, (-1), 4); (2, 3, 0, (-1), 3)]].

Definition avdtp_b0_parse_layout : list (list (Z * Z * Z * Z * Z)) :=
  [[(1, 0, 4, (-1), 0)];
   [(1, 0, 2, 3, 0)];
   [(1, 0, 0, 3, 0)]].

Definition avdtp_b0_ser_layout : list (list (Z * Z * Z * Z * Z)) :=
  [[(2, 0, 0, (-1), 4); (2, 1, 0, (-1), 2); (2, 2, 0, (-1), 0)]].

Definition avctp_b0_parse_layout : list (list (Z * Z * Z * Z * Z)) :=
  [[(1, 0, 4, (-1), 0)];
   [(1, 0, 2, 3, 0)];
   [(1, 0, 1, 1, 0)];
   [(1, 0, 0, 1, 0)]].

Definition rtp_header_parse_layout : list (list (Z * Z * Z * Z * Z)) :=
  [[(1, 0, 6, 3, 0)];
   [(1, 0, 5, 1, 0)];
   [(1, 0, 4, 1, 0)];
   [(1, 0, 0, 15, 0)];
   [(1, 1, 7, 1, 0)];
   [(1, 1, 0, 127, 0)]].

Definition rtp_csrc_base_layout : Z := 12.
Definition rtp_csrc_stride_layout : Z := 4.

(* ---- SDP data element size tables *)
(* __bytes__, fixed-size types: (0 = `size <= c` | 1 = `size == c`, c, size_index), in index order *)
Definition sdp_fixed_index_layout : list (Z * Z * Z) := [(0, 1, 0); (1, 2, 1); (1, 4, 2); (1, 8, 3); (1, 16, 4)].
(* __bytes__, variable-size types: (`size <= c`, size_index, octets of the size field) *)
Definition sdp_var_index_layout : list (Z * Z * Z) := [(255, 5, 1); (65535, 6, 2); (4294967295, 7, 4)].
(* parse_next: size_index -> announced value size; size_index -> octets of the size field (big endian) *)
Definition sdp_parse_fixed_layout : list (Z * Z) := [(1, 2); (2, 4); (3, 8); (4, 16)].
Definition sdp_parse_var_layout : list (Z * Z) := [(5, 1); (6, 2); (7, 4)].

Fixpoint fixed_index_tab (tab : list (Z * Z * Z)) (n : Z) : option Z :=
  match tab with
  | [] => None
  | (op, c, idx) :: r => if (if op =? 0 then n <=? c else n =? c) then Some idx else fixed_index_tab r n
  end.
Fixpoint var_index_tab (tab : list (Z * Z * Z)) (n : Z) : option (Z * Z) :=
  match tab with
  | [] => None
  | (c, idx, w) :: r => if n <=? c then Some (idx, w) else var_index_tab r n
  end.
Fixpoint assoc_tab (tab : list (Z * Z)) (k : Z) : option Z :=
  match tab with
  | [] => None
  | (a, b) :: r => if a =? k then Some b else assoc_tab r k
  end.

(* ---- A2DP codec information *)
Definition sbc_parse_layout : list (list (Z * Z * Z * Z * Z)) :=
  [[(1, 0, 4, 15, 0)];
   [(1, 0, 0, 15, 0)];
   [(1, 1, 4, 15, 0)];
   [(1, 1, 2, 3, 0)];
   [(1, 1, 0, 3, 0)];
   [(1, 2, 0, 255, 0)];
   [(1, 3, 0, 255, 0)]].

Definition sbc_ser_layout : list (list (Z * Z * Z * Z * Z)) :=
  [[(2, 0, 0, (-1), 4); (2, 1, 0, (-1), 0)];
   [(2, 2, 0, (-1), 4); (2, 3, 0, (-1), 2); (2, 4, 0, (-1), 0)];
   [(2, 5, 0, (-1), 0)];
   [(2, 6, 0, (-1), 0)]].

Definition aac_parse_layout : list (list (Z * Z * Z * Z * Z)) :=
  [[(1, 0, 0, (-1), 0)];
   [(1, 1, 0, (-1), 4); (1, 2, 4, 15, 0)];
   [(1, 2, 2, 3, 0)];
   [(1, 3, 7, 1, 0)];
   [(1, 3, 0, 127, 16); (1, 4, 0, (-1), 8); (1, 5, 0, (-1), 0)]].

Definition aac_ser_outer_layout : list Z := [255; 255; 255; 255; 255; 255].
Definition aac_ser_layout : list (list (Z * Z * Z * Z * Z)) :=
  [[(2, 0, 0, (-1), 0)];
   [(2, 1, 4, (-1), 0)];
   [(2, 1, 0, 15, 4); (2, 2, 0, (-1), 2)];
   [(2, 3, 0, (-1), 7); (2, 4, 16, 127, 0)];
   [(2, 4, 8, 255, 0)];
   [(2, 4, 0, (-1), 0)]].


Definition eval_shape_masked (data fields : list Z) (shape : list (list (Z * Z * Z * Z * Z))) (outer : list Z) : list Z :=
  map (fun rm => Z.land (eval_row data fields (fst rm)) (snd rm)) (combine shape outer).

(* ---- DataElementParser._list_from_bytes: its exit paths in source order,
   (0 = return | 1 = raise, after `self.depth += 1`, after `self.depth -= 1`).
   Model/CodecsSdpState.sparse_next has exactly these: the nesting-limit raise before the
   increment, the overrun raise inside the loop (counter not restored: the parse is abandoned),
   and the single return after the decrement. *)
Definition sdp_list_exits_layout : list (Z * Z * Z) := [(1, 0, 0); (1, 1, 0); (0, 1, 1)].
(* every RETURN that follows the increment also follows the decrement *)
Definition exits_restore_depth (exits : list (Z * Z * Z)) : bool :=
  forallb (fun x => let '(k, inc, dec) := x in orb (orb (k =? 1) (inc =? 0)) (dec =? 1)) exits.
