(* Model/CodecsXfields.v — the custom field parsers / serialisers of the PDU classes above HCI
   that are outside Model/SpecCodec.v's atomic vocabulary, packaged as a [codec] (the record of
   Model/SpecCodec.v) so that C01's sequence combinator and its theorems apply to the field lists
   of EVERY class of L2CAP_Control_Frame.classes, ATT_PDU.pdu_classes, SMP_Command.smp_classes,
   SDP_PDU.subclasses and avdtp.Message.subclasses (property C18).

     XA a            any atomic spec of SpecCodec (ints, enums, '*', fixed bytes, address ...)
     XPsm            l2cap: L2CAP_Connection_Request.parse_psm / serialize_psm
     XU16Strict      att:   _SET_OF_HANDLES_METADATA  [unpack_from('<H', data, i) for i in range(offset, len, 2)]
     XU16Lenient     l2cap: parse_cid_list            count = (len - offset) // 2
     XLvList         att:   ATT_Read_Multiple_Variable_Response._parse_length_value_tuples and the serializer
                            lambda: each tuple is (Length, value) with its OWN Length element, written as given
     XHandles32      sdp:   _parse_service_record_handle_list  '>H' count, '>I' each
     XLenBytes16     sdp:   _parse_bytes_preceded_by_length    '>H' length, bytes
     XUuid2          core:  UUID.parse_uuid_2 (bytes(uuid) on the way out)
     XUuidRest       core:  UUID.parse_uuid   (the rest of the PDU; 2, 4 or 16 octets)
     XSdpElem        sdp:   DataElement.parse_from_bytes / bytes(element); the field value is the
                            element's octets (the tree <-> octets codec is Model/CodecsSdp.v)
     XSeid           avdtp: Message.SEID_METADATA  seid << 2 / data[offset] >> 2
     XSeidList       avdtp: Start_Command acp_seids, to the end of the payload
     XEndpoints      avdtp: Discover_Response.parse_endpoints / serialize_endpoints
     XCaps           avdtp: ServiceCapabilities.parse_capabilities / serialize_capabilities
   Values use SpecCodec's [value]: lists are [VList], a (length, bytes) tuple is
   [VList [VInt l; VBytes b]], an endpoint is [VList [VInt seid; VInt in_use; VInt media_type;
   VInt tsep]], a capability is [VList [VInt category; VBytes bytes]], a UUID is [VBytes uuid_bytes].
   None = the Python code raises. *)
From Coq Require Import ZArith List Bool.
From Coq Require String.
From BV Require Import Base.Bytes Model.SpecCodec Model.CodecsBase Model.CodecsL2cap Model.CodecsSdp
  Model.CodecsAv Gen.C18Tables.
Import ListNotations.
Open Scope Z_scope.

Inductive xspec :=
| XA (a : aspec)
| XPsm | XU16Strict | XU16Lenient | XLvList | XHandles32 | XLenBytes16
| XUuid2 | XUuidRest | XSdpElem | XSeid | XSeidList | XEndpoints | XCaps
| XStr (n : nat)      (* avrcp _string_spec(n): n-octet big-endian length, then the UTF-8 octets *)
| XU64BE.             (* avrcp _UINT64_BE_METADATA *)

(* ---- helpers *)
Fixpoint ints_of (vs : list value) : option (list Z) :=
  match vs with
  | [] => Some []
  | VInt z :: r => match ints_of r with Some l => Some (z :: l) | None => None end
  | _ => None
  end.
Definition vints (l : list Z) : list value := map VInt l.

(* little-endian 16-bit words, two octets at a time; a trailing single octet: strict = error *)
Fixpoint u16_words (strict : bool) (bs : list Z) : option (list Z) :=
  match bs with
  | [] => Some []
  | [_] => if strict then None else Some []
  | a :: b :: r => match u16_words strict r with Some l => Some (le_decode [a; b] :: l) | None => None end
  end.

Fixpoint be32_words (n : nat) (bs : list Z) : option (list Z) :=
  match n with
  | O => Some []
  | S k => match bs with
           | a :: b :: c :: d :: r =>
               match be32_words k r with Some l => Some (be_decode [a; b; c; d] :: l) | None => None end
           | _ => None
           end
  end.

(* (length16, value) tuples to the end of the data; the value slice clamps *)
Fixpoint lv_parse (fuel : nat) (bs : list Z) : option (list value) :=
  match fuel with
  | O => None
  | S k =>
      match bs with
      | [] => Some []
      | [_] => None                                            (* struct.error *)
      | a :: b :: r =>
          let l := le_decode [a; b] in
          match lv_parse k (skipn (Z.to_nat l) r) with
          | Some rest => Some (VList [VInt l; VBytes (firstn (Z.to_nat l) r)] :: rest)
          | None => None
          end
      end
  end.
(* NOT the code: a serializer that derives each Length from the value (what a "tidy" refactoring
   would write); it loses the Length of a truncated last value - see lv_derived_refuted *)
Fixpoint lv_ser_derived (vs : list value) : option (list Z) :=
  match vs with
  | [] => Some []
  | VList [VInt _; VBytes b] :: r =>
      if u_range 2 (lenZ b) then match lv_ser_derived r with Some rb => Some (le_encode 2 (lenZ b) ++ b ++ rb) | None => None end
      else None
  | _ => None
  end.
Fixpoint lv_ser (vs : list value) : option (list Z) :=
  match vs with
  | [] => Some []
  | VList [VInt l; VBytes b] :: r =>
      if u_range 2 l then match lv_ser r with Some rb => Some (le_encode 2 l ++ b ++ rb) | None => None end
      else None
  | _ => None
  end.
(* what round-trips: every tuple's Length equals the number of value octets, except that the LAST
   value may be shorter than its Length (Vol 3 Part F 3.4.4.12: the last value is truncated to what
   fits in ATT_MTU while Length still reports the full attribute length; the parser's slice clamps
   at the end of the PDU).  A value longer than its Length, or a short value before the end, does
   not come back (the parser cuts at Length / reads the next tuple out of the value). *)
Fixpoint lv_inr (vs : list value) : bool :=
  match vs with
  | [] => true
  | VList [VInt l; VBytes b] :: r =>
      u_range 2 l && bytes_ok b &&
      match r with
      | [] => lenZ b <=? l
      | _ => (l =? lenZ b) && lv_inr r
      end
  | _ => false
  end.

(* endpoints: two octets each, a trailing single octet is ignored *)
Fixpoint epi_list_parse (bs : list Z) : list value :=
  match bs with
  | a :: b :: r =>
      match epi_parse [a; b] with
      | Some p => VList (vints p) :: epi_list_parse r
      | None => []
      end
  | _ => []
  end.
Fixpoint epi_list_ser (vs : list value) : option (list Z) :=
  match vs with
  | [] => Some []
  | VList ps :: r =>
      match ints_of ps with
      | Some p => if epi_ok p
                  then match epi_list_ser r with Some rb => Some (epi_bytes p ++ rb) | None => None end
                  else None
      | None => None
      end
  | _ => None
  end.
Fixpoint epi_list_inr (vs : list value) : bool :=
  match vs with
  | [] => true
  | VList ps :: r => match ints_of ps with Some p => epi_ok p && epi_list_inr r | None => false end
  | _ => false
  end.

(* capabilities as (category, bytes) pairs over the strict TLV loop of Model/CodecsL2cap.v *)
Fixpoint caps_of (vs : list value) : option (list (Z * list Z)) :=
  match vs with
  | [] => Some []
  | VList [VInt c; VBytes b] :: r => match caps_of r with Some l => Some ((c, b) :: l) | None => None end
  | _ => None
  end.
Definition vcaps (l : list (Z * list Z)) : list value := map (fun o => VList [VInt (fst o); VBytes (snd o)]) l.

Definition seid_ok (s : Z) : bool := zlt 64 s.

(* the element parser reports how far it advanced as an integer; as a [nat] offset anything
   beyond the end of the data behaves alike, so it is clamped (a 32-bit size field may announce 4 GiB) *)
Definition clampn (c : Z) (bs : list Z) : nat := if lenZ bs <? c then S (length bs) else Z.to_nat c.

Definition ser_x (s : xspec) (v : value) : option (list Z) :=
  match s, v with
  | XA a, _ => ser_a a v
  | XPsm, VInt z => if 0 <=? z then Some (psm_bytes z) else None          (* negative: the loop never ends *)
  | XU16Strict, VList vs | XU16Lenient, VList vs =>
      match ints_of vs with
      | Some l => if forallb (u_range 2) l then Some (flat_map (le_encode 2) l) else None
      | None => None
      end
  | XLvList, VList vs => lv_ser vs
  | XHandles32, VList vs =>
      match ints_of vs with
      | Some l => if u_range 2 (lenZ l) && forallb (u_range 4) l
                  then Some (be_encode 2 (lenZ l) ++ flat_map (be_encode 4) l) else None
      | None => None
      end
  | XLenBytes16, VBytes b => if u_range 2 (lenZ b) then Some (be_encode 2 (lenZ b) ++ b) else None
  | XUuid2, VBytes b | XUuidRest, VBytes b | XSdpElem, VBytes b => Some b
  | XSeid, VInt z => if byte_ok (Z.shiftl z 2) then Some [Z.shiftl z 2] else None
  | XSeidList, VList vs =>
      match ints_of vs with
      | Some l => if forallb (fun z => byte_ok (Z.shiftl z 2)) l then Some (map (fun z => Z.shiftl z 2) l) else None
      | None => None
      end
  | XEndpoints, VList vs => epi_list_ser vs
  | XCaps, VList vs => match caps_of vs with Some l => tlv_encode l | None => None end
  | XStr n, VBytes b => if u_range n (lenZ b) then Some (be_encode n (lenZ b) ++ b) else None
  | XU64BE, VInt z => if u_range 8 z then Some (be_encode 8 z) else None
  | _, _ => None
  end.

Definition par_x (s : xspec) (prev : Z) (bs : list Z) : option (value * nat) :=
  match s with
  | XA a => par_a a prev bs
  | XPsm =>
      match psm_parse bs with
      | Some (v, rest) => Some (VInt v, (length bs - length rest)%nat)
      | None => None
      end
  | XU16Strict => match u16_words true bs with Some l => Some (VList (vints l), length bs) | None => None end
  | XU16Lenient => match u16_words false bs with Some l => Some (VList (vints l), length bs) | None => None end
  | XLvList => match lv_parse (S (length bs)) bs with Some l => Some (VList l, length bs) | None => None end
  | XHandles32 =>
      match bs with
      | c0 :: c1 :: r =>
          let n := Z.to_nat (be_decode [c0; c1]) in
          match be32_words n r with Some l => Some (VList (vints l), (2 + 4 * n)%nat) | None => None end
      | _ => None
      end
  | XLenBytes16 =>
      match bs with
      | c0 :: c1 :: r => let n := Z.to_nat (be_decode [c0; c1]) in Some (VBytes (firstn n r), (2 + n)%nat)
      | _ => None
      end
  | XUuid2 =>
      let b := firstn 2 bs in if (length b =? 2)%nat then Some (VBytes b, 2%nat) else None
  | XUuidRest =>
      let n := lenZ bs in if (n =? 2) || (n =? 4) || (n =? 16) then Some (VBytes bs, length bs) else None
  | XSdpElem =>
      match parse_next (S (length bs)) sdp_max_nesting bs with
      | POk _ c raw _ => Some (VBytes raw, clampn c bs)
      | _ => None
      end
  | XSeid => match bs with b :: _ => Some (VInt (Z.shiftr b 2), 1%nat) | [] => None end
  | XSeidList => Some (VList (vints (map (fun b => Z.shiftr b 2) bs)), length bs)
  | XEndpoints => Some (VList (epi_list_parse bs), length bs)
  | XCaps => match tlv_decode_all true bs with Some l => Some (VList (vcaps l), length bs) | None => None end
  | XStr n =>                     (* int.from_bytes of a slice: short input is read leniently *)
      let l := Z.to_nat (be_decode (firstn n bs)) in Some (VBytes (firstn l (skipn n bs)), (n + l)%nat)
  | XU64BE => Some (VInt (be_decode (firstn 8 bs)), 8%nat)
  end.

Definition inr_x (s : xspec) (prev : Z) (v : value) : bool :=
  match s, v with
  | XA a, _ => inr_a a prev v
  | XPsm, VInt z => psm_ok z
  | XU16Strict, VList vs | XU16Lenient, VList vs =>
      match ints_of vs with Some l => forallb (u_range 2) l | None => false end
  | XLvList, VList vs => lv_inr vs
  | XHandles32, VList vs =>
      match ints_of vs with Some l => u_range 2 (lenZ l) && forallb (u_range 4) l | None => false end
  | XLenBytes16, VBytes b => u_range 2 (lenZ b) && bytes_ok b
  | XUuid2, VBytes b => (length b =? 2)%nat && bytes_ok b
  | XUuidRest, VBytes b => let n := lenZ b in ((n =? 2) || (n =? 4) || (n =? 16)) && bytes_ok b
  | XSdpElem, VBytes b =>
      bytes_ok b &&
      match from_bytes sdp_max_nesting b with POk _ c _ true => c =? lenZ b | _ => false end
  | XSeid, VInt z => seid_ok z
  | XSeidList, VList vs => match ints_of vs with Some l => forallb seid_ok l | None => false end
  | XEndpoints, VList vs => epi_list_inr vs
  | XCaps, VList vs => match caps_of vs with Some l => tlv_ok l | None => false end
  | XStr n, VBytes b => u_range n (lenZ b) && bytes_ok b
  | XU64BE, VInt z => u_range 8 z
  | _, _ => false
  end.

Definition wf_x (s : xspec) : bool := match s with XA a => wf_a a | XStr n => (1 <=? n)%nat | _ => true end.
Definition tight_x (s : xspec) : bool :=
  match s with
  | XA a => tight_a a
  | XPsm | XHandles32 | XLenBytes16 | XUuid2 | XSdpElem | XSeid | XStr _ | XU64BE => true
  | _ => false
  end.
Definition strict_x (s : xspec) : bool := match s with XA a => strict_a a | _ => false end.

Definition X_codec : codec :=
  {| spec := xspec; ser := ser_x; par := par_x; inr := inr_x; wf := wf_x; tight := tight_x; strict := strict_x |}.
Definition XTop_codec : codec := seq_codec X_codec.
(* with array groups (1-octet item count, then the items): the AVRCP PDUs *)
Definition XF_codec : codec := field_codec X_codec.
Definition XFTop_codec : codec := seq_codec XF_codec.

Definition xserialize (fs : list xspec) (vs : list value) : option (list Z) := ser XTop_codec fs (VList vs).
Definition xparse (fs : list xspec) (prev0 : Z) (bs : list Z) : option (list value * nat) :=
  par_seq X_codec fs prev0 bs.
Definition xin_range (fs : list xspec) (prev0 : Z) (vs : list value) : bool := inr XTop_codec fs prev0 (VList vs).
Definition xwf (fs : list xspec) : bool := wf XTop_codec fs.

(* ---- classes: protocol 0 L2CAP, 1 ATT, 2 SMP, 3 SDP (framing of Model/CodecsRegistry.v),
   4 AVDTP (Message.create gets the payload alone; the signalling header is Model/CodecsAv.v) *)
Record xcls := mkx { x_proto : Z; x_code : Z; x_name : String.string; x_fields : list xspec }.
Definition wf_xcls (c : xcls) : bool := xwf (x_fields c) && zlt 5 (x_proto c) && byte_ok (x_code c).
Definition wf_xregistry (cs : list xcls) : bool := forallb wf_xcls cs.

Fixpoint xkeys_unique (cs : list xcls) : bool :=
  match cs with
  | [] => true
  | c :: r => negb (existsb (fun d => (x_proto d =? x_proto c) && (x_code d =? x_code c)) r) && xkeys_unique r
  end.
Definition xcount (cs : list xcls) (proto : Z) : Z := lenZ (filter (fun c => x_proto c =? proto) cs).

(* AVRCP PDU classes: field lists with array groups.  protocol 5 command, 6 response, 7 event *)
Record xfcls := mkxf { xf_proto : Z; xf_code : Z; xf_name : String.string; xf_fields : list (gfield xspec) }.
Definition wf_xfcls (c : xfcls) : bool := wf XFTop_codec (xf_fields c) && zlt 8 (xf_proto c) && byte_ok (xf_code c).
Definition wf_xfregistry (cs : list xfcls) : bool := forallb wf_xfcls cs.
Fixpoint xfkeys_unique (cs : list xfcls) : bool :=
  match cs with
  | [] => true
  | c :: r => negb (existsb (fun d => (xf_proto d =? xf_proto c) && (xf_code d =? xf_code c)) r) && xfkeys_unique r
  end.
Definition xfserialize (fs : list (gfield xspec)) (vs : list value) : option (list Z) := ser XFTop_codec fs (VList vs).
Definition xfparse (fs : list (gfield xspec)) (prev0 : Z) (bs : list Z) : option (list value * nat) := par_seq XF_codec fs prev0 bs.
Definition xfin_range (fs : list (gfield xspec)) (prev0 : Z) (vs : list value) : bool := inr XFTop_codec fs prev0 (VList vs).
