(* The statement skeletons of the anchored functions of bumble/transport that
   Model/Framer.v was written from (after fixes D02 and D02b).  Executable Gallina only.

   Each definition is the normalised statement tree of one function (see
   tools/translate/c02_shape.py for the normalisation: logging, docstrings, asserts,
   annotations and exception messages removed; leaves are canonical source text).
   Gen/C02Shape.v is regenerated from the current source on every run and Props/C02.v
   proves, by evaluation, that it is equal to this file: an edit that changes a
   statement, a condition, a bound, the order of two statements or the branch on which a
   call occurs in any of these functions breaks a proof obligation, whether or not a
   generated test input exercises it.

   Reading guide (model definition <- skeleton):
     reset                 <- expected_PacketParser_reset
     acc / fin / body / feed_loop / feed <- expected_PacketParser_feed_data
     feeds (one chunk)     <- expected_StreamPacketSource_data_received
     pr_next / apr_next    <- expected_PacketReader_next_packet / expected_AsyncPacketReader_next_packet
     split_iter / split_loop <- expected_PacketSplitter_feed (header_size: expected_PacketSplitter___init__)
     usb_out               <- expected_UsbPacketSource_queue_packet, _transfer_callback, _dequeue
     srv_step Connect/Data/Eof/Lost <- expected_TcpServerProtocol_* / expected_UnixServerProtocol_*
                              (one shared source: expected_tcp_server_setup / expected_unix_server_setup)
     ws_connection         <- expected_WsServerTransport_on_connection
     netsim_connection     <- expected_netsim_Server_lease_sink, expected_netsim_HciDevice_pump(_loop) *)
From Coq Require Import String List.
From BV Require Import Model.Sx.
Import ListNotations.
Open Scope string_scope.

Definition expected_PacketParser_constants : sx :=
  N "class PacketParser constants" [
    A "NEED_TYPE = 0";
    A "NEED_LENGTH = 1";
    A "NEED_BODY = 2";
    A "packet_info = None"].

Definition expected_PacketParser___init__ : sx :=
  N "def __init__(self, sink) defaults None" [
    A "self.sink = sink";
    A "self.extended_packet_info = {}";
    A "self.reset()"].

Definition expected_PacketParser_reset : sx :=
  N "def reset(self)" [
    A "self.state = PacketParser.NEED_TYPE";
    A "self.bytes_needed = 1";
    A "self.packet = bytearray()";
    A "self.packet_info = None"].

Definition expected_PacketParser_feed_data : sx :=
  N "def feed_data(self, data)" [
    A "data_offset = 0";
    A "data_left = len(data)";
    N "while" [
      A "data_left and self.bytes_needed";
      N "body" [
        A "consumed = min(self.bytes_needed, data_left)";
        A "self.packet.extend(data[data_offset:data_offset + consumed])";
        A "data_offset += consumed";
        A "data_left -= consumed";
        A "self.bytes_needed -= consumed";
        N "if" [
          A "self.bytes_needed == 0";
          N "then" [
            N "if" [
              A "self.state == PacketParser.NEED_TYPE";
              N "then" [
                A "packet_type = self.packet[0]";
                A "self.packet_info = HCI_PACKET_INFO.get(packet_type) or self.extended_packet_info.get(packet_type)";
                N "if" [
                  A "self.packet_info is None";
                  N "then" [
                    A "self.reset()";
                    A "raise core.InvalidPacketError(...)"];
                  N "else" [
                    A "pass"]];
                A "self.state = PacketParser.NEED_LENGTH";
                A "self.bytes_needed = self.packet_info[0] + self.packet_info[1]"];
              N "else" [
                N "if" [
                  A "self.state == PacketParser.NEED_LENGTH";
                  N "then" [
                    A "body_length = struct.unpack_from(self.packet_info[2], self.packet, 1 + self.packet_info[1])[0]";
                    A "self.bytes_needed = body_length";
                    A "self.state = PacketParser.NEED_BODY"];
                  N "else" [
                    A "pass"]]]];
            N "if" [
              A "self.state == PacketParser.NEED_BODY and (not self.bytes_needed)";
              N "then" [
                N "if" [
                  A "self.sink";
                  N "then" [
                    N "try" [
                      N "body" [
                        A "self.sink.on_packet(bytes(self.packet))"];
                      N "except" [
                        A "Exception";
                        N "body" [
                          A "pass"]]]];
                  N "else" [
                    A "pass"]];
                A "self.reset()"];
              N "else" [
                A "pass"]]];
          N "else" [
            A "pass"]]]]].

Definition expected_PacketParser_set_packet_sink : sx :=
  N "def set_packet_sink(self, sink)" [
    A "self.sink = sink"].

Definition expected_PacketReader___init__ : sx :=
  N "def __init__(self, source)" [
    A "self.source = source";
    A "self.at_end = False"].

Definition expected_PacketReader_next_packet : sx :=
  N "def next_packet(self)" [
    A "packet_type = self.source.read(1)";
    N "if" [
      A "len(packet_type) != 1";
      N "then" [
        A "self.at_end = True";
        A "return None"];
      N "else" [
        A "pass"]];
    A "packet_info = HCI_PACKET_INFO.get(packet_type[0])";
    N "if" [
      A "packet_info is None";
      N "then" [
        A "raise core.InvalidPacketError(...)"];
      N "else" [
        A "pass"]];
    A "header_size = packet_info[0] + packet_info[1]";
    A "header = self.source.read(header_size)";
    N "if" [
      A "len(header) != header_size";
      N "then" [
        A "raise core.InvalidPacketError(...)"];
      N "else" [
        A "pass"]];
    A "body_length = struct.unpack_from(packet_info[2], header, packet_info[1])[0]";
    A "body = self.source.read(body_length)";
    N "if" [
      A "len(body) != body_length";
      N "then" [
        A "raise core.InvalidPacketError(...)"];
      N "else" [
        A "pass"]];
    A "return packet_type + header + body"].

Definition expected_AsyncPacketReader___init__ : sx :=
  N "def __init__(self, source)" [
    A "self.source = source"].

Definition expected_AsyncPacketReader_next_packet : sx :=
  N "async def next_packet(self)" [
    A "packet_type = await self.source.readexactly(1)";
    A "packet_info = HCI_PACKET_INFO.get(packet_type[0])";
    N "if" [
      A "packet_info is None";
      N "then" [
        A "raise core.InvalidPacketError(...)"];
      N "else" [
        A "pass"]];
    A "header_size = packet_info[0] + packet_info[1]";
    A "header = await self.source.readexactly(header_size)";
    A "body_length = struct.unpack_from(packet_info[2], header, packet_info[1])[0]";
    A "body = await self.source.readexactly(body_length)";
    A "return packet_type + header + body"].

Definition expected_ParserSource___init__ : sx :=
  N "def __init__(self)" [
    A "super().__init__()";
    A "self.parser = PacketParser()"].

Definition expected_ParserSource_set_packet_sink : sx :=
  N "def set_packet_sink(self, sink)" [
    A "super().set_packet_sink(sink)";
    A "self.parser.set_packet_sink(sink)"].

Definition expected_StreamPacketSource_data_received : sx :=
  N "def data_received(self, data)" [
    N "try" [
      N "body" [
        A "self.parser.feed_data(data)"];
      N "except" [
        A "core.InvalidPacketError";
        N "body" [
          A "pass"]]]].

Definition expected_PacketSplitter___init__ : sx :=
  N "def __init__(self, length_offset, length_size, emit)" [
    A "self.emit = emit";
    A "self.packet = b''";
    A "self.length_offset = length_offset";
    A "self.length_size = length_size";
    A "self.header_size = length_offset + length_size"].

Definition expected_PacketSplitter_feed : sx :=
  N "def feed(self, data)" [
    N "while" [
      A "data";
      N "body" [
        N "if" [
          A "(bytes_needed := (self.header_size - len(self.packet))) > 0";
          N "then" [
            A "self.packet += data[:bytes_needed]";
            A "data = data[bytes_needed:]";
            N "if" [
              A "len(self.packet) < self.header_size";
              N "then" [
                A "continue"];
              N "else" [
                A "pass"]]];
          N "else" [
            A "pass"]];
        A "packet_length = self.header_size + int.from_bytes(self.packet[self.length_offset:self.length_offset + self.length_size], 'little')";
        A "bytes_needed = packet_length - len(self.packet)";
        A "self.packet += data[:bytes_needed]";
        A "data = data[bytes_needed:]";
        N "if" [
          A "len(self.packet) == packet_length";
          N "then" [
            A "self.emit(self.packet)";
            A "self.packet = b''"];
          N "else" [
            A "pass"]]]]].

Definition expected_ScoPacketSplitter___init__ : sx :=
  N "def __init__(self, emit)" [
    A "super().__init__(length_offset=2, length_size=1, emit=emit)"].

Definition expected_EventPacketSplitter___init__ : sx :=
  N "def __init__(self, emit)" [
    A "super().__init__(length_offset=1, length_size=1, emit=emit)"].

Definition expected_AclPacketSplitter___init__ : sx :=
  N "def __init__(self, emit)" [
    A "super().__init__(length_offset=2, length_size=2, emit=emit)"].

Definition expected_UsbPacketSource_queue_packet : sx :=
  N "def queue_packet(self, packet_type, packet_data)" [
    A "_safe_call_soon(self.loop, self.queue.put_nowait, bytes([packet_type]) + packet_data)"].

Definition expected_UsbPacketSource_transfer_callback : sx :=
  N "def transfer_callback(self, transfer)" [
    A "packet_type = transfer.getUserData()";
    A "status = transfer.getStatus()";
    N "if" [
      A "packet_type != hci.HCI_SYNCHRONOUS_DATA_PACKET or transfer.getActualLength() or status != usb1.TRANSFER_COMPLETED";
      N "then" [
        A "pass"];
      N "else" [
        A "pass"]];
    N "if" [
      A "status == usb1.TRANSFER_COMPLETED";
      N "then" [
        N "with" [
          A "self.lock";
          N "body" [
            N "if" [
              A "self.closed";
              N "then" [
                A "pass"];
              N "else" [
                N "if" [
                  A "(splitter := self.splitters.get(packet_type)) is None";
                  N "then" [
                    A "pass"];
                  N "else" [
                    N "if" [
                      A "packet_type == hci.HCI_SYNCHRONOUS_DATA_PACKET";
                      N "then" [
                        N "for" [
                          A "(iso_status, iso_buffer)";
                          A "transfer.iterISO()";
                          N "body" [
                            N "if" [
                              A "not iso_buffer";
                              N "then" [
                                A "continue"];
                              N "else" [
                                A "pass"]];
                            N "if" [
                              A "iso_status";
                              N "then" [
                                A "continue"];
                              N "else" [
                                A "pass"]];
                            A "splitter.feed(iso_buffer)"]]];
                      N "else" [
                        A "splitter.feed(transfer.getBuffer()[:transfer.getActualLength()])"]];
                    N "try" [
                      N "body" [
                        A "transfer.submit()"];
                      N "except" [
                        A "usb1.USBError";
                        N "body" [
                          A "_safe_call_soon(self.loop, self.on_transport_lost)"]]]]]]]]]];
      N "else" [
        N "if" [
          A "status == usb1.TRANSFER_CANCELLED";
          N "then" [
            A "_safe_call_soon(self.loop, self.done[transfer].set)"];
          N "else" [
            A "_safe_call_soon(self.loop, self.done[transfer].set)";
            A "_safe_call_soon(self.loop, self.on_transport_lost)"]]]]].

Definition expected_UsbPacketSource_dequeue : sx :=
  N "async def dequeue(self)" [
    N "while" [
      A "not self.closed";
      N "body" [
        N "try" [
          N "body" [
            A "packet = await self.queue.get()"];
          N "except" [
            A "asyncio.CancelledError";
            N "body" [
              A "return"]]];
        N "if" [
          A "self.sink";
          N "then" [
            N "try" [
              N "body" [
                A "self.sink.on_packet(packet)"];
              N "except" [
                A "Exception";
                N "body" [
                  A "pass"]]]];
          N "else" [
            A "pass"]]]]].

Definition expected_tcp_server_setup : sx :=
  N "_open_tcp_server_transport_impl statements" [
    A "packet_source = StreamPacketSource()";
    A "packet_sink = TcpServerPacketSink()";
    A "server = await asyncio.get_running_loop().create_server(lambda: TcpServerProtocol(packet_source, packet_sink), **kwargs)";
    A "return TcpServerTransport(packet_source, packet_sink, server)"].

Definition expected_TcpServerProtocol___init__ : sx :=
  N "def __init__(self, packet_source, packet_sink)" [
    A "self.packet_source = packet_source";
    A "self.packet_sink = packet_sink"].

Definition expected_TcpServerProtocol_connection_made : sx :=
  N "def connection_made(self, transport)" [
    A "peer_name = transport.get_extra_info('peer_name')";
    A "self.packet_source.parser.reset()";
    A "self.packet_sink.transport = transport"].

Definition expected_TcpServerProtocol_connection_lost : sx :=
  N "def connection_lost(self, error)" [
    A "self.packet_sink.transport = None"].

Definition expected_TcpServerProtocol_eof_received : sx :=
  N "def eof_received(self)" [
    A "self.packet_sink.transport = None"].

Definition expected_TcpServerProtocol_data_received : sx :=
  N "def data_received(self, data)" [
    A "self.packet_source.data_received(data)"].

Definition expected_unix_server_setup : sx :=
  N "open_unix_server_transport statements" [
    N "if" [
      A "spec.startswith('@')";
      N "then" [
        A "spec = '\x00' + spec[1:]"];
      N "else" [
        A "pass"]];
    A "packet_source = StreamPacketSource()";
    A "packet_sink = UnixServerPacketSink()";
    A "server = await asyncio.get_running_loop().create_unix_server(lambda: UnixServerProtocol(packet_source, packet_sink), spec)";
    A "return UnixServerTransport(packet_source, packet_sink, server)"].

Definition expected_UnixServerProtocol___init__ : sx :=
  N "def __init__(self, packet_source, packet_sink)" [
    A "self.packet_source = packet_source";
    A "self.packet_sink = packet_sink"].

Definition expected_UnixServerProtocol_connection_made : sx :=
  N "def connection_made(self, transport)" [
    A "peer_name = transport.get_extra_info('peer_name')";
    A "self.packet_source.parser.reset()";
    A "self.packet_sink.transport = transport"].

Definition expected_UnixServerProtocol_connection_lost : sx :=
  N "def connection_lost(self, error)" [
    A "self.packet_sink.transport = None"].

Definition expected_UnixServerProtocol_eof_received : sx :=
  N "def eof_received(self)" [
    A "self.packet_sink.transport = None"].

Definition expected_UnixServerProtocol_data_received : sx :=
  N "def data_received(self, data)" [
    A "self.packet_source.data_received(data)"].

Definition expected_WsServerTransport___init__ : sx :=
  N "def __init__(self)" [
    A "source = ParserSource()";
    A "sink = PumpedPacketSink(self.send_packet)";
    A "self.connection = None";
    A "self.server = None";
    A "super().__init__(source, sink)"].

Definition expected_WsServerTransport_on_connection : sx :=
  N "async def on_connection(self, connection)" [
    A "self.connection = connection";
    A "self.source.parser.reset()";
    N "try" [
      N "body" [
        N "async for" [
          A "packet";
          A "connection";
          N "body" [
            N "if" [
              A "isinstance(packet, bytes)";
              N "then" [
                A "self.source.parser.feed_data(packet)"];
              N "else" [
                A "pass"]]]]];
      N "except" [
        A "websockets.WebSocketException";
        N "body" [
          A "pass"]]];
    A "self.connection = None"].

Definition expected_netsim_HciDevice_pump : sx :=
  N "async def pump(self)" [
    N "try" [
      N "body" [
        A "await self.pump_loop()"];
      N "except" [
        A "asyncio.CancelledError";
        N "body" [
          A "pass"]];
      N "finally" [
        N "if" [
          A "self.sink";
          N "then" [
            A "self.server.release_sink()";
            A "self.sink = None"];
          N "else" [
            A "pass"]]]]].

Definition expected_netsim_HciDevice_pump_loop : sx :=
  N "async def pump_loop(self)" [
    N "while" [
      A "True";
      N "body" [
        A "request = await self.context.read()";
        N "if" [
          A "request == grpc.aio.EOF";
          N "then" [
            N "if" [
              A "not self.done.done()";
              N "then" [
                A "self.done.set_result(None)"];
              N "else" [
                A "pass"]];
            A "return"];
          N "else" [
            A "pass"]];
        N "if" [
          A "self.name is None";
          N "then" [
            N "if" [
              A "request.WhichOneof('request_type') == 'initial_info'";
              N "then" [
                A "self.name = request.initial_info.name";
                N "if" [
                  A "request.initial_info.chip.kind != ChipKind.BLUETOOTH";
                  N "then" [
                    A "error = PacketResponse(error='Unsupported chip type')";
                    A "await self.context.write(error)";
                    A "continue"];
                  N "else" [
                    A "pass"]];
                A "self.sink = self.server.lease_sink(self)";
                N "if" [
                  A "self.sink is None";
                  N "then" [
                    A "error = PacketResponse(error='Device busy')";
                    A "await self.context.write(error)";
                    A "continue"];
                  N "else" [
                    A "pass"]];
                A "continue"];
              N "else" [
                A "pass"]]];
          N "else" [
            A "pass"]];
        A "request_type = request.WhichOneof('request_type')";
        N "if" [
          A "request_type != 'hci_packet'";
          N "then" [
            A "error = PacketResponse(error='Unexpected request type')";
            A "await self.context.write(error)";
            A "continue"];
          N "else" [
            A "pass"]];
        A "self.sink(bytes([request.hci_packet.packet_type]) + request.hci_packet.packet)"]]].

Definition expected_netsim_Server_lease_sink : sx :=
  N "def lease_sink(self, device)" [
    N "if" [
      A "self.device";
      N "then" [
        A "return None"];
      N "else" [
        A "pass"]];
    A "self.device = device";
    A "self.parser.reset()";
    A "return self.parser.feed_data"].

Definition expected_netsim_Server_release_sink : sx :=
  N "def release_sink(self)" [
    A "self.device = None"].

Definition expected_netsim_Server_StreamPackets : sx :=
  N "async def StreamPackets(self, request_iterator, context)" [
    A "device = HciDevice(context, self)";
    N "try" [
      N "body" [
        A "await device.pump()"];
      N "finally" [
        A "pass"]]].

Definition expected_shapes : list (string * sx) :=
  [("PacketParser.constants", expected_PacketParser_constants);
   ("PacketParser.__init__", expected_PacketParser___init__);
   ("PacketParser.reset", expected_PacketParser_reset);
   ("PacketParser.feed_data", expected_PacketParser_feed_data);
   ("PacketParser.set_packet_sink", expected_PacketParser_set_packet_sink);
   ("PacketReader.__init__", expected_PacketReader___init__);
   ("PacketReader.next_packet", expected_PacketReader_next_packet);
   ("AsyncPacketReader.__init__", expected_AsyncPacketReader___init__);
   ("AsyncPacketReader.next_packet", expected_AsyncPacketReader_next_packet);
   ("ParserSource.__init__", expected_ParserSource___init__);
   ("ParserSource.set_packet_sink", expected_ParserSource_set_packet_sink);
   ("StreamPacketSource.data_received", expected_StreamPacketSource_data_received);
   ("PacketSplitter.__init__", expected_PacketSplitter___init__);
   ("PacketSplitter.feed", expected_PacketSplitter_feed);
   ("ScoPacketSplitter.__init__", expected_ScoPacketSplitter___init__);
   ("EventPacketSplitter.__init__", expected_EventPacketSplitter___init__);
   ("AclPacketSplitter.__init__", expected_AclPacketSplitter___init__);
   ("UsbPacketSource.queue_packet", expected_UsbPacketSource_queue_packet);
   ("UsbPacketSource.transfer_callback", expected_UsbPacketSource_transfer_callback);
   ("UsbPacketSource.dequeue", expected_UsbPacketSource_dequeue);
   ("tcp_server.setup", expected_tcp_server_setup);
   ("TcpServerProtocol.__init__", expected_TcpServerProtocol___init__);
   ("TcpServerProtocol.connection_made", expected_TcpServerProtocol_connection_made);
   ("TcpServerProtocol.connection_lost", expected_TcpServerProtocol_connection_lost);
   ("TcpServerProtocol.eof_received", expected_TcpServerProtocol_eof_received);
   ("TcpServerProtocol.data_received", expected_TcpServerProtocol_data_received);
   ("unix_server.setup", expected_unix_server_setup);
   ("UnixServerProtocol.__init__", expected_UnixServerProtocol___init__);
   ("UnixServerProtocol.connection_made", expected_UnixServerProtocol_connection_made);
   ("UnixServerProtocol.connection_lost", expected_UnixServerProtocol_connection_lost);
   ("UnixServerProtocol.eof_received", expected_UnixServerProtocol_eof_received);
   ("UnixServerProtocol.data_received", expected_UnixServerProtocol_data_received);
   ("WsServerTransport.__init__", expected_WsServerTransport___init__);
   ("WsServerTransport.on_connection", expected_WsServerTransport_on_connection);
   ("netsim.HciDevice.pump", expected_netsim_HciDevice_pump);
   ("netsim.HciDevice.pump_loop", expected_netsim_HciDevice_pump_loop);
   ("netsim.Server.lease_sink", expected_netsim_Server_lease_sink);
   ("netsim.Server.release_sink", expected_netsim_Server_release_sink);
   ("netsim.Server.StreamPackets", expected_netsim_Server_StreamPackets)].
