(* C14 - byte-string helpers shared by the crypto models (executable Gallina only).
   Bytes are [list Z]; [bytes_ok] says every element is in [0,256). Python's slice,
   int.from_bytes / to_bytes and zip-truncating xor are modelled here once. *)
From Coq Require Import ZArith List Bool.
Import ListNotations.
Open Scope Z_scope.

Definition byte_ok (b : Z) : bool := (0 <=? b) && (b <? 256).
Definition bytes_ok (l : list Z) : bool := forallb byte_ok l.

Definition zeros (n : nat) : list Z := repeat 0 n.

Definition len (l : list Z) : Z := Z.of_nat (length l).

(* Python l[a:b] with step 1 and Python's treatment of negative / out-of-range bounds. *)
Definition norm_index (n i : Z) : Z :=
  if i <? 0 then Z.max 0 (n + i) else Z.min i n.
Definition py_slice (l : list Z) (a b : Z) : list Z :=
  let n := len l in
  let a' := norm_index n a in
  let b' := norm_index n b in
  firstn (Z.to_nat (b' - a')) (skipn (Z.to_nat a') l).
(* l[a:] and l[:b] *)
Definition py_from (l : list Z) (a : Z) : list Z := py_slice l a (len l).
Definition py_upto (l : list Z) (b : Z) : list Z := py_slice l 0 b.

(* bytearray slice assignment  l[a:b] = v  (non-negative in-range bounds, as used) *)
Definition py_splice (l : list Z) (a b : Z) (v : list Z) : list Z :=
  firstn (Z.to_nat a) l ++ v ++ skipn (Z.to_nat (Z.max a b)) l.

(* bytes(x ^ y for x, y in zip(a, b)): truncates to the shorter operand *)
Fixpoint xor_zip (a b : list Z) : list Z :=
  match a, b with
  | x :: a', y :: b' => Z.lxor x y :: xor_zip a' b'
  | _, _ => []
  end.

(* int.from_bytes(bs, 'big') *)
Definition be_int (bs : list Z) : Z := fold_left (fun acc b => acc * 256 + b) bs 0.
(* int.from_bytes(bs, 'little') *)
Definition le_int (bs : list Z) : Z := fold_right (fun b acc => b + 256 * acc) 0 bs.

(* v.to_bytes(n, 'big') for 0 <= v < 256^n (the callers guarantee the range) *)
Fixpoint to_be (n : nat) (v : Z) : list Z :=
  match n with
  | O => []
  | S n' => to_be n' (v / 256) ++ [v mod 256]
  end.

(* 16-byte slices of a byte string: [data[o:o+16] for o in range(0, len(data), 16)].
   The fuel is the number of slices. *)
Fixpoint chunks_fuel (fuel : nat) (l : list Z) : list (list Z) :=
  match fuel with
  | O => []
  | S f => match l with
           | [] => []
           | _ => firstn 16 l :: chunks_fuel f (skipn 16 l)
           end
  end.
Definition chunks16 (l : list Z) : list (list Z) := chunks_fuel (length l) l.

(* b.ljust(16, b'\0') *)
Definition ljust16 (b : list Z) : list Z := b ++ zeros (16 - length b).

Fixpoint list_eqb (a b : list Z) : bool :=
  match a, b with
  | [], [] => true
  | x :: a', y :: b' => (x =? y) && list_eqb a' b'
  | _, _ => false
  end.
