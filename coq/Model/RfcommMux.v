(* Several RFCOMM data links on one multiplexer (bumble/rfcomm.py Multiplexer.dlcs,
   Multiplexer.on_pdu dispatch by DLCI, Multiplexer.send_frame -> one shared L2CAP
   channel per direction).  Executable Gallina only; no proofs here.

   Each end keeps a table DLCI -> DLC; every frame on the shared channel is tagged
   with its DLCI; on_pdu looks the DLC up and calls its on_uih_frame; a frame for an
   unknown DLCI is dropped ("no dlc for DLCI").  A DLC's write / process_tx touch only
   that DLC's state and append to the shared channel.  The per-DLC behaviour is
   Model/Rfcomm.v. *)
From Coq Require Import ZArith List Bool.
From BV Require Import Model.Rfcomm.
Import ListNotations.
Open Scope Z_scope.

Definition mux := list (Z * dlc).

Fixpoint mux_get (d : Z) (m : mux) : option dlc :=
  match m with
  | [] => None
  | (k, x) :: r => if k =? d then Some x else mux_get d r
  end.

Fixpoint mux_set (d : Z) (x : dlc) (m : mux) : mux :=
  match m with
  | [] => []
  | (k, y) :: r => if k =? d then (k, x) :: r else (k, y) :: mux_set d x r
  end.

Definition tag (d : Z) (frs : list frame) : list (Z * frame) := map (pair d) frs.

Record msys := mkMsys {
  m_a : mux; m_b : mux;
  m_ab : list (Z * frame);         (* shared channel A -> B, oldest first *)
  m_ba : list (Z * frame);
  m_rcv_a : list (Z * list Z);     (* sink calls at A: (DLCI, bytes), in order *)
  m_rcv_b : list (Z * list Z);
  m_bad : list Z                   (* DLCIs on which a process_tx ran out of fuel *)
}.

Inductive mlabel :=
| MWriteA (d : Z) (data : list Z)
| MWriteB (d : Z) (data : list Z)
| MDeliverAB
| MDeliverBA.

(* on_uih_frame calls the sink only for non-empty data *)
Definition log_sink (d : Z) (data : list Z) (log : list (Z * list Z)) : list (Z * list Z) :=
  match data with [] => log | _ => log ++ [(d, data)] end.

Definition note_bad (d : Z) (ok : bool) (bad : list Z) : list Z := if ok then bad else d :: bad.

Definition mstep (P : params) (s : msys) (l : mlabel) : msys :=
  match l with
  | MWriteA d data =>
      match mux_get d (m_a s) with
      | None => s
      | Some x =>
          let '(x', frs, ok) := dlc_write P x data in
          mkMsys (mux_set d x' (m_a s)) (m_b s) (m_ab s ++ tag d frs) (m_ba s)
                 (m_rcv_a s) (m_rcv_b s) (note_bad d ok (m_bad s))
      end
  | MWriteB d data =>
      match mux_get d (m_b s) with
      | None => s
      | Some x =>
          let '(x', frs, ok) := dlc_write P x data in
          mkMsys (m_a s) (mux_set d x' (m_b s)) (m_ab s) (m_ba s ++ tag d frs)
                 (m_rcv_a s) (m_rcv_b s) (note_bad d ok (m_bad s))
      end
  | MDeliverAB =>
      match m_ab s with
      | [] => s
      | (d, fr) :: rest =>
          match mux_get d (m_b s) with
          | None => mkMsys (m_a s) (m_b s) rest (m_ba s) (m_rcv_a s) (m_rcv_b s) (m_bad s)
          | Some x =>
              let '(x', frs, data, ok) := dlc_on_uih P x fr in
              mkMsys (m_a s) (mux_set d x' (m_b s)) rest (m_ba s ++ tag d frs)
                     (m_rcv_a s) (log_sink d data (m_rcv_b s)) (note_bad d ok (m_bad s))
          end
      end
  | MDeliverBA =>
      match m_ba s with
      | [] => s
      | (d, fr) :: rest =>
          match mux_get d (m_a s) with
          | None => mkMsys (m_a s) (m_b s) (m_ab s) rest (m_rcv_a s) (m_rcv_b s) (m_bad s)
          | Some x =>
              let '(x', frs, data, ok) := dlc_on_uih P x fr in
              mkMsys (mux_set d x' (m_a s)) (m_b s) (m_ab s ++ tag d frs) rest
                     (log_sink d data (m_rcv_a s)) (m_rcv_b s) (note_bad d ok (m_bad s))
          end
      end
  end.

Fixpoint mrun (P : params) (s : msys) (ls : list mlabel) : msys :=
  match ls with
  | [] => s
  | l :: ls' => mrun P (mstep P s l) ls'
  end.

(* ---------- projection on one DLCI ---------- *)
Definition chan_proj (d : Z) (ch : list (Z * frame)) : list frame :=
  map snd (filter (fun x => fst x =? d) ch).

Definition rcv_proj (d : Z) (log : list (Z * list Z)) : list Z :=
  concat (map snd (filter (fun x => fst x =? d) log)).

Definition zmem (d : Z) (l : list Z) : bool := existsb (Z.eqb d) l.

Definition proj (d : Z) (s : msys) : option sys :=
  match mux_get d (m_a s), mux_get d (m_b s) with
  | Some x, Some y =>
      Some (mkSys x y (chan_proj d (m_ab s)) (chan_proj d (m_ba s))
                  (rcv_proj d (m_rcv_a s)) (rcv_proj d (m_rcv_b s)) (negb (zmem d (m_bad s))))
  | _, _ => None
  end.

(* the single-DLC label a multiplexer label amounts to for DLCI d (none: a stutter) *)
Definition proj_label (d : Z) (s : msys) (l : mlabel) : list label :=
  match l with
  | MWriteA d' data => if d' =? d then [WriteA data] else []
  | MWriteB d' data => if d' =? d then [WriteB data] else []
  | MDeliverAB => match m_ab s with (d', _) :: _ => if d' =? d then [DeliverAB] else [] | [] => [] end
  | MDeliverBA => match m_ba s with (d', _) :: _ => if d' =? d then [DeliverBA] else [] | [] => [] end
  end.

Fixpoint proj_sched (P : params) (d : Z) (s : msys) (ls : list mlabel) : list label :=
  match ls with
  | [] => []
  | l :: ls' => proj_label d s l ++ proj_sched P d (mstep P s l) ls'
  end.

(* several DLCs set up over one multiplexer: (DLCI, initiator PN, responder PN) *)
Fixpoint msetup_a (cfg : list (Z * pn * pn)) (mtu_r : Z) : mux :=
  match cfg with
  | [] => []
  | (d, ini, rsp) :: r => (d, mk_dlc (pn_wire rsp) ini mtu_r) :: msetup_a r mtu_r
  end.
Fixpoint msetup_b (cfg : list (Z * pn * pn)) (mtu_i : Z) : mux :=
  match cfg with
  | [] => []
  | (d, ini, rsp) :: r => (d, mk_dlc (pn_wire ini) rsp mtu_i) :: msetup_b r mtu_i
  end.
Definition msetup (cfg : list (Z * pn * pn)) (mtu_i mtu_r : Z) : msys :=
  mkMsys (msetup_a cfg mtu_r) (msetup_b cfg mtu_i) [] [] [] [] [].

(* ---------- observables for the correspondence check ---------- *)
Definition mux_obs (m : mux) := map (fun kx => (fst kx, dlc_obs (snd kx))) m.
Definition msys_obs (s : msys) :=
  (mux_obs (m_a s), mux_obs (m_b s),
   map (fun x => (fst x, frame_obs (snd x))) (m_ab s),
   map (fun x => (fst x, frame_obs (snd x))) (m_ba s),
   m_rcv_a s, m_rcv_b s, m_bad s).

(* ---------- support for the correspondence run: compact traces ----------
   Payloads are generated from a seed on both sides (Python and Coq) and compared
   through a digest, so that no large literal crosses the boundary. *)
Fixpoint gen_go (seed i : Z) (n : nat) : list Z :=
  match n with
  | O => []
  | S k => Z.land (seed * 7 + i * 13 + Z.shiftr i 8) 255 :: gen_go seed (i + 1) k
  end.
Definition gen_bytes (seed n : Z) : list Z := gen_go seed 0 (Z.to_nat n).

Definition digest (l : list Z) : Z * Z :=
  (Z.of_nat (length l), fold_left (fun acc x => Z.land (acc * 31 + x + 1) 1048575) l 0).

Definition frame_dig (x : Z * frame) : Z * bool * (Z * Z) * Z :=
  (fst x, f_pf (snd x), digest (f_info (snd x)), hd 0 (f_info (snd x))).

Definition rcv_dig (x : Z * list Z) : Z * (Z * Z) := (fst x, digest (snd x)).

(* labels with generated payloads: (kind, dlci, seed, n): kind 0 WriteA, 1 WriteB,
   2 DeliverAB, 3 DeliverBA *)
Definition mk_label (x : Z * Z * Z * Z) : mlabel :=
  let '(k, d, seed, n) := x in
  if k =? 0 then MWriteA d (gen_bytes seed n)
  else if k =? 1 then MWriteB d (gen_bytes seed n)
  else if k =? 2 then MDeliverAB else MDeliverBA.

Definition mstep_obs (P : params) (s : msys) (l : mlabel) :=
  let s' := mstep P s l in
  let drop_ab := (length (m_ab s) - match l with MDeliverAB => 1 | _ => 0 end)%nat in
  let drop_ba := (length (m_ba s) - match l with MDeliverBA => 1 | _ => 0 end)%nat in
  (s', (map frame_dig (skipn drop_ab (m_ab s')), map frame_dig (skipn drop_ba (m_ba s')),
        map rcv_dig (skipn (length (m_rcv_a s)) (m_rcv_a s')),
        map rcv_dig (skipn (length (m_rcv_b s)) (m_rcv_b s')))).

Fixpoint mrun_obs (P : params) (s : msys) (ls : list mlabel) :=
  match ls with
  | [] => (s, [])
  | l :: r =>
      let '(s1, o) := mstep_obs P s l in
      let '(s2, os) := mrun_obs P s1 r in (s2, o :: os)
  end.

Definition msys_dig (s : msys) :=
  (mux_obs (m_a s), mux_obs (m_b s), Z.of_nat (length (m_ab s)), Z.of_nat (length (m_ba s)), m_bad s).

Definition mk_cfg (x : Z * (Z * Z) * (Z * Z)) : Z * pn * pn :=
  let '(d, (im, ic), (rm, rc)) := x in (d, mkPn im ic, mkPn rm rc).

(* one correspondence case *)
Definition mcase (P : params) (cfg : list (Z * (Z * Z) * (Z * Z))) (mtu_i mtu_r : Z)
                 (ls : list (Z * Z * Z * Z)) :=
  let '(s, os) := mrun_obs P (msetup (map mk_cfg cfg) mtu_i mtu_r) (map mk_label ls) in
  (os, msys_dig s).
