(* Model of the command path of bumble/host.py as executable Gallina.  No proofs.

   Host._send_command (cut at its awaits, as asyncio runs a coroutine atomically up to the
   next await), Host.on_command_processed, Host.on_hci_command_complete_event (opcode-0 flow
   control event), the command semaphore, and the two FIFOs between host and controller.

     Call c op     a task calls send_command(<command with opcode op>) as caller c and reaches
                   `await self.command_semaphore.acquire()`
     Acquire c     caller c obtains the semaphore and runs up to `await self.pending_response`:
                   asserts, pending_command/pending_response set, command written to the sink
     CtrlReply cc n  the controller consumes the oldest command and queues ONE event for its
                   opcode (cc: Command Complete, otherwise Command Status) with
                   num_hci_command_packets = n                       [the contract of part (A)]
     CtrlDrop      the controller consumes the oldest command and does not answer [violation]
     CtrlEvent cc op n  the controller queues an event nobody asked for        [violation,
                   or the opcode-0 flow-control event]
     Deliver       the oldest queued event reaches Host.on_packet
     Resume c      the task of caller c runs again after its future was completed: the
                   `finally` block of _send_command, then send_command returns the event
     Cancel c      the task of caller c is cancelled (task.cancel(), a wait_for timeout around
                   send_command, cancel_on_disconnection) and runs up to the CancelledError
                   leaving _send_command.  A caller queued on the semaphore just leaves the
                   queue (the acquire is outside the try block: nothing else changes).  The
                   owner of the outstanding command runs its `finally`: pending_command /
                   pending_response cleared and, as no response was received, the semaphore
                   released - although its command is still with the controller; the late
                   response then goes to whoever is pending by then, or is dropped.

     AcquireFail c like Acquire c, but putting the command on the wire RAISES (a parameter that cannot
                   be encoded, a sink or snooper that raises): send_hci_packet is inside the try, so
                   the `finally` runs at once - pending_* cleared, the permit released - nothing is on
                   the wire and the caller gets the exception
     Lose          Host.on_transport_lost (fix D16k): transport_lost is set and, if a response is
                   still awaited, TransportLostError is set on the future (the owner then runs its
                   finally with response = None).  From then on a caller that acquires the semaphore
                   releases it at once and fails with TransportLostError: nothing is sent any more.
                   (set_packet_source, which clears the flag, is not modelled.)

   The semaphore is its counter of free permits (1 initially; a stray release can make it 2);
   which waiting caller obtains a free permit is left to the schedule (asyncio hands it over in
   FIFO order: one of the schedules), `locked()` is "no permit or somebody queued" as in CPython.
   A label that is not enabled leaves the state unchanged. *)
From Coq Require Import ZArith List Bool.
Import ListNotations.
Open Scope Z_scope.

Inductive phase := WaitSem | WaitResp | Done (r : Z) | Failed | Cancelled | LostFail | SendFail.
Record caller := mkCaller { c_id : Z; c_op : Z; c_phase : phase }.

(* an event from the controller: Command Complete?, command_opcode, num_hci_command_packets *)
Definition event := (bool * Z * Z)%type.

Record hstate := mkH {
  h_callers : list caller;
  h_sem : Z;                       (* command_semaphore._value: free permits (1 = free, 0 = held) *)
  h_pending : option (Z * Z);      (* pending_command / pending_response exist: (caller, opcode) *)
  h_resp : option (Z * Z);         (* result set on pending_response: (command_opcode, credits) *)
  h_to : list Z;                   (* host -> controller: opcodes of commands in flight *)
  h_from : list event;             (* controller -> host: events in flight *)
  h_err : bool;                    (* an event hit an already completed future (InvalidStateError) *)
  h_lost : bool                    (* Host.transport_lost: on_transport_lost was called *)
}.

Inductive label :=
| Call (c op : Z)
| Acquire (c : Z)
| CtrlReply (cc : bool) (n : Z)
| CtrlDrop
| CtrlEvent (cc : bool) (op n : Z)
| Deliver
| Resume (c : Z)
| Cancel (c : Z)
| Lose
| AcquireFail (c : Z).

(* what an observer at the HCI boundary / at the awaitables sees *)
Inductive obs := Sent (c op : Z) | Resumed (c op : Z) | AssertFailed (c : Z) | WasCancelled (c : Z) | LostFailed (c : Z) | SendFailed (c : Z).

(* the result of the future when it carries an exception instead of an event (opcodes are >= 0) *)
Definition exc_code : Z := -1.

Definition h_init : hstate := mkH [] 1 None None [] [] false false.

Definition is_wait_sem (x : caller) : bool := match c_phase x with WaitSem => true | _ => false end.
Definition has_id (c : Z) (x : caller) : bool := Z.eqb (c_id x) c.

Definition find_waiting (c : Z) (l : list caller) : option caller :=
  find (fun x => has_id c x && is_wait_sem x) l.

Definition set_phase (c : Z) (ph : phase) (l : list caller) : list caller :=
  map (fun x => if has_id c x then mkCaller (c_id x) (c_op x) ph else x) l.

Definition known (c : Z) (l : list caller) : bool := existsb (has_id c) l.

Definition with_callers (s : hstate) l := mkH l (h_sem s) (h_pending s) (h_resp s) (h_to s) (h_from s) (h_err s) (h_lost s).
Definition with_sem (s : hstate) b := mkH (h_callers s) b (h_pending s) (h_resp s) (h_to s) (h_from s) (h_err s) (h_lost s).

(* `if event.num_hci_command_packets and self.command_semaphore.locked(): release()` *)
(* Semaphore.locked(): no free permit, or somebody is queued *)
Definition locked (s : hstate) : bool := Z.leb (h_sem s) 0 || existsb is_wait_sem (h_callers s).
Definition release_if (s : hstate) (n : Z) : hstate :=
  if negb (Z.eqb n 0) && locked s then with_sem s (h_sem s + 1) else s.

Definition step_opt (s : hstate) (l : label) : option (hstate * list obs) :=
  match l with
  | Call c op =>
      if known c (h_callers s) then None
      else Some (with_callers s (h_callers s ++ [mkCaller c op WaitSem]), [])
  | Acquire c =>
      if Z.leb (h_sem s) 0 then None else
      match find_waiting c (h_callers s) with
      | None => None
      | Some x =>
          if h_lost s then
            (* `if self.transport_lost: release(); raise TransportLostError` right after the acquire *)
            Some (with_callers s (set_phase c LostFail (h_callers s)), [LostFailed c])
          else
          match h_pending s, h_resp s with
          | None, None =>
              Some (mkH (set_phase c WaitResp (h_callers s)) (h_sem s - 1) (Some (c, c_op x)) None
                        (h_to s ++ [c_op x]) (h_from s) (h_err s) (h_lost s), [Sent c (c_op x)])
          | _, _ =>
              (* `assert self.pending_command is None` fails before the try block:
                 the semaphore stays held *)
              Some (mkH (set_phase c Failed (h_callers s)) (h_sem s - 1) (h_pending s) (h_resp s)
                        (h_to s) (h_from s) (h_err s) (h_lost s), [AssertFailed c])
          end
      end
  | AcquireFail c =>
      if Z.leb (h_sem s) 0 then None else
      match find_waiting c (h_callers s) with
      | None => None
      | Some x =>
          if h_lost s then
            Some (with_callers s (set_phase c LostFail (h_callers s)), [LostFailed c])
          else
          match h_pending s, h_resp s with
          | None, None =>
              (* acquire, pending set, send raises, finally: pending cleared, permit released *)
              Some (with_callers s (set_phase c SendFail (h_callers s)), [SendFailed c])
          | _, _ =>
              Some (mkH (set_phase c Failed (h_callers s)) (h_sem s - 1) (h_pending s) (h_resp s)
                        (h_to s) (h_from s) (h_err s) (h_lost s), [AssertFailed c])
          end
      end
  | CtrlReply cc n =>
      match h_to s with
      | [] => None
      | op :: rest =>
          Some (mkH (h_callers s) (h_sem s) (h_pending s) (h_resp s) rest (h_from s ++ [(cc, op, n)]) (h_err s) (h_lost s), [])
      end
  | CtrlDrop =>
      match h_to s with
      | [] => None
      | _ :: rest => Some (mkH (h_callers s) (h_sem s) (h_pending s) (h_resp s) rest (h_from s) (h_err s) (h_lost s), [])
      end
  | CtrlEvent cc op n =>
      Some (mkH (h_callers s) (h_sem s) (h_pending s) (h_resp s) (h_to s) (h_from s ++ [(cc, op, n)]) (h_err s) (h_lost s), [])
  | Deliver =>
      match h_from s with
      | [] => None
      | (cc, op, n) :: rest =>
          let s1 := mkH (h_callers s) (h_sem s) (h_pending s) (h_resp s) (h_to s) rest (h_err s) (h_lost s) in
          if cc && Z.eqb op 0 then
            (* on_hci_command_complete_event: flow control only *)
            Some (release_if s1 n, [])
          else
            match h_pending s1 with
            | Some _ =>
                match h_resp s1 with
                | None => Some (mkH (h_callers s1) (h_sem s1) (h_pending s1) (Some (op, n)) (h_to s1) rest (h_err s1) (h_lost s1), [])
                | Some _ => Some (mkH (h_callers s1) (h_sem s1) (h_pending s1) (h_resp s1) (h_to s1) rest true (h_lost s1), [])
                end
            | None => Some (release_if s1 n, [])
            end
      end
  | Cancel c =>
      match h_pending s with
      | Some (c', _) =>
          if Z.eqb c' c then
            (* the owner: `finally` with response = None *)
            Some (mkH (set_phase c Cancelled (h_callers s)) (h_sem s + 1) None None (h_to s) (h_from s) (h_err s) (h_lost s),
                  [WasCancelled c])
          else
            match find_waiting c (h_callers s) with
            | Some _ => Some (with_callers s (set_phase c Cancelled (h_callers s)), [WasCancelled c])
            | None => None
            end
      | None =>
          match find_waiting c (h_callers s) with
          | Some _ => Some (with_callers s (set_phase c Cancelled (h_callers s)), [WasCancelled c])
          | None => None
          end
      end
  | Lose =>
      Some (mkH (h_callers s) (h_sem s) (h_pending s)
                (match h_pending s, h_resp s with Some _, None => Some (exc_code, 0) | _, r => r end)
                (h_to s) (h_from s) (h_err s) true, [])
  | Resume c =>
      match h_pending s, h_resp s with
      | Some (c', _), Some (op, n) =>
          if Z.eqb c' c then
            if Z.eqb op exc_code then
              (* the future carries TransportLostError: finally with response = None releases *)
              Some (mkH (set_phase c LostFail (h_callers s)) (h_sem s + 1) None None (h_to s) (h_from s) (h_err s)
                        (h_lost s), [LostFailed c])
            else
            let s1 := mkH (set_phase c (Done op) (h_callers s)) (h_sem s) None None (h_to s) (h_from s) (h_err s) (h_lost s) in
            Some (release_if s1 n, [Resumed c op])
          else None
      | _, _ => None
      end
  end.

Definition step (s : hstate) (l : label) : hstate :=
  match step_opt s l with Some (s', _) => s' | None => s end.

Fixpoint run (s : hstate) (ls : list label) : hstate :=
  match ls with [] => s | l :: ls' => run (step s l) ls' end.

(* trace acceptance: every label enabled; returns the observations *)
Fixpoint accept (s : hstate) (ls : list label) : option (hstate * list obs) :=
  match ls with
  | [] => Some (s, [])
  | l :: ls' =>
      match step_opt s l with
      | None => None
      | Some (s1, o1) =>
          match accept s1 ls' with
          | None => None
          | Some (s2, o2) => Some (s2, o1 ++ o2)
          end
      end
  end.

(* the contract of the controller (part A) and of the callers: one reply per command, in
   order, carrying at least one credit; no unsolicited events; no command with opcode 0 *)
Definition label_ok (l : label) : bool :=
  match l with
  | CtrlReply _ n => Z.leb 1 n
  | CtrlDrop => false
  | CtrlEvent _ _ _ => false
  | Call _ op => Z.ltb 0 op                (* opcodes are positive: 0 is the flow-control event *)
  | _ => true
  end.
Definition contract_ok (ls : list label) : bool := forallb label_ok ls.

(* a cancellation is harmless unless it hits the owner of a command that is still unanswered
   (known finding D03m: the code then frees the semaphore while the command is outstanding) *)
Definition cancel_ok (s : hstate) (l : label) : bool :=
  match l with
  | Cancel c =>
      match h_pending s, h_resp s with
      | Some (c', _), None => negb (Z.eqb c' c)
      | _, _ => true
      end
  | _ => true
  end.

(* once the transport is lost nothing crosses it any more *)
Definition lost_ok (s : hstate) (l : label) : bool :=
  if h_lost s then
    match l with CtrlReply _ _ | CtrlDrop | CtrlEvent _ _ _ | Deliver => false | _ => true end
  else true.

(* the hypotheses of the theorems, checked along the run *)
Fixpoint wf_run (s : hstate) (ls : list label) : bool :=
  match ls with
  | [] => true
  | l :: ls' => label_ok l && cancel_ok s l && lost_ok s l && wf_run (step s l) ls'
  end.

(* commands handed to the controller whose answer has not reached the host *)
Definition outstanding (s : hstate) : Z := Z.of_nat (length (h_to s) + length (h_from s)).

(* no step of the host, of the controller (which answers under the contract) or of the
   transport is enabled; only new calls could change the state *)
Definition quiescent (s : hstate) : bool :=
  match h_to s, h_from s with
  | [], [] =>
      match h_pending s, h_resp s with
      | Some _, Some _ => false
      | _, _ => Z.leb (h_sem s) 0 || negb (existsb is_wait_sem (h_callers s))
      end
  | _, _ => false
  end.

(* answered with the response to its own command, cancelled by its own task, or failed with
   TransportLostError *)
(* after a loss nothing moves in the FIFOs: only the host's own steps count *)
Definition quiescent_lost (s : hstate) : bool :=
  match h_pending s, h_resp s with
  | Some _, Some _ => false
  | _, _ => Z.leb (h_sem s) 0 || negb (existsb is_wait_sem (h_callers s))
  end.

Definition is_done_own (x : caller) : bool :=
  match c_phase x with Done r => Z.eqb r (c_op x) | Cancelled | LostFail | SendFail => true | _ => false end.
Definition all_answered (s : hstate) : bool := forallb is_done_own (h_callers s).

(* progress measure: steps a caller still needs *)
Definition caller_weight (x : caller) : nat :=
  match c_phase x with WaitSem => 4 | WaitResp => 0 | _ => 0 end%nat.
Definition measure (s : hstate) : nat :=
  (fold_right (fun x a => caller_weight x + a) 0 (h_callers s)
   + 3 * length (h_to s) + 2 * length (h_from s)
   + match h_resp s with Some _ => 1 | None => 0 end)%nat.

(* encodings for the harness *)
Definition obs_code (o : obs) : Z * Z * Z :=
  match o with
  | Sent c op => (0, c, op) | Resumed c op => (1, c, op) | AssertFailed c => (2, c, 0) | WasCancelled c => (3, c, 0) | LostFailed c => (4, c, 0) | SendFailed c => (5, c, 0)
  end.
Definition phase_code (x : caller) : Z * Z * Z :=
  match c_phase x with
  | WaitSem => (c_id x, 0, 0) | WaitResp => (c_id x, 1, 0) | Done r => (c_id x, 2, r) | Failed => (c_id x, 3, 0)
  | Cancelled => (c_id x, 4, 0) | LostFail => (c_id x, 5, 0) | SendFail => (c_id x, 6, 0)
  end.
Definition accept_obs (ls : list label) :=
  match accept h_init ls with
  | None => None
  | Some (s, o) => Some (map obs_code o, map phase_code (h_callers s), (quiescent s, all_answered s, outstanding s))
  end.
