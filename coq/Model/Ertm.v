(* Model of the data path of a classic L2CAP channel in bumble/l2cap.py:
   Processor (Basic mode) and EnhancedRetransmissionProcessor (ERTM), the wire format
   of their frames (InformationEnhancedControlField / SupervisoryEnhancedControlField,
   _PendingPdu.__bytes__, L2CAP_PDU.to_bytes with and without FCS, ClassicChannel.on_pdu)
   and a two-party system with FIFO channels.  Executable Gallina only, no proofs.

   Reading of the code (EnhancedRetransmissionProcessor):
     send_sdu          len(sdu) <= peer_mps: one UNSEGMENTED pdu; otherwise one pdu per
                       offset in range(0, len, peer_mps): START at offset 0, END when
                       offset + len(payload) >= len(sdu), CONTINUATION otherwise; every
                       pdu takes _get_next_tx_seq() ((n + 1) % 64) at QUEUEING time and
                       is appended to _pending_pdus; then _process_output().
     _process_output   nothing while _remote_is_busy (or while a monitor timer is armed:
                       timers are modelled as never armed-and-fired, see below);
                       pdu_to_send = peer_tx_window_size - len(_tx_window); the first
                       pdu_to_send pending pdus are sent (_send_i_frame: req_seq :=
                       _req_seq_num, appended to _tx_window, _last_acked_rx_seq :=
                       _req_seq_num) and removed from _pending_pdus.  A negative
                       pdu_to_send makes itertools.islice raise ValueError; the model
                       clamps it to 0 and Proofs/Ertm.v shows the case is unreachable.
     on_pdu            _update_ack_seq(req_seq) first, for I- and S-frames alike:
                       n = (req_seq - _last_acked_tx_seq) % 64; n > len(_tx_window): the
                       acknowledgement is ignored; else drop n from _tx_window,
                       _last_acked_tx_seq := req_seq, _process_output().
                       I-frame: tx_seq != _req_seq_num: dropped.  Otherwise
                       _req_seq_num := (tx_seq + 1) % 64, payload appended to _in_sdu
                       (START: after the 2-byte SDU length), END/UNSEGMENTED: _in_sdu
                       goes to the sink and is reset; then RR(final=0) unless
                       _req_seq_num == _last_acked_rx_seq.
                       S-frame: _remote_is_busy := (function == RNR); RR/RNR with the
                       poll bit: answer RR(final=1).  REJ/SREJ: nothing (TODO in code).
   Timers: _send_i_frame arms the retransmission ("receiver ready poll") timer
   (_start_receiver_ready_poll, which also zeroes the poll counter); _update_ack_seq
   disarms it when _last_acked_tx_seq == _next_tx_seq.  When it fires
   (_receiver_ready_poll) an RR with P=1 is sent (after fixes/D08t.patch; before it the
   frame carried F=1 and nothing ever answered it) and the monitor timer is armed; while
   _monitor_handle is set (a TimerHandle is truthy even after it has fired)
   _process_output sends nothing.  The peer answers an RR/RNR with P=1 by RR with F=1, and
   _update_ack_seq clears the monitor handle when a frame with F=1 carries an acceptable
   acknowledgement.  When the monitor timer fires (_monitor) another poll is sent and the
   timer re-armed while the poll counter is below peer_max_retransmission (or that is
   <= 0); otherwise only an error is logged and the dead handle keeps blocking the output
   until the outstanding poll is answered.  These four events are the labels
   TimeoutRetxA/B and TimeoutMonA/B.
   The sink is a pure consumer (it does not write from inside on_sdu).
   Bytes are Z in [0,256); sequence numbers are Z. *)
From Coq Require Import ZArith List Bool.
From BV Require Import Model.Crc16.
Import ListNotations.
Open Scope Z_scope.

Definition MAX_SEQ_NUM : Z := 64.

Inductive sar := UNSEG | START | SEND | CONT.
Definition sar_code (s : sar) : Z :=
  match s with UNSEG => 0 | START => 1 | SEND => 2 | CONT => 3 end.
Definition sar_of_code (c : Z) : sar :=
  if c =? 0 then UNSEG else if c =? 1 then START else if c =? 2 then SEND else CONT.

(* supervisory functions *)
Definition RR : Z := 0.
Definition REJ : Z := 1.
Definition RNR : Z := 2.
Definition SREJ : Z := 3.

(* one segment of an SDU: SAR, the SDU length recorded in the pdu, payload *)
Record seg := mkSeg { g_sar : sar; g_len : Z; g_data : list Z }.
(* _PendingPdu (req_seq is overwritten when the pdu is sent, so it is not kept) *)
Record pdu := mkPdu { p_seg : seg; p_tx : Z }.

(* what travels on the channel.  IFrame's sdulen is the SDU-length field, present on
   the wire only for START (0 otherwise).  The I-frames bumble sends always carry F=1
   (InformationEnhancedControlField's default, never overridden); a foreign peer's need
   not. *)
Inductive frame :=
| IFrame (tx req : Z) (s : sar) (sdulen : Z) (data : list Z) (final : bool)
| SFrame (func : Z) (poll final : bool) (req : Z).

(* _monitor_handle: None / armed / fired for the last time (still truthy) *)
Inductive mon := MonNone | MonArmed | MonDead.
Definition mon_set (m : mon) : bool := match m with MonNone => false | _ => true end.

Record ep := mkEp {
  e_pmps : Z;            (* peer_mps *)
  e_pwin : Z;            (* peer_tx_window_size *)
  e_next : Z;            (* _next_tx_seq *)
  e_lack : Z;            (* _last_acked_tx_seq *)
  e_pend : list pdu;     (* _pending_pdus *)
  e_txw : list pdu;      (* _tx_window *)
  e_busy : bool;         (* _remote_is_busy *)
  e_req : Z;             (* _req_seq_num *)
  e_lackrx : Z;          (* _last_acked_rx_seq *)
  e_insdu : list Z;      (* _in_sdu *)
  e_tm : bool * mon * Z * Z
    (* timers: (retransmission timer armed, _monitor_handle,
                _num_receiver_ready_polls_sent, peer_max_retransmission) *)
}.
Definition tm_rrarm (t : bool * mon * Z * Z) : bool := let '(a, _, _, _) := t in a.
Definition tm_mon (t : bool * mon * Z * Z) : mon := let '(_, m, _, _) := t in m.
Definition tm_polls (t : bool * mon * Z * Z) : Z := let '(_, _, n, _) := t in n.
Definition tm_maxretx (t : bool * mon * Z * Z) : Z := let '(_, _, _, x) := t in x.
Definition e_rrarm (e : ep) : bool := tm_rrarm (e_tm e).
Definition e_mon (e : ep) : mon := tm_mon (e_tm e).
Definition e_polls (e : ep) : Z := tm_polls (e_tm e).
Definition e_pmaxretx (e : ep) : Z := tm_maxretx (e_tm e).

Definition DEFAULT_MAX_RETRANSMISSION : Z := 1.

Definition ep_init (peer_mps peer_win : Z) : ep :=
  mkEp peer_mps peer_win 0 0 [] [] false 0 0 [] (false, MonNone, 0, DEFAULT_MAX_RETRANSMISSION).

(* ---- send_sdu: segmentation.  The loop "for offset in range(0, len(sdu), mps)" is
   written over the not-yet-consumed suffix rest = sdu[offset:]: offset == 0 is [first],
   offset + len(payload) >= len(sdu) is len(rest) <= len(payload). Fuel = len(sdu)
   iterations suffice when mps >= 1. *)
Fixpoint seg_loop (fuel : nat) (first : bool) (mps : nat) (total : Z) (rest : list Z)
  : list seg :=
  match fuel with
  | O => []
  | S f =>
      match rest with
      | [] => []
      | _ :: _ =>
          let payload := firstn mps rest in
          let s := if first then START
                   else if (length rest <=? length payload)%nat then SEND else CONT in
          mkSeg s total payload :: seg_loop f false mps total (skipn mps rest)
      end
  end.

Definition segment (mps : Z) (sdu : list Z) : list seg :=
  if Z.of_nat (length sdu) <=? mps then [mkSeg UNSEG 0 sdu]
  else seg_loop (length sdu) true (Z.to_nat mps) (Z.of_nat (length sdu)) sdu.

(* _get_next_tx_seq for each new pdu *)
Fixpoint assign (next : Z) (segs : list seg) : list pdu * Z :=
  match segs with
  | [] => ([], next)
  | s :: r =>
      let '(ps, n) := assign ((next + 1) mod MAX_SEQ_NUM) r in
      (mkPdu s next :: ps, n)
  end.

Definition iframe_of (req : Z) (p : pdu) : frame :=
  let s := p_seg p in
  IFrame (p_tx p) req (g_sar s)
         (match g_sar s with START => g_len s | _ => 0 end) (g_data s) true.

Definition process_output (e : ep) : ep * list frame :=
  if e_busy e || mon_set (e_mon e) then (e, [])
  else
    let k := Z.to_nat (e_pwin e - Z.of_nat (length (e_txw e))) in
    let now := firstn k (e_pend e) in
    (mkEp (e_pmps e) (e_pwin e) (e_next e) (e_lack e) (skipn k (e_pend e))
          (e_txw e ++ now) (e_busy e) (e_req e)
          (match now with [] => e_lackrx e | _ :: _ => e_req e end) (e_insdu e)
          (* _send_i_frame: _start_receiver_ready_poll() *)
          (match now with
           | [] => e_tm e
           | _ :: _ => (true, e_mon e, 0, e_pmaxretx e)
           end),
     map (iframe_of (e_req e)) now).

Definition send_sdu (e : ep) (sdu : list Z) : ep * list frame :=
  let '(ps, n) := assign (e_next e) (segment (e_pmps e) sdu) in
  process_output (mkEp (e_pmps e) (e_pwin e) n (e_lack e) (e_pend e ++ ps)
                       (e_txw e) (e_busy e) (e_req e) (e_lackrx e) (e_insdu e) (e_tm e)).

(* _update_ack_seq(new_seq, is_poll_response) *)
Definition update_ack (e : ep) (new_seq : Z) (final : bool) : ep * list frame :=
  let n := (new_seq - e_lack e) mod MAX_SEQ_NUM in
  if Z.of_nat (length (e_txw e)) <? n then (e, [])
  else
    let m := if final && mon_set (e_mon e) then MonNone else e_mon e in
    let arm := if new_seq =? e_next e then false else e_rrarm e in
    process_output (mkEp (e_pmps e) (e_pwin e) (e_next e) new_seq (e_pend e)
                         (skipn (Z.to_nat n) (e_txw e)) (e_busy e) (e_req e)
                         (e_lackrx e) (e_insdu e) (arm, m, e_polls e, e_pmaxretx e)).

Definition delivers (s : sar) : bool :=
  match s with SEND | UNSEG => true | _ => false end.

(* _send_s_frame(RR, final) *)
Definition send_rr (e : ep) (final : bool) : ep * list frame :=
  (mkEp (e_pmps e) (e_pwin e) (e_next e) (e_lack e) (e_pend e) (e_txw e) (e_busy e)
        (e_req e) (e_req e) (e_insdu e) (e_tm e),
   [SFrame RR false final (e_req e)]).

(* on_pdu: new state, frames sent (in order), SDUs handed to the sink *)
Definition on_frame (e : ep) (f : frame) : ep * list frame * list (list Z) :=
  match f with
  | IFrame tx req s _ data final =>
      let '(e1, out1) := update_ack e req final in
      if negb (tx =? e_req e1) then (e1, out1, [])
      else
        let acc := e_insdu e1 ++ data in
        let e2 := mkEp (e_pmps e1) (e_pwin e1) (e_next e1) (e_lack e1) (e_pend e1)
                       (e_txw e1) (e_busy e1) ((tx + 1) mod MAX_SEQ_NUM) (e_lackrx e1)
                       (if delivers s then [] else acc) (e_tm e1) in
        let sdus := if delivers s then [acc] else [] in
        if e_req e2 =? e_lackrx e2 then (e2, out1, sdus)
        else let '(e3, out3) := send_rr e2 false in (e3, out1 ++ out3, sdus)
  | SFrame func poll final req =>
      let '(e1, out1) := update_ack e req final in
      let e2 := mkEp (e_pmps e1) (e_pwin e1) (e_next e1) (e_lack e1) (e_pend e1)
                     (e_txw e1) (func =? RNR) (e_req e1) (e_lackrx e1) (e_insdu e1)
                     (e_tm e1) in
      if ((func =? RR) || (func =? RNR)) && poll
      then let '(e3, out3) := send_rr e2 true in (e3, out1 ++ out3, [])
      else (e2, out1, [])
  end.

(* _send_s_frame(RR, final=0, poll=1) *)
Definition send_poll (e : ep) : ep * list frame :=
  (mkEp (e_pmps e) (e_pwin e) (e_next e) (e_lack e) (e_pend e) (e_txw e) (e_busy e)
        (e_req e) (e_req e) (e_insdu e) (e_tm e),
   [SFrame RR true false (e_req e)]).

(* ---- timer events.  _receiver_ready_poll: the retransmission timer fires *)
Definition retx_timeout (e : ep) : ep * list frame :=
  if e_rrarm e then
    (* _send_receiver_ready_poll (counter + 1, RR with P=1), _start_monitor *)
    send_poll (mkEp (e_pmps e) (e_pwin e) (e_next e) (e_lack e) (e_pend e) (e_txw e) (e_busy e)
                    (e_req e) (e_lackrx e) (e_insdu e)
                    (false, MonArmed, e_polls e + 1, e_pmaxretx e))
  else (e, []).

(* _monitor: the monitor timer fires *)
Definition mon_timeout (e : ep) : ep * list frame :=
  match e_mon e with
  | MonArmed =>
      if (e_pmaxretx e <=? 0) || (e_polls e <? e_pmaxretx e) then
        send_poll (mkEp (e_pmps e) (e_pwin e) (e_next e) (e_lack e) (e_pend e) (e_txw e) (e_busy e)
                        (e_req e) (e_lackrx e) (e_insdu e)
                        (e_rrarm e, MonArmed, e_polls e + 1, e_pmaxretx e))
      else
        (* "Max retransmission exceeded": nothing sent, the handle stays set *)
        (mkEp (e_pmps e) (e_pwin e) (e_next e) (e_lack e) (e_pend e) (e_txw e) (e_busy e)
              (e_req e) (e_lackrx e) (e_insdu e) (e_rrarm e, MonDead, e_polls e, e_pmaxretx e), [])
  | _ => (e, [])
  end.

(* ---- two ERTM endpoints joined by two FIFO channels.  The logs record every frame
   ever put on each channel and the sinks every SDU delivered; no step reads them. *)
Record sys := mkSys {
  s_a : ep; s_b : ep;
  s_ab : list frame; s_ba : list frame;
  s_sink_a : list (list Z); s_sink_b : list (list Z);
  s_log_ab : list frame; s_log_ba : list frame
}.

Inductive label :=
| WriteA (sdu : list Z)
| WriteB (sdu : list Z)
| DeliverAB
| DeliverBA
| TimeoutRetxA | TimeoutRetxB      (* retransmission timer of A / B fires *)
| TimeoutMonA | TimeoutMonB.       (* monitor timer of A / B fires *)

Definition is_timer (l : label) : bool :=
  match l with TimeoutRetxA | TimeoutRetxB | TimeoutMonA | TimeoutMonB => true | _ => false end.
(* schedules in which no timer fires *)
Definition no_timer (sched : list label) : bool := forallb (fun l => negb (is_timer l)) sched.

(* A segments by B's MPS and is limited by B's window, and vice versa *)
Definition sys_init (mps_a win_a mps_b win_b : Z) : sys :=
  mkSys (ep_init mps_b win_b) (ep_init mps_a win_a) [] [] [] [] [] [].

Definition step (s : sys) (l : label) : sys :=
  match l with
  | WriteA sdu =>
      let '(a, out) := send_sdu (s_a s) sdu in
      mkSys a (s_b s) (s_ab s ++ out) (s_ba s) (s_sink_a s) (s_sink_b s)
            (s_log_ab s ++ out) (s_log_ba s)
  | WriteB sdu =>
      let '(b, out) := send_sdu (s_b s) sdu in
      mkSys (s_a s) b (s_ab s) (s_ba s ++ out) (s_sink_a s) (s_sink_b s)
            (s_log_ab s) (s_log_ba s ++ out)
  | DeliverAB =>
      match s_ab s with
      | [] => s     (* nothing to deliver: the label is a stutter *)
      | f :: rest =>
          let '(b, out, sdus) := on_frame (s_b s) f in
          mkSys (s_a s) b rest (s_ba s ++ out) (s_sink_a s) (s_sink_b s ++ sdus)
                (s_log_ab s) (s_log_ba s ++ out)
      end
  | DeliverBA =>
      match s_ba s with
      | [] => s
      | f :: rest =>
          let '(a, out, sdus) := on_frame (s_a s) f in
          mkSys a (s_b s) (s_ab s ++ out) rest (s_sink_a s ++ sdus) (s_sink_b s)
                (s_log_ab s ++ out) (s_log_ba s)
      end
  | TimeoutRetxA | TimeoutMonA =>
      let '(a, out) := match l with TimeoutRetxA => retx_timeout (s_a s) | _ => mon_timeout (s_a s) end in
      mkSys a (s_b s) (s_ab s ++ out) (s_ba s) (s_sink_a s) (s_sink_b s)
            (s_log_ab s ++ out) (s_log_ba s)
  | TimeoutRetxB | TimeoutMonB =>
      let '(b, out) := match l with TimeoutRetxB => retx_timeout (s_b s) | _ => mon_timeout (s_b s) end in
      mkSys (s_a s) b (s_ab s) (s_ba s ++ out) (s_sink_a s) (s_sink_b s)
            (s_log_ab s) (s_log_ba s ++ out)
  end.

Definition run (s : sys) (sched : list label) : sys := fold_left step sched s.

Fixpoint writes_a (sched : list label) : list (list Z) :=
  match sched with
  | [] => []
  | WriteA sdu :: r => sdu :: writes_a r
  | _ :: r => writes_a r
  end.

Fixpoint writes_b (sched : list label) : list (list Z) :=
  match sched with
  | [] => []
  | WriteB sdu :: r => sdu :: writes_b r
  | _ :: r => writes_b r
  end.

Definition quiescent (s : sys) : bool :=
  match s_ab s, s_ba s with [], [] => true | _, _ => false end.

(* ---- Basic mode: Processor.send_sdu sends the SDU as one PDU, on_pdu hands the PDU
   to the sink. One direction is enough (the two directions share no state). *)
Record bsys := mkB { b_chan : list (list Z); b_sink : list (list Z) }.
Inductive blabel := BWrite (sdu : list Z) | BDeliver.
Definition bstep (s : bsys) (l : blabel) : bsys :=
  match l with
  | BWrite sdu => mkB (b_chan s ++ [sdu]) (b_sink s)
  | BDeliver => match b_chan s with
                | [] => s
                | p :: r => mkB r (b_sink s ++ [p])
                end
  end.
Definition brun (s : bsys) (sched : list blabel) : bsys := fold_left bstep sched s.
Fixpoint bwrites (sched : list blabel) : list (list Z) :=
  match sched with
  | [] => []
  | BWrite sdu :: r => sdu :: bwrites r
  | _ :: r => bwrites r
  end.

(* ---- wire format *)
Definition le16 (v : Z) : list Z := [v mod 256; (v / 256) mod 256].
Definition b2z (b : bool) : Z := if b then 1 else 0.

(* bytes(InformationEnhancedControlField) + optional SDU length + payload;
   bytes(SupervisoryEnhancedControlField).  The poll bit is placed where from_bytes
   reads it (bit 4); every S-frame the processor builds has poll = 0. *)
Definition enc_frame (f : frame) : list Z :=
  match f with
  | IFrame tx req s sdulen data final =>
      [2 * tx + 128 * b2z final; req + 64 * sar_code s]
        ++ (match s with START => le16 sdulen | _ => [] end) ++ data
  | SFrame func poll final req =>
      [1 + 4 * func + 16 * b2z poll + 128 * b2z final; req]
  end.

(* L2CAP_PDU.to_bytes(with_fcs) *)
Definition enc_pdu (fcs : bool) (cid : Z) (payload : list Z) : list Z :=
  let len := Z.of_nat (length payload) + (if fcs then 2 else 0) in
  let body := le16 len ++ le16 cid ++ payload in
  if fcs then body ++ le16 (crc16 body) else body.

(* L2CAP_PDU.from_bytes (length, cid, payload = data[4:4+length]) followed by
   ClassicChannel.on_pdu (drop the last two bytes when FCS is enabled; the FCS is
   not verified by the code). None: fewer than 4 bytes. *)
Definition dec_pdu (fcs : bool) (bytes : list Z) : option (Z * list Z) :=
  match bytes with
  | l0 :: l1 :: c0 :: c1 :: rest =>
      let len := l0 + 256 * l1 in
      let payload := firstn (Z.to_nat len) rest in
      let payload' := if fcs then firstn (length payload - 2) payload else payload in
      Some (c0 + 256 * c1, payload')
  | _ => None
  end.

(* EnhancedControlField.from_bytes and the slicing in on_pdu. None: the code would
   raise IndexError (fewer than 2 bytes). *)
Definition dec_frame (payload : list Z) : option frame :=
  match payload with
  | b0 :: b1 :: rest =>
      if Z.even b0 then
        let s := sar_of_code ((b1 / 64) mod 4) in
        let tx := (b0 / 2) mod 64 in
        let req := b1 mod 64 in
        let fin := Z.odd (b0 / 128) in
        match s with
        | START =>
            match rest with
            | x0 :: x1 :: data => Some (IFrame tx req s (x0 + 256 * x1) data fin)
            | _ => Some (IFrame tx req s 0 [] fin)   (* pdu[4:] of a short pdu is empty *)
            end
        | _ => Some (IFrame tx req s 0 rest fin)
        end
      else
        Some (SFrame ((b0 / 4) mod 4) (Z.odd (b0 / 16)) (Z.odd (b0 / 128)) (b1 mod 128))
  | _ => None
  end.

(* ---- one endpoint against an arbitrary (foreign, possibly hostile) peer: the inputs are
   local writes, timer firings and ANY incoming frame - given as a frame or as the raw
   payload ClassicChannel.on_pdu hands to the processor (fewer than 2 bytes: from_bytes
   raises IndexError before anything is changed) *)
Inductive elabel :=
| EWrite (sdu : list Z)
| ERecv (f : frame)
| ERecvRaw (payload : list Z)
| ERetx
| EMon.

Definition estep (e : ep) (l : elabel) : ep * list frame * list (list Z) :=
  match l with
  | EWrite sdu => let '(e', out) := send_sdu e sdu in (e', out, [])
  | ERecv f => on_frame e f
  | ERecvRaw payload =>
      match dec_frame payload with
      | Some f => on_frame e f
      | None => (e, [], [])
      end
  | ERetx => let '(e', out) := retx_timeout e in (e', out, [])
  | EMon => let '(e', out) := mon_timeout e in (e', out, [])
  end.

Fixpoint erun (e : ep) (ls : list elabel) : ep * list frame * list (list Z) :=
  match ls with
  | [] => (e, [], [])
  | l :: r =>
      let '(e1, out1, sd1) := estep e l in
      let '(e2, out2, sd2) := erun e1 r in
      (e2, out1 ++ out2, sd1 ++ sd2)
  end.

Fixpoint ewrites (ls : list elabel) : list (list Z) :=
  match ls with
  | [] => []
  | EWrite sdu :: r => sdu :: ewrites r
  | _ :: r => ewrites r
  end.

(* observables for the correspondence check *)
Definition ep_obs (e : ep) :=
  (e_next e, e_lack e, Z.of_nat (length (e_pend e)), Z.of_nat (length (e_txw e)),
   e_req e, e_lackrx e, e_insdu e).
Definition wire (fcs : bool) (cid : Z) (fs : list frame) : list (list Z) :=
  map (fun f => enc_pdu fcs cid (enc_frame f)) fs.
