(* Statement skeletons of Python functions (property C02): a tree whose leaves are the
   canonical text of simple statements / conditions.  Executable Gallina only. *)
From Coq Require Import String List Bool.
Import ListNotations.

Inductive sx := A (s : string) | N (s : string) (kids : list sx).

Fixpoint sx_eqb (a b : sx) : bool :=
  match a, b with
  | A x, A y => String.eqb x y
  | N x l, N y m =>
      String.eqb x y &&
      (fix go (l m : list sx) : bool :=
         match l, m with
         | [], [] => true
         | p :: l', q :: m' => sx_eqb p q && go l' m'
         | _, _ => false
         end) l m
  | _, _ => false
  end.

Fixpoint shapes_eqb (a b : list (string * sx)) : bool :=
  match a, b with
  | [], [] => true
  | (n1, s1) :: a', (n2, s2) :: b' => String.eqb n1 n2 && sx_eqb s1 s2 && shapes_eqb a' b'
  | _, _ => false
  end.

Fixpoint shape_of (name : string) (l : list (string * sx)) : option sx :=
  match l with
  | [] => None
  | (n, s) :: r => if String.eqb n name then Some s else shape_of name r
  end.

(* the named entry of the generated list equals the expected skeleton *)
Definition shape_matches (name : string) (src : list (string * sx)) (expected : sx) : bool :=
  match shape_of name src with
  | Some s => sx_eqb s expected
  | None => false
  end.

(* does some leaf of the tree carry exactly this text *)
Fixpoint has_leaf (text : string) (t : sx) : bool :=
  match t with
  | A x => String.eqb x text
  | N _ l => (fix go (l : list sx) : bool :=
                match l with [] => false | p :: l' => has_leaf text p || go l' end) l
  end.
