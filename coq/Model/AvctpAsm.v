(* Model of bumble/avctp.py MessageAssembler (reset / on_pdu / on_message_complete) as
   executable Gallina, and of the two fragment layouts a peer can use.  No proofs.

   Reading of the code (after the repair fixes/D19g.patch):
     - packets_received is incremented first, for every PDU.
     - pdu[0] on an empty PDU raises IndexError (the counter stays incremented).
     - c_r == 0 and ipid != 0: reset(), nothing delivered.
     - SINGLE / START: (D19g) reset() and packets_received = 1 unconditionally: this packet
       is the first of a new message.  Before the repair this was done only when a
       transaction was open, so a PDU rejected with an exception (which leaves the counter
       incremented and no transaction open) made the next well-formed fragmented message
       fail its count check.  START reads number_of_packets = pdu[1] (IndexError on a
       1-byte PDU).
     - EVERY packet type then reads a 16-bit PID at pid_offset (1, or 2 for START) with
       struct.unpack_from (struct.error when the PDU is too short) and appends
       pdu[pid_offset + 2:] to the payload.  This is finding D19d: the AVCTP specification
       puts the PID in SINGLE and START packets only; CONTINUE / END packets laid out per
       the specification have their first two message bytes read as a PID and dropped.
       The repository's own test (tests/avrcp_test.py test_avctp_message_assembler)
       encodes the PID-in-every-packet layout, so the repair is not a patch that keeps the
       test-suite unedited; the code is modelled as it is.
     - CONTINUE / END: reset() when the label, the PID or C/R differ from the START
       packet's, when packets_received > number_of_packets, or (END) when
       packets_received != number_of_packets.
     - SINGLE / END: callback(label, c_r == 0, ipid != 0, pid, payload); reset().
   An exception is an output [CRaise] with the state the code leaves behind. *)
From Coq Require Import ZArith List Bool.
From BV Require Import Model.C19Chunks.
Import ListNotations.
Open Scope Z_scope.

Record cstate := mkC {
  c_received : Z;     (* packets_received *)
  c_label : Z;        (* transaction_label, -1 when no transaction is open *)
  c_pid : Z;
  c_cr : Z;
  c_ipid : Z;
  c_payload : list Z;
  c_nop : Z           (* number_of_packets *)
}.

Inductive cout :=
| CMsg (label : Z) (is_command ipid : bool) (pid : Z) (payload : list Z)
| CRaise.

Definition c_reset : cstate := mkC 0 (-1) (-1) (-1) (-1) [] 0.

Definition c_set_received (s : cstate) (n : Z) : cstate :=
  mkC n (c_label s) (c_pid s) (c_cr s) (c_ipid s) (c_payload s) (c_nop s).
Definition c_set_nop (s : cstate) (n : Z) : cstate :=
  mkC (c_received s) (c_label s) (c_pid s) (c_cr s) (c_ipid s) (c_payload s) n.

Definition CT_SINGLE := 0.
Definition CT_START := 1.
Definition CT_CONTINUE := 2.
Definition CT_END := 3.

Definition c_deliver (label cr ipid pid : Z) (payload : list Z) : cout :=
  CMsg label (cr =? 0) (negb (ipid =? 0)) pid payload.

(* [s] carries the incremented packets_received; [rest] is pdu[1:] *)
Definition c_on_frame (s : cstate) (label pt cr ipid : Z) (rest : list Z) : cstate * list cout :=
  if (cr =? 0) && negb (ipid =? 0) then (c_reset, [])
  else if pt =? CT_SINGLE then
    let s1 := c_set_received c_reset 1 in
    match rest with
    | ph :: pl :: body => (c_reset, [c_deliver label cr ipid (ph * 256 + pl) body])
    | _ => (s1, [CRaise])                                  (* struct.error *)
    end
  else if pt =? CT_START then
    let s1 := c_set_received c_reset 1 in
    match rest with
    | [] => (s1, [CRaise])                                 (* pdu[1]: IndexError *)
    | n :: rest2 =>
        match rest2 with
        | ph :: pl :: body => (mkC 1 label (ph * 256 + pl) cr ipid body n, [])
        | _ => (c_set_nop s1 n, [CRaise])                  (* struct.error *)
        end
    end
  else
    (* CONTINUE / END: a PID is read here too (D19d) *)
    match rest with
    | ph :: pl :: body =>
        let pid := ph * 256 + pl in
        let payload := c_payload s ++ body in
        if negb (label =? c_label s) then (c_reset, [])
        else if negb (pid =? c_pid s) then (c_reset, [])
        else if negb (cr =? c_cr s) then (c_reset, [])
        else if c_nop s <? c_received s then (c_reset, [])
        else if pt =? CT_END then
          if negb (c_received s =? c_nop s) then (c_reset, [])
          else (c_reset, [c_deliver (c_label s) (c_cr s) (c_ipid s) (c_pid s) payload])
        else (mkC (c_received s) (c_label s) (c_pid s) (c_cr s) (c_ipid s) payload (c_nop s), [])
    | _ => (s, [CRaise])                                   (* struct.error *)
    end.

Definition c_on_pdu (s : cstate) (pdu : list Z) : cstate * list cout :=
  let s1 := c_set_received s (c_received s + 1) in
  match pdu with
  | [] => (s1, [CRaise])                                   (* pdu[0]: IndexError *)
  | b0 :: rest => c_on_frame s1 (b0 / 16) ((b0 / 4) mod 4) ((b0 / 2) mod 2) (b0 mod 2) rest
  end.

Fixpoint c_run (s : cstate) (pdus : list (list Z)) : cstate * list cout :=
  match pdus with
  | [] => (s, [])
  | p :: ps =>
      let '(s1, o1) := c_on_pdu s p in
      let '(s2, o2) := c_run s1 ps in
      (s2, o1 ++ o2)
  end.

(* ---- what a peer sends ---- *)
Definition c_hdr (label pt cr ipid : Z) : Z := label * 16 + pt * 4 + cr * 2 + ipid.
Definition pid_hi (pid : Z) : Z := pid / 256.
Definition pid_lo (pid : Z) : Z := pid mod 256.

(* A message cut into a first piece [c0] and further pieces [cs] (any cut).
   Layout of the AVCTP specification: PID in the SINGLE / START packet only. *)
Fixpoint c_tail_spec (label cr ipid : Z) (cs : list (list Z)) : list (list Z) :=
  match cs with
  | [] => []
  | [c] => [c_hdr label CT_END cr ipid :: c]
  | c :: cs' => (c_hdr label CT_CONTINUE cr ipid :: c) :: c_tail_spec label cr ipid cs'
  end.

Definition c_frag_spec (label cr ipid pid : Z) (c0 : list Z) (cs : list (list Z)) : list (list Z) :=
  match cs with
  | [] => [c_hdr label CT_SINGLE cr ipid :: pid_hi pid :: pid_lo pid :: c0]
  | _ => (c_hdr label CT_START cr ipid :: (1 + zlen cs) :: pid_hi pid :: pid_lo pid :: c0)
         :: c_tail_spec label cr ipid cs
  end.

(* Layout the implementation accepts: the PID repeated in every packet. *)
Fixpoint c_tail_pid (label cr ipid pid : Z) (cs : list (list Z)) : list (list Z) :=
  match cs with
  | [] => []
  | [c] => [c_hdr label CT_END cr ipid :: pid_hi pid :: pid_lo pid :: c]
  | c :: cs' => (c_hdr label CT_CONTINUE cr ipid :: pid_hi pid :: pid_lo pid :: c)
                :: c_tail_pid label cr ipid pid cs'
  end.

Definition c_frag_pid (label cr ipid pid : Z) (c0 : list Z) (cs : list (list Z)) : list (list Z) :=
  match cs with
  | [] => [c_hdr label CT_SINGLE cr ipid :: pid_hi pid :: pid_lo pid :: c0]
  | _ => (c_hdr label CT_START cr ipid :: (1 + zlen cs) :: pid_hi pid :: pid_lo pid :: c0)
         :: c_tail_pid label cr ipid pid cs
  end.

(* observables for the correspondence check *)
Definition cout_obs (o : cout) :=
  match o with
  | CMsg l c i p b => (0, l, c, i, p, b)
  | CRaise => (1, 0, false, false, 0, [])
  end.
Definition c_obs (s : cstate) :=
  (c_received s, c_label s, c_pid s, c_cr s, c_ipid s, c_payload s, c_nop s).
