(* Model of bumble/keys.py: PairingKeys.to_dict / from_dict, PairingKeys.Key.to_dict /
   from_dict and JsonKeyStore (load / save / update / delete / delete_all / get /
   get_all) as executable Gallina.  No proofs here.

   Reading of the code (keys.py, after fix D15):
     - a JsonKeyStore holds no data: every operation loads the whole file, works on the
       in-memory dict and (mutators only) saves the whole dict again.  A store handle
       is therefore just its namespace string; "re-opening" is using the namespace
       again.
     - the file is json.dump(db, sort_keys=True, indent=4): the model keeps every JSON
       object as an association list in ascending key order (what a reload of the
       file yields) and [ser_db] prints exactly that text, byte for byte.
     - load: namespace present -> its key map; else default namespace and exactly one
       namespace in the file -> that one (fix D15: the pair returned is (db, key_map),
       not (name, key_map)); else a new empty key map is added under the namespace
       (in memory; it reaches the file only if the operation saves).
     - update merges: key_map.setdefault(name, {}).update(keys.to_dict()) overwrites
       exactly the fields present in the new PairingKeys and keeps the others.
     - delete of a name that is not stored raises KeyError before anything is saved.
     - save: [mkdir if the directory is missing]; open "<file>.tmp" truncating; one
       write per chunk json.dump produces; close; os.replace(tmp, file).
   The file system is the directory flag, the content of the key file and of its ".tmp"
   sibling, and the userspace buffer of the open file object: write() only fills the
   buffer, close() flushes it, a crash loses whatever part of it the runtime had not
   flushed yet.
   Abstractions: strings are lists of code points; the printer escapes them as
   json.dump(ensure_ascii=True) does and the reader [parse] undoes every JSON string
   escape (the well-formedness predicate of the theorems only excludes surrogate code
   points); [parse] accepts objects, strings, integers, true and false (what the store
   writes), not floats, null or arrays; file contents are lists of characters (the
   store's own files are pure ASCII, so characters are bytes).  The file system is three cells: does the
   directory exist, content of the file, content of its ".tmp" sibling. *)
From Coq Require Import String Ascii.
From Coq Require Import ZArith List Bool Decimal.
Import ListNotations.
Open Scope Z_scope.

(* ------------------------------------------------------------------ strings *)
Definition str := list Z.

Definition S_ (x : String.string) : str :=
  map (fun a => Z.of_N (N_of_ascii a)) (list_ascii_of_string x).

Fixpoint str_eqb (a b : str) : bool :=
  match a, b with
  | [], [] => true
  | x :: a', y :: b' => Z.eqb x y && str_eqb a' b'
  | _, _ => false
  end.

(* Python str comparison: lexicographic on code points (used by sort_keys) *)
Fixpoint str_ltb (a b : str) : bool :=
  match a, b with
  | [], [] => false
  | [], _ :: _ => true
  | _ :: _, [] => false
  | x :: a', y :: b' => if Z.ltb x y then true else if Z.eqb x y then str_ltb a' b' else false
  end.

(* a Python str that survives the JSON round trip: Unicode scalar values (no surrogate
   code points: json.load would join an adjacent high/low pair into one character) *)
Definition cp_ok (c : Z) : bool :=
  (0 <=? c) && (c <? 1114112) && negb ((55296 <=? c) && (c <? 57344)).
Definition str_ok (s : str) : bool := forallb cp_ok s.

(* ------------------------------------------------------------------ dicts as sorted association lists *)
Fixpoint lookup {A : Type} (k : str) (l : list (str * A)) : option A :=
  match l with
  | [] => None
  | (k', v) :: r => if str_eqb k k' then Some v else lookup k r
  end.

Definition has {A : Type} (k : str) (l : list (str * A)) : bool :=
  match lookup k l with Some _ => true | None => false end.

(* d[k] = v followed by the sort_keys round trip through the file *)
Fixpoint ins {A : Type} (k : str) (v : A) (l : list (str * A)) : list (str * A) :=
  match l with
  | [] => [(k, v)]
  | (k', v') :: r =>
      if str_eqb k k' then (k, v) :: r
      else if str_ltb k k' then (k, v) :: (k', v') :: r
      else (k', v') :: ins k v r
  end.

(* del d[k] (keys are unique in a dict; the model removes every occurrence) *)
Fixpoint del {A : Type} (k : str) (l : list (str * A)) : list (str * A) :=
  match l with
  | [] => []
  | (k', v') :: r => if str_eqb k k' then del k r else (k', v') :: del k r
  end.

(* d.update(new) *)
Fixpoint merge {A : Type} (d new : list (str * A)) : list (str * A) :=
  match new with
  | [] => d
  | (k, v) :: r => merge (ins k v d) r
  end.

(* strictly ascending keys: the order json.dump(sort_keys=True) writes and a reload yields *)
Fixpoint sorted_from {A : Type} (k : str) (l : list (str * A)) : bool :=
  match l with
  | [] => true
  | (k', _) :: r => str_ltb k k' && sorted_from k' r
  end.
Definition sorted {A : Type} (l : list (str * A)) : bool :=
  match l with [] => true | (k, _) :: r => sorted_from k r end.

(* ------------------------------------------------------------------ the JSON object model of the file *)
Inductive kval := KStr (s : str) | KBool (b : bool) | KInt (z : Z).
Definition kdict := list (str * kval).                  (* one key: value / authenticated / ediv / rand *)
Inductive fval := FvInt (z : Z) | FvKey (d : kdict).
Definition pdict := list (str * fval).                  (* one peer: address_type, ltk, ..., link_key_type *)
Definition kmap := list (str * pdict).                  (* one namespace: peer -> keys *)
Definition db := list (str * kmap).                     (* the file: namespace -> key map *)

(* ------------------------------------------------------------------ PairingKeys *)
Record pkey := mkKey {
  k_value : list Z;            (* bytes *)
  k_auth : bool;
  k_ediv : option Z;
  k_rand : option (list Z)     (* bytes *)
}.

Record pkeys := mkKeys {
  address_type : option Z;
  ltk : option pkey;
  ltk_central : option pkey;
  ltk_peripheral : option pkey;
  irk : option pkey;
  csrk : option pkey;
  link_key : option pkey;
  link_key_type : option Z
}.

Definition byte_ok (b : Z) : bool := (0 <=? b) && (b <? 256).
Definition bytes_ok (l : list Z) : bool := forallb byte_ok l.

(* bytes.hex() *)
Definition hex_digit (n : Z) : Z := if n <? 10 then 48 + n else 87 + n.
Fixpoint hex_enc (bs : list Z) : str :=
  match bs with
  | [] => []
  | b :: r => hex_digit (b / 16) :: hex_digit (b mod 16) :: hex_enc r
  end.

(* bytes.fromhex() on what the store can contain (no embedded whitespace) *)
Definition hex_val (c : Z) : option Z :=
  if (48 <=? c) && (c <=? 57) then Some (c - 48)
  else if (97 <=? c) && (c <=? 102) then Some (c - 87)
  else if (65 <=? c) && (c <=? 70) then Some (c - 55)
  else None.
Fixpoint hex_dec (s : str) : option (list Z) :=
  match s with
  | [] => Some []
  | a :: s' =>
      match s' with
      | [] => None
      | b :: r =>
          match hex_val a, hex_val b, hex_dec r with
          | Some x, Some y, Some l => Some (16 * x + y :: l)
          | _, _, _ => None
          end
      end
  end.

Definition F_value := S_ "value".
Definition F_authenticated := S_ "authenticated".
Definition F_ediv := S_ "ediv".
Definition F_rand := S_ "rand".
Definition F_address_type := S_ "address_type".
Definition F_ltk := S_ "ltk".
Definition F_ltk_central := S_ "ltk_central".
Definition F_ltk_peripheral := S_ "ltk_peripheral".
Definition F_irk := S_ "irk".
Definition F_csrk := S_ "csrk".
Definition F_link_key := S_ "link_key".
Definition F_link_key_type := S_ "link_key_type".

Definition optm {A B : Type} (k : str) (f : A -> B) (o : option A) : list (str * B) :=
  match o with Some a => [(k, f a)] | None => [] end.

(* PairingKeys.Key.to_dict (in sorted key order) *)
Definition key_to_dict (k : pkey) : kdict :=
  [(F_authenticated, KBool (k_auth k))]
  ++ optm F_ediv KInt (k_ediv k)
  ++ optm F_rand (fun r => KStr (hex_enc r)) (k_rand k)
  ++ [(F_value, KStr (hex_enc (k_value k)))].

(* PairingKeys.to_dict (in sorted key order) *)
Definition to_dict (k : pkeys) : pdict :=
  optm F_address_type FvInt (address_type k)
  ++ optm F_csrk (fun x => FvKey (key_to_dict x)) (csrk k)
  ++ optm F_irk (fun x => FvKey (key_to_dict x)) (irk k)
  ++ optm F_link_key (fun x => FvKey (key_to_dict x)) (link_key k)
  ++ optm F_link_key_type FvInt (link_key_type k)
  ++ optm F_ltk (fun x => FvKey (key_to_dict x)) (ltk k)
  ++ optm F_ltk_central (fun x => FvKey (key_to_dict x)) (ltk_central k)
  ++ optm F_ltk_peripheral (fun x => FvKey (key_to_dict x)) (ltk_peripheral k).

(* d.get(name): outer None = a value of the wrong JSON type (the Python code raises) *)
Definition get_kint (k : str) (d : kdict) : option (option Z) :=
  match lookup k d with None => Some None | Some (KInt z) => Some (Some z) | Some _ => None end.
Definition get_khex (k : str) (d : kdict) : option (option (list Z)) :=
  match lookup k d with
  | None => Some None
  | Some (KStr s) => match hex_dec s with Some b => Some (Some b) | None => None end
  | Some _ => None
  end.

(* PairingKeys.Key.from_dict; None = the Python code raises (missing value, bad hex, wrong type) *)
Definition key_from_dict (d : kdict) : option pkey :=
  match get_khex F_value d with
  | Some (Some v) =>
      match (match lookup F_authenticated d with
             | None => Some false            (* key_dict.get('authenticated', False) *)
             | Some (KBool b) => Some b
             | Some _ => None
             end), get_kint F_ediv d, get_khex F_rand d with
      | Some a, Some e, Some r => Some (mkKey v a e r)
      | _, _, _ => None
      end
  | _ => None
  end.

Definition get_fint (k : str) (d : pdict) : option (option Z) :=
  match lookup k d with None => Some None | Some (FvInt z) => Some (Some z) | Some _ => None end.
(* PairingKeys.key_from_dict *)
Definition get_fkey (k : str) (d : pdict) : option (option pkey) :=
  match lookup k d with
  | None => Some None
  | Some (FvKey kd) => match key_from_dict kd with Some x => Some (Some x) | None => None end
  | Some _ => None
  end.

(* PairingKeys.from_dict *)
Definition from_dict (d : pdict) : option pkeys :=
  match get_fint F_address_type d, get_fkey F_ltk d, get_fkey F_ltk_central d,
        get_fkey F_ltk_peripheral d, get_fkey F_irk d, get_fkey F_csrk d,
        get_fkey F_link_key d, get_fint F_link_key_type d with
  | Some a, Some k1, Some k2, Some k3, Some k4, Some k5, Some k6, Some t =>
      Some (mkKeys a k1 k2 k3 k4 k5 k6 t)
  | _, _, _, _, _, _, _, _ => None
  end.

Fixpoint all_from_dict (m : kmap) : option (list (str * pkeys)) :=
  match m with
  | [] => Some []
  | (name, d) :: r =>
      match from_dict d, all_from_dict r with
      | Some k, Some l => Some ((name, k) :: l)
      | _, _ => None
      end
  end.

(* ------------------------------------------------------------------ operations on the database (abstract map) *)
Definition DEFAULT_NAMESPACE := S_ "__DEFAULT__".

Inductive op :=
| Update (name : str) (k : pkeys)
| Delete (name : str)
| DeleteAll
| Get (name : str)
| GetAll.

Inductive out :=
| ODone
| OKeyError                          (* delete of a name that is not stored *)
| OGet (r : option pkeys)
| OAll (l : list (str * pkeys))
| OBadKeys                           (* from_dict raised on a stored entry *)
| OBadFile                           (* the file does not hold a database *)
| OFsError                           (* a file-system step failed *)
| OCrashed.                          (* the process died inside the operation *)

Definition entries {A : Type} (k : str) (l : list (str * list A)) : list A :=
  match lookup k l with Some m => m | None => [] end.

(* `len(db) == 1` in load *)
Definition ADOPT_COUNT : nat := 1.

(* JsonKeyStore.load: the namespace this handle works on *)
Definition resolve (d : db) (h : str) : str :=
  if has h d then h
  else if str_eqb h DEFAULT_NAMESPACE && (Nat.eqb (List.length d) ADOPT_COUNT)
       then match d with (ns, _) :: _ => ns | [] => h end
       else h.

(* JsonKeyStore.load: (db, name of the key map inside db) *)
Definition a_load (d : db) (h : str) : db * str :=
  let ns := resolve d h in
  if has ns d then (d, ns) else (ins ns [] d, ns).

(* one operation: (database to save, if the operation saves; result) *)
Definition a_apply (d : db) (h : str) (o : op) : option db * out :=
  let '(d1, ns) := a_load d h in
  let km := entries ns d1 in
  match o with
  | Update name k =>
      (Some (ins ns (ins name (merge (entries name km) (to_dict k)) km) d1), ODone)
  | Delete name =>
      if has name km then (Some (ins ns (del name km) d1), ODone) else (None, OKeyError)
  | DeleteAll => (Some (ins ns [] d1), ODone)
  | Get name =>
      (None, match lookup name km with
             | None => OGet None
             | Some pd => match from_dict pd with Some k => OGet (Some k) | None => OBadKeys end
             end)
  | GetAll => (None, match all_from_dict km with Some l => OAll l | None => OBadKeys end)
  end.

Definition a_step (d : db) (h : str) (o : op) : db * out :=
  match a_apply d h o with
  | (Some d', r) => (d', r)
  | (None, r) => (d, r)
  end.

(* what a handle sees: its key map *)
Definition view (d : db) (h : str) : kmap := entries (resolve d h) d.

(* ------------------------------------------------------------------ json.dump(db, sort_keys=True, indent=4) *)
(* json.dump(..., indent=4) *)
Definition INDENT : nat := 4.
Definition nl (i : nat) : str := 10 :: repeat 32 (INDENT * i).

(* json.dumps(str) with ensure_ascii=True (json.encoder.py_encode_basestring_ascii):
   the two-character escapes, printable ASCII as is, \uXXXX (lower-case hex) for everything
   else, a UTF-16 surrogate pair of escapes above U+FFFF *)
Definition hex4 (n : Z) : str :=
  [hex_digit (n / 4096); hex_digit ((n / 256) mod 16); hex_digit ((n / 16) mod 16); hex_digit (n mod 16)].
Definition uesc (n : Z) : str := 92 :: 117 :: hex4 n.
Definition esc_char (c : Z) : str :=
  if c =? 34 then [92; 34]
  else if c =? 92 then [92; 92]
  else if c =? 10 then [92; 110]
  else if c =? 13 then [92; 114]
  else if c =? 9 then [92; 116]
  else if c =? 8 then [92; 98]
  else if c =? 12 then [92; 102]
  else if (32 <=? c) && (c <=? 126) then [c]
  else if c <? 65536 then uesc c
  else uesc (55296 + (c - 65536) / 1024) ++ uesc (56320 + (c - 65536) mod 1024).
Definition esc_str (s : str) : str := flat_map esc_char s.
Definition quote (s : str) : str := 34 :: esc_str s ++ [34].

Fixpoint uint_chars (u : uint) : str :=
  match u with
  | Nil => []
  | D0 u => 48 :: uint_chars u | D1 u => 49 :: uint_chars u | D2 u => 50 :: uint_chars u
  | D3 u => 51 :: uint_chars u | D4 u => 52 :: uint_chars u | D5 u => 53 :: uint_chars u
  | D6 u => 54 :: uint_chars u | D7 u => 55 :: uint_chars u | D8 u => 56 :: uint_chars u
  | D9 u => 57 :: uint_chars u
  end.

Definition ser_int (z : Z) : str :=
  match Z.to_int z with
  | Pos u => uint_chars u
  | Neg u => 45 :: uint_chars u
  end.

Definition ser_member {A : Type} (pv : nat -> A -> str) (i : nat) (m : str * A) : str :=
  quote (fst m) ++ [58; 32] ++ pv i (snd m).

Definition ser_obj {A : Type} (pv : nat -> A -> str) (i : nat) (ms : list (str * A)) : str :=
  match ms with
  | [] => [123; 125]
  | m :: r =>
      [123] ++ nl (S i) ++ ser_member pv (S i) m
      ++ flat_map (fun m' => [44] ++ nl (S i) ++ ser_member pv (S i) m') r
      ++ nl i ++ [125]
  end.

Definition ser_kval (i : nat) (v : kval) : str :=
  match v with
  | KStr s => quote s
  | KBool true => [116; 114; 117; 101]
  | KBool false => [102; 97; 108; 115; 101]
  | KInt z => ser_int z
  end.
Definition ser_fval (i : nat) (v : fval) : str :=
  match v with
  | FvInt z => ser_int z
  | FvKey d => ser_obj ser_kval i d
  end.
Definition ser_pdict (i : nat) (d : pdict) : str := ser_obj ser_fval i d.
Definition ser_kmap (i : nat) (m : kmap) : str := ser_obj ser_pdict i m.
Definition ser_db (d : db) : str := ser_obj ser_kmap 0 d.

(* ------------------------------------------------------------------ json.load, restricted to what the store writes *)
Inductive token := TLB | TRB | TColon | TComma | TStr (s : str) | TInt (z : Z) | TTrue | TFalse.

Inductive lmode := LIdle | LStr (acc : str) | LNum (neg : bool) (acc : str).

Definition is_digit (c : Z) : bool := (48 <=? c) && (c <=? 57).
Definition is_ws (c : Z) : bool := (c =? 32) || (c =? 10) || (c =? 13) || (c =? 9).

Definition digit_cons (c : Z) (u : uint) : option uint :=
  if c =? 48 then Some (D0 u) else if c =? 49 then Some (D1 u) else if c =? 50 then Some (D2 u)
  else if c =? 51 then Some (D3 u) else if c =? 52 then Some (D4 u) else if c =? 53 then Some (D5 u)
  else if c =? 54 then Some (D6 u) else if c =? 55 then Some (D7 u) else if c =? 56 then Some (D8 u)
  else if c =? 57 then Some (D9 u) else None.

Fixpoint chars_uint (s : str) : option uint :=
  match s with
  | [] => Some Nil
  | c :: r => match chars_uint r with Some u => digit_cons c u | None => None end
  end.

(* acc holds the digits read so far, most recent first *)
Definition num_tok (neg : bool) (acc : str) : option token :=
  match List.rev acc with
  | [] => None
  | ds => match chars_uint ds with
          | Some u => Some (TInt (Z.of_int (if neg then Neg u else Pos u)))
          | None => None
          end
  end.

Definition pre (ts : list token) (r : option (list token)) : option (list token) :=
  match r with Some l => Some (ts ++ l) | None => None end.

(* int(s[pos+1:pos+5], 16) of json.decoder._decode_uXXXX *)
Definition hex4_val (h1 h2 h3 h4 : Z) : option Z :=
  match hex_val h1, hex_val h2, hex_val h3, hex_val h4 with
  | Some a, Some b, Some c, Some d => Some (4096 * a + 256 * b + 16 * c + d)
  | _, _, _, _ => None
  end.
Definition is_high (n : Z) : bool := (55296 <=? n) && (n <=? 56319).
Definition is_low (n : Z) : bool := (56320 <=? n) && (n <=? 57343).
(* json.decoder.BACKSLASH *)
Definition simple_escape (e : Z) : option Z :=
  if e =? 34 then Some 34 else if e =? 92 then Some 92 else if e =? 47 then Some 47
  else if e =? 98 then Some 8 else if e =? 102 then Some 12 else if e =? 110 then Some 10
  else if e =? 114 then Some 13 else if e =? 116 then Some 9 else None.

Fixpoint lex (m : lmode) (bs : str) {struct bs} : option (list token) :=
  match bs with
  | [] =>
      match m with
      | LIdle => Some []
      | LStr _ => None
      | LNum neg acc => match num_tok neg acc with Some t => Some [t] | None => None end
      end
  | c :: r =>
      let idle :=
        if is_ws c then lex LIdle r
        else if c =? 123 then pre [TLB] (lex LIdle r)
        else if c =? 125 then pre [TRB] (lex LIdle r)
        else if c =? 58 then pre [TColon] (lex LIdle r)
        else if c =? 44 then pre [TComma] (lex LIdle r)
        else if c =? 34 then lex (LStr []) r
        else if c =? 45 then lex (LNum true []) r
        else if is_digit c then lex (LNum false [c]) r
        else if c =? 116 then
          match r with
          | c1 :: c2 :: c3 :: r' =>
              if (c1 =? 114) && (c2 =? 117) && (c3 =? 101) then pre [TTrue] (lex LIdle r') else None
          | _ => None
          end
        else if c =? 102 then
          match r with
          | c1 :: c2 :: c3 :: c4 :: r' =>
              if (c1 =? 97) && (c2 =? 108) && (c3 =? 115) && (c4 =? 101)
              then pre [TFalse] (lex LIdle r') else None
          | _ => None
          end
        else None in
      match m with
      | LIdle => idle
      | LStr acc =>                      (* json.decoder.py_scanstring, strict *)
          if c =? 34 then pre [TStr (List.rev acc)] (lex LIdle r)
          else if c =? 92 then
            match r with
            | e :: r1 =>
                if e =? 117 then
                  match r1 with
                  | h1 :: h2 :: h3 :: h4 :: r2 =>
                      match hex4_val h1 h2 h3 h4 with
                      | Some n =>
                          let plain := lex (LStr (n :: acc)) r2 in
                          if is_high n then
                            match r2 with
                            | b1 :: b2 :: l1 :: l2 :: l3 :: l4 :: r3 =>
                                if (b1 =? 92) && (b2 =? 117) then
                                  match hex4_val l1 l2 l3 l4 with
                                  | Some m =>
                                      if is_low m
                                      then lex (LStr (65536 + (n - 55296) * 1024 + (m - 56320) :: acc)) r3
                                      else plain
                                  | None => plain
                                  end
                                else plain
                            | _ => plain
                            end
                          else plain
                      | None => None
                      end
                  | _ => None
                  end
                else match simple_escape e with
                     | Some x => lex (LStr (x :: acc)) r1
                     | None => None
                     end
            | [] => None
            end
          else if 32 <=? c then lex (LStr (c :: acc)) r
          else None
      | LNum neg acc =>
          if is_digit c then lex (LNum neg (c :: acc)) r
          else match num_tok neg acc with Some t => pre [t] idle | None => None end
      end
  end.

(* members of a non-empty object after the opening brace *)
Fixpoint p_members {A : Type} (pv : list token -> option (A * list token)) (fuel : nat)
         (ts : list token) : option (list (str * A) * list token) :=
  match fuel with
  | O => None
  | S f =>
      match ts with
      | TStr k :: TColon :: r =>
          match pv r with
          | Some (v, TComma :: r') =>
              match p_members pv f r' with
              | Some (ms, r'') => Some ((k, v) :: ms, r'')
              | None => None
              end
          | Some (v, TRB :: r') => Some ([(k, v)], r')
          | _ => None
          end
      | _ => None
      end
  end.

Definition p_obj {A : Type} (pv : list token -> option (A * list token)) (ts : list token)
  : option (list (str * A) * list token) :=
  match ts with
  | TLB :: TRB :: r => Some ([], r)
  | TLB :: r => p_members pv (List.length r) r
  | _ => None
  end.

Definition p_kval (ts : list token) : option (kval * list token) :=
  match ts with
  | TStr s :: r => Some (KStr s, r)
  | TTrue :: r => Some (KBool true, r)
  | TFalse :: r => Some (KBool false, r)
  | TInt z :: r => Some (KInt z, r)
  | _ => None
  end.

Definition p_fval (ts : list token) : option (fval * list token) :=
  match ts with
  | TInt z :: r => Some (FvInt z, r)
  | TLB :: _ => match p_obj p_kval ts with Some (d, r) => Some (FvKey d, r) | None => None end
  | _ => None
  end.

Definition p_db (ts : list token) : option (db * list token) := p_obj (p_obj (p_obj p_fval)) ts.

(* json.load of the file as a database; None = not a database (json.load raises, or the
   shape is not namespace -> peer -> keys) *)
Definition parse (bs : str) : option db :=
  match lex LIdle bs with
  | Some ts => match p_db ts with Some (d, []) => Some d | _ => None end
  | None => None
  end.

(* ------------------------------------------------------------------ file system *)
Inductive path := PMain | PTmp.

Record fs := MkFs {
  f_dir : bool;               (* the directory of the file exists *)
  f_main : option str;        (* content of the key file, None = does not exist *)
  f_tmp : option str;         (* content of "<file>.tmp" *)
  f_buf : option (path * str) (* the open file object: which file it writes to and what it still holds
                                 in its userspace buffer (written, not yet flushed) *)
}.
Definition mkFs (d : bool) (m t : option str) : fs := MkFs d m t None.

Inductive step :=
| SMkdir
| SOpenTrunc (p : path)               (* open(p, 'w') *)
| SWrite (p : path) (c : str)         (* one write() into the file object's buffer *)
| SClose (p : path)                   (* close(): the buffer is flushed to the file *)
| SRename (src dst : path).           (* os.replace *)

Definition path_eqb (a b : path) : bool :=
  match a, b with PMain, PMain => true | PTmp, PTmp => true | _, _ => false end.
Definition fget (f : fs) (p : path) : option str :=
  match p with PMain => f_main f | PTmp => f_tmp f end.
Definition fset (f : fs) (p : path) (v : option str) : fs :=
  match p with
  | PMain => MkFs (f_dir f) v (f_tmp f) (f_buf f)
  | PTmp => MkFs (f_dir f) (f_main f) v (f_buf f)
  end.
Definition set_buf (f : fs) (b : option (path * str)) : fs := MkFs (f_dir f) (f_main f) (f_tmp f) b.

(* None = the step raises (OSError / ValueError on a closed file) *)
Definition exec_step (f : fs) (s : step) : option fs :=
  match s with
  | SMkdir => Some (MkFs true (f_main f) (f_tmp f) (f_buf f))
  | SOpenTrunc p => if f_dir f then Some (set_buf (fset f p (Some [])) (Some (p, []))) else None
  | SWrite p c =>
      match f_buf f with
      | Some (q, b) => if path_eqb p q then Some (set_buf f (Some (q, b ++ c))) else None
      | None => None
      end
  | SClose p =>
      match f_buf f with
      | Some (q, b) =>
          if path_eqb p q then
            match fget f q with
            | Some x => Some (set_buf (fset f q (Some (x ++ b))) None)
            | None => None
            end
          else None
      | None => None
      end
  | SRename a b =>
      match fget f a with
      | Some x =>
          Some (set_buf (fset (fset f b (Some x)) a None)
                        (match f_buf f with           (* an open descriptor follows the file *)
                         | Some (q, bb) => if path_eqb q a then Some (b, bb) else Some (q, bb)
                         | None => None
                         end))
      | None => None
      end
  end.

Fixpoint exec_steps (f : fs) (l : list step) : option fs :=
  match l with
  | [] => Some f
  | s :: r => match exec_step f s with Some f' => exec_steps f' r | None => None end
  end.

(* the process dies: of what the file object still holds, only the first [cut] bytes had been
   flushed by the runtime (any buffering policy is some [cut]); the rest is lost *)
Definition die (cut : nat) (f : fs) : fs :=
  match f_buf f with
  | Some (q, b) =>
      match fget f q with
      | Some x => set_buf (fset f q (Some (x ++ firstn cut b))) None
      | None => set_buf f None
      end
  | None => f
  end.

(* the process dies before step number k (0-based) completes; if that step is a write its chunk may
   already be in the buffer; [cut] as in [die] *)
Fixpoint crash_exec (k cut : nat) (l : list step) (f : fs) : option fs :=
  match l with
  | [] => Some (die cut f)
  | s :: r =>
      match k with
      | O => match s with
             | SWrite p c => match exec_step f s with Some f' => Some (die cut f') | None => None end
             | _ => Some (die cut f)
             end
      | S k' => match exec_step f s with Some f' => crash_exec k' cut r f' | None => None end
      end
  end.

(* the text cut into the chunks json.dump hands to write(): lens are the lengths of all
   chunks but the last *)
Fixpoint chunks (lens : list nat) (b : str) : list str :=
  match lens with
  | [] => [b]
  | n :: ls => firstn n b :: chunks ls (skipn n b)
  end.

(* JsonKeyStore.save *)
Definition save_steps (f : fs) (d : db) (lens : list nat) : list step :=
  (if f_dir f then [] else [SMkdir])
  ++ [SOpenTrunc PTmp]
  ++ map (SWrite PTmp) (chunks lens (ser_db d))
  ++ [SClose PTmp; SRename PTmp PMain].

(* the database a fresh store reads: missing file = empty database *)
Definition read_db (f : fs) : option db :=
  match f_main f with
  | None => Some []
  | Some b => parse b
  end.

(* ------------------------------------------------------------------ the store over the file system *)
Inductive item :=
| Do (h : str) (o : op) (lens : list nat)
| Crash (h : str) (o : op) (lens : list nat) (k cut : nat).

(* the steps an operation performs, when it gets as far as saving *)
Definition op_steps (f : fs) (h : str) (o : op) (lens : list nat) : list step :=
  match read_db f with
  | Some d => match a_apply d h o with
              | (Some d', _) => save_steps f d' lens
              | (None, _) => []
              end
  | None => []
  end.

Definition c_item (f : fs) (it : item) : fs * out :=
  let '(h, o, lens, crash) :=
    match it with
    | Do h o lens => (h, o, lens, None)
    | Crash h o lens k cut => (h, o, lens, Some (k, cut))
    end in
  match read_db f with
  | None => (f, OBadFile)
  | Some d =>
      match a_apply d h o with
      | (None, r) => (f, r)
      | (Some d', r) =>
          let steps := save_steps f d' lens in
          match crash with
          | None =>
              match exec_steps f steps with Some f' => (f', r) | None => (f, OFsError) end
          | Some (k, cut) =>
              if (k <? List.length steps)%nat then
                match crash_exec k cut steps f with Some f' => (f', OCrashed) | None => (f, OFsError) end
              else
                match exec_steps f steps with Some f' => (f', r) | None => (f, OFsError) end
          end
      end
  end.

Fixpoint c_run (f : fs) (l : list item) : fs * list out :=
  match l with
  | [] => (f, [])
  | it :: r =>
      let '(f1, o) := c_item f it in
      let '(f2, os) := c_run f1 r in
      (f2, o :: os)
  end.

(* the same history on the abstract database: [commits] says, for each crashed
   operation, whether it took effect *)
Definition item_hop (it : item) : str * op :=
  match it with Do h o _ => (h, o) | Crash h o _ _ _ => (h, o) end.

Fixpoint a_run (d : db) (l : list item) (commits : list bool) : db * list out :=
  match l with
  | [] => (d, [])
  | Do h o _ :: r =>
      let '(d1, x) := a_step d h o in
      let '(d2, xs) := a_run d1 r commits in
      (d2, x :: xs)
  | Crash h o _ _ _ :: r =>
      match commits with
      | true :: cs =>
          let '(d1, x) := a_step d h o in
          let '(d2, xs) := a_run d1 r cs in
          (d2, x :: xs)
      | _ :: cs =>
          let '(d2, xs) := a_run d r cs in
          (d2, (match fst (a_apply d h o) with Some _ => OCrashed | None => snd (a_apply d h o) end) :: xs)
      | [] => (d, [])
      end
  end.

(* ------------------------------------------------------------------ observation helpers for the harness *)
Definition key_obs (k : pkey) := (k_value k, k_auth k, k_ediv k, k_rand k).
Definition keys_obs (k : pkeys) :=
  (address_type k, option_map key_obs (ltk k), option_map key_obs (ltk_central k),
   option_map key_obs (ltk_peripheral k), option_map key_obs (irk k), option_map key_obs (csrk k),
   option_map key_obs (link_key k), link_key_type k).
(* (tag, get result, get_all result): tag 0 done, 1 KeyError, 2 get, 3 get_all, 4 bad keys,
   5 bad file, 6 fs error, 7 crashed *)
Definition out_obs (x : out) :=
  match x with
  | ODone => (0, None, [])
  | OKeyError => (1, None, [])
  | OGet r => (2, option_map keys_obs r, [])
  | OAll l => (3, None, map (fun nk => (fst nk, keys_obs (snd nk))) l)
  | OBadKeys => (4, None, [])
  | OBadFile => (5, None, [])
  | OFsError => (6, None, [])
  | OCrashed => (7, None, [])
  end.

Definition checksum (b : str) : Z :=
  fold_left (fun a c => (a * 257 + c + 1) mod 2147483647) b 0.

Definition obs_file (o : option str) : option (Z * Z) :=
  match o with Some b => Some (Z.of_nat (List.length b), checksum b) | None => None end.

Definition step_code (s : step) : Z * Z :=
  let pc p := match p with PMain => 0 | PTmp => 1 end in
  match s with
  | SMkdir => (0, 0)
  | SOpenTrunc p => (10 + pc p, 0)
  | SWrite p c => (20 + pc p, Z.of_nat (List.length c))
  | SClose p => (30 + pc p, 0)
  | SRename a b => (40 + 2 * pc a + pc b, 0)
  end.

Fixpoint is_prefix (a b : str) : bool :=
  match a, b with
  | [], _ => true
  | x :: a', y :: b' => Z.eqb x y && is_prefix a' b'
  | _ :: _, [] => false
  end.

Definition opt_str_eqb (a b : option str) : bool :=
  match a, b with
  | None, None => true
  | Some x, Some y => str_eqb x y
  | _, _ => false
  end.

(* state after a crash, relative to the state before and the complete new file:
   (directory exists, key file: 0 missing / 1 as before / 2 the new text / 3 anything else,
    tmp file: None or (length, is a prefix of the new text)) *)
Definition crash_tag (f0 : fs) (new : str) (r : option fs) : option (bool * Z * option (Z * bool)) :=
  match r with
  | None => None
  | Some f =>
      Some (f_dir f,
            (match f_main f with
             | None => 0
             | Some b => if opt_str_eqb (Some b) (f_main f0) then 1
                         else if str_eqb b new then 2 else 3
             end),
            match f_tmp f with
            | None => None
            | Some t => Some (Z.of_nat (List.length t), is_prefix t new)
            end)
  end.

(* the state after a crash at each of the given (step number, cut) points of one operation *)
Definition crash_table (f : fs) (h : str) (o : op) (lens : list nat) (points : list (nat * nat))
  : list (option (bool * Z * option (Z * bool))) :=
  let steps := op_steps f h o lens in
  let new := match read_db f with
             | Some d => match a_apply d h o with (Some d', _) => ser_db d' | _ => [] end
             | None => []
             end in
  map (fun kc => crash_tag f new (crash_exec (fst kc) (snd kc) steps f)) points.

(* ------------------------------------------------------------------ KeyStore.get_resolving_keys, JsonKeyStore.from_device *)
Definition RANDOM_DEVICE_ADDRESS : Z := 1.

(* the (irk value, name, address type) triples handed to hci.Address, from get_all's result *)
Fixpoint resolving_keys (l : list (str * pkeys)) : list (list Z * str * Z) :=
  match l with
  | [] => []
  | (name, k) :: r =>
      match irk k with
      | Some key =>
          (k_value key, name, match address_type k with Some t => t | None => RANDOM_DEVICE_ADDRESS end)
          :: resolving_keys r
      | None => resolving_keys r
      end
  end.

Definition resolving_of (x : out) : option (list (list Z * str * Z)) :=
  match x with OAll l => Some (resolving_keys l) | _ => None end.

(* from_device: namespace from the device addresses (pub_any: the public address is one of
   Address.ANY / ANY_RANDOM; rnd_any: the random address is ANY_RANDOM) *)
Definition from_device_ns (pub_any : bool) (pub : str) (rnd_any : bool) (rnd : str) : str :=
  if negb pub_any then pub else if negb rnd_any then rnd else DEFAULT_NAMESPACE.

(* device.config.keystore.split(':', 1)[1:] -> the filename parameter, if any *)
Fixpoint after_colon (cfg : str) : option str :=
  match cfg with
  | [] => None
  | c :: r => if c =? 58 then Some r else after_colon r
  end.
(* `if not filename`: an explicit filename wins, an empty parameter counts as none *)
Definition from_device_filename (explicit : option str) (cfg : option str) : option str :=
  let nonempty o := match o with Some [] => None | x => x end in
  match nonempty explicit with
  | Some f => Some f
  | None => match cfg with Some c => nonempty (after_colon c) | None => None end
  end.

(* ------------------------------------------------------------------ the shape of the code, for the source translator
   (tools/translate/c15_source.py regenerates Gen/C15Source.v from keys.py on every run;
   Props/C15.v compares) *)
Definition fval_kind (v : fval) : Z := match v with FvInt _ => 0 | FvKey _ => 1 end.
Definition full_key : pkey := mkKey [171] true (Some 7) (Some [205]).
Definition min_key : pkey := mkKey [171] false None None.
Definition full_keys : pkeys :=
  mkKeys (Some 1) (Some full_key) (Some full_key) (Some full_key) (Some full_key) (Some full_key)
         (Some full_key) (Some 2).
(* members PairingKeys.to_dict writes: (name, 0 plain value / 1 key object), sorted by name *)
Definition to_dict_shape : list (str * Z) := map (fun m => (fst m, fval_kind (snd m))) (to_dict full_keys).
(* members Key.to_dict writes: (name, (always written, hex string)), sorted by name *)
Definition key_to_dict_shape : list (str * (bool * bool)) :=
  map (fun m => (fst m, (has (fst m) (key_to_dict min_key),
                          match snd m with KStr _ => true | _ => false end))) (key_to_dict full_key).
(* the members from_dict / Key.from_dict read back: exactly those written *)
Definition from_dict_reads_all : bool :=
  match from_dict (to_dict full_keys) with
  | Some k => match ltk k, address_type k, link_key_type k with
              | Some x, Some 1, Some 2 =>
                  str_eqb (k_value x) [171] && k_auth x
                  && match k_ediv x, k_rand x with Some 7, Some [205] => true | _, _ => false end
              | _, _, _ => false
              end
  | None => false
  end.
Definition key_auth_default : option bool :=
  option_map k_auth (key_from_dict [(F_value, KStr [])]).

(* sort (name, x) pairs by name *)
Definition sort_by_name {A : Type} (l : list (str * A)) : list (str * A) :=
  fold_right (fun m acc => ins (fst m) (snd m) acc) [] l.

(* step kinds of save when the directory is missing: guarded mkdir, open tmp 'w', write,
   close (end of with), os.replace(tmp, file) *)
Definition save_shape : list Z :=
  map (fun st => fst (step_code st)) (save_steps (mkFs false None None) [] []).

(* load: (condition, result) of each return, in order.
   conditions: 1 `self.namespace in db`; 2 `self.namespace == self.DEFAULT_NAMESPACE and
   len(db) == ADOPT_COUNT`; 0 otherwise.  results: 1 (db, db[self.namespace]);
   2 (db, next(iter(db.values()))); 3 (db, key_map) after db[self.namespace] = key_map = {} *)
Definition LOAD_SKELETON : list (Z * Z) := [(1, 1); (2, 2); (0, 3)].
(* the operations: 1 `db, key_map = await self.load()`; 2 `await self.save(db)`;
   10 key_map.setdefault(name, {}).update(keys.to_dict()); 11 del key_map[name];
   12 key_map.clear(); 20 `if name not in key_map: return None`;
   21 return PairingKeys.from_dict(key_map[name]);
   22 return [(name, PairingKeys.from_dict(keys)) for (name, keys) in key_map.items()] *)
Definition OPS_SKELETON : list (str * list Z) :=
  [(S_ "update", [1; 10; 2]); (S_ "delete", [1; 11; 2]); (S_ "delete_all", [1; 12; 2]);
   (S_ "get", [1; 20; 21]); (S_ "get_all", [1; 22])].
(* json.dump(db, output, sort_keys=True, indent=4): (sort_keys, indent, ensure_ascii) *)
Definition DUMP_ARGS : bool * Z * bool :=
  (true, Z.of_nat INDENT, forallb (fun c => c <? 128) (esc_char 233)).
Definition TMP_SUFFIX : str := S_ ".tmp".

(* ------------------------------------------------------------------ trace for the harness *)
(* per item: result, (dir, file, tmp) observation, steps performed, crash table,
   get_resolving_keys of a get_all result *)
Fixpoint c_trace (f : fs) (l : list (item * list (nat * nat)))
  :=
  match l with
  | [] => ([], f)
  | (it, points) :: r =>
      let '(h, o, lens) := match it with Do h o lens => (h, o, lens) | Crash h o lens _ _ => (h, o, lens) end in
      let steps := op_steps f h o lens in
      let tbl := crash_table f h o lens points in
      let '(f1, x) := c_item f it in
      let '(rest, f2) := c_trace f1 r in
      ((out_obs x, (f_dir f1, obs_file (f_main f1), obs_file (f_tmp f1)), map step_code steps, tbl,
        resolving_of x) :: rest, f2)
  end.

Definition nats (l : list Z) : list nat := map Z.to_nat l.
Definition nat_pairs (l : list (Z * Z)) : list (nat * nat) :=
  map (fun p => (Z.to_nat (fst p), Z.to_nat (snd p))) l.

