(* Model of bumble/link.py LocalLink and the link-facing part of bumble/controller.py
   Controller (with bumble/ll.py and bumble/lmp.py messages) as executable Gallina.
   No proofs.  The code modelled is the tree AFTER fixes/D06a.patch and fixes/D06b.patch.

   System = a list of controllers (any number) + the messages in flight on the link.
   LocalLink delivers with loop.call_soon; the model keeps every message in flight in
   one list [net] of (source, destination, message) and lets a schedule deliver the
   k-th one provided no earlier message of the same (source, destination) pair is
   still waiting: per-pair FIFO, arbitrary delays otherwise.  A label whose
   precondition fails is a stutter.

   Addresses are opaque integers (the harness encodes bytes + public/random kind, which
   is exactly what hci.Address.__eq__ compares).  Byte strings are lists of integers.

   What a label is: one atomic callback of the implementation
     - an HCI command / ACL packet arriving at a controller from its host,
     - an advertising timer firing,
     - one link message being delivered to a controller.
   Outputs are the HCI events the controllers hand to their hosts, in emission order,
   tagged with the controller.  [EError] stands for an exception that escapes the
   callback (the state is what the code leaves behind at the raise).  The tree modelled is
   /repo after the controller fixes of property C03 (a PDU for a controller that is not on
   the link is dropped, Create Connection checks for an existing connection and ends in Page
   Timeout when nobody owns the address, Disconnect of an unknown handle is refused).

   Abstractions (stated in docs/C06.md): connection parameters, PHYs, RSSI, encryption, feature exchange, role switch and HCI command-complete events of
   configuration commands are not modelled; an ACL label is one complete PDU
   (fragmentation and reassembly belong to property C05). *)
From Coq Require Import ZArith List Bool.
Import ListNotations.
Open Scope Z_scope.

Definition bytes := list Z.

(* ------------------------------------------------------------------ controller state *)
Record conn := mkConn {
  k_peer : Z;          (* key of the table: peer address *)
  k_self : Z;          (* Connection.self_address *)
  k_handle : Z;        (* 0 while a BR/EDR connection is being set up *)
  k_central : bool     (* role *)
}.

Record advset := mkSet {
  a_handle : Z;
  a_params : option bool;   (* None: no parameters yet; Some p: own address type public? *)
  a_random : option Z;      (* AdvertisingSet.random_address *)
  a_data : bytes;
  a_srsp : bytes;
  a_enabled : bool
}.

Record ctrl := mkCtrl {
  c_public : Z;
  c_random : Z;
  c_leg_pub : bool;         (* legacy advertiser: own_address_type == PUBLIC *)
  c_leg_advind : bool;      (* advertising_type == ADV_IND *)
  c_leg_data : bytes;
  c_leg_srsp : bytes;
  c_leg_enabled : bool;
  c_sets : list advset;     (* advertising_sets, insertion order *)
  c_scan : bool;            (* le_scan_enable *)
  c_active : bool;          (* le_scan_type == ACTIVE *)
  c_extrep : bool;          (* le_features has LE_EXTENDED_ADVERTISING: extended reports *)
  c_pending : option (Z * bool);   (* pending_le_connection: peer address, own address public? *)
  c_le : list conn;         (* le_connections, insertion order, keyed by k_peer *)
  c_cl : list conn;         (* classic_connections *)
  c_lmp : list (Z * bool);  (* classic_pending_commands[peer][HOST_CONNECTION_REQ]: future done? *)
  c_sco : list conn;        (* sco_links, keyed by k_peer; k_central = link type is eSCO, k_self unused (0);
                               k_handle = 0 while the link is being set up *)
  c_cis : list (Z * Z * Z); (* central_cis_links: (handle, cig id, cis id), insertion order, keyed by handle;
                               peripheral_cis_links are not modelled (always empty) *)
  c_lmp_sco : list (Z * bool) (* classic_pending_commands[peer][ESCO_LINK_REQ]: future done? *)
}.

Definition new_ctrl (pub rnd : Z) (extrep : bool) : ctrl :=
  mkCtrl pub rnd true true [] [] false [] false false extrep None [] [] [] [] [] [].

(* field updates *)
Definition set_random (c : ctrl) (a : Z) : ctrl :=
  mkCtrl (c_public c) a (c_leg_pub c) (c_leg_advind c) (c_leg_data c) (c_leg_srsp c) (c_leg_enabled c)
         (c_sets c) (c_scan c) (c_active c) (c_extrep c) (c_pending c) (c_le c) (c_cl c) (c_lmp c) (c_sco c) (c_cis c) (c_lmp_sco c).
Definition set_leg (c : ctrl) (pub advind : bool) (data srsp : bytes) (en : bool) : ctrl :=
  mkCtrl (c_public c) (c_random c) pub advind data srsp en
         (c_sets c) (c_scan c) (c_active c) (c_extrep c) (c_pending c) (c_le c) (c_cl c) (c_lmp c) (c_sco c) (c_cis c) (c_lmp_sco c).
Definition set_sets (c : ctrl) (sets : list advset) : ctrl :=
  mkCtrl (c_public c) (c_random c) (c_leg_pub c) (c_leg_advind c) (c_leg_data c) (c_leg_srsp c) (c_leg_enabled c)
         sets (c_scan c) (c_active c) (c_extrep c) (c_pending c) (c_le c) (c_cl c) (c_lmp c) (c_sco c) (c_cis c) (c_lmp_sco c).
Definition set_scan (c : ctrl) (scan active : bool) : ctrl :=
  mkCtrl (c_public c) (c_random c) (c_leg_pub c) (c_leg_advind c) (c_leg_data c) (c_leg_srsp c) (c_leg_enabled c)
         (c_sets c) scan active (c_extrep c) (c_pending c) (c_le c) (c_cl c) (c_lmp c) (c_sco c) (c_cis c) (c_lmp_sco c).
Definition set_pending (c : ctrl) (p : option (Z * bool)) : ctrl :=
  mkCtrl (c_public c) (c_random c) (c_leg_pub c) (c_leg_advind c) (c_leg_data c) (c_leg_srsp c) (c_leg_enabled c)
         (c_sets c) (c_scan c) (c_active c) (c_extrep c) p (c_le c) (c_cl c) (c_lmp c) (c_sco c) (c_cis c) (c_lmp_sco c).
Definition set_le (c : ctrl) (le : list conn) : ctrl :=
  mkCtrl (c_public c) (c_random c) (c_leg_pub c) (c_leg_advind c) (c_leg_data c) (c_leg_srsp c) (c_leg_enabled c)
         (c_sets c) (c_scan c) (c_active c) (c_extrep c) (c_pending c) le (c_cl c) (c_lmp c) (c_sco c) (c_cis c) (c_lmp_sco c).
Definition set_cl (c : ctrl) (cl : list conn) : ctrl :=
  mkCtrl (c_public c) (c_random c) (c_leg_pub c) (c_leg_advind c) (c_leg_data c) (c_leg_srsp c) (c_leg_enabled c)
         (c_sets c) (c_scan c) (c_active c) (c_extrep c) (c_pending c) (c_le c) cl (c_lmp c) (c_sco c) (c_cis c) (c_lmp_sco c).
Definition set_lmp (c : ctrl) (l : list (Z * bool)) : ctrl :=
  mkCtrl (c_public c) (c_random c) (c_leg_pub c) (c_leg_advind c) (c_leg_data c) (c_leg_srsp c) (c_leg_enabled c)
         (c_sets c) (c_scan c) (c_active c) (c_extrep c) (c_pending c) (c_le c) (c_cl c) l (c_sco c) (c_cis c) (c_lmp_sco c).

Definition set_sco (c : ctrl) (t : list conn) : ctrl :=
  mkCtrl (c_public c) (c_random c) (c_leg_pub c) (c_leg_advind c) (c_leg_data c) (c_leg_srsp c) (c_leg_enabled c)
         (c_sets c) (c_scan c) (c_active c) (c_extrep c) (c_pending c) (c_le c) (c_cl c) (c_lmp c) t (c_cis c) (c_lmp_sco c).
Definition set_cis (c : ctrl) (t : list (Z * Z * Z)) : ctrl :=
  mkCtrl (c_public c) (c_random c) (c_leg_pub c) (c_leg_advind c) (c_leg_data c) (c_leg_srsp c) (c_leg_enabled c)
         (c_sets c) (c_scan c) (c_active c) (c_extrep c) (c_pending c) (c_le c) (c_cl c) (c_lmp c) (c_sco c) t (c_lmp_sco c).
Definition set_lmp_sco (c : ctrl) (l : list (Z * bool)) : ctrl :=
  mkCtrl (c_public c) (c_random c) (c_leg_pub c) (c_leg_advind c) (c_leg_data c) (c_leg_srsp c) (c_leg_enabled c)
         (c_sets c) (c_scan c) (c_active c) (c_extrep c) (c_pending c) (c_le c) (c_cl c) (c_lmp c) (c_sco c) (c_cis c) l.

(* ------------------------------------------------------------------ Python dict semantics *)
Fixpoint tbl_get (t : list conn) (peer : Z) : option conn :=
  match t with
  | [] => None
  | k :: t' => if k_peer k =? peer then Some k else tbl_get t' peer
  end.

(* d[key] = value : replace in place when the key exists, else append *)
Fixpoint tbl_set (t : list conn) (k : conn) : list conn :=
  match t with
  | [] => [k]
  | k0 :: t' => if k_peer k0 =? k_peer k then k :: t' else k0 :: tbl_set t' k
  end.

Fixpoint tbl_del (t : list conn) (peer : Z) : list conn :=
  match t with
  | [] => []
  | k :: t' => if k_peer k =? peer then t' else k :: tbl_del t' peer
  end.

Fixpoint by_handle (t : list conn) (h : Z) : option conn :=
  match t with
  | [] => None
  | k :: t' => if k_handle k =? h then Some k else by_handle t' h
  end.

Fixpoint set_get (l : list advset) (h : Z) : option advset :=
  match l with
  | [] => None
  | s :: l' => if a_handle s =? h then Some s else set_get l' h
  end.

Fixpoint set_put (l : list advset) (s : advset) : list advset :=
  match l with
  | [] => [s]
  | s0 :: l' => if a_handle s0 =? a_handle s then s :: l' else s0 :: set_put l' s
  end.

Fixpoint set_del (l : list advset) (h : Z) : list advset :=
  match l with
  | [] => []
  | s :: l' => if a_handle s =? h then l' else s :: set_del l' h
  end.

Fixpoint lmp_get (l : list (Z * bool)) (peer : Z) : option bool :=
  match l with
  | [] => None
  | (p, d) :: l' => if p =? peer then Some d else lmp_get l' peer
  end.

Fixpoint lmp_set (l : list (Z * bool)) (peer : Z) (d : bool) : list (Z * bool) :=
  match l with
  | [] => [(peer, d)]
  | (p, d0) :: l' => if p =? peer then (p, d) :: l' else (p, d0) :: lmp_set l' peer d
  end.

Definition zmem (x : Z) (l : list Z) : bool := existsb (Z.eqb x) l.

(* ------------------------------------------------------------------ handle allocation *)
(* Controller.allocate_connection_handle: the smallest handle in 1..0xEFF that no
   LE / classic connection, SCO link or CIS link uses.  None = the generator is exhausted
   (StopIteration in the code). *)
Definition max_handle : Z := 3839.

Fixpoint first_free (fuel : nat) (h : Z) (used : list Z) : option Z :=
  match fuel with
  | O => None
  | S f => if zmem h used then first_free f (h + 1) used else Some h
  end.

Definition cis_handle (x : Z * Z * Z) : Z := fst (fst x).

(* every table the code allocates handles for: le_connections, classic_connections, sco_links,
   central_cis_links (peripheral_cis_links is not modelled and always empty) *)
Definition handles (c : ctrl) : list Z :=
  map k_handle (c_le c) ++ map k_handle (c_cl c) ++ map k_handle (c_sco c) ++ map cis_handle (c_cis c).

Definition alloc (c : ctrl) : option Z := first_free (Z.to_nat max_handle) 1 (handles c).

(* Controller.find_connection_by_handle: LE table first, then classic *)
Definition conn_by_handle (c : ctrl) (h : Z) : option (bool * conn) :=
  match by_handle (c_le c) h with
  | Some k => Some (true, k)
  | None => match by_handle (c_cl c) h with Some k => Some (false, k) | None => None end
  end.

(* ------------------------------------------------------------------ advertisers *)
Definition leg_address (c : ctrl) : Z := if c_leg_pub c then c_public c else c_random c.

Definition set_address (c : ctrl) (s : advset) : option Z :=
  match a_params s with
  | None => None
  | Some true => Some (c_public c)
  | Some false => a_random s
  end.

Definition opt_eqb (o : option Z) (a : Z) : bool :=
  match o with Some x => x =? a | None => false end.

Fixpoint find_set (c : ctrl) (l : list advset) (adv : Z) : option advset :=
  match l with
  | [] => None
  | s :: l' => if andb (opt_eqb (set_address c s) adv) (a_enabled s) then Some s else find_set c l' adv
  end.

Definition disable_set (s : advset) : advset :=
  mkSet (a_handle s) (a_params s) (a_random s) (a_data s) (a_srsp s) false.
Definition enable_set (s : advset) : advset :=
  mkSet (a_handle s) (a_params s) (a_random s) (a_data s) (a_srsp s) true.

(* ------------------------------------------------------------------ messages, events, labels *)
Inductive msg :=
| MAdv (adv : Z) (data srsp : bytes)       (* ll.AdvInd *)
| MConnInd (init adv : Z)                  (* ll.ConnectInd *)
| MTerm (sender reason : Z)                (* ll.TerminateInd via send_ll_control_pdu *)
| MAcl (src : Z) (le : bool) (data : bytes)(* send_acl_data *)
| MLmpConnReq (sender : Z)                 (* lmp.LmpHostConnectionReq *)
| MLmpAccepted (sender : Z)                (* lmp.LmpAccepted(LMP_HOST_CONNECTION_REQ) *)
| MLmpDetach (sender reason : Z)           (* lmp.LmpDetach *)
| MLmpEscoReq (sender : Z)                 (* lmp.LmpEscoLinkReq *)
| MLmpAcceptedEsco (sender : Z)            (* lmp.LmpAcceptedExt(LMP_ESCO_LINK_REQ) *)
| MLmpRemoveSco (sender reason : Z).       (* lmp.LmpRemoveScoLinkReq / LmpRemoveEscoLinkReq *)

Definition packet := (nat * nat * msg)%type.     (* source, destination *)

Inductive ev :=
| EStatus (code : Z)                       (* HCI_Command_Status of a connection-management command *)
| ELeConn (handle : Z) (central : bool) (peer : Z)
| ELeConnFail (status peer : Z)            (* LE Connection Complete with an error status *)
| ESetTerminated (adv_handle conn_handle : Z)
| EDisc (handle reason : Z)
| EAcl (handle : Z) (data : bytes)         (* ACL data packet to the host *)
| ECompleted (handle : Z)                  (* number of completed packets *)
| EAdvReport (ext rsp : bool) (adv : Z) (data : bytes)
| EClReq (peer : Z)
| EClConn (handle peer : Z)
| EClFail (status peer : Z)                (* Connection Complete with an error status *)
| EScoReq (peer : Z)                       (* Connection Request, link type eSCO *)
| EScoConn (handle peer : Z)               (* Synchronous Connection Complete, success *)
| ECig (handles : list Z)                  (* return parameters of LE Set CIG Parameters *)
| EError (what : Z).                       (* exception escapes the callback *)

Inductive label :=
| LSetRandom (i : nat) (a : Z)
| LAdvParams (i : nat) (own_pub advind : bool)
| LAdvData (i : nat) (d : bytes)
| LScanRsp (i : nat) (d : bytes)
| LAdvEnable (i : nat) (b : bool)
| LExtRandom (i : nat) (h a : Z)
| LExtParams (i : nat) (h : Z) (own_pub : bool)
| LExtData (i : nat) (h : Z) (first : bool) (d : bytes)   (* first/complete: replace, else extend *)
| LExtSrsp (i : nat) (h : Z) (first : bool) (d : bytes)
| LExtEnable (i : nat) (b : bool) (hs : list Z)
| LExtRemove (i : nat) (h : Z)
| LExtClear (i : nat)
| LTick (i : nat)                          (* legacy advertising timer fires *)
| LExtTick (i : nat) (h : Z)               (* advertising set timer fires *)
| LScanParams (i : nat) (active : bool)
| LScanEnable (i : nat) (b : bool)
| LConnect (i : nat) (peer : Z) (own_pub : bool)  (* LE (Extended) Create Connection *)
| LCancel (i : nat)                        (* LE Create Connection Cancel *)
| LAcl (i : nat) (h : Z) (d : bytes)       (* one complete PDU from the host *)
| LDisconnect (i : nat) (h reason : Z)
| LClConnect (i : nat) (peer : Z)          (* Create Connection *)
| LClAccept (i : nat) (peer : Z)           (* Accept Connection Request, role = peripheral *)
| LScoSetup (i : nat) (h : Z)              (* Enhanced Setup Synchronous Connection on ACL handle h *)
| LScoAccept (i : nat) (peer : Z)          (* Enhanced Accept Synchronous Connection Request *)
| LSetCig (i : nat) (cig : Z) (cis : list Z)  (* LE Set CIG Parameters *)
| LRemoveCig (i : nat) (cig : Z)           (* LE Remove CIG *)
| LDeliver (k : nat).                      (* deliver the k-th message in flight *)

Record state := mkState { st_cs : list ctrl; st_net : list packet }.

(* ------------------------------------------------------------------ link routing *)
Fixpoint upd (cs : list ctrl) (i : nat) (c : ctrl) : list ctrl :=
  match cs, i with
  | [], _ => []
  | _ :: cs', O => c :: cs'
  | c0 :: cs', S i' => c0 :: upd cs' i' c
  end.

Definition has_self (a : Z) (c : ctrl) : bool := existsb (fun k => k_self k =? a) (c_le c).

(* LocalLink.find_le_controller: first controller holding an LE connection whose
   self_address is the address (the code iterates a set; with the address discipline
   of the theorems at most one controller qualifies) *)
Fixpoint find_index (f : ctrl -> bool) (cs : list ctrl) (n : nat) : option nat :=
  match cs with
  | [] => None
  | c :: cs' => if f c then Some n else find_index f cs' (S n)
  end.

Definition find_le (cs : list ctrl) (a : Z) : option nat := find_index (has_self a) cs 0.

(* LocalLink.find_classic_controller *)
Definition find_classic (cs : list ctrl) (a : Z) : option nat :=
  find_index (fun c => c_public c =? a) cs 0.

(* LocalLink.send_advertising_pdu: every controller but the sender *)
Definition broadcast (n : nat) (i : nat) (m : msg) : list packet :=
  map (fun j => (i, j, m)) (filter (fun j => negb (Nat.eqb j i)) (seq 0 n)).

(* ------------------------------------------------------------------ per-controller handlers *)
(* Each returns the new controller, the events for its host and the messages sent.
   [cs] is the list of all controllers at the time of the call (routing looks at it). *)
Definition result := (ctrl * list ev * list packet)%type.

(* Controller.create_le_connection, called from on_advertising_pdu *)
Definition create_le_connection (n i : nat) (c : ctrl) (peer : Z) (own_pub : bool) : result :=
  match tbl_get (c_le c) peer with
  | Some _ => (c, [], [])                               (* "Connection already exists?" *)
  | None =>
      let self := if own_pub then c_public c else c_random c in
      match alloc c with
      | None => (c, [EError 1], [])
      | Some h =>
          let c1 := set_le c (tbl_set (c_le c) (mkConn peer self h true)) in
          (set_pending c1 None, [ELeConn h true peer], broadcast n i (MConnInd self peer))
      end
  end.

(* Controller.on_advertising_pdu (after D06b: the scan-response report carries the
   advertiser's scan-response data and is made only when scanning actively) *)
Definition on_adv (n i : nat) (c : ctrl) (adv : Z) (data srsp : bytes) : result :=
  let reports :=
    if c_scan c then
      EAdvReport (c_extrep c) false adv data ::
      (if c_active c then [EAdvReport (c_extrep c) true adv srsp] else [])
    else [] in
  match c_pending c with
  | Some (peer, own_pub) =>
      if peer =? adv then
        let '(c', evs, out) := create_le_connection n i c adv own_pub in (c', reports ++ evs, out)
      else (c, reports, [])
  | None => (c, reports, [])
  end.

(* the answer to a ConnectInd for one of our addresses that is not being advertised (D06d):
   a TerminateInd (0x3E, connection failed to be established) routed like every control PDU *)
Definition own_address (c : ctrl) (a : Z) : bool :=
  orb (orb (a =? c_public c) (a =? c_random c))
      (existsb (fun s => opt_eqb (set_address c s) a) (c_sets c)).

Definition refuse (cs : list ctrl) (j : nat) (c : ctrl) (init adv : Z) : list packet :=
  if own_address c adv then
    match find_le cs init with
    | Some i => [(j, i, MTerm adv 62)]
    | None => []
    end
  else [].

(* Controller.on_le_connect_ind *)
Definition on_connect_ind (cs : list ctrl) (j : nat) (c : ctrl) (init adv : Z) : result :=
  if andb (leg_address c =? adv) (c_leg_enabled c) then
    match alloc c with
    | None => (c, [EError 1], [])
    | Some h =>
        let c1 := set_le c (tbl_set (c_le c) (mkConn init adv h false)) in
        (set_leg c1 (c_leg_pub c) (c_leg_advind c) (c_leg_data c) (c_leg_srsp c) false,
         [ELeConn h false init], [])
    end
  else
    match find_set c (c_sets c) adv with
    | None => (c, [], refuse cs j c init adv)           (* not sent to us, or no longer advertised *)
    | Some s =>
        match alloc c with
        | None => (c, [EError 1], [])
        | Some h =>
            let c1 := set_le c (tbl_set (c_le c) (mkConn init adv h false)) in
            (set_sets c1 (set_put (c_sets c) (disable_set s)),
             [ELeConn h false init; ESetTerminated (a_handle s) h], [])
        end
    end.

(* Controller.on_ll_control_pdu, TerminateInd *)
Definition on_terminate (c : ctrl) (sender reason : Z) : result :=
  match tbl_get (c_le c) sender with
  | None => (c, [], [])
  | Some k => (set_le c (tbl_del (c_le c) sender), [EDisc (k_handle k) reason], [])
  end.

(* Controller.on_link_acl_data *)
Definition on_acl (c : ctrl) (src : Z) (le : bool) (data : bytes) : result :=
  match tbl_get (if le then c_le c else c_cl c) src with
  | None => (c, [], [])
  | Some k => (c, [EAcl (k_handle k) data], [])
  end.

(* Controller.on_classic_connection_complete(peer, SUCCESS) *)
Definition classic_complete (c : ctrl) (peer : Z) : ctrl * list ev :=
  match alloc c with
  | None => (c, [EError 1])
  | Some h =>
      match tbl_get (c_cl c) peer with
      | Some k => (set_cl c (tbl_set (c_cl c) (mkConn peer (k_self k) h (k_central k))), [EClConn h peer])
      | None => (set_cl c (tbl_set (c_cl c) (mkConn peer (c_public c) h true)), [EClConn h peer])
      end
  end.

(* Controller.on_lmp_packet *)
Definition on_lmp_conn_req (c : ctrl) (sender : Z) : result :=
  (set_cl c (tbl_set (c_cl c) (mkConn sender (c_public c) 0 false)), [EClReq sender], []).

Definition on_lmp_accepted (c : ctrl) (sender : Z) : result :=
  match lmp_get (c_lmp c) sender with
  | None => (c, [], [])                                 (* "Unhandled packet" *)
  | Some true => (c, [EError 2], [])                    (* set_result on a finished future *)
  | Some false =>
      let '(c', evs) := classic_complete (set_lmp c (lmp_set (c_lmp c) sender true)) sender in
      (c', evs, [])
  end.

Definition on_lmp_detach (c : ctrl) (sender : Z) : result :=
  match tbl_get (c_cl c) sender with
  | None => (c, [], [])
  | Some k => (set_cl c (tbl_del (c_cl c) sender), [EDisc (k_handle k) 19], [])
  end.

(* Controller.on_classic_sco_connection_complete(peer, SUCCESS, ESCO) *)
Definition sco_complete (c : ctrl) (peer : Z) : ctrl * list ev :=
  match alloc c with
  | None => (c, [EError 1])
  | Some h => (set_sco c (tbl_set (c_sco c) (mkConn peer 0 h true)), [EScoConn h peer])
  end.

Definition on_lmp_esco_req (c : ctrl) (sender : Z) : result :=
  (set_sco c (tbl_set (c_sco c) (mkConn sender 0 0 true)), [EScoReq sender], []).

Definition on_lmp_accepted_esco (c : ctrl) (sender : Z) : result :=
  match lmp_get (c_lmp_sco c) sender with
  | None => (c, [], [])
  | Some true => (c, [EError 2], [])
  | Some false =>
      let '(c', evs) := sco_complete (set_lmp_sco c (lmp_set (c_lmp_sco c) sender true)) sender in
      (c', evs, [])
  end.

(* Controller.on_classic_sco_disconnected *)
Definition on_lmp_remove_sco (c : ctrl) (sender reason : Z) : result :=
  match tbl_get (c_sco c) sender with
  | None => (c, [], [])
  | Some k => (set_sco c (tbl_del (c_sco c) sender), [EDisc (k_handle k) reason], [])
  end.

Definition on_message (cs : list ctrl) (n j : nat) (c : ctrl) (m : msg) : result :=
  match m with
  | MAdv adv data srsp => on_adv n j c adv data srsp
  | MConnInd init adv => on_connect_ind cs j c init adv
  | MTerm sender reason => on_terminate c sender reason
  | MAcl src le data => on_acl c src le data
  | MLmpConnReq sender => on_lmp_conn_req c sender
  | MLmpAccepted sender => on_lmp_accepted c sender
  | MLmpDetach sender _ => on_lmp_detach c sender
  | MLmpEscoReq sender => on_lmp_esco_req c sender
  | MLmpAcceptedEsco sender => on_lmp_accepted_esco c sender
  | MLmpRemoveSco sender reason => on_lmp_remove_sco c sender reason
  end.

(* LegacyAdvertiser.send_advertising_data *)
Definition tick (n i : nat) (c : ctrl) : result :=
  if andb (c_leg_enabled c) (c_leg_advind c) then
    (c, [], broadcast n i (MAdv (leg_address c) (c_leg_data c) (c_leg_srsp c)))
  else (c, [], []).

(* AdvertisingSet._on_extended_advertising_timer_fired *)
Definition ext_tick (n i : nat) (c : ctrl) (h : Z) : result :=
  match set_get (c_sets c) h with
  | None => (c, [], [])
  | Some s =>
      if a_enabled s then
        match set_address c s with
        | None => (c, [EError 3], [])                   (* assert address *)
        | Some a => (c, [], broadcast n i (MAdv a (a_data s) (a_srsp s)))
        end
      else (c, [], [])
  end.

Definition get_or_new_set (c : ctrl) (h : Z) : advset :=
  match set_get (c_sets c) h with
  | Some s => s
  | None => mkSet h None None [] [] false
  end.

Fixpoint enable_sets (l : list advset) (b : bool) (hs : list Z) : list advset :=
  match hs with
  | [] => l
  | h :: hs' =>
      match set_get l h with
      | Some s => enable_sets (set_put l (if b then enable_set s else disable_set s)) b hs'
      | None => enable_sets l b hs'
      end
  end.

(* Connection.on_acl_pdu -> LocalLink.send_acl_data (after D06a: the source address of
   an LE PDU is the address the connection was made with) *)
Definition send_acl (cs : list ctrl) (i : nat) (c : ctrl) (h : Z) (d : bytes) : result :=
  match conn_by_handle c h with
  | None => (c, [], [])                                 (* "no connection for handle" *)
  | Some (true, k) =>
      let src := match tbl_get (c_le c) (k_peer k) with
                 | Some k' => k_self k'
                 | None => c_random c
                 end in
      match find_le cs (k_peer k) with
      | Some j => (c, [ECompleted h], [(i, j, MAcl src true d)])
      | None => (c, [ECompleted h], [])
      end
  | Some (false, k) =>
      match find_classic cs (k_peer k) with
      | Some j => (c, [ECompleted h], [(i, j, MAcl (c_public c) false d)])
      | None => (c, [ECompleted h], [])
      end
  end.

(* Controller.on_hci_disconnect_command.  LocalLink.send_ll_control_pdu / send_lmp_packet drop
   the PDU when no controller is found for the peer; the local side is disconnected anyway. *)
Definition disconnect (cs : list ctrl) (i : nat) (c : ctrl) (h reason : Z) : result :=
  match conn_by_handle c h, by_handle (c_sco c) h with
  | None, None => (c, [EStatus 2], [])                  (* UNKNOWN_CONNECTION_IDENTIFIER: nothing to disconnect
                                                           (a CIS that was never created has no ACL connection) *)
  | _, _ =>
      match by_handle (c_cl c) h with
      | Some k =>
          (set_cl c (tbl_del (c_cl c) (k_peer k)), [EStatus 0; EDisc (k_handle k) reason],
           match find_classic cs (k_peer k) with
           | None => []
           | Some j => [(i, j, MLmpDetach (c_public c) reason)]
           end)
      | None =>
          match by_handle (c_le c) h with
          | Some k =>
              (set_le c (tbl_del (c_le c) (k_peer k)), [EStatus 0; EDisc (k_handle k) reason],
               match find_le cs (k_peer k) with
               | None => []
               | Some j => [(i, j, MTerm (k_self k) reason)]
               end)
          | None =>
              match by_handle (c_sco c) h with
              | Some k =>
                  (set_sco c (tbl_del (c_sco c) (k_peer k)), [EStatus 0; EDisc (k_handle k) reason],
                   match find_classic cs (k_peer k) with
                   | None => []
                   | Some j => [(i, j, MLmpRemoveSco (c_public c) reason)]
                   end)
              | None => (c, [EStatus 0], [])
              end
          end
      end
  end.

(* Controller.on_hci_create_connection_command *)
Definition cl_connect (cs : list ctrl) (i : nat) (c : ctrl) (peer : Z) : result :=
  match c_pending c with
  | Some _ => (c, [EStatus 58], [])                     (* CONTROLLER_BUSY *)
  | None =>
      if orb (match tbl_get (c_cl c) peer with Some k => negb (k_handle k =? 0) | None => false end)
             (match lmp_get (c_lmp c) peer with Some false => true | _ => false end)
      then (c, [EStatus 11], [])                        (* CONNECTION_ALREADY_EXISTS *)
      else
        let t1 := tbl_set (c_cl c) (mkConn peer (c_public c) 0 true) in
        match find_classic cs peer with
        | None => (set_cl c (tbl_del t1 peer), [EStatus 0; EClFail 4 peer], [])   (* PAGE_TIMEOUT *)
        | Some j => (set_lmp (set_cl c t1) (lmp_set (c_lmp c) peer false), [EStatus 0],
                     [(i, j, MLmpConnReq (c_public c))])
        end
  end.

(* Controller.on_hci_accept_connection_request_command, role = PERIPHERAL *)
Definition cl_accept (cs : list ctrl) (i : nat) (c : ctrl) (peer : Z) : result :=
  match tbl_get (c_cl c) peer with
  | None => (c, [EStatus 2], [])                        (* UNKNOWN_CONNECTION_IDENTIFIER *)
  | Some _ =>
      let '(c', evs) := classic_complete c peer in
      (c', EStatus 0 :: evs,
       match find_classic cs peer with
       | None => []
       | Some j => [(i, j, MLmpAccepted (c_public c))]
       end)
  end.

(* Controller.on_hci_enhanced_setup_synchronous_connection_command *)
Definition sco_setup (cs : list ctrl) (i : nat) (c : ctrl) (h : Z) : result :=
  match conn_by_handle c h with
  | None => (c, [EStatus 2], [])
  | Some (_, k) =>
      (set_lmp_sco c (lmp_set (c_lmp_sco c) (k_peer k) false), [EStatus 0],
       match find_classic cs (k_peer k) with
       | None => []
       | Some j => [(i, j, MLmpEscoReq (c_public c))]
       end)
  end.

(* Controller.on_hci_enhanced_accept_synchronous_connection_request_command *)
Definition sco_accept (cs : list ctrl) (i : nat) (c : ctrl) (peer : Z) : result :=
  match tbl_get (c_cl c) peer with
  | None => (c, [EStatus 2], [])
  | Some _ =>
      let '(c', evs) := sco_complete c peer in
      (c', EStatus 0 :: evs,
       match find_classic cs peer with
       | None => []
       | Some j => [(i, j, MLmpAcceptedEsco (c_public c))]
       end)
  end.

(* Controller.on_hci_le_set_cig_parameters_command: the CIG is replaced, one handle is
   allocated per CIS, each against the tables as they are at that moment *)
Fixpoint add_cis (c : ctrl) (cig : Z) (cis : list Z) : ctrl * list Z * bool :=
  match cis with
  | [] => (c, [], true)
  | x :: cis' =>
      match alloc c with
      | None => (c, [], false)
      | Some h =>
          let '(c', hs, ok) := add_cis (set_cis c (c_cis c ++ [(h, cig, x)])) cig cis' in
          (c', h :: hs, ok)
      end
  end.

Definition not_cig (cig : Z) (x : Z * Z * Z) : bool := negb (snd (fst x) =? cig).

Definition set_cig (c : ctrl) (cig : Z) (cis : list Z) : result :=
  let '(c', hs, ok) := add_cis (set_cis c (filter (not_cig cig) (c_cis c))) cig cis in
  (c', if ok then [ECig hs] else [EError 1], []).

Definition local (cs : list ctrl) (n i : nat) (c : ctrl) (l : label) : result :=
  match l with
  | LSetRandom _ a => (set_random c a, [], [])
  | LAdvParams _ p t => (set_leg c p t (c_leg_data c) (c_leg_srsp c) (c_leg_enabled c), [], [])
  | LAdvData _ d => (set_leg c (c_leg_pub c) (c_leg_advind c) d (c_leg_srsp c) (c_leg_enabled c), [], [])
  | LScanRsp _ d => (set_leg c (c_leg_pub c) (c_leg_advind c) (c_leg_data c) d (c_leg_enabled c), [], [])
  | LAdvEnable _ b => (set_leg c (c_leg_pub c) (c_leg_advind c) (c_leg_data c) (c_leg_srsp c) b, [], [])
  | LExtRandom _ h a =>
      let s := get_or_new_set c h in
      (set_sets c (set_put (c_sets c) (mkSet h (a_params s) (Some a) (a_data s) (a_srsp s) (a_enabled s))), [], [])
  | LExtParams _ h p =>
      let s := get_or_new_set c h in
      (set_sets c (set_put (c_sets c) (mkSet h (Some p) (a_random s) (a_data s) (a_srsp s) (a_enabled s))), [], [])
  | LExtData _ h first d =>
      match set_get (c_sets c) h with
      | None => (c, [], [])
      | Some s => (set_sets c (set_put (c_sets c)
                     (mkSet h (a_params s) (a_random s) (if first then d else a_data s ++ d) (a_srsp s) (a_enabled s))), [], [])
      end
  | LExtSrsp _ h first d =>
      match set_get (c_sets c) h with
      | None => (c, [], [])
      | Some s => (set_sets c (set_put (c_sets c)
                     (mkSet h (a_params s) (a_random s) (a_data s) (if first then d else a_srsp s ++ d) (a_enabled s))), [], [])
      end
  | LExtEnable _ b hs =>
      match b, hs with
      | false, [] => (set_sets c (map disable_set (c_sets c)), [], [])
      | _, _ => (set_sets c (enable_sets (c_sets c) b hs), [], [])
      end
  | LExtRemove _ h => (set_sets c (set_del (c_sets c) h), [], [])
  | LExtClear _ => (set_sets c [], [], [])
  | LTick _ => tick n i c
  | LExtTick _ h => ext_tick n i c h
  | LScanParams _ a => if c_scan c then (c, [], []) else (set_scan c (c_scan c) a, [], [])
  | LScanEnable _ b => (set_scan c b (c_active c), [], [])
  | LConnect _ peer p =>
      match c_pending c with
      | Some _ => (c, [EStatus 12], [])                 (* COMMAND_DISALLOWED *)
      | None => (set_pending c (Some (peer, p)), [EStatus 0], [])
      end
  | LCancel _ =>
      (* on_hci_le_create_connection_cancel_command: the pending connection is concluded with an
         LE Connection Complete carrying UNKNOWN_CONNECTION_IDENTIFIER *)
      match c_pending c with
      | Some (peer, _) => (set_pending c None, [ELeConnFail 2 peer], [])
      | None => (c, [], [])
      end
  | LAcl _ h d => send_acl cs i c h d
  | LDisconnect _ h r => disconnect cs i c h r
  | LClConnect _ peer => cl_connect cs i c peer
  | LClAccept _ peer => cl_accept cs i c peer
  | LScoSetup _ h => sco_setup cs i c h
  | LScoAccept _ peer => sco_accept cs i c peer
  | LSetCig _ cig cis => set_cig c cig cis
  | LRemoveCig _ cig => (set_cis c (filter (not_cig cig) (c_cis c)), [], [])
  | LDeliver _ => (c, [], [])
  end.

Definition label_ctrl (l : label) : option nat :=
  match l with
  | LSetRandom i _ | LAdvParams i _ _ | LAdvData i _ | LScanRsp i _ | LAdvEnable i _
  | LExtRandom i _ _ | LExtParams i _ _ | LExtData i _ _ _ | LExtSrsp i _ _ _ | LExtEnable i _ _
  | LExtRemove i _ | LExtClear i | LTick i | LExtTick i _ | LScanParams i _ | LScanEnable i _
  | LConnect i _ _ | LCancel i | LAcl i _ _ | LDisconnect i _ _ | LClConnect i _ | LClAccept i _
  | LScoSetup i _ | LScoAccept i _ | LSetCig i _ _ | LRemoveCig i _ => Some i
  | LDeliver _ => None
  end.

(* ------------------------------------------------------------------ the network *)
Definition same_pair (s d : nat) (p : packet) : bool :=
  let '(s', d', _) := p in andb (Nat.eqb s s') (Nat.eqb d d').

Fixpoint remove_nth {A} (k : nat) (l : list A) : list A :=
  match l, k with
  | [], _ => []
  | _ :: l', O => l'
  | x :: l', S k' => x :: remove_nth k' l'
  end.

Definition tag (i : nat) (evs : list ev) : list (nat * ev) := map (fun e => (i, e)) evs.

(* One step.  Returns the new state, the events (tagged with the controller) and the
   messages put on the link by this step (they are appended to st_net). *)
Definition step (s : state) (l : label) : state * list (nat * ev) * list packet :=
  let cs := st_cs s in
  let n := length cs in
  match l with
  | LDeliver k =>
      match nth_error (st_net s) k with
      | None => (s, [], [])
      | Some (src, dst, m) =>
          if existsb (same_pair src dst) (firstn k (st_net s)) then (s, [], [])   (* not the oldest of its pair *)
          else
            match nth_error cs dst with
            | None => (mkState cs (remove_nth k (st_net s)), [], [])
            | Some c =>
                let '(c', evs, out) := on_message cs n dst c m in
                (mkState (upd cs dst c') (remove_nth k (st_net s) ++ out), tag dst evs, out)
            end
      end
  | _ =>
      match label_ctrl l with
      | None => (s, [], [])
      | Some i =>
          match nth_error cs i with
          | None => (s, [], [])
          | Some c =>
              let '(c', evs, out) := local cs n i c l in
              (mkState (upd cs i c') (st_net s ++ out), tag i evs, out)
          end
      end
  end.

Fixpoint run (s : state) (ls : list label) : state * list (list (nat * ev) * list packet) :=
  match ls with
  | [] => (s, [])
  | l :: ls' =>
      let '(s1, evs, out) := step s l in
      let '(s2, tr) := run s1 ls' in
      (s2, (evs, out) :: tr)
  end.

Definition run_state (s : state) (ls : list label) : state := fst (run s ls).

(* initial system: one controller per (public, random, extended-reports) triple *)
Definition init (cfg : list (Z * Z * bool)) : state :=
  mkState (map (fun '(p, r, x) => new_ctrl p r x) cfg) [].

(* ------------------------------------------------------------------ observation (correspondence) *)
Definition conn_obs (k : conn) : Z * Z * Z * bool := (k_peer k, k_self k, k_handle k, k_central k).
Definition ctrl_obs (c : ctrl) :=
  (map conn_obs (c_le c), map conn_obs (c_cl c), c_pending c, c_leg_enabled c,
   map (fun s => (a_handle s, a_enabled s)) (c_sets c), (c_scan c, c_active c),
   (map (fun k => (k_peer k, k_handle k)) (c_sco c), c_cis c)).
Definition state_obs (s : state) := (map ctrl_obs (st_cs s), st_net s).

(* ------------------------------------------------------------------ the Device's matching rule *)
(* Device.connect_le.on_connection (after D06c): the pending LE connect() of a device is
   completed by a connection event on the LE transport in the central role.
   Device.connect_classic.on_connection: by a BR/EDR connection whose peer is the address asked for. *)
Definition completes_le (e : ev) : bool :=
  match e with ELeConn _ true _ => true | _ => false end.

Definition completes_classic (target : Z) (e : ev) : bool :=
  match e with EClConn _ p => p =? target | _ => false end.

(* ------------------------------------------------------------------ hypotheses of the theorems (boolean) *)
(* a controller does not change its addresses after power-on (re-setting the same random
   address is allowed) *)
Definition label_static (cs : list ctrl) (l : label) : bool :=
  match l with
  | LSetRandom i a | LExtRandom i _ a =>
      match nth_error cs i with Some c => c_random c =? a | None => true end
  | _ => true
  end.

Definition guard_static (s : state) (l : label) : bool := label_static (st_cs s) l.

(* weaker hypothesis for the routing theorems: a controller may take a new random address, or
   give an advertising set its own random address, at any time (also while connected), as long as
   no other controller uses that address: as public or random address, as the random address of
   an advertising set, or as own address of one of its LE connections *)
Definition set_randoms (c : ctrl) : list Z :=
  flat_map (fun s => match a_random s with Some a => [a] | None => [] end) (c_sets c).

Definition claims (c : ctrl) : list Z :=
  c_public c :: c_random c :: set_randoms c ++ map k_self (c_le c).

Fixpoint fresh_for (cs : list ctrl) (n : nat) (i : nat) (a : Z) : bool :=
  match cs with
  | [] => true
  | c :: cs' => andb (orb (Nat.eqb n i) (negb (zmem a (claims c)))) (fresh_for cs' (S n) i a)
  end.

Definition guard_fresh (s : state) (l : label) : bool :=
  match l with
  | LSetRandom i a | LExtRandom i _ a => fresh_for (st_cs s) 0 i a
  | _ => true
  end.

Fixpoint run_ok (guard : state -> label -> bool) (s : state) (ls : list label) : bool :=
  match ls with
  | [] => true
  | l :: ls' => andb (guard s l) (run_ok guard (fst (fst (step s l))) ls')
  end.

Fixpoint zs_nodup (l : list Z) : bool :=
  match l with
  | [] => true
  | x :: l' => andb (negb (zmem x l')) (zs_nodup l')
  end.

Definition cfg_addrs (cfg : list (Z * Z * bool)) : list Z :=
  flat_map (fun '(p, r, _) => [p; r]) cfg.

(* the addresses of a configuration are pairwise distinct *)
Definition cfg_ok (cfg : list (Z * Z * bool)) : bool := zs_nodup (cfg_addrs cfg).

(* --- symmetry of the LE tables: the schedules it is proved for *)
Definition owns_b (c : ctrl) (a : Z) : bool := orb (a =? c_public c) (a =? c_random c).

(* the LE connections of c whose peer address belongs to controller cj *)
Definition towards (cj c : ctrl) : list conn := filter (fun e => owns_b cj (k_peer e)) (c_le c).

(* link-layer control messages that concern controller cj as receiver: a ConnectInd for one of
   its addresses, any TerminateInd *)
Definition rel_msg (cj : ctrl) (m : msg) : bool :=
  match m with
  | MConnInd _ b => owns_b cj b
  | MTerm _ _ => true
  | _ => false
  end.

Definition rel_pkt (cs : list ctrl) (i j : nat) (p : packet) : bool :=
  let '(s, d, m) := p in
  andb (andb (Nat.eqb s i) (Nat.eqb d j))
       (match nth_error cs j with Some cj => rel_msg cj m | None => false end).

Definition rel (s : state) (i j : nat) : list packet := filter (rel_pkt (st_cs s) i j) (st_net s).

Definition nil_b {A} (l : list A) : bool := match l with [] => true | _ => false end.

(* nothing between controllers i and j: no connection, no control message in flight *)
Definition pair_idle (s : state) (i j : nat) : bool :=
  match nth_error (st_cs s) i, nth_error (st_cs s) j with
  | Some ci, Some cj =>
      andb (andb (nil_b (towards cj ci)) (nil_b (towards ci cj)))
           (andb (nil_b (rel s i j)) (nil_b (rel s j i)))
  | _, _ => true
  end.

Definition pair_quiet (s : state) (i j : nat) : bool :=
  andb (nil_b (rel s i j)) (nil_b (rel s j i)).

Definition owner_of (cs : list ctrl) (a : Z) : option nat := find_index (fun c => owns_b c a) cs 0.

(* would this advertisement make controller c create a connection? *)
Definition creates (c : ctrl) (adv : Z) : bool :=
  match c_pending c with
  | Some (peer, _) =>
      andb (peer =? adv)
           (match tbl_get (c_le c) adv with Some _ => false | None => true end)
  | None => false
  end.

(* does controller c accept a ConnectInd for advertiser address adv?  (since D06d.patch an
   addressee that does not accept refuses with a TerminateInd, so this is no hypothesis any more) *)
Definition accepts (c : ctrl) (adv : Z) : bool :=
  andb (orb (andb (leg_address c =? adv) (c_leg_enabled c))
            (match find_set c (c_sets c) adv with Some _ => true | None => false end))
       (match alloc c with Some _ => true | None => false end).

Definition guard_sym (s : state) (l : label) : bool :=
  andb (guard_static s l)
  (match l with
   | LDeliver k =>
       match nth_error (st_net s) k with
       | Some (src, dst, MAdv b _ _) =>
           (* a connection is created only between controllers that have nothing going on *)
           match nth_error (st_cs s) dst with
           | Some c => if creates c b then pair_idle s dst src else true
           | None => true
           end
       | Some (src, dst, MConnInd a b) =>
           (* the addressee of a ConnectInd has a handle left (it then accepts or refuses) *)
           match nth_error (st_cs s) dst with
           | Some c => if owns_b c b then (match alloc c with Some _ => true | None => false end) else true
           | None => true
           end
       | _ => true
       end
   | LDisconnect i h _ =>
       (* an LE connection is torn down by one side at a time, once it is established *)
       match nth_error (st_cs s) i with
       | Some c =>
           match by_handle (c_cl c) h with
           | Some _ => true
           | None =>
               match by_handle (c_le c) h with
               | Some e => match owner_of (st_cs s) (k_peer e) with
                           | Some j => pair_quiet s i j
                           | None => true
                           end
               | None => true
               end
           end
       | None => true
       end
   | _ => true
   end).

(* --- symmetry of the BR/EDR tables: the schedules it is proved for *)
Definition is_cctl (m : msg) : bool :=
  match m with MLmpConnReq _ | MLmpAccepted _ | MLmpDetach _ _ => true | _ => false end.

Definition crel_pkt (i j : nat) (p : packet) : bool :=
  let '(s, d, m) := p in andb (andb (Nat.eqb s i) (Nat.eqb d j)) (is_cctl m).

(* connection-management LMP messages in flight from i to j *)
Definition crel (s : state) (i j : nat) : list packet := filter (crel_pkt i j) (st_net s).

Definition cquiet (s : state) (i j : nat) : bool := andb (nil_b (crel s i j)) (nil_b (crel s j i)).

Definition not_pending (o : option bool) : bool := match o with Some false => false | _ => true end.
Definition is_none {A} (o : option A) : bool := match o with None => true | Some _ => false end.
Definition has_alloc (c : ctrl) : bool := match alloc c with Some _ => true | None => false end.

(* nothing BR/EDR between controllers i and j: no table entry, no request pending, nothing in flight *)
Definition cpair_idle (s : state) (i j : nat) : bool :=
  match nth_error (st_cs s) i, nth_error (st_cs s) j with
  | Some ci, Some cj =>
      andb (andb (is_none (tbl_get (c_cl ci) (c_public cj))) (is_none (tbl_get (c_cl cj) (c_public ci))))
           (andb (cquiet s i j)
                 (andb (not_pending (lmp_get (c_lmp ci) (c_public cj))) (not_pending (lmp_get (c_lmp cj) (c_public ci)))))
  | _, _ => true
  end.

Definition guard_cl (s : state) (l : label) : bool :=
  andb (guard_static s l)
  (match l with
   | LClConnect i peer =>
       (* a BR/EDR connection is requested only between controllers that have nothing going on *)
       match find_classic (st_cs s) peer with
       | Some j => andb (negb (Nat.eqb j i)) (cpair_idle s i j)
       | None => true
       end
   | LClAccept i peer =>
       (* the host accepts requests that are waiting (not its own outgoing ones), and a handle is left *)
       match nth_error (st_cs s) i with
       | Some c => match tbl_get (c_cl c) peer with
                   | Some k => andb (andb (andb (k_handle k =? 0) (negb (k_central k))) (has_alloc c))
                                    (negb (peer =? c_public c))
                   | None => true
                   end
       | None => true
       end
   | LDisconnect i h _ =>
       (* established connections are torn down by one side at a time *)
       match nth_error (st_cs s) i with
       | Some c => match by_handle (c_cl c) h with
                   | Some k => andb (negb (h =? 0))
                                    (match find_classic (st_cs s) (k_peer k) with
                                     | Some j => andb (negb (Nat.eqb j i)) (cquiet s i j)
                                     | None => true
                                     end)
                   | None => true
                   end
       | None => true
       end
   | LDeliver k =>
       match nth_error (st_net s) k with
       | Some (_, dst, MLmpAccepted _) =>
           match nth_error (st_cs s) dst with Some c => has_alloc c | None => true end
       | _ => true
       end
   | _ => true
   end).
