(* Model of the GATT client discovery / read procedures (bumble/gatt_client.py Client) and of
   the parts of the GATT server they talk to (bumble/gatt_server.py Server): executable Gallina,
   no proofs here.

   The code modelled is the code AFTER the fixes D12a (discover_attributes: bounded loop, stop on
   an empty list), D12b (indicate_subscriber sends an indication), D12c (discover_service returns
   when an entry ends at 0xFFFF) and D12d (add_service registers missing included services before
   the including service).

   Abstraction (stated once, used everywhere):
   - PDUs are structured values, not bytes (byte-level PDU round trips are property C18).  A
     response as the client sees it after ATT_PDU.from_bytes is RNone (send_request returned
     None), RErr code (ATT_ERROR_RESPONSE) or RList entries.
   - An entry carries the attribute handle e_h, the end group handle e_end (meaning only for
     group responses), a flag e_bad ("parsing this entry's value in the client raises":
     struct.unpack_from on a short value, UUID.from_bytes on a length other than 2/4/16) and an
     abstract payload e_data (list of integers) that the client copies into its proxy objects.
   - A UUID is (length of its PDU form, integer value of those bytes little-endian).
   - The adversarial peer is a function [nat -> Z -> resp]: request index and starting handle of
     the request to the response; theorems quantify over ALL such functions.
   - Every loop takes explicit fuel; OutOfFuel is a distinct result that the theorems exclude.
   - asyncio: a discovery procedure is sequential (one request outstanding, awaited); the GATT
     30 s request timeout is not modelled (a response always arrives or the procedure is
     cancelled from outside). *)
From Coq Require Import ZArith List Bool.
Import ListNotations.
Open Scope Z_scope.

(* ------------------------------------------------------------------ client side *)
Record entry := mkE { e_h : Z; e_end : Z; e_bad : bool; e_data : list Z }.

Inductive resp := RNone | RErr (code : Z) | RList (es : list entry).

Definition ATT_INVALID_HANDLE := 0x01.
Definition ATT_INVALID_OFFSET := 0x07.
Definition ATT_NOT_FOUND := 0x0A.
Definition ATT_NOT_LONG := 0x0B.

(* how a discovery procedure ends *)
Inductive outcome :=
| Done (r : list entry)     (* normal return / break out of the loop with the entries found *)
| Abort                     (* "return []": bogus handle, unexpected error, no response *)
| Raised (code : Z)         (* an exception leaves the procedure (ATT_Error or a parse error: code -1) *)
| OutOfFuel.

(* what processing the entries of one response decides *)
Inductive step_res :=
| Bogus                              (* return [] *)
| Exc (code : Z)                     (* an exception leaves the loop: -1 an entry could not be parsed,
                                        c >= 0 an ATT error on a nested read, -3 no response to it *)
| Stop (acc : list entry)            (* return the services found (discover_service, end = 0xFFFF) *)
| Next (acc : list entry) (start' : Z).

(* for (handle, end, ...) in entries: if handle < start or end < handle: return []; [parse the
   value: discover_services builds a UUID, discover_service does not];
   [if stop_ffff and end == 0xFFFF: return]; next start = end of the LAST entry + 1 *)
Fixpoint proc_group (parse stop_ffff : bool) (start : Z) (es : list entry) (acc : list entry) (last_end : Z) : step_res :=
  match es with
  | [] => Next acc (last_end + 1)
  | e :: es' =>
      if orb (e_h e <? start) (e_end e <? e_h e) then Bogus
      else if andb parse (e_bad e) then Exc (-1)
      else if andb stop_ffff (e_end e =? 0xFFFF) then Stop (acc ++ [e])
      else proc_group parse stop_ffff start es' (acc ++ [e]) (e_end e)
  end.

(* for (handle, value) in entries: if handle < start: return []; parse;
   next start = handle of the LAST entry + 1 *)
Fixpoint proc_plain (start : Z) (es : list entry) (acc : list entry) (last_h : Z) : step_res :=
  match es with
  | [] => Next acc (last_h + 1)
  | e :: es' =>
      if e_h e <? start then Bogus
      else if e_bad e then Exc (-1)
      else proc_plain start es' (acc ++ [e]) (e_h e)
  end.

Section Loop.
  Variable cond : Z -> bool.                         (* the while condition on starting_handle *)
  Variable proc : Z -> list entry -> step_res.       (* the for loop over one response *)
  Variable raise_other : bool.                       (* error other than NOT_FOUND: raise (true) or return [] *)
  Variable resp_of : nat -> Z -> resp.               (* the peer *)

  (* returns the outcome and the number of requests issued *)
  Fixpoint loop (fuel : nat) (n : nat) (start : Z) (acc : list entry) : outcome * nat :=
    if negb (cond start) then (Done acc, n) else
    match fuel with
    | O => (OutOfFuel, n)
    | S f =>
        match resp_of n start with
        | RNone => (Abort, S n)
        | RErr c =>
            if c =? ATT_NOT_FOUND then (Done acc, S n)
            else if raise_other then (Raised c, S n) else (Abort, S n)
        | RList [] => (Done acc, S n)
        | RList es =>
            match proc start es with
            | Bogus => (Abort, S n)
            | Exc c => (Raised c, S n)
            | Stop a => (Done (acc ++ a), S n)
            | Next a s' => loop f (S n) s' (acc ++ a)
            end
        end
    end.
End Loop.

(* the fuel every theorem uses: 0x10000 - starting_handle requests *)
Definition fuel_for (start : Z) : nat := Z.to_nat (0x10000 - start).

Definition cond_lt_ffff (s : Z) : bool := s <? 0xFFFF.
Definition cond_le (ending s : Z) : bool := s <=? ending.

(* Client.discover_services: Read By Group Type from 0x0001 while start < 0xFFFF *)
Definition discover_services (fuel : nat) (r : nat -> Z -> resp) : outcome * nat :=
  loop cond_lt_ffff (fun s es => proc_group true false s es [] 0) true r fuel 0 1 [].

(* Client.discover_service(uuid): Find By Type Value *)
Definition discover_service (fuel : nat) (r : nat -> Z -> resp) : outcome * nat :=
  loop cond_lt_ffff (fun s es => proc_group false true s es [] 0) false r fuel 0 1 [].

(* Client.discover_included_services(service) after D12e: Read By Type(0x2802) in [handle, end].
   An include declaration carries the included service's UUID only when it is a 16-bit one
   (payload [start; end; 2; uuid]); otherwise (payload [start; end]) the client reads the
   included service's declaration (Read Request on its start handle, no long read) and takes
   its value as the UUID.  [rd] answers those reads, by handle. *)
Inductive uresp := UNone | UErr (code : Z) | UVal (len id : Z).    (* the value as (length, integer) *)

Definition uuid_len_ok (l : Z) : bool := orb (orb (l =? 2) (l =? 4)) (l =? 16).

Fixpoint proc_included (rd : Z -> uresp) (start : Z) (es : list entry) (acc : list entry) (last_h : Z) : step_res :=
  match es with
  | [] => Next acc (last_h + 1)
  | e :: es' =>
      if e_h e <? start then Bogus
      else if e_bad e then Exc (-1)
      else match e_data e with
           | [s; en] =>
               match rd s with
               | UNone => Exc (-3)
               | UErr c => Exc c
               | UVal l i =>
                   if uuid_len_ok l
                   then proc_included rd start es' (acc ++ [mkE (e_h e) (e_end e) false [s; en; l; i]]) (e_h e)
                   else Exc (-1)
               end
           | _ => proc_included rd start es' (acc ++ [e]) (e_h e)
           end
  end.

Definition discover_included (fuel : nat) (r : nat -> Z -> resp) (rd : Z -> uresp) (sh se : Z) : outcome * nat :=
  loop (cond_le se) (fun s es => proc_included rd s es [] 0) true r fuel 0 sh [].

(* one service of Client.discover_characteristics: Read By Type(0x2803) in [handle, end] *)
Definition discover_chars_loop (fuel : nat) (r : nat -> Z -> resp) (sh se : Z) : outcome * nat :=
  loop (cond_le se) (fun s es => proc_plain s es [] 0) true r fuel 0 sh [].

(* characteristics[-1].end_group_handle = attribute_handle - 1 for each following declaration,
   the last one gets the service's end group handle; result: the entry with e_end set *)
Fixpoint fix_ends (service_end : Z) (es : list entry) : list entry :=
  match es with
  | [] => []
  | e :: es' =>
      let en := match es' with [] => service_end | e' :: _ => e_h e' - 1 end in
      mkE (e_h e) en (e_bad e) (e_data e) :: fix_ends service_end es'
  end.

Definition discover_characteristics (fuel : nat) (r : nat -> Z -> resp) (sh se : Z) : outcome * nat :=
  match discover_chars_loop fuel r sh se with
  | (Done es, n) => (Done (fix_ends se es), n)
  | other => other
  end.

(* Client.discover_descriptors(characteristic): Find Information in [value handle + 1, end] *)
Definition discover_descriptors (fuel : nat) (r : nat -> Z -> resp) (vh ce : Z) : outcome * nat :=
  loop (cond_le ce) (fun s es => proc_plain s es [] 0) false r fuel 0 (vh + 1) [].

(* Client.discover_attributes (after D12a): Find Information in [1, 0xFFFF] *)
Definition discover_attributes (fuel : nat) (r : nat -> Z -> resp) : outcome * nat :=
  loop (cond_le 0xFFFF) (fun s es => proc_plain s es [] 0) false r fuel 0 1 [].

(* Client.read_characteristics_by_uuid(uuid, service): Read By Type(uuid) in [handle, end]; the
   values are collected as they are (no parsing), any error other than NOT_FOUND: return [] *)
Fixpoint proc_plain_raw (start : Z) (es : list entry) (acc : list entry) (last_h : Z) : step_res :=
  match es with
  | [] => Next acc (last_h + 1)
  | e :: es' =>
      if e_h e <? start then Bogus
      else proc_plain_raw start es' (acc ++ [e]) (e_h e)
  end.

Definition read_characteristics_by_uuid (fuel : nat) (r : nat -> Z -> resp) (sh se : Z) : outcome * nat :=
  loop (cond_le se) (fun s es => proc_plain_raw s es [] 0) false r fuel 0 sh [].

(* The loop of discover_attributes BEFORE D12a: while True, no empty-list check, the next
   starting handle comes from the last attribute accumulated so far (IndexError when there is
   none).  Kept only to state why the fix is needed (discover_attributes_unfixed_refuted). *)
Fixpoint attributes_unfixed (fuel : nat) (r : nat -> Z -> resp) (n : nat) (start : Z) (acc : list entry) : outcome * nat :=
  match fuel with
  | O => (OutOfFuel, n)
  | S f =>
      match r n start with
      | RNone => (Abort, S n)
      | RErr c => if c =? ATT_NOT_FOUND then (Done acc, S n) else (Abort, S n)
      | RList es =>
          match proc_plain start es [] 0 with
          | Bogus => (Abort, S n)
          | Exc c => (Raised c, S n)
          | Stop a => (Done (acc ++ a), S n)
          | Next a _ =>
              match rev (acc ++ a) with
              | [] => (Raised (-2), S n)                       (* IndexError *)
              | l :: _ => attributes_unfixed f r (S n) (e_h l + 1) (acc ++ a)
              end
          end
      end
  end.

(* The inner loop of discover_service BEFORE D12c: break at end = 0xFFFF, then the next starting
   handle is taken from the last entry of the whole list, checked or not. *)
Fixpoint proc_service_unfixed (start : Z) (es all : list entry) (acc : list entry) : step_res :=
  match es with
  | [] => Next acc (e_end (last all (mkE 0 0 false [])) + 1)
  | e :: es' =>
      if orb (e_h e <? start) (e_end e <? e_h e) then Bogus
      else if e_end e =? 0xFFFF then Next (acc ++ [e]) (e_end (last all (mkE 0 0 false [])) + 1)
      else proc_service_unfixed start es' all (acc ++ [e])
  end.

Definition discover_service_unfixed (fuel : nat) (r : nat -> Z -> resp) : outcome * nat :=
  loop cond_lt_ffff (fun s es => proc_service_unfixed s es es []) false r fuel 0 1 [].

(* ------------------------------------------------------------------ the attribute database *)
Record uuid := mkU { u_len : Z; u_id : Z }.          (* PDU form: 2 or 16 bytes *)

Definition uuid_eqb (a b : uuid) : bool := andb (u_len a =? u_len b) (u_id a =? u_id b).

(* the uuids filter of Client.discover_characteristics: applied AFTER the end group handles have
   been computed from the full list of declarations; an empty filter keeps everything.  A
   characteristic entry's payload is [properties; value handle; uuid length; uuid value]. *)
Definition entry_uuid (e : entry) : uuid := mkU (nth 2 (e_data e) 0) (nth 3 (e_data e) 0).
Definition uuid_in (us : list uuid) (u : uuid) : bool := existsb (uuid_eqb u) us.
Definition filter_uuids (us : list uuid) (es : list entry) : list entry :=
  match us with [] => es | _ => filter (fun e => uuid_in us (entry_uuid e)) es end.

Definition discover_characteristics_uuids (fuel : nat) (r : nat -> Z -> resp) (sh se : Z) (us : list uuid) : outcome * nat :=
  match discover_chars_loop fuel r sh se with
  | (Done es, n) => (Done (filter_uuids us (fix_ends se es)), n)
  | other => other
  end.

(* Client.discover_characteristics(uuids, None): every known service in turn; "return []" and
   exceptions leave the whole procedure, a break only the current service *)
Fixpoint discover_characteristics_all (r : nat -> Z -> resp) (svcs : list (Z * Z)) (us : list uuid)
                                      (n : nat) (acc : list entry) : outcome * nat :=
  match svcs with
  | [] => (Done acc, n)
  | (sh, se) :: rest =>
      match loop (cond_le se) (fun s es => proc_plain s es [] 0) true r (fuel_for sh) n sh [] with
      | (Done es, n') => discover_characteristics_all r rest us n' (acc ++ filter_uuids us (fix_ends se es))
      | other => other
      end
  end.

Definition U16 (v : Z) : uuid := mkU 2 v.
Definition UUID_PRIMARY := U16 0x2800.
Definition UUID_SECONDARY := U16 0x2801.
Definition UUID_INCLUDE := U16 0x2802.
Definition UUID_CHARACTERISTIC := U16 0x2803.
Definition UUID_CCCD := U16 0x2902.

Inductive abody :=
| BService (u : uuid)                        (* value: the service UUID *)
| BInclude (s e : Z) (u : uuid)              (* value: start, end and, only for a 16-bit UUID, the UUID *)
| BCharDecl (props vh : Z) (u : uuid)        (* value: props, value handle, characteristic UUID *)
| BValue (v : list Z)                        (* characteristic value / descriptor: bytes *)
| BCccd.                                     (* the CCCD the server adds: value is per bearer *)

Record attr := mkA { a_handle : Z; a_end : Z; a_type : uuid; a_body : abody }.

(* length of the value as Read By (Group) Type sees it *)
Definition disc_vlen (a : attr) : Z :=
  match a_body a with
  | BService u => u_len u
  | BInclude _ _ u => if u_len u =? 2 then 6 else 4
  | BCharDecl _ _ u => 3 + u_len u
  | BValue v => Z.of_nat (length v)
  | BCccd => 2
  end.

(* the payload a client gets out of a discovery entry for this attribute *)
Definition disc_data (a : attr) : list Z :=
  match a_body a with
  | BService u => [u_len u; u_id u]
  | BInclude s e u => if u_len u =? 2 then [s; e; 2; u_id u] else [s; e]
  | BCharDecl p vh u => [p; vh; u_len u; u_id u]
  | BValue _ => []
  | BCccd => []
  end.

(* ---- Server.add_service (after D12d): specs and handle assignment *)
Record desc_spec := mkDS { d_uuid : uuid; d_val : list Z }.
Record char_spec := mkCS { c_uuid : uuid; c_props : Z; c_val : list Z; c_descs : list desc_spec }.
Record svc_spec := mkSS {
  s_uuid : uuid; s_primary : bool;
  s_incl : list nat;              (* included services, as indices of services registered before *)
  s_chars : list char_spec }.

Definition PROP_NOTIFY := 0x10.
Definition PROP_INDICATE := 0x20.

Definition needs_cccd (c : char_spec) : bool :=
  andb (negb (Z.land (c_props c) (Z.lor PROP_NOTIFY PROP_INDICATE) =? 0))
       (negb (existsb (fun d => uuid_eqb (d_uuid d) UUID_CCCD) (c_descs c))).

Definition char_size (c : char_spec) : Z :=
  2 + Z.of_nat (length (c_descs c)) + (if needs_cccd c then 1 else 0).

Fixpoint desc_attrs (h : Z) (ds : list desc_spec) : list attr :=
  match ds with
  | [] => []
  | d :: ds' => mkA h h (d_uuid d) (BValue (d_val d)) :: desc_attrs (h + 1) ds'
  end.

(* one characteristic at handle h: declaration, value, descriptors, optional CCCD; the
   declaration and the value get the group end, descriptors end at themselves *)
Definition char_attrs (h : Z) (c : char_spec) : list attr :=
  let e := h + char_size c - 1 in
  let nd := Z.of_nat (length (c_descs c)) in
  mkA h e UUID_CHARACTERISTIC (BCharDecl (c_props c) (h + 1) (c_uuid c))
  :: mkA (h + 1) e (c_uuid c) (BValue (c_val c))
  :: desc_attrs (h + 2) (c_descs c)
  ++ (if needs_cccd c then [mkA (h + 2 + nd) (h + 2 + nd) UUID_CCCD BCccd] else []).

Fixpoint chars_attrs (h : Z) (cs : list char_spec) : list attr :=
  match cs with
  | [] => []
  | c :: cs' => char_attrs h c ++ chars_attrs (h + char_size c) cs'
  end.

Fixpoint chars_size (cs : list char_spec) : Z :=
  match cs with [] => 0 | c :: cs' => char_size c + chars_size cs' end.

(* registered services: (handle, end, uuid), in registration order *)
Definition reg := list (Z * Z * uuid).

Fixpoint incl_attrs (h : Z) (r : reg) (is_ : list nat) : list attr :=
  match is_ with
  | [] => []
  | i :: is' =>
      let '(s, e, u) := nth i r (0, 0, U16 0) in
      mkA h h UUID_INCLUDE (BInclude s e u) :: incl_attrs (h + 1) r is'
  end.

Definition svc_size (s : svc_spec) : Z :=
  1 + Z.of_nat (length (s_incl s)) + chars_size (s_chars s).

(* the attributes add_service appends when the database holds h0 - 1 attributes *)
Definition svc_attrs (h0 : Z) (r : reg) (s : svc_spec) : list attr :=
  let e := h0 + svc_size s - 1 in
  let ni := Z.of_nat (length (s_incl s)) in
  mkA h0 e (if s_primary s then UUID_PRIMARY else UUID_SECONDARY) (BService (s_uuid s))
  :: incl_attrs (h0 + 1) r (s_incl s)
  ++ chars_attrs (h0 + 1 + ni) (s_chars s).

Fixpoint build_from (h0 : Z) (r : reg) (ss : list svc_spec) : list attr :=
  match ss with
  | [] => []
  | s :: ss' =>
      svc_attrs h0 r s
      ++ build_from (h0 + svc_size s) (r ++ [(h0, h0 + svc_size s - 1, s_uuid s)]) ss'
  end.

(* Server().add_services(specs) on an empty server *)
Definition build (ss : list svc_spec) : list attr := build_from 1 [] ss.

(* ------------------------------------------------------------------ server discovery handlers *)
(* The common selection loop of on_att_read_by_group_type_request (hdr 4, zero-space check),
   on_att_read_by_type_request (hdr 2, zero-space check), on_att_find_information_request
   (hdr 2, sizes are UUID sizes) and on_att_find_by_type_value_request (hdr 4, size 0):
     for attribute in candidates [and pdu_space_available]:
        size = sz attribute
        if selected and size != size of the first: break
        if pdu_space_available < hdr + size: break
        select; pdu_space_available -= hdr + size *)
Fixpoint take_run (hdr : Z) (chk0 : bool) (sz : attr -> Z) (space : Z) (first : option Z) (cands : list attr) : list attr :=
  match cands with
  | [] => []
  | a :: cs =>
      if andb chk0 (space =? 0) then [] else
      let v := sz a in
      let same := match first with Some f => f =? v | None => true end in
      if negb same then []
      else if space <? hdr + v then []
      else a :: take_run hdr chk0 sz (space - (hdr + v))
                         (Some (match first with Some f => f | None => v end)) cs
  end.

Definition in_range (lo hi : Z) (a : attr) : bool := andb (lo <=? a_handle a) (a_handle a <=? hi).

Definition to_entry (a : attr) : entry := mkE (a_handle a) (a_end a) false (disc_data a).

(* an entry whose value was truncated by the server cannot be parsed back by the client *)
Definition to_entry_trunc (limit : Z) (a : attr) : entry :=
  mkE (a_handle a) (a_end a) (limit <? disc_vlen a) (disc_data a).

Definition reply (sel : list entry) : resp :=
  match sel with [] => RErr ATT_NOT_FOUND | _ => RList sel end.

(* on_att_read_by_group_type_request for a group type that is primary or secondary service *)
Definition srv_read_by_group (mtu : Z) (db : list attr) (gtype : uuid) (start ending : Z) : resp :=
  let lim := Z.min (mtu - 6) 251 in
  let cands := filter (fun a => andb (uuid_eqb (a_type a) gtype) (in_range start ending a)) db in
  reply (map (to_entry_trunc lim)
             (take_run 4 true (fun a => Z.min (disc_vlen a) lim) (mtu - 2) None cands)).

(* on_att_read_by_type_request, for attribute types whose values are always readable
   (include and characteristic declarations) *)
Definition srv_read_by_type (mtu : Z) (db : list attr) (atype : uuid) (start ending : Z) : resp :=
  if orb (start =? 0) (ending <? start) then RErr ATT_INVALID_HANDLE else
  let lim := Z.min (mtu - 4) 253 in
  let cands := filter (fun a => andb (uuid_eqb (a_type a) atype) (in_range start ending a)) db in
  reply (map (to_entry_trunc lim)
             (take_run 2 true (fun a => Z.min (disc_vlen a) lim) (mtu - 2) None cands)).

(* on_att_find_information_request: entries are (handle, type UUID) *)
Definition info_entry (a : attr) : entry :=
  mkE (a_handle a) (a_end a) false [u_len (a_type a); u_id (a_type a)].

Definition srv_find_information (mtu : Z) (db : list attr) (start ending : Z) : resp :=
  if orb (start =? 0) (ending <? start) then RErr ATT_INVALID_HANDLE else
  let cands := filter (in_range start ending) db in
  reply (map info_entry (take_run 2 false (fun a => u_len (a_type a)) (mtu - 2) None cands)).

(* on_att_find_by_type_value_request for type = primary service, value = a service UUID *)
Definition is_service_with (gtype u : uuid) (a : attr) : bool :=
  andb (uuid_eqb (a_type a) gtype)
       (match a_body a with BService u' => uuid_eqb u' u | _ => false end).

Definition srv_find_by_type_value (mtu : Z) (db : list attr) (u : uuid) (start ending : Z) : resp :=
  let cands := filter (fun a => andb (is_service_with UUID_PRIMARY u a) (in_range start ending a)) db in
  reply (map to_entry (take_run 4 false (fun _ => 0) (mtu - 2) None cands)).

(* ------------------------------------------------------------------ read / long read / write *)
Definition sublist (off n : Z) (v : list Z) : list Z := firstn (Z.to_nat n) (skipn (Z.to_nat off) v).

Inductive rresp := VNone | VErr (code : Z) | VVal (v : list Z).

(* on_att_read_request / on_att_read_blob_request on an existing, readable attribute *)
Definition srv_read (mtu : Z) (value : list Z) : rresp :=
  VVal (firstn (Z.to_nat (Z.min (mtu - 1) (Z.of_nat (length value)))) value).

Definition srv_read_blob (mtu : Z) (value : list Z) (off : Z) : rresp :=
  let len := Z.of_nat (length value) in
  if len <? off then VErr ATT_INVALID_OFFSET
  else if andb (off =? 0) (len <=? mtu - 1) then VErr ATT_NOT_LONG     (* after D12f: only at offset 0 *)
  else VVal (sublist off (Z.min (mtu - 1) (len - off)) value).

Inductive routcome := RDone (v : list Z) | RRaised (code : Z) | ROutOfFuel.

(* the while True loop of Client.read_value *)
Fixpoint read_blob_loop (fuel : nat) (blob : Z -> rresp) (mtu : Z) (acc : list Z) (off : Z) : routcome :=
  match fuel with
  | O => ROutOfFuel
  | S f =>
      (* ATT_Read_Blob_Request(value_offset=offset) is a 2-byte field: serialising an offset
         above 0xFFFF raises (struct.error) and the exception leaves read_value *)
      if 0xFFFF <? off then RRaised (-4) else
      match blob off with
      | VNone => RRaised (-3)                                  (* TimeoutError *)
      | VErr c => if orb (c =? ATT_NOT_LONG) (c =? ATT_INVALID_OFFSET) then RDone acc else RRaised c
      | VVal part =>
          let acc' := acc ++ part in
          if Z.of_nat (length part) <? mtu - 1 then RDone acc'
          else read_blob_loop f blob mtu acc' (off + Z.of_nat (length part))
      end
  end.

Definition read_value (fuel : nat) (first : rresp) (blob : Z -> rresp) (mtu : Z) (no_long_read : bool) : routcome :=
  match first with
  | VNone => RRaised (-3)
  | VErr c => RRaised c
  | VVal v =>
      if andb (negb no_long_read) (Z.of_nat (length v) =? mtu - 1)
      then read_blob_loop fuel blob mtu v (Z.of_nat (length v))
      else RDone v
  end.

(* the client reading, from a Bumble server, an attribute whose current value is [value] *)
Definition read_from_server (fuel : nat) (mtu : Z) (value : list Z) : routcome :=
  read_value fuel (srv_read mtu value) (srv_read_blob mtu value) mtu false.

(* The same with an ATT_MTU that changes while the read is in progress (an MTU exchange queued on
   the client's request semaphore is served between two requests of read_value): [m k] is the
   ATT_MTU in force, on both ends of the bearer, when the k-th response of this read (0 = the
   Read Response) is built by the server and handed to the client.  read_value compares against
   self.mtu AFTER each await, i.e. against [m k]. *)
Fixpoint read_blob_loop_dyn (fuel : nat) (blob : nat -> Z -> rresp) (m : nat -> Z) (k : nat) (acc : list Z) (off : Z) : routcome :=
  match fuel with
  | O => ROutOfFuel
  | S f =>
      if 0xFFFF <? off then RRaised (-4) else
      match blob k off with
      | VNone => RRaised (-3)
      | VErr c => if orb (c =? ATT_NOT_LONG) (c =? ATT_INVALID_OFFSET) then RDone acc else RRaised c
      | VVal part =>
          let acc' := acc ++ part in
          if Z.of_nat (length part) <? m k - 1 then RDone acc'
          else read_blob_loop_dyn f blob m (S k) acc' (off + Z.of_nat (length part))
      end
  end.

Definition read_value_dyn (fuel : nat) (first : rresp) (blob : nat -> Z -> rresp) (m : nat -> Z) : routcome :=
  match first with
  | VNone => RRaised (-3)
  | VErr c => RRaised c
  | VVal v =>
      if Z.of_nat (length v) =? m 0%nat - 1
      then read_blob_loop_dyn fuel blob m 1 v (Z.of_nat (length v))
      else RDone v
  end.

Definition read_from_server_dyn (fuel : nat) (m : nat -> Z) (value : list Z) : routcome :=
  read_value_dyn fuel (srv_read (m 0%nat) value) (fun k off => srv_read_blob (m k) value off) m.

(* NOT the code: the long-read tests made against a snapshot of the ATT_MTU taken before the
   first request was sent; only for read_value_stale_mtu_refuted *)
Definition read_from_server_stale (fuel : nat) (snapshot : Z) (m : nat -> Z) (value : list Z) : routcome :=
  read_value_dyn fuel (srv_read (m 0%nat) value) (fun k off => srv_read_blob (m k) value off) (fun _ => snapshot).

(* on_att_write_request / on_att_write_command on a plain attribute: the value store *)
Definition GATT_MAX_ATTRIBUTE_VALUE_SIZE := 512.

Definition store := list (Z * list Z).     (* handle -> value, at most one entry per handle *)

Fixpoint store_get (h : Z) (s : store) : option (list Z) :=
  match s with
  | [] => None
  | (h', v) :: s' => if h' =? h then Some v else store_get h s'
  end.

Fixpoint store_set (h : Z) (v : list Z) (s : store) : store :=
  match s with
  | [] => []
  | (h', v') :: s' => if h' =? h then (h', v) :: s' else (h', v') :: store_set h v s'
  end.

Inductive wresp := WOk | WErr (code : Z) | WSilent.

Definition ATT_INVALID_ATTRIBUTE_LENGTH := 0x0D.

Definition srv_write (with_response : bool) (s : store) (h : Z) (v : list Z) : store * wresp :=
  match store_get h s with
  | None => (s, if with_response then WErr ATT_INVALID_HANDLE else WSilent)
  | Some _ =>
      if GATT_MAX_ATTRIBUTE_VALUE_SIZE <? Z.of_nat (length v)
      then (s, if with_response then WErr ATT_INVALID_ATTRIBUTE_LENGTH else WSilent)
      else (store_set h v s, if with_response then WOk else WSilent)
  end.

(* ------------------------------------------------------------------ notifications / indications *)
(* Server.subscribers: bearer -> {characteristic handle -> CCCD bytes}, in insertion order;
   a bearer is identified by an integer, its ATT_MTU is given by a function *)
Definition subs := list (Z * list (Z * list Z)).

Fixpoint assoc {A} (k : Z) (l : list (Z * A)) : option A :=
  match l with
  | [] => None
  | (k', v) :: l' => if k' =? k then Some v else assoc k l'
  end.

Definition OP_NOTIFICATION := 0x1B.
Definition OP_INDICATION := 0x1D.

(* a PDU on the wire: (bearer, opcode, attribute handle, value) *)
Definition pdu := (Z * Z * Z * list Z)%type.

Definition truncate (mtu : Z) (v : list Z) : list Z :=
  if mtu - 3 <? Z.of_nat (length v) then firstn (Z.to_nat (mtu - 3)) v else v.

(* the subscription check shared by _notify_single_subscriber (bit 0x01) and
   _indicate_single_bearer (bit 0x02) *)
Definition subscribed (bit : Z) (s : subs) (bearer h : Z) : bool :=
  match assoc bearer s with
  | None => false
  | Some cccds =>
      match cccds with
      | [] => false                                  (* "if not subscribers" *)
      | _ =>
          match assoc h cccds with
          | None => false
          | Some [] => false                         (* "if not cccd" *)
          | Some (b0 :: rest) =>
              andb (Nat.eqb (length rest) 1) (negb (Z.land b0 bit =? 0))
          end
      end
  end.

Definition send_single (indicate force : bool) (mtu_of : Z -> Z) (s : subs) (bearer h : Z) (v : list Z) : list pdu :=
  if orb force (subscribed (if indicate then 0x02 else 0x01) s bearer h)
  then [(bearer, (if indicate then OP_INDICATION else OP_NOTIFICATION), h, truncate (mtu_of bearer) v)]
  else [].

(* Server.notify_subscriber / indicate_subscriber on an un-enhanced bearer with no EATT
   channels, or with force, or on an enhanced bearer: one bearer *)
Definition notify_subscriber (mtu_of : Z -> Z) (s : subs) (bearer h : Z) (v : list Z) (force : bool) : list pdu :=
  send_single false force mtu_of s bearer h v.
Definition indicate_subscriber (mtu_of : Z -> Z) (s : subs) (bearer h : Z) (v : list Z) (force : bool) : list pdu :=
  send_single true force mtu_of s bearer h v.

(* Server.notify_subscriber / indicate_subscriber called with a Connection and no force: the
   EATT channels of that connection (le_coc_channels[handle] with psm == EATT_PSM, in dict
   order) and then the connection itself, each through the single-bearer routine *)
Definition subscriber_fan_out (indicate : bool) (mtu_of : Z -> Z) (s : subs) (eatt : list Z) (conn h : Z) (v : list Z) : list pdu :=
  flat_map (fun b => send_single indicate false mtu_of s b h v) (eatt ++ [conn]).

(* Server._notify_or_indicate_subscribers *)
Definition has_entry (s : list (Z * list Z)) (h : Z) : bool :=
  match assoc h s with Some (_ :: _) => true | _ => false end.

Definition notify_or_indicate_subscribers (indicate : bool) (mtu_of : Z -> Z) (s : subs) (h : Z) (v : list Z) (force : bool) : list pdu :=
  flat_map (fun bc => send_single indicate force mtu_of s (fst bc) h v)
           (filter (fun bc => orb force (has_entry (snd bc) h)) s).

(* Fan-out with value=None: every bearer's task reads the characteristic's current value for its
   own bearer AFTER its subscription check; a read that raises (ATT error from the dynamic
   read function or a permission check: [rv b = None]) ends that bearer's task only.  One
   asyncio task per bearer, gathered with asyncio.wait: a task that fails or never completes
   (confirmation that never comes) has no effect on the others. *)
Definition send_single_dyn (indicate : bool) (mtu_of : Z -> Z) (s : subs) (rv : Z -> option (list Z)) (bearer h : Z) : list pdu :=
  if subscribed (if indicate then 0x02 else 0x01) s bearer h
  then match rv bearer with
       | Some v => [(bearer, (if indicate then OP_INDICATION else OP_NOTIFICATION), h, truncate (mtu_of bearer) v)]
       | None => []
       end
  else [].

Definition notify_or_indicate_subscribers_dyn (indicate : bool) (mtu_of : Z -> Z) (s : subs) (h : Z)
                                              (rv : Z -> option (list Z)) : list pdu :=
  flat_map (fun bc => send_single_dyn indicate mtu_of s rv (fst bc) h)
           (filter (fun bc => has_entry (snd bc) h) s).

(* NOT the code: a sequential fan-out that lets the first failure leave the loop (what a
   "simplification" to `for bearer in bearers: await ...` does); only for fan_out_sequential_refuted *)
Fixpoint fan_out_sequential (indicate : bool) (mtu_of : Z -> Z) (s : subs) (h : Z) (rv : Z -> option (list Z))
                            (bearers : list Z) : list pdu :=
  match bearers with
  | [] => []
  | b :: bs =>
      if subscribed (if indicate then 0x02 else 0x01) s b h
      then match rv b with
           | Some v => (b, (if indicate then OP_INDICATION else OP_NOTIFICATION), h, truncate (mtu_of b) v)
                       :: fan_out_sequential indicate mtu_of s h rv bs
           | None => []                                        (* the exception leaves the loop *)
           end
      else fan_out_sequential indicate mtu_of s h rv bs
  end.

(* Server.write_cccd: a 2-byte value is recorded for (bearer, characteristic) *)
Fixpoint assoc_set {A} (k : Z) (v : A) (l : list (Z * A)) : list (Z * A) :=
  match l with
  | [] => [(k, v)]
  | (k', v') :: l' => if k' =? k then (k', v) :: l' else (k', v') :: assoc_set k v l'
  end.

Definition write_cccd (s : subs) (bearer h : Z) (value : list Z) : subs :=
  if Nat.eqb (length value) 2 then
    let cur := match assoc bearer s with Some c => c | None => [] end in
    assoc_set bearer (assoc_set h value cur) s
  else s.

(* ------------------------------------------------------------------ a client against the server model *)
Definition client_discover_services (mtu : Z) (db : list attr) : outcome * nat :=
  discover_services (fuel_for 1) (fun _ s => srv_read_by_group mtu db UUID_PRIMARY s 0xFFFF).

Definition client_discover_service (mtu : Z) (db : list attr) (u : uuid) : outcome * nat :=
  discover_service (fuel_for 1) (fun _ s => srv_find_by_type_value mtu db u s 0xFFFF).

(* on_att_read_request on the attribute at handle [h], for the values discovery reads (service
   declarations: the UUID, never longer than ATT_MTU-1 when ATT_MTU >= 23) *)
Definition srv_read_uuid (db : list attr) (h : Z) : uresp :=
  match find (fun a => a_handle a =? h) db with
  | None => UErr ATT_INVALID_HANDLE
  | Some a => match a_body a with
              | BService u => UVal (u_len u) (u_id u)
              | _ => UVal (disc_vlen a) 0
              end
  end.

Definition client_discover_included (mtu : Z) (db : list attr) (sh se : Z) : outcome * nat :=
  discover_included (fuel_for sh) (fun _ s => srv_read_by_type mtu db UUID_INCLUDE s se) (srv_read_uuid db) sh se.

(* what the client makes of an include declaration when it resolves reads with [rd] *)
Definition resolve_entry (rd : Z -> uresp) (e : entry) : entry :=
  match e_data e with
  | [s; en] => match rd s with
               | UVal l i => mkE (e_h e) (e_end e) false [s; en; l; i]
               | _ => e
               end
  | _ => e
  end.

(* the include declaration as declared: start, end and the included service's UUID *)
Definition declared_include (a : attr) : entry :=
  match a_body a with
  | BInclude s e u => mkE (a_handle a) (a_end a) false [s; e; u_len u; u_id u]
  | _ => to_entry a
  end.

(* every attribute of type Include is an include declaration of a service with a 2- or 16-byte
   UUID, and the attribute at its start handle is a service declaration with that UUID *)
Definition includes_consistent (db : list attr) : bool :=
  forallb (fun a => if uuid_eqb (a_type a) UUID_INCLUDE then
                      match a_body a with
                      | BInclude s _ u =>
                          andb (orb (u_len u =? 2) (u_len u =? 16))
                               (match find (fun b => a_handle b =? s) db with
                                | Some b => match a_body b with BService u' => uuid_eqb u' u | _ => false end
                                | None => false
                                end)
                      | _ => false
                      end
                    else true) db.

Definition client_discover_characteristics (mtu : Z) (db : list attr) (sh se : Z) : outcome * nat :=
  discover_characteristics (fuel_for sh) (fun _ s => srv_read_by_type mtu db UUID_CHARACTERISTIC s se) sh se.

Definition client_discover_descriptors (mtu : Z) (db : list attr) (vh ce : Z) : outcome * nat :=
  discover_descriptors (fuel_for (vh + 1)) (fun _ s => srv_find_information mtu db s ce) vh ce.

Definition client_discover_attributes (mtu : Z) (db : list attr) : outcome * nat :=
  discover_attributes (fuel_for 1) (fun _ s => srv_find_information mtu db s 0xFFFF).

(* ------------------------------------------------------------------ well-formedness of a database (boolean) *)
(* A list is a chain from [lo] when handles increase and each element's key (its own handle, or
   its end group handle) is at least its handle and below the next handle. *)
Fixpoint chainG {A} (h key : A -> Z) (lo : Z) (l : list A) : bool :=
  match l with
  | [] => true
  | x :: l' => andb (andb (lo <=? h x) (h x <=? key x)) (chainG h key (key x + 1) l')
  end.

Definition is_type (u : uuid) (a : attr) : bool := uuid_eqb (a_type a) u.

(* attributes in strictly increasing handle order, handles 1 .. 0xFFFE *)
Definition db_sorted (db : list attr) : bool :=
  andb (chainG a_handle a_handle 1 db) (forallb (fun a => a_handle a <=? 0xFFFE) db).

(* primary service groups do not overlap and end below 0xFFFF *)
Definition services_ok (db : list attr) : bool :=
  andb (chainG a_handle a_end 1 (filter (is_type UUID_PRIMARY) db))
       (forallb (fun a => a_end a <=? 0xFFFE) (filter (is_type UUID_PRIMARY) db)).

(* declaration values have the sizes GATT gives them: a service UUID of at most 16 bytes, an
   include / characteristic declaration of at most 19 *)
Definition decl_sizes_ok (db : list attr) : bool :=
  forallb (fun a => andb (if is_type UUID_PRIMARY a then disc_vlen a <=? 16 else true)
                         (if orb (is_type UUID_INCLUDE a) (is_type UUID_CHARACTERISTIC a)
                          then disc_vlen a <=? 19 else true)) db.

(* attribute types are UUIDs of at most 16 bytes *)
Definition types_ok (db : list attr) : bool :=
  forallb (fun a => andb (0 <=? u_len (a_type a)) (u_len (a_type a) <=? 16)) db.

(* each characteristic declaration's group ends right before the next declaration of the
   service, the last one at the end of the service *)
Fixpoint char_ends_ok (se : Z) (decls : list attr) : bool :=
  match decls with
  | [] => true
  | a :: l => andb (a_end a =? match l with [] => se | b :: _ => a_handle b - 1 end) (char_ends_ok se l)
  end.

Definition chars_of (db : list attr) (sh se : Z) : list attr :=
  filter (fun a => andb (is_type UUID_CHARACTERISTIC a) (in_range sh se a)) db.

(* all of it, for every primary or secondary service of the database *)
Definition db_wf (db : list attr) : bool :=
  andb (andb (db_sorted db) (services_ok db)) (andb (andb (decl_sizes_ok db) (types_ok db))
       (forallb (fun s => char_ends_ok (a_end s) (chars_of db (a_handle s) (a_end s)))
                (filter (fun a => orb (is_type UUID_PRIMARY a) (is_type UUID_SECONDARY a)) db))).

(* what add_services is given: UUIDs of 2 or 16 bytes in PDU form (a 32-bit UUID is sent as 16
   bytes), characteristic and descriptor UUIDs that are not one of the four declaration types *)
Definition is_decl_type (u : uuid) : bool :=
  orb (orb (uuid_eqb u UUID_PRIMARY) (uuid_eqb u UUID_SECONDARY))
      (orb (uuid_eqb u UUID_INCLUDE) (uuid_eqb u UUID_CHARACTERISTIC)).
Definition uuid_ok (u : uuid) : bool := orb (u_len u =? 2) (u_len u =? 16).
Definition desc_ok (d : desc_spec) : bool := andb (uuid_ok (d_uuid d)) (negb (is_decl_type (d_uuid d))).
Definition char_ok (c : char_spec) : bool :=
  andb (andb (uuid_ok (c_uuid c)) (negb (is_decl_type (c_uuid c)))) (forallb desc_ok (c_descs c)).
Definition svc_ok (s : svc_spec) : bool := andb (uuid_ok (s_uuid s)) (forallb char_ok (s_chars s)).
Definition specs_ok (ss : list svc_spec) : bool := forallb svc_ok ss.

(* included services are given as indices of services registered before: below the number of
   services registered so far *)
Fixpoint incl_idx_ok (n : nat) (ss : list svc_spec) : bool :=
  match ss with
  | [] => true
  | s :: ss' => andb (forallb (fun i => Nat.ltb i n) (s_incl s)) (incl_idx_ok (S n) ss')
  end.

Fixpoint total_size (ss : list svc_spec) : Z :=
  match ss with [] => 0 | s :: ss' => svc_size s + total_size ss' end.

(* ------------------------------------------------------------------ encodings for the correspondence check *)
Definition entry_obs (e : entry) : Z * Z * list Z := (e_h e, e_end e, e_data e).

Definition outcome_obs (o : outcome * nat) : Z * list (Z * Z * list Z) * Z :=
  match o with
  | (Done r, n) => (0, map entry_obs r, Z.of_nat n)
  | (Abort, n) => (1, [], Z.of_nat n)
  | (Raised c, n) => (2, [(c, 0, [])], Z.of_nat n)
  | (OutOfFuel, n) => (3, [], Z.of_nat n)
  end.

Definition attr_obs (a : attr) : Z * Z * (Z * Z) :=
  (a_handle a, a_end a, (u_len (a_type a), u_id (a_type a))).

Definition routcome_obs (r : routcome) : Z * list Z :=
  match r with RDone v => (0, v) | RRaised c => (1, [c]) | ROutOfFuel => (2, []) end.

(* a scripted peer: the i-th response of the list, the last one repeated for ever *)
Definition scripted (script : list resp) (n : nat) (_ : Z) : resp :=
  nth n script (last script RNone).
