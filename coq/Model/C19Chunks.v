(* Shared by the C19 models: cutting a byte string into consecutive pieces of at most
   n bytes, the loop shape of
     - bumble/avdtp.py Protocol.send_message  (payload = payload[max_fragment_size:])
     - bumble/sdp.py   Server.get_next_response_payload driven by a client's
       continuation requests (current_response = current_response[maximum_size:]).
   Executable Gallina only, no proofs.

   The Python loops run "while payload" / "until the continuation state is 0"; they are
   modelled with explicit fuel and an explicit out-of-fuel result [None].  The theorems
   give the fuel bound (length of the payload) under which [None] is excluded, and the
   guard (n >= 1) without which the loop does not terminate. *)
From Coq Require Import ZArith List Bool.
Import ListNotations.
Open Scope Z_scope.

Fixpoint chunks (fuel n : nat) (p : list Z) : option (list (list Z)) :=
  match p with
  | [] => Some []
  | _ :: _ =>
      match fuel with
      | O => None
      | S f =>
          match chunks f n (skipn n p) with
          | Some r => Some (firstn n p :: r)
          | None => None
          end
      end
  end.

Definition zlen {A} (l : list A) : Z := Z.of_nat (length l).

(* every element is a byte *)
Definition bytes_ok (l : list Z) : bool := forallb (fun b => (0 <=? b) && (b <? 256)) l.
