(* Vocabulary of the C05 source translator (tools/translate/c05_shape.py): the arithmetic /
   comparison expressions of the anchored functions as terms with an evaluator, and the
   statement skeletons of those functions.  Executable definitions only. *)
From Coq Require Import ZArith List Bool String.
Import ListNotations.
Open Scope Z_scope.

Inductive binop := Add | Sub | BOr | BAnd | Shl | Shr.
Inductive cmpop := CEq | CNe | CLt | CLe | CGt | CGe.

(* [PVar n] is the n-th distinct non-arithmetic sub-expression ("atom") of the function, e.g.
   len(self.current_data); the atom texts are emitted next to the terms *)
Inductive px :=
| PVar (n : nat)
| PNum (z : Z)
| PBin (op : binop) (a b : px)
| PCmp (op : cmpop) (a b : px)
| PIn (a : px) (xs : list px)
| PIf (c a b : px)                 (* a if c else b *)
| PMin (a b : px)
| PNot (a : px).

Definition b2z (b : bool) : Z := if b then 1 else 0.
Definition truthy (z : Z) : bool := negb (z =? 0).

Definition bin_eval (op : binop) (x y : Z) : Z :=
  match op with
  | Add => x + y | Sub => x - y | BOr => Z.lor x y | BAnd => Z.land x y
  | Shl => Z.shiftl x y | Shr => Z.shiftr x y
  end.
Definition cmp_eval (op : cmpop) (x y : Z) : bool :=
  match op with
  | CEq => x =? y | CNe => negb (x =? y) | CLt => x <? y | CLe => x <=? y | CGt => x >? y | CGe => x >=? y
  end.

Fixpoint pxeval (env : nat -> Z) (e : px) : Z :=
  match e with
  | PVar n => env n
  | PNum z => z
  | PBin op a b => bin_eval op (pxeval env a) (pxeval env b)
  | PCmp op a b => b2z (cmp_eval op (pxeval env a) (pxeval env b))
  | PIn a xs => b2z (existsb (fun x => pxeval env x =? pxeval env a) xs)
  | PIf c a b => if truthy (pxeval env c) then pxeval env a else pxeval env b
  | PMin a b => Z.min (pxeval env a) (pxeval env b)
  | PNot a => b2z (negb (truthy (pxeval env a)))
  end.

Definition env_of (vals : list Z) : nat -> Z := fun n => nth n vals 0.

(* statement skeleton: control flow and the canonical text (ast.unparse) of every expression;
   logging calls and docstrings are dropped *)
Inductive sk :=
| SExpr (e : string)
| SAssign (target value : string)
| SAug (target op value : string)
| SReturn (v : string)
| SAssert (e : string)
| SRaise (e : string)
| SIf (test : string) (body orelse : list sk)
| SFor (target iter : string) (body : list sk)
| SWhile (test : string) (body : list sk)
| STry (body : list sk) (handlers : list (string * list sk)).
