(* Model/CodecsA2dp.v — A2DP codec specific information elements (property C18):
   a2dp.SbcMediaCodecInformation and a2dp.AacMediaCodecInformation, from_bytes / __bytes__.
   Field values are the integer values of the IntFlag members.  None = raises (short input,
   bytes([..]) out of range). *)
From Coq Require Import ZArith List Bool.
From BV Require Import Base.Bytes Model.CodecsBase.
Import ListNotations.
Open Scope Z_scope.

(* SBC: sampling_frequency channel_mode block_length subbands allocation_method min_bitpool max_bitpool *)
Definition sbc_bytes (p : list Z) : list Z :=
  match p with
  | [sf; cm; bl; sb; am; mn; mx] =>
      [Z.lor (Z.shiftl sf 4) cm; Z.lor (Z.lor (Z.shiftl bl 4) (Z.shiftl sb 2)) am; mn; mx]
  | _ => []
  end.
Definition sbc_parse (d : list Z) : option (list Z) :=
  match d with
  | d0 :: d1 :: d2 :: d3 :: _ =>
      Some [Z.land (Z.shiftr d0 4) 15; Z.land (Z.shiftr d0 0) 15; Z.land (Z.shiftr d1 4) 15;
            Z.land (Z.shiftr d1 2) 3; Z.land (Z.shiftr d1 0) 3; Z.land (Z.shiftr d2 0) 255; Z.land (Z.shiftr d3 0) 255]
  | _ => None
  end.
Definition sbc_ok (p : list Z) : bool :=
  match p with
  | [sf; cm; bl; sb; am; mn; mx] => zlt 16 sf && zlt 16 cm && zlt 16 bl && zlt 4 sb && zlt 4 am && zlt 256 mn && zlt 256 mx
  | _ => false
  end.

(* AAC: object_type sampling_frequency channels vbr bitrate *)
Definition aac_bytes (p : list Z) : list Z :=
  match p with
  | [ot; sf; ch; vbr; br] =>
      [Z.land ot 255;
       Z.land (Z.shiftr sf 4) 255;
       Z.land (Z.lor (Z.shiftl (Z.land sf 15) 4) (Z.shiftl ch 2)) 255;
       Z.land (Z.lor (Z.shiftl vbr 7) (Z.land (Z.shiftr br 16) 127)) 255;
       Z.land (Z.land (Z.shiftr br 8) 255) 255;
       Z.land br 255]
  | _ => []
  end.
Definition aac_parse (d : list Z) : option (list Z) :=
  match d with
  | d0 :: d1 :: d2 :: d3 :: d4 :: d5 :: _ =>
      Some [d0;
            Z.lor (Z.shiftl d1 4) (Z.land (Z.shiftr d2 4) 15);
            Z.land (Z.shiftr d2 2) 3;
            Z.land (Z.shiftr d3 7) 1;
            Z.lor (Z.lor (Z.shiftl (Z.land d3 127) 16) (Z.shiftl d4 8)) d5]
  | _ => None
  end.
Definition aac_ok (p : list Z) : bool :=
  match p with
  | [ot; sf; ch; vbr; br] => zlt 256 ot && zlt 4096 sf && zlt 4 ch && zlt 2 vbr && zlt 8388608 br
  | _ => false
  end.
(* received octets whose two reserved bits (octet 2, bits 0-1) are zero *)
Definition aac_canonical (d : list Z) : bool := match d with _ :: _ :: d2 :: _ => Z.land d2 3 =? 0 | _ => false end.
