(* The reading of bumble/l2cap.py and bumble/utils.py that Model/Ertm.v, Model/L2capConfig.v and
   Model/Crc16.v were written against: one skeleton per function (see tools/translate/c08_shape.py
   for the reduction).  Props/C08.v proves that the skeletons regenerated from the current source
   equal these.  When one differs, re-read the function, update the model and its proofs, and only
   then this file.  No proofs here. *)
From Coq Require Import List String.
Import ListNotations.
Open Scope string_scope.

Definition model_shape : list (string * list string) :=
  [
   ("crc_16",
    ["def(data)";
     "set crc = 0";
     "for byte in data";
     "set crc BitXor= byte";
     "for _ in range(8)";
     "if crc & 1 > 0";
     "set crc = crc >> 1 ^ 40961";
     "else";
     "set crc = crc >> 1";
     "end";
     "end";
     "end";
     "return crc"]);
   ("L2CAP_PDU.from_bytes",
    ["def(cls, data)";
     "if len(data) < 4";
     "raise InvalidPacketError";
     "end";
     "set (length, l2cap_pdu_cid) = struct.unpack_from('<HH', data, 0)";
     "set l2cap_pdu_payload = data[4:4 + length]";
     "return cls(l2cap_pdu_cid, l2cap_pdu_payload)"]);
   ("L2CAP_PDU.to_bytes",
    ["def(self, with_fcs=False)";
     "set length = len(self.payload)";
     "if with_fcs";
     "set length Add= 2";
     "end";
     "set header = struct.pack('<HH', length, self.cid)";
     "set body = header + self.payload";
     "if with_fcs";
     "set body Add= struct.pack('<H', utils.crc_16(body))";
     "end";
     "return body"]);
   ("EnhancedControlField.from_bytes",
    ["def(cls, data)";
     "set frame_type = data[0] & 1";
     "if frame_type == cls.FieldType.I_FRAME";
     "return InformationEnhancedControlField.from_bytes(data)";
     "else";
     "if frame_type == cls.FieldType.S_FRAME";
     "return SupervisoryEnhancedControlField.from_bytes(data)";
     "else";
     "raise InvalidArgumentError";
     "end";
     "end"]);
   ("InformationEnhancedControlField.from_bytes",
    ["def(cls, data)";
     "return cls(tx_seq=data[0] >> 1 & 63, final=data[0] >> 7 & 1, req_seq=data[1] & 63, sar=data[1] >> 6 & 3)"]);
   ("InformationEnhancedControlField.__bytes__",
    ["def(self)";
     "return bytes([self.frame_type | self.tx_seq << 1 | self.final << 7, self.req_seq | self.sar << 6])"]);
   ("SupervisoryEnhancedControlField.from_bytes",
    ["def(cls, data)";
     "return cls(supervision_function=data[0] >> 2 & 3, poll=data[0] >> 4 & 1, final=data[0] >> 7 & 1, req_seq=data[1] & 127)"]);
   ("SupervisoryEnhancedControlField.__bytes__",
    ["def(self)";
     "return bytes([self.frame_type | self.supervision_function << 2 | self.poll << 4 | self.final << 7, self.req_seq])"]);
   ("Processor.send_sdu",
    ["def(self, sdu)";
     "call self.channel.send_pdu(sdu)"]);
   ("Processor.on_pdu",
    ["def(self, pdu)";
     "call self.channel.on_sdu(pdu)"]);
   ("EnhancedRetransmissionProcessor._PendingPdu.__bytes__",
    ["def(self)";
     "return bytes(InformationEnhancedControlField(tx_seq=self.tx_seq, req_seq=self.req_seq, sar=self.sar)) + (struct.pack('<H', self.sdu_length) if self.sar == InformationEnhancedControlField.SegmentationAndReassembly.START else b'') + self.payload"]);
   ("EnhancedRetransmissionProcessor.__init__",
    ["def(self, channel, peer_tx_window_size=DEFAULT_TX_WINDOW_SIZE, peer_max_retransmission=DEFAULT_MAX_RETRANSMISSION, peer_mps=L2CAP_DEFAULT_MPS)";
     "set spec = channel.spec";
     "set self.mps = spec.mps";
     "set self.peer_mps = peer_mps";
     "set self.peer_tx_window_size = peer_tx_window_size";
     "set self._pending_pdus = []";
     "set self._tx_window = []";
     "set self.monitor_timeout = spec.monitor_timeout";
     "set self.channel = channel";
     "set self.retransmission_timeout = spec.retransmission_timeout";
     "set self.peer_max_retransmission = peer_max_retransmission"]);
   ("EnhancedRetransmissionProcessor._monitor",
    ["def(self)";
     "if self.peer_max_retransmission <= 0 or self._num_receiver_ready_polls_sent < self.peer_max_retransmission";
     "call self._send_receiver_ready_poll()";
     "call self._start_monitor()";
     "else";
     "end"]);
   ("EnhancedRetransmissionProcessor._receiver_ready_poll",
    ["def(self)";
     "call self._send_receiver_ready_poll()";
     "call self._start_monitor()"]);
   ("EnhancedRetransmissionProcessor._start_monitor",
    ["def(self)";
     "if self._monitor_handle";
     "call self._monitor_handle.cancel()";
     "end";
     "set self._monitor_handle = asyncio.get_running_loop().call_later(self.monitor_timeout, self._monitor)"]);
   ("EnhancedRetransmissionProcessor._start_receiver_ready_poll",
    ["def(self)";
     "if self._receiver_ready_poll_handle";
     "call self._receiver_ready_poll_handle.cancel()";
     "end";
     "set self._num_receiver_ready_polls_sent = 0";
     "set self._receiver_ready_poll_handle = asyncio.get_running_loop().call_later(self.retransmission_timeout, self._receiver_ready_poll)"]);
   ("EnhancedRetransmissionProcessor._send_receiver_ready_poll",
    ["def(self)";
     "set self._num_receiver_ready_polls_sent Add= 1";
     "call self._send_s_frame(supervision_function=SupervisoryEnhancedControlField.SupervisoryFunction.RR, final=0, poll=1)"]);
   ("EnhancedRetransmissionProcessor._get_next_tx_seq",
    ["def(self)";
     "set seq_num = self._next_tx_seq";
     "set self._next_tx_seq = (self._next_tx_seq + 1) % self.MAX_SEQ_NUM";
     "return seq_num"]);
   ("EnhancedRetransmissionProcessor.send_sdu",
    ["def(self, sdu)";
     "if len(sdu) <= self.peer_mps";
     "set pdu = self._PendingPdu(payload=sdu, tx_seq=self._get_next_tx_seq(), req_seq=self._req_seq_num, sar=InformationEnhancedControlField.SegmentationAndReassembly.UNSEGMENTED)";
     "call self._pending_pdus.append(pdu)";
     "else";
     "for offset in range(0, len(sdu), self.peer_mps)";
     "set payload = sdu[offset:offset + self.peer_mps]";
     "if offset == 0";
     "set sar = InformationEnhancedControlField.SegmentationAndReassembly.START";
     "else";
     "if offset + len(payload) >= len(sdu)";
     "set sar = InformationEnhancedControlField.SegmentationAndReassembly.END";
     "else";
     "set sar = InformationEnhancedControlField.SegmentationAndReassembly.CONTINUATION";
     "end";
     "end";
     "set pdu = self._PendingPdu(payload=payload, tx_seq=self._get_next_tx_seq(), req_seq=self._req_seq_num, sar=sar, sdu_length=len(sdu))";
     "call self._pending_pdus.append(pdu)";
     "end";
     "end";
     "call self._process_output()"]);
   ("EnhancedRetransmissionProcessor.on_pdu",
    ["def(self, pdu)";
     "set control_field = EnhancedControlField.from_bytes(pdu)";
     "call self._update_ack_seq(control_field.req_seq, control_field.final != 0)";
     "if isinstance(control_field, InformationEnhancedControlField)";
     "if control_field.tx_seq != self._req_seq_num";
     "return ";
     "end";
     "set self._req_seq_num = (control_field.tx_seq + 1) % self.MAX_SEQ_NUM";
     "if control_field.sar == InformationEnhancedControlField.SegmentationAndReassembly.START";
     "set self._in_sdu Add= pdu[4:]";
     "else";
     "set self._in_sdu Add= pdu[2:]";
     "end";
     "if control_field.sar in (InformationEnhancedControlField.SegmentationAndReassembly.END, InformationEnhancedControlField.SegmentationAndReassembly.UNSEGMENTED)";
     "call self.channel.on_sdu(self._in_sdu)";
     "set self._in_sdu = b''";
     "end";
     "if self._req_seq_num != self._last_acked_rx_seq";
     "call self._send_s_frame(supervision_function=SupervisoryEnhancedControlField.SupervisoryFunction.RR, final=0)";
     "end";
     "else";
     "if isinstance(control_field, SupervisoryEnhancedControlField)";
     "set self._remote_is_busy = control_field.supervision_function == SupervisoryEnhancedControlField.SupervisoryFunction.RNR";
     "if control_field.supervision_function in (SupervisoryEnhancedControlField.SupervisoryFunction.RR, SupervisoryEnhancedControlField.SupervisoryFunction.RNR)";
     "if control_field.poll";
     "call self._send_s_frame(supervision_function=SupervisoryEnhancedControlField.SupervisoryFunction.RR, final=1)";
     "end";
     "else";
     "end";
     "end";
     "end"]);
   ("EnhancedRetransmissionProcessor._process_output",
    ["def(self)";
     "if self._remote_is_busy";
     "return ";
     "end";
     "if self._monitor_handle";
     "return ";
     "end";
     "set pdu_to_send = self.peer_tx_window_size - len(self._tx_window)";
     "for pdu in itertools.islice(self._pending_pdus, pdu_to_send)";
     "call self._send_i_frame(pdu)";
     "end";
     "set self._pending_pdus = self._pending_pdus[pdu_to_send:]"]);
   ("EnhancedRetransmissionProcessor._send_i_frame",
    ["def(self, pdu)";
     "set pdu.req_seq = self._req_seq_num";
     "call self._start_receiver_ready_poll()";
     "call self._tx_window.append(pdu)";
     "call self.channel.send_pdu(bytes(pdu))";
     "set self._last_acked_rx_seq = self._req_seq_num"]);
   ("EnhancedRetransmissionProcessor._send_s_frame",
    ["def(self, supervision_function, final, poll=0)";
     "call self.channel.send_pdu(SupervisoryEnhancedControlField(supervision_function=supervision_function, poll=poll, final=final, req_seq=self._req_seq_num))";
     "set self._last_acked_rx_seq = self._req_seq_num"]);
   ("EnhancedRetransmissionProcessor._update_ack_seq",
    ["def(self, new_seq, is_poll_response)";
     "set num_frames_acked = (new_seq - self._last_acked_tx_seq) % self.MAX_SEQ_NUM";
     "if num_frames_acked > len(self._tx_window)";
     "return ";
     "end";
     "if is_poll_response and self._monitor_handle";
     "call self._monitor_handle.cancel()";
     "set self._monitor_handle = None";
     "end";
     "del self._tx_window[:num_frames_acked]";
     "set self._last_acked_tx_seq = new_seq";
     "if self._last_acked_tx_seq == self._next_tx_seq and self._receiver_ready_poll_handle";
     "call self._receiver_ready_poll_handle.cancel()";
     "set self._receiver_ready_poll_handle = None";
     "end";
     "call self._process_output()"]);
   ("ClassicChannel.__init__",
    ["def(self, manager, connection, signaling_cid, psm, source_cid, spec)";
     "call super().__init__()";
     "set self.manager = manager";
     "set self.connection = connection";
     "set self.signaling_cid = signaling_cid";
     "set self.state = self.State.CLOSED";
     "set self.mtu = spec.mtu";
     "set self.peer_mtu = L2CAP_MIN_BR_EDR_MTU";
     "set self.psm = psm";
     "set self.source_cid = source_cid";
     "set self.destination_cid = 0";
     "set self.connection_result = None";
     "set self.disconnection_result = None";
     "set self.sink = None";
     "set self.fcs_enabled = spec.fcs_enabled and L2CAP_Information_Request.ExtendedFeatures.FCS_OPTION in manager.extended_features";
     "set self.spec = spec";
     "set self.mode = spec.mode";
     "set self.processor = Processor(self)";
     "if self.mode not in (TransmissionMode.BASIC, TransmissionMode.ENHANCED_RETRANSMISSION)";
     "raise InvalidArgumentError";
     "end"]);
   ("ClassicChannel.write",
    ["def(self, sdu)";
     "call self.processor.send_sdu(sdu)"]);
   ("ClassicChannel.send_pdu",
    ["def(self, pdu)";
     "if self.state != self.State.OPEN";
     "raise InvalidStateError";
     "end";
     "call self.manager.send_pdu(self.connection, self.destination_cid, pdu, self.fcs_enabled)"]);
   ("ClassicChannel.on_pdu",
    ["def(self, pdu)";
     "if self.fcs_enabled";
     "set pdu = pdu[:-2]";
     "end";
     "call self.processor.on_pdu(pdu)"]);
   ("ClassicChannel.on_sdu",
    ["def(self, sdu)";
     "if self.sink";
     "call self.sink(sdu)";
     "else";
     "end"]);
   ("ClassicChannel.connect",
    ["def(self)";
     "if self.state != self.State.CLOSED";
     "raise InvalidStateError";
     "end";
     "if self.connection_result";
     "raise InvalidStateError";
     "end";
     "call self._change_state(self.State.WAIT_CONNECT_RSP)";
     "call self.send_control_frame(L2CAP_Connection_Request(identifier=self.manager.next_identifier(self.connection), psm=self.psm, source_cid=self.source_cid))";
     "set self.connection_result = asyncio.get_running_loop().create_future()";
     "try";
     "return await self.connection.cancel_on_disconnection(self.connection_result)";
     "finally";
     "set self.connection_result = None";
     "end"]);
   ("ClassicChannel._disconnect_sync",
    ["def(self)";
     "call self._change_state(self.State.WAIT_DISCONNECT)";
     "call self.send_control_frame(L2CAP_Disconnection_Request(identifier=self.manager.next_identifier(self.connection), destination_cid=self.destination_cid, source_cid=self.source_cid))";
     "set self.disconnection_result = asyncio.get_running_loop().create_future()"]);
   ("ClassicChannel._abort_connection_result",
    ["def(self, message='_')";
     "if self.connection_result and (not self.connection_result.done())";
     "call self.connection_result.set_exception(L2capError(error_code=0, error_name=message))";
     "end"]);
   ("ClassicChannel.send_configure_request",
    ["def(self)";
     "set options = [(L2CAP_Configure_Request.ParameterType.MTU, struct.pack('<H', self.mtu))]";
     "if self.mode == TransmissionMode.ENHANCED_RETRANSMISSION";
     "call options.append((L2CAP_Configure_Request.ParameterType.RETRANSMISSION_AND_FLOW_CONTROL, struct.pack('<BBBHHH', TransmissionMode.ENHANCED_RETRANSMISSION, self.spec.tx_window_size, self.spec.max_retransmission, int(self.spec.retransmission_timeout * 1000), int(self.spec.monitor_timeout * 1000), self.spec.mps)))";
     "end";
     "if self.fcs_enabled";
     "call options.append((L2CAP_Configure_Request.ParameterType.FCS, bytes([1 if self.fcs_enabled else 0])))";
     "end";
     "call self.send_control_frame(L2CAP_Configure_Request(identifier=self.manager.next_identifier(self.connection), destination_cid=self.destination_cid, flags=0, options=L2CAP_Control_Frame.encode_configuration_options(options)))"]);
   ("ClassicChannel.on_connection_request",
    ["def(self, request)";
     "set self.destination_cid = request.source_cid";
     "call self._change_state(self.State.WAIT_CONNECT)";
     "call self.send_control_frame(L2CAP_Connection_Response(identifier=request.identifier, destination_cid=self.source_cid, source_cid=self.destination_cid, result=L2CAP_Connection_Response.Result.CONNECTION_SUCCESSFUL, status=0))";
     "call self._change_state(self.State.WAIT_CONFIG)";
     "call self.send_configure_request()";
     "call self._change_state(self.State.WAIT_CONFIG_REQ_RSP)"]);
   ("ClassicChannel.on_connection_response",
    ["def(self, response)";
     "if self.state != self.State.WAIT_CONNECT_RSP";
     "return ";
     "end";
     "if response.result == L2CAP_Connection_Response.Result.CONNECTION_SUCCESSFUL";
     "set self.destination_cid = response.destination_cid";
     "call self._change_state(self.State.WAIT_CONFIG)";
     "call self.send_configure_request()";
     "call self._change_state(self.State.WAIT_CONFIG_REQ_RSP)";
     "else";
     "if response.result == L2CAP_Connection_Response.Result.CONNECTION_PENDING";
     "else";
     "call self._change_state(self.State.CLOSED)";
     "if self.connection_result";
     "call self.connection_result.set_exception(L2capError(response.result, L2CAP_Connection_Response.Result(response.result).name))";
     "set self.connection_result = None";
     "end";
     "end";
     "end"]);
   ("ClassicChannel.on_configure_request",
    ["def(self, request)";
     "if self.state not in (self.State.WAIT_CONFIG, self.State.WAIT_CONFIG_REQ, self.State.WAIT_CONFIG_REQ_RSP)";
     "return ";
     "end";
     "set options = L2CAP_Control_Frame.decode_configuration_options(request.options)";
     "set replied_options = list[tuple[int, bytes]]()";
     "set result = L2CAP_Configure_Response.Result.SUCCESS";
     "set new_mode = TransmissionMode.BASIC";
     "for option in options";
     "match option[0]";
     "case L2CAP_Configure_Request.ParameterType.MTU";
     "set self.peer_mtu = struct.unpack('<H', option[1])[0]";
     "call replied_options.append(option)";
     "case L2CAP_Configure_Request.ParameterType.RETRANSMISSION_AND_FLOW_CONTROL";
     "set (mode, peer_tx_window_size, peer_max_retransmission, peer_retransmission_timeout, peer_monitor_timeout, peer_mps) = struct.unpack_from('<BBBHHH', option[1])";
     "set new_mode = TransmissionMode(mode)";
     "if new_mode != self.mode";
     "call self._abort_connection_result('_')";
     "call self._disconnect_sync()";
     "return ";
     "end";
     "if new_mode == TransmissionMode.BASIC";
     "call replied_options.append(option)";
     "else";
     "if new_mode == TransmissionMode.ENHANCED_RETRANSMISSION";
     "set self.processor = self.manager.make_mode_processor(self, mode=new_mode, peer_tx_window_size=peer_tx_window_size, peer_max_retransmission=peer_max_retransmission, peer_monitor_timeout=peer_monitor_timeout, peer_retransmission_timeout=peer_retransmission_timeout, peer_mps=peer_mps)";
     "call replied_options.append(option)";
     "else";
     "call self._abort_connection_result('_')";
     "call self._disconnect_sync()";
     "return ";
     "end";
     "end";
     "case L2CAP_Configure_Request.ParameterType.FCS";
     "set enabled = option[1][0] != 0";
     "if not enabled or L2CAP_Information_Request.ExtendedFeatures.FCS_OPTION in self.manager.extended_features";
     "set self.fcs_enabled = enabled";
     "call replied_options.append(option)";
     "else";
     "set result = L2CAP_Configure_Response.Result.FAILURE_UNACCEPTABLE_PARAMETERS";
     "set replied_options = [(option[0], bytes([0]))]";
     "break";
     "end";
     "case _";
     "set result = L2CAP_Configure_Response.Result.FAILURE_UNKNOWN_OPTIONS";
     "set replied_options = [option]";
     "break";
     "end";
     "end";
     "call self.send_control_frame(L2CAP_Configure_Response(identifier=request.identifier, source_cid=self.destination_cid, flags=0, result=result, options=L2CAP_Control_Frame.encode_configuration_options(replied_options)))";
     "if result != L2CAP_Configure_Response.Result.SUCCESS";
     "return ";
     "end";
     "if self.state == self.State.WAIT_CONFIG";
     "call self._change_state(self.State.WAIT_SEND_CONFIG)";
     "call self.send_configure_request()";
     "call self._change_state(self.State.WAIT_CONFIG_RSP)";
     "else";
     "if self.state == self.State.WAIT_CONFIG_REQ";
     "call self._change_state(self.State.OPEN)";
     "if self.connection_result";
     "call self.connection_result.set_result(None)";
     "set self.connection_result = None";
     "end";
     "call self.emit(self.EVENT_OPEN)";
     "else";
     "if self.state == self.State.WAIT_CONFIG_REQ_RSP";
     "call self._change_state(self.State.WAIT_CONFIG_RSP)";
     "end";
     "end";
     "end"]);
   ("ClassicChannel.on_configure_response",
    ["def(self, response)";
     "if response.result == L2CAP_Configure_Response.Result.SUCCESS";
     "if self.state == self.State.WAIT_CONFIG_REQ_RSP";
     "call self._change_state(self.State.WAIT_CONFIG_REQ)";
     "else";
     "if self.state in (self.State.WAIT_CONFIG_RSP, self.State.WAIT_CONTROL_IND)";
     "call self._change_state(self.State.OPEN)";
     "if self.connection_result";
     "call self.connection_result.set_result(None)";
     "set self.connection_result = None";
     "end";
     "call self.emit(self.EVENT_OPEN)";
     "else";
     "end";
     "end";
     "else";
     "if response.result == L2CAP_Configure_Response.Result.FAILURE_UNACCEPTABLE_PARAMETERS";
     "set adopted = False";
     "for option in L2CAP_Control_Frame.decode_configuration_options(response.options)";
     "if option[0] == L2CAP_Configure_Request.ParameterType.MTU";
     "set self.mtu = struct.unpack('<H', option[1])[0]";
     "set adopted = True";
     "else";
     "if option[0] == L2CAP_Configure_Request.ParameterType.FCS";
     "set self.fcs_enabled = option[1][0] != 0";
     "set adopted = True";
     "end";
     "end";
     "end";
     "if adopted";
     "call self.send_configure_request()";
     "else";
     "end";
     "else";
     "end";
     "end"]);
   ("ChannelManager.make_mode_processor",
    ["def(self, channel, mode, peer_tx_window_size, peer_max_retransmission, peer_retransmission_timeout, peer_monitor_timeout, peer_mps)";
     "del peer_retransmission_timeout, peer_monitor_timeout";
     "if mode == TransmissionMode.BASIC";
     "return Processor(channel)";
     "else";
     "if mode == TransmissionMode.ENHANCED_RETRANSMISSION";
     "return EnhancedRetransmissionProcessor(channel, peer_tx_window_size, peer_max_retransmission, peer_mps)";
     "end";
     "end";
     "raise InvalidArgumentError"])
  ].

