(* Model of the HCI framers of bumble/transport as executable Gallina.  No proofs.

   common.py  HCI_PACKET_INFO            -> [table]   (regenerated into Gen/C02Tables.v)
   common.py  PacketParser.reset/feed_data -> [reset] / [feed]      (push parser)
   common.py  StreamPacketSource.data_received -> [feeds] (one shared parser, errors logged)
   common.py  PacketReader.next_packet   -> [pr_next]  (blocking pull reader)
   common.py  AsyncPacketReader.next_packet -> [apr_next] (asyncio pull reader)
   usb.py     PacketSplitter.feed        -> [split_feed] (per-endpoint splitter)
   usb.py     UsbPacketSource.queue_packet -> [usb_feed] (type byte prepended)
   tcp_server.py / unix.py  server protocol life cycle -> [srv_step] / [srv_run]
   ws_server.py  WsServerTransport.on_connection      -> [ws_connection]
   android_netsim.py  Server.lease_sink / HciDevice.pump_loop -> [netsim_connection]

   Bytes are [list Z] (each in [0,256), see [bytes_ok]); all integers are Z.
   The servers are modelled AFTER fixes D02 / D02b (fixes/D02.patch, fixes/D02b.patch): the
   shared parser is reset when a client connects.  The statement skeletons of all modelled
   functions are recorded in Model/FramerShape.v and compared with the current source on
   every run (Gen/C02Shape.v).

   Abstractions (exact statement of what is not literal):
   - data[data_offset:data_offset+consumed] / data_left are the list suffix [data];
   - the loop guard `while data_left and self.bytes_needed` is [0 <? needed]; this is the
     Python truth value whenever bytes_needed >= 0, which holds in every reachable state
     (Proofs/Framer.v [feed_needed_nonneg]);
   - struct.unpack_from(fmt, packet, 1+offset) is [le_decode (take us (drop (1+lo) pkt))]
     where us = struct.calcsize(fmt); the translator checks that fmt decodes an unsigned
     little-endian integer of that size on this host.  struct.error for a short buffer is not
     modelled: it cannot happen when us <= length_size ([wf_table]);
   - sink is set and sink.on_packet's own exceptions are swallowed by feed_data: the
     outputs are the on_packet calls; an InvalidPacketError is the output [Error ty]
     together with status [Raised];
   - PacketSplitter slices with negative bounds (only possible from a buffer longer than
     its own packet length, unreachable) are clamped to 0;
   - loops use explicit fuel; [OutOfFuel] is an explicit result which the theorems exclude. *)
From Coq Require Import ZArith List Bool.
Import ListNotations.
Open Scope Z_scope.

(* ------------------------------------------------------------------ bytes *)
Definition len (l : list Z) : Z := Z.of_nat (length l).
Definition take (n : Z) (l : list Z) : list Z := firstn (Z.to_nat n) l.
Definition drop (n : Z) (l : list Z) : list Z := skipn (Z.to_nat n) l.
Definition byte_ok (b : Z) : bool := (0 <=? b) && (b <? 256).
Definition bytes_ok (l : list Z) : bool := forallb byte_ok l.

Fixpoint le_decode (bs : list Z) : Z :=
  match bs with
  | [] => 0
  | b :: r => b + 256 * le_decode r
  end.

(* ------------------------------------------------------------------ HCI_PACKET_INFO *)
(* (length-size, length-offset, size decoded by the unpack-type) *)
Record pinfo := mkInfo { i_ls : Z; i_lo : Z; i_us : Z }.
Definition table := list (Z * pinfo).

Fixpoint lookup (t : table) (ty : Z) : option pinfo :=
  match t with
  | [] => None
  | (k, i) :: r => if k =? ty then Some i else lookup r ty
  end.

Definition wf_info (e : Z * pinfo) : bool :=
  let '(ty, i) := e in
  byte_ok ty && (1 <=? i_ls i) && (0 <=? i_lo i) && (i_us i =? i_ls i).
Definition wf_table (t : table) : bool := forallb wf_info t.

(* The five packet layouts of the Bluetooth Core specification, Vol 4 Part E 5.4
   (type, (length-size, length-offset)): command 1, ACL 2, SCO 3, event 4, ISO 5. *)
Definition hci_spec_layout : list (Z * (Z * Z)) :=
  [(1, (1, 2)); (2, (2, 2)); (3, (1, 2)); (4, (1, 1)); (5, (2, 2))].

Fixpoint insert_layout (e : Z * (Z * Z)) (l : list (Z * (Z * Z))) :=
  match l with
  | [] => [e]
  | x :: r => if fst e <=? fst x then e :: l else x :: insert_layout e r
  end.
Definition sort_layout (l : list (Z * (Z * Z))) := fold_right insert_layout [] l.
Definition layout_eqb (a b : Z * (Z * Z)) : bool :=
  (fst a =? fst b) && (fst (snd a) =? fst (snd b)) && (snd (snd a) =? snd (snd b)).
Fixpoint layouts_eqb (a b : list (Z * (Z * Z))) : bool :=
  match a, b with
  | [], [] => true
  | x :: a', y :: b' => layout_eqb x y && layouts_eqb a' b'
  | _, _ => false
  end.
Definition table_is_hci (t : table) : bool :=
  layouts_eqb (sort_layout (map (fun e => (fst e, (i_ls (snd e), i_lo (snd e)))) t))
              hci_spec_layout.

(* ------------------------------------------------------------------ PacketParser *)
Inductive pst := NeedType | NeedLength | NeedBody.

Record parser := mkP {
  p_st : pst;                    (* self.state *)
  p_needed : Z;                  (* self.bytes_needed *)
  p_pkt : list Z;                (* self.packet *)
  p_info : option pinfo          (* self.packet_info *)
}.

Inductive out := Packet (p : list Z) | Error (ty : Z).
Inductive status := Ok | Raised | OutOfFuel.

(* PacketParser.reset *)
Definition reset : parser := mkP NeedType 1 [] None.

(* self.packet.extend(chunk); self.bytes_needed -= len(chunk) *)
Definition acc (s : parser) (chunk : list Z) : parser :=
  mkP (p_st s) (p_needed s - len chunk) (p_pkt s ++ chunk) (p_info s).

Definition info_or_zero (s : parser) : pinfo :=
  match p_info s with Some i => i | None => mkInfo 0 0 0 end.

(* the block under `if self.bytes_needed == 0:`; returns (state, outputs, raised) *)
Definition fin (t : table) (s : parser) : parser * list out * bool :=
  let '(s1, raised) :=
    match p_st s with
    | NeedType =>
        let ty := hd 0 (p_pkt s) in
        match lookup t ty with
        | None => (reset, Some ty)                 (* self.reset(); raise InvalidPacketError *)
        | Some i => (mkP NeedLength (i_ls i + i_lo i) (p_pkt s) (Some i), None)
        end
    | NeedLength =>
        let i := info_or_zero s in
        let body_length := le_decode (take (i_us i) (drop (1 + i_lo i) (p_pkt s))) in
        (mkP NeedBody body_length (p_pkt s) (p_info s), None)
    | NeedBody => (s, None)
    end in
  match raised with
  | Some ty => (s1, [Error ty], true)
  | None =>
      (* Emit a packet if one is complete *)
      match p_st s1 with
      | NeedBody => if p_needed s1 =? 0 then (reset, [Packet (p_pkt s1)], false)
                    else (s1, [], false)
      | _ => (s1, [], false)
      end
  end.

(* one iteration of the while loop; returns (state, outputs, raised, remaining data) *)
Definition body (t : table) (s : parser) (data : list Z) : parser * list out * bool * list Z :=
  let consumed := Z.min (p_needed s) (len data) in
  let s1 := acc s (take consumed data) in
  let rest := drop consumed data in
  if p_needed s1 =? 0 then
    let '(s2, o, raised) := fin t s1 in (s2, o, raised, rest)
  else (s1, [], false, rest).

Definition guard (s : parser) (data : list Z) : bool :=
  match data with [] => false | _ => 0 <? p_needed s end.

Fixpoint feed_loop (t : table) (fuel : nat) (s : parser) (data : list Z)
  : parser * list out * status :=
  if guard s data then
    match fuel with
    | O => (s, [], OutOfFuel)
    | S f =>
        let '(s1, o1, raised, rest) := body t s data in
        if raised then (s1, o1, Raised)
        else let '(s2, o2, st) := feed_loop t f s1 rest in (s2, o1 ++ o2, st)
    end
  else (s, [], Ok).

(* PacketParser.feed_data *)
Definition feed (t : table) (s : parser) (data : list Z) : parser * list out * status :=
  feed_loop t (length data) s data.

(* StreamPacketSource.data_received called once per chunk on one parser: an
   InvalidPacketError is caught and logged, the next chunk is fed to the same parser.
   Returns the outputs chunk by chunk. *)
Fixpoint feeds (t : table) (s : parser) (chunks : list (list Z)) : parser * list (list out) :=
  match chunks with
  | [] => (s, [])
  | c :: r =>
      let '(s1, o1, _) := feed t s c in
      let '(s2, o2) := feeds t s1 r in (s2, o1 :: o2)
  end.

Fixpoint packets_of (o : list out) : list (list Z) :=
  match o with
  | [] => []
  | Packet p :: r => p :: packets_of r
  | Error _ :: r => packets_of r
  end.

Fixpoint has_error (o : list out) : bool :=
  match o with
  | [] => false
  | Packet _ :: r => has_error r
  | Error _ :: _ => true
  end.

(* ------------------------------------------------------------------ well-formed packets *)
Definition wf_packet (t : table) (p : list Z) : bool :=
  match p with
  | [] => false
  | ty :: r =>
      match lookup t ty with
      | None => false
      | Some i =>
          let hs := i_ls i + i_lo i in
          bytes_ok p && (hs <=? len r) &&
          (len r =? hs + le_decode (take (i_ls i) (drop (i_lo i) r)))
      end
  end.

(* the packets that lie wholly inside the first n bytes of their concatenation *)
Fixpoint whole_within (pkts : list (list Z)) (n : Z) : list (list Z) :=
  match pkts with
  | [] => []
  | p :: r => if len p <=? n then p :: whole_within r (n - len p) else []
  end.

(* ------------------------------------------------------------------ pull readers *)
Inductive rres := RPacket (p : list Z) | RAtEnd | RInvalid (ty : Z) | RTooShort | RFuel.

(* PacketReader.next_packet over a source whose read(n) returns n bytes unless the end
   is reached (io.BytesIO, a file); returns (result, rest of the source) *)
Definition pr_next (t : table) (src : list Z) : rres * list Z :=
  let ty := take 1 src in
  let src1 := drop 1 src in
  if negb (len ty =? 1) then (RAtEnd, src1)            (* self.at_end = True; return None *)
  else
    match lookup t (hd 0 ty) with
    | None => (RInvalid (hd 0 ty), src1)
    | Some i =>
        let hs := i_ls i + i_lo i in
        let header := take hs src1 in
        let src2 := drop hs src1 in
        if negb (len header =? hs) then (RTooShort, src2)
        else
          let body_length := le_decode (take (i_us i) (drop (i_lo i) header)) in
          let bdy := take body_length src2 in
          let src3 := drop body_length src2 in
          if negb (len bdy =? body_length) then (RTooShort, src3)
          else (RPacket (ty ++ header ++ bdy), src3)
    end.

(* AsyncPacketReader.next_packet over a StreamReader that eventually holds [src] followed
   by EOF: readexactly(n) returns n bytes or raises IncompleteReadError ([RTooShort]),
   also for the type byte *)
Definition apr_next (t : table) (src : list Z) : rres * list Z :=
  match pr_next t src with
  | (RAtEnd, r) => (RTooShort, r)
  | x => x
  end.

(* call next_packet until it does not return a packet *)
Fixpoint pull_all (next : list Z -> rres * list Z) (fuel : nat) (src : list Z)
  : list (list Z) * rres :=
  match fuel with
  | O => ([], RFuel)
  | S f =>
      match next src with
      | (RPacket p, rest) => let '(ps, e) := pull_all next f rest in (p :: ps, e)
      | (e, _) => ([], e)
      end
  end.
Definition pr_all (t : table) (src : list Z) := pull_all (pr_next t) (S (length src)) src.
Definition apr_all (t : table) (src : list Z) := pull_all (apr_next t) (S (length src)) src.

(* What the push parser makes of the same bytes fed in one call, in the vocabulary of the
   pull readers: the packets emitted, and how the stream ends (cleanly at a packet
   boundary / inside a packet / at an unknown type byte). *)
Definition is_init (s : parser) : bool :=
  match p_st s, p_pkt s, p_info s with
  | NeedType, [], None => p_needed s =? 1
  | _, _, _ => false
  end.

Fixpoint first_error (o : list out) : option Z :=
  match o with
  | [] => None
  | Error ty :: _ => Some ty
  | Packet _ :: r => first_error r
  end.

Definition push_summary (t : table) (data : list Z) : list (list Z) * rres :=
  let '(s, o, st) := feed t reset data in
  (packets_of o,
   match st with
   | Ok => if is_init s then RAtEnd else RTooShort
   | Raised => match first_error o with Some ty => RInvalid ty | None => RFuel end
   | OutOfFuel => RFuel
   end).

Definition async_end (e : rres) : rres := match e with RAtEnd => RTooShort | x => x end.

(* ------------------------------------------------------------------ USB PacketSplitter *)
(* one iteration of `while data:`; returns (self.packet, emitted, remaining data) *)
Definition split_iter (lo ls : Z) (pkt data : list Z) : list Z * list (list Z) * list Z :=
  let hs := lo + ls in
  let bn := hs - len pkt in
  let '(pkt1, data1, cont) :=
    if 0 <? bn then
      let p1 := pkt ++ take bn data in (p1, drop bn data, len p1 <? hs)
    else (pkt, data, false) in
  if cont then (pkt1, [], data1)
  else
    let packet_length := hs + le_decode (take ls (drop lo pkt1)) in
    let bn2 := packet_length - len pkt1 in
    let pkt2 := pkt1 ++ take bn2 data1 in
    let data2 := drop bn2 data1 in
    if len pkt2 =? packet_length then ([], [pkt2], data2) else (pkt2, [], data2).

Fixpoint split_loop (lo ls : Z) (fuel : nat) (pkt data : list Z)
  : list Z * list (list Z) * status :=
  match data with
  | [] => (pkt, [], Ok)
  | _ =>
      match fuel with
      | O => (pkt, [], OutOfFuel)
      | S f =>
          let '(pkt1, o1, rest) := split_iter lo ls pkt data in
          let '(pkt2, o2, st) := split_loop lo ls f pkt1 rest in (pkt2, o1 ++ o2, st)
      end
  end.

(* PacketSplitter.feed *)
Definition split_feed (lo ls : Z) (pkt data : list Z) : list Z * list (list Z) * status :=
  split_loop lo ls (S (S (length data))) pkt data.

Fixpoint split_feeds (lo ls : Z) (pkt : list Z) (chunks : list (list Z))
  : list Z * list (list (list Z)) :=
  match chunks with
  | [] => (pkt, [])
  | c :: r =>
      let '(pkt1, o1, _) := split_feed lo ls pkt c in
      let '(pkt2, o2) := split_feeds lo ls pkt1 r in (pkt2, o1 :: o2)
  end.

(* a per-endpoint packet (no type byte): header with the length field, then the body *)
Definition wf_endpoint_packet (lo ls : Z) (e : list Z) : bool :=
  let hs := lo + ls in
  bytes_ok e && (hs <=? len e) && (len e =? hs + le_decode (take ls (drop lo e))).

(* UsbPacketSource: the splitter of an endpoint emits through queue_packet, which
   prepends the endpoint's packet type *)
Definition usb_out (ty : Z) (o : list (list Z)) : list (list Z) := map (cons ty) o.

(* the splitter parameters (type, (length_offset, length_size)) agree with the table *)
Definition splitter_ok (t : table) (e : Z * (Z * Z)) : bool :=
  let '(ty, (lo, ls)) := e in
  match lookup t ty with
  | Some i => (i_lo i =? lo) && (i_ls i =? ls) && (0 <=? lo) && (1 <=? ls)
  | None => false
  end.
Definition splitters_ok (t : table) (l : list (Z * (Z * Z))) : bool := forallb (splitter_ok t) l.

(* ------------------------------------------------------------------ server life cycle *)
(* TcpServerProtocol / UnixServerProtocol: every client connection gets a new protocol
   object, all of them share one StreamPacketSource (one PacketParser). *)
Inductive sop :=
  | Connect                 (* connection_made: [D02 fix] packet_source.parser.reset() *)
  | Data (d : list Z)       (* data_received -> StreamPacketSource.data_received *)
  | Eof                     (* eof_received *)
  | Lost.                   (* connection_lost *)

Definition srv_step (t : table) (s : parser) (o : sop) : parser * list out :=
  match o with
  | Connect => (reset, [])
  | Data d => let '(s1, o1, _) := feed t s d in (s1, o1)
  | Eof => (s, [])
  | Lost => (s, [])
  end.

Fixpoint srv_run (t : table) (s : parser) (ops : list sop) : parser * list (list out) :=
  match ops with
  | [] => (s, [])
  | o :: r =>
      let '(s1, o1) := srv_step t s o in
      let '(s2, o2) := srv_run t s1 r in (s2, o1 :: o2)
  end.

(* WsServerTransport.on_connection: [D02 fix] self.source.parser.reset(); then every
   BINARY message is fed to the shared parser, text messages are discarded; an
   InvalidPacketError is not caught there and ends the handler (the remaining messages
   of that connection are not read). *)
Fixpoint ws_messages (t : table) (s : parser) (msgs : list (option (list Z)))
  : parser * list (list out) :=
  match msgs with
  | [] => (s, [])
  | None :: r => let '(s2, o2) := ws_messages t s r in (s2, [] :: o2)
  | Some m :: r =>
      let '(s1, o1, st) := feed t s m in
      match st with
      | Ok => let '(s2, o2) := ws_messages t s1 r in (s2, o1 :: o2)
      | _ => (s1, [o1])
      end
  end.
Definition ws_connection (t : table) (s : parser) (msgs : list (option (list Z))) :=
  ws_messages t reset msgs.

(* android_netsim controller transport (gRPC server): Server.lease_sink hands
   parser.feed_data of the ONE shared parser to each device that connects, [D02b fix] after
   parser.reset(); HciDevice.pump_loop feeds bytes([packet_type]) + packet for every
   hci_packet message; an InvalidPacketError leaves pump_loop and ends that device's
   stream (pump releases the sink). A message is (packet_type, packet). *)
Definition netsim_message (m : Z * list Z) : option (list Z) := Some (fst m :: snd m).
Definition netsim_connection (t : table) (s : parser) (msgs : list (Z * list Z)) :=
  ws_messages t reset (map netsim_message msgs).

(* ------------------------------------------------------------------ several parsers
   Several PacketParser objects alive in one process (two transports, both sides of a
   bridge, a server and a client): each object has its OWN state / bytes_needed / packet /
   packet_info (instance attributes assigned by reset(), a fresh bytearray each time).
   An operation addresses one parser: feed_data(d), or reset() / construction of a new
   parser in that slot (connection_made of a server transport).  The run interleaves the
   operations of all parsers in the given order. *)
Inductive mop := MFeed (i : nat) (d : list Z) | MReset (i : nat).

Definition mop_idx (o : mop) : nat := match o with MFeed i _ => i | MReset i => i end.

Definition own_step (t : table) (s : parser) (o : mop) : parser * list out :=
  match o with
  | MFeed _ d => let '(s1, o1, _) := feed t s d in (s1, o1)
  | MReset _ => (reset, [])
  end.

Fixpoint update (i : nat) (x : parser) (l : list parser) : list parser :=
  match l, i with
  | [], _ => []
  | _ :: r, O => x :: r
  | y :: r, S i' => y :: update i' x r
  end.

Fixpoint multi_run (t : table) (ss : list parser) (ops : list mop)
  : list parser * list (nat * list out) :=
  match ops with
  | [] => (ss, [])
  | o :: r =>
      let i := mop_idx o in
      let '(s1, o1) := own_step t (nth i ss reset) o in
      let '(ss2, o2) := multi_run t (update i s1 ss) r in (ss2, (i, o1) :: o2)
  end.

(* one parser alone on its own operations *)
Fixpoint solo_run (t : table) (s : parser) (ops : list mop) : parser * list (list out) :=
  match ops with
  | [] => (s, [])
  | o :: r =>
      let '(s1, o1) := own_step t s o in
      let '(s2, o2) := solo_run t s1 r in (s2, o1 :: o2)
  end.

Definition ops_of (i : nat) (ops : list mop) : list mop :=
  filter (fun o => Nat.eqb (mop_idx o) i) ops.
Definition outs_of (i : nat) (l : list (nat * list out)) : list (list out) :=
  map snd (filter (fun x => Nat.eqb (fst x) i) l).

(* ------------------------------------------------------------------ evaluation support
   (used only by tools/harness/c02.py to keep case literals and results small) *)

(* n generated bytes starting from v (0 <= v < 256): v, then +7 with wrap-around (+1 on
   every wrap, so the period is long); cheap to evaluate for 65535-byte bodies *)
Fixpoint gen_bytes (n : nat) (v : Z) : list Z :=
  match n with
  | O => []
  | S n' => v :: gen_bytes n' (let x := v + 7 in if x <? 256 then x else x - 255)
  end.

(* packet descriptor: explicit head bytes followed by n generated bytes *)
Definition mk_packet (d : list Z * (Z * Z)) : list Z :=
  let '(head, (n, seed)) := d in head ++ gen_bytes (Z.to_nat n) seed.
Definition mk_stream (ds : list (list Z * (Z * Z))) : list Z := concat (map mk_packet ds).

(* cut a stream into chunks of the given sizes; what is left is the last chunk *)
Fixpoint cut (sizes : list Z) (data : list Z) : list (list Z) :=
  match sizes with
  | [] => match data with [] => [] | _ => [data] end
  | n :: r => take n data :: cut r (drop n data)
  end.

Definition hash_bytes (p : list Z) : Z :=
  fold_left (fun a b => Z.land (a * 33 + b + 1) 1073741823) p 7.

(* digest of a packet: (length, hash, the bytes themselves when short / first 8 bytes) *)
Definition digest (p : list Z) : Z * Z * list Z :=
  (len p, hash_bytes p, if len p <=? 48 then p else take 8 p).
Definition out_digest (o : out) : Z * (Z * Z * list Z) :=
  match o with
  | Packet p => (0, digest p)
  | Error ty => (1, (ty, 0, []))
  end.
Definition outs_digest (l : list (list out)) := map (map out_digest) l.
Definition multi_digest (l : list (nat * list out)) :=
  map (fun x => (Z.of_nat (fst x), map out_digest (snd x))) l.
Definition st_code (s : status) : Z := match s with Ok => 0 | Raised => 1 | OutOfFuel => 2 end.
Definition rres_digest (r : rres) : Z * Z :=
  match r with
  | RPacket _ => (0, 0) | RAtEnd => (1, 0) | RInvalid ty => (2, ty) | RTooShort => (3, 0)
  | RFuel => (4, 0)
  end.
