(* Message-level model of an LE pairing between two smp.Session objects (bumble/smp.py):
   a two-party system with one FIFO inbox per side, reactive handlers transcribed from
   Session.on_smp_*_command, on_connection_encryption_change, check_key_distribution, the
   delegate prompts (prompt_user_for_*, display_or_input_passkey) and Manager.on_smp_pdu for a
   connection whose session has failed.  A schedule is a list of labels; asyncio gives exactly
   this granularity (a callback runs to its next await).  Executable Gallina only.

   Values are abstracted away: whether a check passes is a function of the configuration
   (who altered what, whether the two sides hold the same passkey) - see [check_*].  The
   value-level model is Model/Pairing.v; Proofs/PairingMsg.v relates the two. *)
From Coq Require Import ZArith List Bool.
From BV Require Import Gen.C13Tables Model.Pairing.
Import ListNotations.
Open Scope Z_scope.

(* ------------------------------------------------------------------ configuration of a run *)
(* what a side that inputs the passkey types: the right one, nothing, or one whose first
   differing bit is k *)
Inductive entry := EntryOk | EntryNone | EntryWrong (k : Z).

Record mcfg := mkMcfg {
  g_sc : bool;
  g_method : Z;                       (* negotiated pairing method (PM_ codes) *)
  g_disp_i : bool; g_disp_r : bool;   (* passkey_display of each side *)
  g_accept : bool;                    (* delegate.accept() *)
  g_subset_ok : bool;                 (* the response's masks are within the request's *)
  g_user_i : bool; g_user_r : bool;   (* delegate.confirm() / compare_numbers() *)
  g_entry_i : entry; g_entry_r : entry;
  g_bad_ci : bool; g_bad_cr : bool;   (* Pairing Confirm altered in transit *)
  g_bad_di : bool; g_bad_dr : bool;   (* DHKey Check altered in transit *)
  g_ikd : Z; g_rkd : Z                (* negotiated key distribution masks *)
}.

(* ------------------------------------------------------------------ messages *)
Definition M_REQ := 1. Definition M_RSP := 2. Definition M_CONFIRM := 3. Definition M_RANDOM := 4.
Definition M_PUBKEY := 12. Definition M_DHCHECK := 13.
Definition M_ENC := 100.                       (* HCI Encryption Change, on the same inbox *)
Definition M_FAILED (reason : Z) := 500 + reason.
Definition is_failed (m : Z) : bool := 500 <=? m.
Definition is_key (m : Z) : bool := (6 <=? m) && (m <=? 10).

(* ------------------------------------------------------------------ state *)
Definition P_NONE := 0. Definition P_ACCEPT := 1. Definition P_INPUT := 2.
Definition P_DISPLAY := 3. Definition P_CONFIRM := 4.

Record mside := mkMside {
  d_out : Z;             (* 0 running, 1 completed, 2 failed *)
  d_reason : Z;
  d_prompt : Z;          (* pending delegate call *)
  d_after : bool;        (* next_steps of the pending passkey prompt: send the legacy confirm *)
  d_passkey : bool;      (* self.passkey is not None *)
  d_step : Z;            (* self.passkey_step *)
  d_confirm : bool;      (* self.confirm_value received *)
  d_want_confirm : bool; (* send_pairing_confirm_command is waiting for passkey_ready *)
  d_wait : Z;            (* wait_before_continuing: 0 None, 1 pending, 2 resolved *)
  d_dh_wait : bool;      (* responder: DHKey check received, waiting for the user *)
  d_encrypted : bool;
  d_expected : list Z;   (* peer_expected_distributions *)
  d_err : bool           (* an assumption of this model was violated (two prompts at once, ...) *)
}.

Record mstate := mkMstate {
  m_i : mside; m_r : mside;
  q_i : list Z;          (* the initiator's inbox *)
  q_r : list Z;
  m_sent_i : list Z;     (* what the last step made each side send (for the correspondence) *)
  m_sent_r : list Z
}.

Definition side0 : mside := mkMside 0 0 0 false false 0 false false 0 false false [] false.

(* Device.pair(): the initiator has sent its Pairing Request *)
Definition minit : mstate := mkMstate side0 side0 [] [M_REQ] [M_REQ] [].

(* ------------------------------------------------------------------ static checks *)
Definition is_pk (c : mcfg) : bool := g_method c =? PM_PASSKEY.
Definition is_jw (c : mcfg) : bool := g_method c =? PM_JUST_WORKS.
Definition is_nc (c : mcfg) : bool := g_method c =? PM_NUMERIC_COMPARISON.

Definition disp (c : mcfg) (me : bool) : bool := if me then g_disp_i c else g_disp_r c.
Definition entry_of (c : mcfg) (me : bool) : entry := if me then g_entry_i c else g_entry_r c.

(* do the two sides' passkeys agree on bit k (legacy: at all)? *)
Definition entry_match (c : mcfg) (me : bool) (k : Z) : bool :=
  if disp c me then true
  else match entry_of c me with
       | EntryOk => true
       | EntryNone => true
       | EntryWrong k0 => if g_sc c then k <? k0 else false
       end.
Definition bits_match (c : mcfg) (k : Z) : bool :=
  if is_pk c then entry_match c true k && entry_match c false k else true.

(* the check the receiving side [me] makes on a Pairing Random, for its passkey_step k *)
Definition check_confirm (c : mcfg) (me : bool) (k : Z) : bool :=
  negb (if me then g_bad_cr c else g_bad_ci c) && bits_match c k.
Definition check_dhkey (c : mcfg) (me : bool) : bool :=
  negb (if me then g_bad_dr c else g_bad_di c).

(* ------------------------------------------------------------------ helpers *)
Definition get (me : bool) (s : mstate) : mside := if me then m_i s else m_r s.
Definition put (me : bool) (x : mside) (s : mstate) : mstate :=
  if me then mkMstate x (m_r s) (q_i s) (q_r s) (m_sent_i s) (m_sent_r s)
  else mkMstate (m_i s) x (q_i s) (q_r s) (m_sent_i s) (m_sent_r s).

(* send_command: to the peer's inbox *)
Definition send (me : bool) (m : Z) (s : mstate) : mstate :=
  if me then mkMstate (m_i s) (m_r s) (q_i s) (q_r s ++ [m]) (m_sent_i s ++ [m]) (m_sent_r s)
  else mkMstate (m_i s) (m_r s) (q_i s ++ [m]) (q_r s) (m_sent_i s) (m_sent_r s ++ [m]).

Fixpoint send_all (me : bool) (ms : list Z) (s : mstate) : mstate :=
  match ms with [] => s | m :: ms' => send_all me ms' (send me m s) end.

Definition upd (me : bool) (f : mside -> mside) (s : mstate) : mstate := put me (f (get me s)) s.

Definition set_out (o r : Z) (x : mside) : mside :=
  mkMside o r (d_prompt x) (d_after x) (d_passkey x) (d_step x) (d_confirm x) (d_want_confirm x)
          (d_wait x) (d_dh_wait x) (d_encrypted x) (d_expected x) (d_err x).
Definition set_prompt (p : Z) (a : bool) (x : mside) : mside :=
  mkMside (d_out x) (d_reason x) p a (d_passkey x) (d_step x) (d_confirm x) (d_want_confirm x)
          (d_wait x) (d_dh_wait x) (d_encrypted x) (d_expected x)
          (d_err x || negb (d_prompt x =? P_NONE) && negb (p =? P_NONE)).
Definition set_passkey (x : mside) : mside :=
  mkMside (d_out x) (d_reason x) (d_prompt x) (d_after x) true (d_step x) (d_confirm x) (d_want_confirm x)
          (d_wait x) (d_dh_wait x) (d_encrypted x) (d_expected x) (d_err x).
Definition set_step (k : Z) (x : mside) : mside :=
  mkMside (d_out x) (d_reason x) (d_prompt x) (d_after x) (d_passkey x) k (d_confirm x) (d_want_confirm x)
          (d_wait x) (d_dh_wait x) (d_encrypted x) (d_expected x) (d_err x).
Definition set_confirm (x : mside) : mside :=
  mkMside (d_out x) (d_reason x) (d_prompt x) (d_after x) (d_passkey x) (d_step x) true (d_want_confirm x)
          (d_wait x) (d_dh_wait x) (d_encrypted x) (d_expected x) (d_err x).
Definition set_want (w : bool) (x : mside) : mside :=
  mkMside (d_out x) (d_reason x) (d_prompt x) (d_after x) (d_passkey x) (d_step x) (d_confirm x) w
          (d_wait x) (d_dh_wait x) (d_encrypted x) (d_expected x) (d_err x).
Definition set_wait (w : Z) (dh : bool) (x : mside) : mside :=
  mkMside (d_out x) (d_reason x) (d_prompt x) (d_after x) (d_passkey x) (d_step x) (d_confirm x) (d_want_confirm x)
          w dh (d_encrypted x) (d_expected x) (d_err x).
Definition set_encrypted (x : mside) : mside :=
  mkMside (d_out x) (d_reason x) (d_prompt x) (d_after x) (d_passkey x) (d_step x) (d_confirm x) (d_want_confirm x)
          (d_wait x) (d_dh_wait x) true (d_expected x) (d_err x).
Definition set_expected (e : list Z) (x : mside) : mside :=
  mkMside (d_out x) (d_reason x) (d_prompt x) (d_after x) (d_passkey x) (d_step x) (d_confirm x) (d_want_confirm x)
          (d_wait x) (d_dh_wait x) (d_encrypted x) e (d_err x).
Definition set_err (x : mside) : mside :=
  mkMside (d_out x) (d_reason x) (d_prompt x) (d_after x) (d_passkey x) (d_step x) (d_confirm x) (d_want_confirm x)
          (d_wait x) (d_dh_wait x) (d_encrypted x) (d_expected x) true.

Definition running (x : mside) : bool := d_out x =? 0.

(* on_pairing_failure: only the first end of a session counts *)
Definition fail_local (me : bool) (reason : Z) (s : mstate) : mstate :=
  if running (get me s) then upd me (set_out 2 reason) s else s.
(* send_pairing_failed *)
Definition fail_send (me : bool) (reason : Z) (s : mstate) : mstate :=
  fail_local me reason (send me (M_FAILED reason) s).

(* start_encryption: the controllers raise Encryption Change on both hosts *)
Definition start_encryption (s : mstate) : mstate :=
  mkMstate (m_i s) (m_r s) (q_i s ++ [M_ENC]) (q_r s ++ [M_ENC]) (m_sent_i s ++ [M_ENC]) (m_sent_r s).

(* on_peer_key_distribution_complete + on_pairing *)
Definition complete (c : mcfg) (me : bool) (s : mstate) : mstate :=
  let s1 := if me then send_all true (distributed (g_sc c) false (g_ikd c)) s else s in
  if running (get me s1) then upd me (set_out 1 0) s1 else s1.

(* send_pairing_confirm_command *)
Definition send_confirm (c : mcfg) (me : bool) (s : mstate) : mstate :=
  if g_sc c && is_pk c && negb (d_passkey (get me s))
  then upd me (set_want true) s          (* await passkey_ready *)
  else send me M_CONFIRM s.

(* display_or_input_passkey(next_steps) *)
Definition ask_passkey (c : mcfg) (me : bool) (after : bool) (s : mstate) : mstate :=
  upd me (set_prompt (if disp c me then P_DISPLAY else P_INPUT) after) s.

(* passkey_ready.set() and next_steps *)
Definition passkey_ready (c : mcfg) (me : bool) (s : mstate) : mstate :=
  let after := d_after (get me s) in
  let s1 := upd me set_passkey s in
  let s2 := if d_want_confirm (get me s1) then send me M_CONFIRM (upd me (set_want false) s1) else s1 in
  if after then send_confirm c me s2 else s2.

(* ------------------------------------------------------------------ handlers *)
Definition on_request (c : mcfg) (me : bool) (s : mstate) : mstate :=
  if me then upd me set_err s
  else upd me (set_prompt P_ACCEPT false) s.

Definition on_response (c : mcfg) (me : bool) (s : mstate) : mstate :=
  if negb me then s                                     (* "received pairing response as a responder" *)
  else if negb (g_subset_ok c) then fail_send me ERR_INVALID_PARAMETERS s
  else
    let s1 := upd me (set_expected (expected (g_sc c) false (g_rkd c))) s in
    if g_sc c then
      let s2 := send me M_PUBKEY s1 in
      if is_pk c then ask_passkey c me false s2 else s2
    else if is_pk c then ask_passkey c me true s1
    else send_confirm c me s1.

Definition on_confirm (c : mcfg) (me : bool) (s : mstate) : mstate :=
  let s1 := upd me set_confirm s in
  if g_sc c then
    if is_pk c then (if me then send me M_RANDOM s1 else send_confirm c me s1)
    else (if me then send me M_RANDOM s1 else s1)
  else if me then send me M_RANDOM s1
  else if is_pk c && negb (g_disp_r c) then upd me (set_prompt P_INPUT true) s1
  else send_confirm c me s1.

Definition on_random_legacy (c : mcfg) (me : bool) (s : mstate) : mstate :=
  if negb (d_confirm (get me s)) then send me (M_FAILED ERR_UNSPECIFIED_REASON) s   (* assert, caught *)
  else if negb (check_confirm c me 0) then fail_send me ERR_CONFIRM_VALUE_FAILED s
  else if me then start_encryption s
  else send me M_RANDOM s.

Definition on_random_sc (c : mcfg) (me : bool) (s : mstate) : mstate :=
  let x := get me s in
  if is_pk c && negb (d_passkey x) then s                       (* "no passkey entered, ignoring" *)
  else if me then
    if is_pk c then
      if negb (check_confirm c me (d_step x)) then fail_send me ERR_CONFIRM_VALUE_FAILED s
      else
        let s1 := upd me (set_step (d_step x + 1)) s in
        if d_step x + 1 <? 20 then send_confirm c me s1 else send me M_DHCHECK s1
    else
      if negb (check_confirm c me 0) then fail_send me ERR_CONFIRM_VALUE_FAILED s
      else upd me (set_prompt P_CONFIRM false) (upd me (set_wait 1 false) s)
  else
    if is_pk c then
      if negb (check_confirm c me (d_step x)) then fail_send me ERR_CONFIRM_VALUE_FAILED s
      else upd me (set_step (d_step x + 1)) (send me M_RANDOM s)
    else upd me (set_prompt P_CONFIRM false) (upd me (set_wait 1 false) (send me M_RANDOM s)).

Definition on_dhcheck (c : mcfg) (me : bool) (s : mstate) : mstate :=
  if negb (check_dhkey c me) then fail_send me ERR_DHKEY_CHECK_FAILED s
  else if me then start_encryption s
  else
    let x := get me s in
    if d_wait x =? 0 then send me M_DHCHECK s
    else if d_wait x =? 2 then send me M_DHCHECK (upd me (set_wait 0 false) s)
    else upd me (set_wait 1 true) s.

Definition on_enc (c : mcfg) (me : bool) (s : mstate) : mstate :=
  let s1 := upd me set_encrypted s in
  if negb (running (get me s1)) then s1
  else
    let s2 := if me then s1 else send_all false (distributed (g_sc c) false (g_rkd c)) s1 in
    if is_nil (d_expected (get me s2)) then complete c me s2 else s2.

(* check_key_distribution *)
Definition on_key (c : mcfg) (me : bool) (k : Z) (s : mstate) : mstate :=
  let x := get me s in
  if negb (d_encrypted x) then fail_send me ERR_UNSPECIFIED_REASON s
  else if mem k (d_expected x) then
    let e := remove_first k (d_expected x) in
    let s1 := upd me (set_expected e) s in
    if is_nil e then complete c me s1 else s1
  else fail_send me ERR_UNSPECIFIED_REASON s.

Definition clear_sent (s : mstate) : mstate := mkMstate (m_i s) (m_r s) (q_i s) (q_r s) [] [].

(* one message (or HCI event) taken from the inbox of [me] *)
Definition deliver (c : mcfg) (me : bool) (s0 : mstate) : mstate :=
  let s := clear_sent s0 in
  match (if me then q_i s else q_r s) with
  | [] => s0
  | m :: rest =>
    let s1 := if me then mkMstate (m_i s) (m_r s) rest (q_r s) [] []
              else mkMstate (m_i s) (m_r s) (q_i s) rest [] [] in
    let x := get me s1 in
    if d_out x =? 2 then
      (* the session was removed from Manager.sessions (on_pairing_failure): Manager.on_smp_pdu
         answers anything but a Pairing Failed with Pairing Failed, once per command *)
      if (m =? M_ENC) || is_failed m then s1
      else if m =? M_REQ then upd me set_err s1
      else send me (M_FAILED ERR_UNSPECIFIED_REASON) s1
    else if m =? M_REQ then on_request c me s1
    else if m =? M_RSP then on_response c me s1
    else if m =? M_CONFIRM then on_confirm c me s1
    else if m =? M_RANDOM then (if g_sc c then on_random_sc c me s1 else on_random_legacy c me s1)
    else if m =? M_PUBKEY then
      (if me then (if is_pk c then send_confirm c me s1 else s1)
       else let s2 := send me M_PUBKEY s1 in
            if is_pk c then ask_passkey c me false s2 else send_confirm c me s2)
    else if m =? M_DHCHECK then on_dhcheck c me s1
    else if m =? M_ENC then on_enc c me s1
    else if is_failed m then fail_local me (m - 500) s1
    else if is_key m then on_key c me m s1
    else upd me set_err s1
  end.

(* the delegate call of [me] returns *)
Definition user (c : mcfg) (me : bool) (s0 : mstate) : mstate :=
  let s := clear_sent s0 in
  let x := get me s in
  let p := d_prompt x in
  if p =? P_NONE then s0
  else
    let s1 := upd me (set_prompt P_NONE (d_after x)) s in
    if p =? P_ACCEPT then
      if negb (g_accept c) then fail_send me ERR_PAIRING_NOT_SUPPORTED s1
      else
        let s2 := upd me (set_expected (expected (g_sc c) false (g_ikd c))) s1 in
        let s3 := if negb (g_sc c) && is_pk c && g_disp_r c then upd me set_passkey s2 else s2 in
        send me M_RSP s3
    else if p =? P_DISPLAY then passkey_ready c me s1
    else if p =? P_INPUT then
      match entry_of c me with
      | EntryNone => fail_send me ERR_PASSKEY_ENTRY_FAILED s1
      | _ => passkey_ready c me s1
      end
    else (* P_CONFIRM: prompt_user_for_confirmation / _numeric_comparison *)
      if (if me then g_user_i c else g_user_r c) then
        if me then send me M_DHCHECK s1
        else
          let y := get me s1 in
          if d_dh_wait y then send me M_DHCHECK (upd me (set_wait 0 false) s1)
          else upd me (set_wait 2 false) s1
      else fail_send me ERR_CONFIRM_VALUE_FAILED s1.

Inductive label := DeliverI | DeliverR | UserI | UserR.
Definition labels := [DeliverI; DeliverR; UserI; UserR].

Definition enabled (l : label) (s : mstate) : bool :=
  match l with
  | DeliverI => negb (is_nil (q_i s))
  | DeliverR => negb (is_nil (q_r s))
  | UserI => negb (d_prompt (m_i s) =? P_NONE)
  | UserR => negb (d_prompt (m_r s) =? P_NONE)
  end.

(* a disabled label is a stutter *)
Definition mstep (c : mcfg) (s : mstate) (l : label) : mstate :=
  if enabled l s then
    match l with
    | DeliverI => deliver c true s
    | DeliverR => deliver c false s
    | UserI => user c true s
    | UserR => user c false s
    end
  else s.

Definition mrun (c : mcfg) (sched : list label) : mstate := fold_left (mstep c) sched minit.

(* ------------------------------------------------------------------ what the theorems say about a state *)
Definition quiescent (s : mstate) : bool := forallb (fun l => negb (enabled l s)) labels.

Definition ended (s : mstate) : bool := negb (running (m_i s)) && negb (running (m_r s)).

(* does the configuration contain something that must make the pairing fail? *)
Definition entry_bad (e : entry) : bool := match e with EntryOk => false | _ => true end.
Definition must_fail (c : mcfg) : bool :=
  negb (g_accept c) || negb (g_subset_ok c)
  || (is_pk c && ((negb (g_disp_i c) && entry_bad (g_entry_i c)) || (negb (g_disp_r c) && entry_bad (g_entry_r c))))
  || (g_sc c && negb (is_pk c) && (negb (g_user_i c) || negb (g_user_r c)))
  || g_bad_cr c
  || ((negb (g_sc c) || is_pk c) && g_bad_ci c)
  || (g_sc c && (g_bad_di c || g_bad_dr c)).

(* the invariant of every reachable state *)
Definition minv (c : mcfg) (s : mstate) : bool :=
  negb (d_err (m_i s)) && negb (d_err (m_r s))
  (* never one side completed and the other failed *)
  && negb ((d_out (m_i s) =? 1) && (d_out (m_r s) =? 2))
  && negb ((d_out (m_i s) =? 2) && (d_out (m_r s) =? 1))
  (* nothing left to do only when both sides have ended: no deadlock *)
  && (if quiescent s then ended s else true)
  (* a run that must fail never completes on either side; one that need not fail never fails *)
  && (if must_fail c then negb (d_out (m_i s) =? 1) && negb (d_out (m_r s) =? 1)
      else negb (d_out (m_i s) =? 2) && negb (d_out (m_r s) =? 2))
  (* both failed: the same reason *)
  && (if (d_out (m_i s) =? 2) && (d_out (m_r s) =? 2) then d_reason (m_i s) =? d_reason (m_r s) else true).

(* ------------------------------------------------------------------ exploration *)
Fixpoint zl_eqb (a b : list Z) : bool :=
  match a, b with
  | [], [] => true
  | x :: a', y :: b' => (x =? y) && zl_eqb a' b'
  | _, _ => false
  end.

Definition mside_eqb (a b : mside) : bool :=
  (d_out a =? d_out b) && (d_reason a =? d_reason b) && (d_prompt a =? d_prompt b)
  && Bool.eqb (d_after a) (d_after b) && Bool.eqb (d_passkey a) (d_passkey b) && (d_step a =? d_step b)
  && Bool.eqb (d_confirm a) (d_confirm b) && Bool.eqb (d_want_confirm a) (d_want_confirm b)
  && (d_wait a =? d_wait b) && Bool.eqb (d_dh_wait a) (d_dh_wait b)
  && Bool.eqb (d_encrypted a) (d_encrypted b) && zl_eqb (d_expected a) (d_expected b)
  && Bool.eqb (d_err a) (d_err b).

(* the "sent by the last step" fields are an output, not part of the control state *)
Definition mstate_eqb (a b : mstate) : bool :=
  mside_eqb (m_i a) (m_i b) && mside_eqb (m_r a) (m_r b) && zl_eqb (q_i a) (q_i b) && zl_eqb (q_r a) (q_r b).

Definition forget (s : mstate) : mstate := clear_sent s.

Fixpoint smem (s : mstate) (l : list mstate) : bool :=
  match l with [] => false | x :: l' => mstate_eqb s x || smem s l' end.

Fixpoint add_all (xs acc : list mstate) : list mstate :=
  match xs with
  | [] => acc
  | x :: xs' => if smem x acc then add_all xs' acc else add_all xs' (x :: acc)
  end.

Definition successors (c : mcfg) (s : mstate) : list mstate :=
  flat_map (fun l => if enabled l s then [forget (mstep c s l)] else []) labels.

(* layers of a breadth-first exploration: every step goes from one layer to the next, so the
   number of layers bounds the number of effective steps of any schedule *)
Fixpoint layers (c : mcfg) (fuel : nat) (frontier : list mstate) : option (list (list mstate)) :=
  match frontier with
  | [] => Some []
  | _ =>
    match fuel with
    | O => None                                  (* out of fuel: the theorem excludes it *)
    | S fuel' =>
      match layers c fuel' (add_all (flat_map (successors c) frontier) []) with
      | None => None
      | Some ls => Some (frontier :: ls)
      end
    end
  end.

(* every enabled step from layer k lands in layer k+1, and every state satisfies minv *)
Fixpoint layers_closed (c : mcfg) (ls : list (list mstate)) : bool :=
  match ls with
  | [] => true
  | l0 :: rest =>
    forallb (minv c) l0
    && forallb (fun s => forallb (fun t => match rest with [] => false | l1 :: _ => smem t l1 end)
                                 (successors c s)) l0
    && layers_closed c rest
  end.

Definition FUEL : nat := 400.

Definition check_layers (c : mcfg) (o : option (list (list mstate))) : bool :=
  match o with None => false | Some ls => layers_closed c ls end.

Definition explore_fuel (fuel : nat) (c : mcfg) : bool := check_layers c (layers c fuel [forget minit]).
Notation explore_ok := (explore_fuel FUEL).

(* number of states and layers, for the evidence *)
Definition explore_size (c : mcfg) : Z * Z :=
  match layers c FUEL [forget minit] with
  | None => (-1, -1)
  | Some ls => (Z.of_nat (length (concat ls)), Z.of_nat (length ls))
  end.

(* ------------------------------------------------------------------ the family of configurations *)
Definition shapes : list (bool * Z * bool * bool) :=
  [ (false, PM_JUST_WORKS, false, false);
    (false, PM_PASSKEY, true, false); (false, PM_PASSKEY, false, true); (false, PM_PASSKEY, false, false);
    (true, PM_JUST_WORKS, false, false); (true, PM_NUMERIC_COMPARISON, false, false);
    (true, PM_PASSKEY, true, false); (true, PM_PASSKEY, false, true); (true, PM_PASSKEY, false, false) ].

Definition mk (sh : bool * Z * bool * bool) (acc sub ui ur : bool) (ei er : entry)
              (ci cr di dr : bool) (ikd rkd : Z) : mcfg :=
  let '(sc, m, di', dr') := sh in mkMcfg sc m di' dr' acc sub ui ur ei er ci cr di dr ikd rkd.

Definition honest (sh : bool * Z * bool * bool) (ikd rkd : Z) : mcfg :=
  mk sh true true true true EntryOk EntryOk false false false false ikd rkd.

Definition bools := [false; true].
Definition entries := [EntryOk; EntryNone; EntryWrong 0; EntryWrong 7; EntryWrong 19].
Definition is_pk_shape (sh : bool * Z * bool * bool) : bool := let '(_, m, _, _) := sh in m =? PM_PASSKEY.

(* every combination of: rejected, answer outside the request, each user's yes/no, what each
   inputting side types, each Confirm / DHKey check altered or not - on one shape *)
Definition faulty (sh : bool * Z * bool * bool) : list mcfg :=
  let es := if is_pk_shape sh then entries else [EntryOk] in
  flat_map (fun acc => flat_map (fun sub => flat_map (fun ui => flat_map (fun ur =>
  flat_map (fun ei => flat_map (fun er =>
  flat_map (fun ci => flat_map (fun cr => flat_map (fun di => map (fun dr =>
    mk sh acc sub ui ur ei er ci cr di dr 7 5) bools) bools) bools) bools) es) es) bools) bools) bools) bools.

(* a wrong passkey whose first differing bit is k, for every k *)
Definition wrong_bits (sh : bool * Z * bool * bool) : list mcfg :=
  if is_pk_shape sh then
    flat_map (fun k => [mk sh true true true true (EntryWrong k) EntryOk false false false false 3 3;
                        mk sh true true true true EntryOk (EntryWrong k) false false false false 3 3])
             (map Z.of_nat (seq 0 20))
  else [].

Definition masks16 : list Z := map Z.of_nat (seq 0 16).

(* honest runs with every pair of negotiated masks *)
Definition honest_all (sh : bool * Z * bool * bool) : list mcfg :=
  flat_map (fun a => map (fun b => honest sh a b) masks16) masks16.

Definition family : list mcfg :=
  flat_map (fun sh => honest_all sh ++ faulty sh ++ wrong_bits sh) shapes.

(* ------------------------------------------------------------------ replay of an observed schedule *)
(* what each step consumed and made each side send, for the correspondence harness *)
Definition label_code (l : label) : Z :=
  match l with DeliverI => 0 | DeliverR => 1 | UserI => 2 | UserR => 3 end.
Definition label_of_code (z : Z) : label :=
  if z =? 0 then DeliverI else if z =? 1 then DeliverR else if z =? 2 then UserI else UserR.

Definition head_event (l : label) (s : mstate) : Z :=
  match l with
  | DeliverI => hd (-1) (q_i s)
  | DeliverR => hd (-1) (q_r s)
  | UserI => 1000 + d_prompt (m_i s)
  | UserR => 1000 + d_prompt (m_r s)
  end.

Fixpoint replay (c : mcfg) (s : mstate) (sched : list Z) : list (Z * list Z * list Z) :=
  match sched with
  | [] => []
  | z :: rest =>
    let l := label_of_code z in
    if enabled l s then
      let s' := mstep c s l in
      (head_event l s, m_sent_i s', m_sent_r s') :: replay c s' rest
    else [(-2, [], [])]                      (* the observed event is not enabled in the model *)
  end.

Definition replay_obs (c : mcfg) (sched : list Z) :=
  let s := fold_left (fun s z => mstep c s (label_of_code z)) sched minit in
  (replay c minit sched, (d_out (m_i s), d_reason (m_i s), d_out (m_r s), d_reason (m_r s)),
   (* nothing left to deliver (a prompt may still be open: the user's business) *)
   Z.b2z (is_nil (q_i s) && is_nil (q_r s))).

(* ------------------------------------------------------------------ abstraction of a concrete run *)
(* first bit (0..19) on which two passkeys differ; 20 when they agree on all of them *)
Fixpoint first_diff_bit (p q : Z) (k : nat) (n : nat) : Z :=
  match n with
  | O => Z.of_nat k
  | S n' => if Z.eqb (bit_z p k) (bit_z q k) then first_diff_bit p q (S k) n' else Z.of_nat k
  end.

Definition abs_entry (reference : Z) (typed : option Z) : entry :=
  match typed with
  | None => EntryNone
  | Some p => if p =? reference then EntryOk else EntryWrong (first_diff_bit p reference 0 20)
  end.

(* the message-level configuration of the pairing of [ci] with [cr] under [e] (Model/Pairing.v) *)
Definition abs_of (ci cr : config) (e : env) : option mcfg :=
  let req := request_of ci in
  let answer := match e_answer e with Some a => a | None => default_answer cr req end in
  match responder_session false cr answer req with
  | None => None
  | Some sr =>
    let m := s_method sr in
    if m =? PM_OOB then None
    else
      let '(sub, disp_i) :=
        match initiator_session false ci (response_of cr sr) with
        | NegOk si => (true, s_display si)
        | _ => (false, false)
        end in
      let ui := if m =? PM_JUST_WORKS then e_confirm_i e else e_compare_i e in
      let ur := if m =? PM_JUST_WORKS then e_confirm_r e else e_compare_r e in
      let disp_r := s_display sr in
      let '(ei, er) :=
        if disp_i || disp_r
        then (abs_entry (e_generated e) (e_typed_i e), abs_entry (e_generated e) (e_typed_r e))
        else match e_typed_i e with
             | None => (EntryNone, abs_entry 0 (option_map (fun _ => 0) (e_typed_r e)))
             | Some p => (EntryOk, abs_entry p (e_typed_r e))
             end in
      Some (mkMcfg (s_sc sr) m disp_i disp_r (e_accept e) sub ui ur ei er
                   (e_bad_confirm_i e) (e_bad_confirm_r e) (e_bad_dhkey_i e) (e_bad_dhkey_r e)
                   (s_ikd sr) (s_rkd sr))
  end.

(* the eager schedule: deliver and answer whatever is enabled, round robin *)
Fixpoint eager (c : mcfg) (fuel : nat) (s : mstate) : mstate :=
  match fuel with
  | O => s
  | S f => if quiescent s then s
           else eager c f (fold_left (mstep c) labels s)
  end.

(* does the value-level model (Model/Pairing.v, term instance) end the way the message-level
   model does?  (completed on both sides / failed on both sides with the same reason) *)
Definition agrees (ci cr : config) (e : env) : bool :=
  match abs_of ci cr e, run ci cr e with
  | Some c, Res i r _ _ _ =>
    let s := eager c 400 minit in
    quiescent s &&
    match r_outcome i, r_outcome r with
    | Completed, Completed => (d_out (m_i s) =? 1) && (d_out (m_r s) =? 1) && negb (must_fail c)
    | Failed a, Failed b => (d_out (m_i s) =? 2) && (d_out (m_r s) =? 2) && must_fail c
                            && (d_reason (m_i s) =? a) && (d_reason (m_r s) =? b)
    | _, _ => false
    end
  | None, ResError => true
  | _, _ => false
  end.

(* ------------------------------------------------------------------ a concrete family for the agreement *)
Definition envs : list env :=
  let E a ans ci cr pi pr g ti tr bci bcr bdi bdr := mkEnv a ans ci cr pi pr g ti tr bci bcr bdi bdr false in
  [ honest_env;
    E false None true true true true 123456 (Some 123456) (Some 123456) false false false false;
    E true (Some (15, 15)) true true true true 123456 (Some 123456) (Some 123456) false false false false;
    E true None false true true true 123456 (Some 123456) (Some 123456) false false false false;
    E true None true false true true 123456 (Some 123456) (Some 123456) false false false false;
    E true None true true false true 123456 (Some 123456) (Some 123456) false false false false;
    E true None true true true false 123456 (Some 123456) (Some 123456) false false false false;
    E true None true true true true 123456 None (Some 123456) false false false false;
    E true None true true true true 123456 (Some 123456) None false false false false;
    E true None true true true true 123456 (Some 123457) (Some 123456) false false false false;
    E true None true true true true 123456 (Some 123456) (Some 123457) false false false false;
    E true None true true true true 123456 (Some 124480) (Some 123456) false false false false;
    E true None true true true true 123456 (Some 123456) (Some 647744) false false false false;
    E true None true true true true 0 (Some 0) (Some 0) false false false false;
    E true None true true true true 123456 (Some 123456) (Some 123456) true false false false;
    E true None true true true true 123456 (Some 123456) (Some 123456) false true false false;
    E true None true true true true 123456 (Some 123456) (Some 123456) false false true false;
    E true None true true true true 123456 (Some 123456) (Some 123456) false false false true ].

(* every capability pair x SC on each side x MITM on each side x the environments above *)
Definition concrete : list (config * config * env) :=
  let ios := [0; 1; 2; 3; 4] in
  flat_map (fun i => flat_map (fun r => flat_map (fun sci => flat_map (fun scr =>
  flat_map (fun mi => flat_map (fun mr =>
    map (fun e => (mkConfig i sci mi true 7 5 false, mkConfig r scr mr true 13 15 false, e)) envs)
  bools) bools) bools) bools) ios) ios.

Definition concrete_ok (x : config * config * env) : bool :=
  let '(ci, cr, e) := x in
  agrees ci cr e && match abs_of ci cr e with Some c => explore_ok c | None => true end.

(* ------------------------------------------------------------------ Manager.sessions over connections *)
(* The life cycle of smp.Manager.sessions on one device, across connections that reuse a handle.
   A Connection object is identified by (handle, epoch): the epoch of a handle counts its
   disconnections.  Manager.pair / Manager.on_smp_pdu register a session under the handle,
   Session.on_pairing_failure ends it, a successful Session.on_pairing leaves it registered (it
   answers LTK requests until the link goes down), Session.on_disconnection ends it
   unconditionally. *)
Inductive mgr_op :=
| OpPair (h : Z)                    (* Manager.pair(connection) *)
| OpPdu (h : Z) (request : bool)    (* Manager.on_smp_pdu: a Pairing Request, or any other command *)
| OpEnded (h : Z) (failed : bool)   (* the session of that handle ended: on_pairing_failure / on_pairing *)
| OpDisconnect (h : Z).             (* the connection goes down: Session.on_disconnection *)

Record msession := mkMsession { ms_handle : Z; ms_epoch : Z; ms_id : Z; ms_completed : bool }.
Record mgr := mkMgr { mg_sessions : list msession; mg_epochs : list (Z * Z); mg_next : Z }.

Definition mgr0 : mgr := mkMgr [] [] 0.

Definition epoch_of (g : mgr) (h : Z) : Z := match assoc h (mg_epochs g) with Some e => e | None => 0 end.

Fixpoint find_session (h : Z) (l : list msession) : option msession :=
  match l with [] => None | s :: l' => if ms_handle s =? h then Some s else find_session h l' end.
Fixpoint drop_session (h : Z) (l : list msession) : list msession :=
  match l with [] => [] | s :: l' => if ms_handle s =? h then drop_session h l' else s :: drop_session h l' end.

Definition new_session (g : mgr) (h : Z) : mgr :=
  mkMgr (mkMsession h (epoch_of g h) (mg_next g) false :: drop_session h (mg_sessions g))
        (mg_epochs g) (mg_next g + 1).

Definition mgr_step (g : mgr) (o : mgr_op) : mgr :=
  match o with
  | OpPair h => new_session g h                       (* self.sessions[connection.handle] = session *)
  | OpPdu h request =>
    match find_session h (mg_sessions g) with
    | Some _ => g                                     (* handed to the registered session *)
    | None => if request then new_session g h else g  (* only a Pairing Request starts a session *)
    end
  | OpEnded h failed =>
    match find_session h (mg_sessions g) with
    | None => g
    | Some s =>
      if failed then mkMgr (drop_session h (mg_sessions g)) (mg_epochs g) (mg_next g)
      else mkMgr (mkMsession h (ms_epoch s) (ms_id s) true :: drop_session h (mg_sessions g))
                 (mg_epochs g) (mg_next g)
    end
  | OpDisconnect h =>
    mkMgr (drop_session h (mg_sessions g)) ((h, epoch_of g h + 1) :: mg_epochs g) (mg_next g)
  end.

Definition mgr_run (ops : list mgr_op) : mgr := fold_left mgr_step ops mgr0.

(* every registered session belongs to the connection that is up now under its handle *)
Definition mgr_ok (g : mgr) : bool :=
  forallb (fun s => ms_epoch s =? epoch_of g (ms_handle s)) (mg_sessions g).

(* the variant of seeded change C13-e: on_disconnection spares a completed session *)
Definition mgr_step_spare (g : mgr) (o : mgr_op) : mgr :=
  match o with
  | OpDisconnect h =>
    mkMgr (match find_session h (mg_sessions g) with
           | Some s => if ms_completed s then mg_sessions g else drop_session h (mg_sessions g)
           | None => mg_sessions g
           end) ((h, epoch_of g h + 1) :: mg_epochs g) (mg_next g)
  | _ => mgr_step g o
  end.

Definition session_count (g : mgr) : Z := Z.of_nat (length (mg_sessions g)).
